--------------------------- MODULE MainLifecycle ---------------------------
(***************************************************************************)
(* esrally/rally.py: the process-level life cycle of one `esrally`         *)
(* invocation, as the sequence of calls the process makes against its      *)
(* environment (one event per call / per outcome):                         *)
(*                                                                         *)
(* with_actor_system(runnable, cfg)                                        *)
(*   probe(T|F|KI)      actor.actor_system_already_running() on entry      *)
(*   boot(ok|IAA|KI|sock|exc|sysexit; x = join|local)                      *)
(*                      actor.bootstrap_actor_system(try_join = already,   *)
(*                      prefer_local_only = not already)                   *)
(*   cfg(T|F)           cfg.add(.. "remote.benchmarking.supported", v)     *)
(*   warn(degraded)     console.warn("Could not determine a socket ...")   *)
(*   offline            actor.use_offline_actor_system()                   *)
(*   boot2(ok|IAA|KI|sock|exc; x = join)  bootstrap(try_join = True)       *)
(*   run(ret|rallyerr|ui|KI|exc|sysexit)  runnable(cfg)                    *)
(*   sleep3(ok|KI) shutdown(ok|KI|exc) poll(T|F|KI) sleep1(ok|KI)          *)
(*                      the shutdown loop of the `finally` part            *)
(*   info(wait)         "Please wait a moment ..." after an interrupt      *)
(*   warn(term)         "Terminating now at the risk of leaving ..."       *)
(*   warn(timeout)      "Could not terminate all internal processes ..."   *)
(*   ret(result)        what with_actor_system returned / raised           *)
(*                                                                         *)
(* race(cfg, kill) (mode "race"): others(none|some) or kill(ok|KI|exc)     *)
(*   first, then with_actor_system(racecontrol.run, cfg).                  *)
(* dispatch_sub_command (modes "race", "sub"): call(outcome; x = function) *)
(*   for the other sub-commands, status(SUCCESSFUL|INTERRUPTED|ERROR);     *)
(* main() (scn.main): exit(0|130|64).                                      *)
(*                                                                         *)
(* KI = KeyboardInterrupt raised by the call, IAA = thespian's             *)
(* InvalidActorAddress, sock = Exception("Unable to determine valid        *)
(* external socket address."), exc = any other Exception, sysexit = a      *)
(* BaseException that is not an Exception, rallyerr = exceptions.RallyError*)
(* (or a subclass other than UserInterrupted), ui = UserInterrupted.       *)
(*                                                                         *)
(* Switch (FALSE = the code as it is):                                     *)
(*  ShutdownAfterFallback  an offline actor system that this process had   *)
(*     to create although something answered on port 1900 (already running *)
(*     = True, join failed) is shut down as well.                          *)
(*  LastPollCounts  an actor system that is found gone by the last (16th)  *)
(*     poll counts as shut down (the code reports a time-out and asks the  *)
(*     user to kill all Rally processes: `if timeout > 0` after the loop). *)
(***************************************************************************)
EXTENDS Integers, Sequences, TLC

CONSTANTS Scenarios,             \* set of [mode, sub, kill, main]
          Timeout,               \* 15 in the code
          ShutdownAfterFallback,
          LastPollCounts

VARIABLES scn, s, act
vars == <<scn, s, act>>
view == <<scn, s>>

E(a, r, x) == [a |-> a, r |-> r, x |-> x]
Internal == {"pc", "to", "sc", "pend"}

RunKinds == {"ret", "rallyerr", "ui", "KI", "exc", "sysexit"}
BootKinds == {"ok", "IAA", "KI", "sock", "exc", "sysexit"}
Boot2Kinds == {"ok", "IAA", "KI", "sock", "exc"}
CallKinds == {"ret", "rallyerr", "sse", "ui", "KI", "exc", "sysexit"}

RunRes(k) == CASE k = "ret" -> "ret" [] k = "rallyerr" -> "run:rallyerr" [] k = "ui" -> "run:ui" [] k = "KI" -> "run:KI"
               [] k = "exc" -> "run:exc" [] k = "sysexit" -> "run:sysexit"
BootRes(k) == CASE k = "IAA" -> "boot:IAA" [] k = "KI" -> "boot:KI" [] k = "sock" -> "boot:sock" [] k = "exc" -> "boot:exc"
                [] k = "sysexit" -> "boot:sysexit"
CallRes(k) == CASE k = "ret" -> "ret" [] k = "rallyerr" -> "call:rallyerr" [] k = "sse" -> "call:sse" [] k = "ui" -> "call:ui"
                [] k = "KI" -> "call:KI" [] k = "exc" -> "call:exc" [] k = "sysexit" -> "call:sysexit"

\* what dispatch_sub_command calls for a sub-command ("race" goes through race(); "unknown" calls nothing)
Target(sub) ==
    CASE sub = "compare" -> "reporter.compare" [] sub = "list" -> "dispatch_list" [] sub = "delete" -> "dispatch_delete"
      [] sub = "add" -> "dispatch_add" [] sub = "build" -> "mechanic.build" [] sub = "download" -> "mechanic.download"
      [] sub = "install" -> "mechanic.install" [] sub = "start" -> "mechanic.start" [] sub = "stop" -> "mechanic.stop"
      [] sub = "create-track" -> "tracker.create_track" [] sub = "info" -> "track.track_info" [] OTHER -> "none"
SubCommands == {"compare", "list", "delete", "add", "build", "download", "install", "start", "stop", "create-track", "info", "unknown"}

(* ---- classes of outcomes and the exit status ---- *)
Interrupts == {"run:ui", "run:KI", "UIboot", "UIshut", "boot:KI", "probe:KI", "UIkill", "call:ui", "call:KI"}
StatusOf(res) == IF res = "ret" THEN "SUCCESSFUL" ELSE IF res \in Interrupts THEN "INTERRUPTED" ELSE "ERROR"
ExitCode(status) == CASE status = "SUCCESSFUL" -> 0 [] status = "INTERRUPTED" -> 130 [] status = "ERROR" -> 64

InitState(sc) ==
    [pc |-> IF sc.mode = "was" THEN "probe" ELSE IF sc.mode = "race" THEN "pre" ELSE IF Target(sc.sub) = "none" THEN "status" ELSE "call",
     to |-> 0, sc |-> FALSE, pend |-> IF sc.mode = "sub" /\ Target(sc.sub) = "none" THEN "unknown:sse" ELSE "none",
     ar |-> "none", cfgv |-> "unset", nboot |-> 0, booted |-> FALSE, fell |-> FALSE, noff |-> 0, nrun |-> 0, runres |-> "none",
     nshut |-> 0, nsleep3 |-> 0, npoll |-> 0, lastpoll |-> "none", nsleep1 |-> 0, nint |-> 0, nwait |-> 0,
     wdeg |-> FALSE, wterm |-> FALSE, wto |-> FALSE, pre |-> "none", ncall |-> 0, callres |-> "none",
     result |-> "none", status |-> "none", exit |-> -1]

Init == \E sc \in Scenarios : scn = sc /\ s = InitState(sc) /\ act = E("init", "", "")

\* does this process shut the actor system down in the finally part?
ShutsDown(st) == st.ar = "F" \/ (ShutdownAfterFallback /\ st.fell)

Enabled(st) ==
    CASE st.pc = "pre" -> IF scn.kill THEN {E("kill", r, "") : r \in {"ok", "KI", "exc"}} ELSE {E("others", r, "") : r \in {"none", "some"}}
      [] st.pc = "probe" -> {E("probe", r, "") : r \in {"T", "F", "KI"}}
      [] st.pc = "boot" -> {E("boot", r, IF st.ar = "T" THEN "join" ELSE "local") : r \in BootKinds}
      [] st.pc = "cfg" -> {E("cfg", st.ar, "")}
      [] st.pc = "wdeg" -> {E("warn", "degraded", "")}
      [] st.pc = "offline" -> {E("offline", "ok", "")}
      [] st.pc = "boot2" -> {E("boot2", r, "join") : r \in Boot2Kinds}
      [] st.pc = "run" -> {E("run", r, "") : r \in RunKinds}
      [] st.pc = "sleep3" -> {E("sleep3", r, "") : r \in {"ok", "KI"}}
      [] st.pc = "shut" -> {E("shutdown", r, "") : r \in {"ok", "KI", "exc"}}
      [] st.pc = "poll" -> {E("poll", r, "") : r \in {"T", "F", "KI"}}
      [] st.pc = "sleep1" -> {E("sleep1", r, "") : r \in {"ok", "KI"}}
      [] st.pc = "wait" -> {E("info", "wait", "")}
      [] st.pc = "wterm" -> {E("warn", "term", "")}
      [] st.pc = "wto" -> {E("warn", "timeout", "")}
      [] st.pc = "ret" -> {E("ret", st.pend, "")}
      [] st.pc = "call" -> {E("call", r, Target(scn.sub)) : r \in CallKinds}
      [] st.pc = "status" -> {E("status", StatusOf(st.pend), "")}
      [] st.pc = "exit" -> {E("exit", ToString(ExitCode(st.status)), "")}
      [] OTHER -> {}

Raise(st, res) == [st EXCEPT !.pend = res, !.pc = "ret"]
\* the part after the `while not shutdown_complete and times_interrupted < 2` loop
AfterLoop(st) ==
    IF ~st.sc /\ st.nint > 0 THEN [st EXCEPT !.pc = "wterm"]
    ELSE IF ~st.sc THEN [st EXCEPT !.pc = "wto"]
    ELSE [st EXCEPT !.pc = "ret"]
Interrupted(st) == [st EXCEPT !.nint = @ + 1, !.pc = "wait"]

Eff(st, ev) ==
    LET r == ev.r
    IN CASE ev.a = "others" -> IF r = "none" THEN [st EXCEPT !.pre = "others:none", !.pc = "probe"]
                               ELSE [st EXCEPT !.pre = "others:some", !.pend = "race:others", !.pc = "status"]
         [] ev.a = "kill" -> IF r = "KI" THEN [st EXCEPT !.pre = "kill:KI", !.pend = "UIkill", !.pc = "status"]
                             ELSE [st EXCEPT !.pre = IF r = "ok" THEN "kill:ok" ELSE "kill:exc", !.pc = "probe"]
         [] ev.a = "probe" -> IF r = "KI" THEN Raise(st, "probe:KI") ELSE [st EXCEPT !.ar = r, !.pc = "boot"]
         [] ev.a = "boot" ->
                (LET b == [st EXCEPT !.nboot = @ + 1]
                 IN CASE r = "ok" -> [b EXCEPT !.booted = TRUE, !.pc = "cfg"]
                      [] r = "IAA" -> [b EXCEPT !.pc = "offline"]
                      [] r = "KI" -> Raise(b, "UIboot")
                      [] r = "sock" -> [b EXCEPT !.pc = "wdeg"]
                      [] OTHER -> Raise(b, BootRes(r)))
         [] ev.a = "cfg" -> [st EXCEPT !.cfgv = r, !.pc = "run"]
         [] ev.a = "warn" -> (CASE r = "degraded" -> [st EXCEPT !.wdeg = TRUE, !.pc = "offline"]
                                [] r = "term" -> Raise([st EXCEPT !.wterm = TRUE], "UIshut")
                                [] r = "timeout" -> [st EXCEPT !.wto = TRUE, !.pc = "ret"])
         [] ev.a = "offline" -> [st EXCEPT !.noff = @ + 1, !.fell = TRUE, !.pc = "boot2"]
         [] ev.a = "boot2" -> (LET b == [st EXCEPT !.nboot = @ + 1]
                               IN IF r = "ok" THEN [b EXCEPT !.booted = TRUE, !.pc = "run"] ELSE Raise(b, BootRes(r)))
         [] ev.a = "run" -> (LET b == [st EXCEPT !.nrun = @ + 1, !.runres = r, !.pend = RunRes(r)]
                             IN IF ShutsDown(b) THEN [b EXCEPT !.pc = "sleep3", !.sc = FALSE] ELSE [b EXCEPT !.pc = "ret"])
         [] ev.a = "sleep3" -> (LET b == [st EXCEPT !.nsleep3 = @ + 1] IN IF r = "ok" THEN [b EXCEPT !.pc = "shut"] ELSE Interrupted(b))
         [] ev.a = "shutdown" -> (LET b == [st EXCEPT !.nshut = @ + 1]
                                  IN CASE r = "ok" -> [b EXCEPT !.to = Timeout, !.pc = "poll"]
                                       [] r = "KI" -> Interrupted(b)
                                       [] r = "exc" -> Raise(b, "shut:exc"))
         [] ev.a = "poll" -> (LET b == [st EXCEPT !.npoll = @ + 1, !.lastpoll = r]
                              IN CASE r = "KI" -> Interrupted(b)
                                   [] r = "T" /\ b.to > 0 -> [b EXCEPT !.pc = "sleep1"]
                                   \* `if timeout > 0: shutdown_complete = True else: break`
                                   [] OTHER -> AfterLoop([b EXCEPT !.sc = (b.to > 0 \/ (LastPollCounts /\ r = "F"))]))
         [] ev.a = "sleep1" -> (LET b == [st EXCEPT !.nsleep1 = @ + 1] IN IF r = "ok" THEN [b EXCEPT !.to = @ - 1, !.pc = "poll"] ELSE Interrupted(b))
         [] ev.a = "info" -> (LET b == [st EXCEPT !.nwait = @ + 1] IN IF b.nint < 2 THEN [b EXCEPT !.pc = "sleep3"] ELSE AfterLoop(b))
         [] ev.a = "ret" -> [st EXCEPT !.result = r, !.pc = IF scn.mode = "race" THEN "status" ELSE "done"]
         [] ev.a = "call" -> [st EXCEPT !.ncall = @ + 1, !.callres = r, !.pend = CallRes(r), !.pc = "status"]
         [] ev.a = "status" -> [st EXCEPT !.status = r, !.pc = IF scn.main THEN "exit" ELSE "done"]
         [] ev.a = "exit" -> [st EXCEPT !.exit = ExitCode(st.status), !.pc = "done"]
         [] OTHER -> st

Next == \E ev \in Enabled(s) : s' = Eff(s, ev) /\ act' = ev /\ UNCHANGED scn
Spec == Init /\ [][Next]_vars

(* ---- properties (over the observable part of the state) ---- *)
Returned(st) == st.result # "none"
RunOutcome(st) == RunRes(st.runres)

TypeOKS(st) == /\ st.ar \in {"none", "T", "F"} /\ st.cfgv \in {"unset", "T", "F"}
               /\ st.nboot \in 0..2 /\ st.nrun \in 0..1 /\ st.nint \in 0..2 /\ st.noff \in 0..1
               /\ st.status \in {"none", "SUCCESSFUL", "INTERRUPTED", "ERROR"} /\ st.exit \in {-1, 0, 64, 130}
\* an actor system that was already running before (and that this process has joined) is never shut down nor waited for by this
\* process; after a fall-back the system in hand is the process's own offline system, see ShutdownAttemptedIfCreated
NeverShutsDownForeignSystemS(st) == st.ar = "T" /\ ~st.fell => st.nshut = 0 /\ st.nsleep3 = 0 /\ st.npoll = 0
\* the runnable runs at most once, only after a bootstrap call that returned, and after every bootstrap call of this invocation
RunnableAtMostOnceS(st) == /\ st.nrun <= 1
                           /\ (st.nrun = 1 => st.booted /\ st.nboot = (IF st.fell THEN 2 ELSE 1))
                           /\ (st.fell => st.nboot >= 1 /\ st.noff <= 1) /\ (st.nboot = 2 => st.noff = 1 /\ st.fell)
                           /\ (Returned(st) /\ st.booted => st.nrun = 1)
\* remote.benchmarking.supported is only ever set to "was a system already running?"; it is set whenever the first bootstrap worked
RemoteSupportedIffRunningS(st) == /\ st.cfgv # "unset" => st.cfgv = st.ar /\ ~st.fell
                                  /\ (st.nrun = 1 /\ ~st.fell => st.cfgv = st.ar)
\* a system this process started because none was running is asked to shut down at least once whatever the runnable did -
\* unless the user interrupted twice before the first attempt
ShutdownAttemptedIfOwnedS(st) == Returned(st) /\ st.nrun = 1 /\ st.ar = "F" => st.nshut >= 1 \/ st.nint = 2
\* strong form (not met by the code as it is): also the offline system of the fall-back when something answered on port 1900
ShutdownAttemptedIfCreatedS(st) == Returned(st) /\ st.nrun = 1 /\ (st.ar = "F" \/ st.fell) => st.nshut >= 1 \/ st.nint = 2
\* at most two user interrupts are absorbed; after the second the process gives up with UserInterrupted; every interrupt is answered
AtMostTwoInterruptsToleratedS(st) == /\ st.nint <= 2 /\ st.nwait <= st.nint /\ st.nint <= st.nwait + 1
                                     /\ (Returned(st) /\ st.nint = 2 => st.result = "UIshut")
                                     /\ (st.result = "UIshut" => st.nint >= 1 /\ st.wterm)
                                     /\ (st.wterm => st.nint >= 1)
\* the wait for the end of the actor system: at most Timeout sleeps and Timeout + 1 polls per shutdown call, a shutdown call per sleep(3)
WaitBoundedS(st) == /\ st.nsleep1 <= Timeout * st.nshut /\ st.npoll <= (Timeout + 1) * st.nshut
                    /\ st.nshut <= st.nsleep3 /\ st.nsleep3 <= st.nint + 1
\* strong form (not met by the code as it is): the time-out warning is only given when the last poll still found the system
TimeoutWarningTruthfulS(st) == st.wto => st.lastpoll = "T"
\* the runnable's outcome (return / the very exception it raised) is the outcome of with_actor_system unless the shutdown was
\* interrupted (UserInterrupted wins) or actors.shutdown() itself failed; a shutdown time-out only warns
OutcomePropagatesS(st) ==
    /\ (Returned(st) /\ st.nrun = 1 => st.result \in {RunOutcome(st), "UIshut", "shut:exc"})
    /\ (Returned(st) /\ st.nrun = 1 /\ st.nint = 0 /\ st.result # "shut:exc" => st.result = RunOutcome(st))
    /\ (Returned(st) /\ st.nrun = 0 => st.result \in {"probe:KI", "UIboot"} \cup {BootRes(k) : k \in BootKinds \ {"ok"}})
    /\ (st.wto => st.nint = 0 /\ st.nshut >= 1)
    /\ (Returned(st) /\ st.wto => st.result = RunOutcome(st))
\* dispatch_sub_command maps every outcome of the sub-command to an exit status, main() every status to an exit code
ExitStatusTotalS(st) ==
    /\ st.status \in {"none", "SUCCESSFUL", "INTERRUPTED", "ERROR"} /\ st.exit \in {-1, 0, 64, 130}
    /\ (st.status # "none" /\ scn.mode = "race" /\ st.result # "none" => st.status = StatusOf(st.result))
    /\ (st.status # "none" /\ scn.mode = "race" /\ st.result = "none" => st.pre \in {"others:some", "kill:KI"}
            /\ st.status = (IF st.pre = "kill:KI" THEN "INTERRUPTED" ELSE "ERROR") /\ st.nboot = 0 /\ st.nrun = 0)
    /\ (st.status = "SUCCESSFUL" /\ scn.mode = "race" => st.runres = "ret")
    /\ (st.status # "none" /\ scn.mode = "race" /\ st.runres = "rallyerr" => st.status \in {"ERROR", "INTERRUPTED"})
    /\ (st.status # "none" /\ scn.mode = "race" /\ st.runres = "rallyerr" /\ st.nint = 0 => st.status = "ERROR")
    /\ (st.status # "none" /\ scn.mode = "race" /\ st.runres \in {"ui", "KI"} /\ st.result # "shut:exc" => st.status = "INTERRUPTED")
    /\ (st.status # "none" /\ scn.mode = "sub" =>
            /\ st.status = StatusOf(IF st.ncall = 0 THEN "unknown:sse" ELSE CallRes(st.callres))
            /\ (st.ncall = 0 <=> Target(scn.sub) = "none"))
    /\ st.ncall <= 1 /\ (st.ncall = 1 => scn.mode = "sub")
    /\ (st.exit # -1 => st.status # "none" /\ st.exit = ExitCode(st.status))
    /\ (scn.mode = "race" /\ st.ar # "none" => st.pre \in {"others:none", "kill:ok", "kill:exc"})

TypeOK == TypeOKS(s)
NeverShutsDownForeignSystem == NeverShutsDownForeignSystemS(s)
RunnableAtMostOnce == RunnableAtMostOnceS(s)
RemoteSupportedIffRunning == RemoteSupportedIffRunningS(s)
ShutdownAttemptedIfOwned == ShutdownAttemptedIfOwnedS(s)
ShutdownAttemptedIfCreated == ShutdownAttemptedIfCreatedS(s)
AtMostTwoInterruptsTolerated == AtMostTwoInterruptsToleratedS(s)
WaitBounded == WaitBoundedS(s)
TimeoutWarningTruthful == TimeoutWarningTruthfulS(s)
OutcomePropagates == OutcomePropagatesS(s)
ExitStatusTotal == ExitStatusTotalS(s)
\* every run ends: a finished invocation has returned / produced a status (checked as "no deadlock before done")
Finishes == (Enabled(s) = {}) => s.pc = "done"
=============================================================================
