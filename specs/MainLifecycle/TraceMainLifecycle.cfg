SPECIFICATION TSpec
CONSTANTS
  Scenarios = {}
  Timeout = 15
  ShutdownAfterFallback = FALSE
  LastPollCounts = FALSE
CHECK_DEADLOCK FALSE
