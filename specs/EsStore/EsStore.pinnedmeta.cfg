\* self-test: put_doc as it is drops the caller's meta_data when the scope has no meta info (or level is None) -> InvMetaData is violated
SPECIFICATION Spec
CONSTANTS
  TypeOf <- TEsEs
  Active <- OnlyRc
  HasTrackParams <- TPdrv
  Keys <- K1
  TagKey = "tag_u"
  Vals <- V12
  Nodes <- N1
  Ctxs <- CtxOne
  WorldsOf <- WorldsOne
  PutArgs <- PutMeta
  ChunkSize = 2
  MaxRetries = 1
  Alpha <- AlphaOk
  RefreshAlpha <- ROk
  MaxRecs = 1
  MaxClock = 0
  MaxMeta = 1
  MaxCalls = 1
  MaxOpens = 1
  ExplicitRel = 5
  ExplicitAbs = 7
  IdempotentIds = FALSE
  DocMetaAlways = FALSE
VIEW view
INVARIANT TypeOK
INVARIANT InvNoLoss
INVARIANT InvEsNoLoss
INVARIANT InvDropOnlyAfterError
INVARIANT InvAtMostOnce
INVARIANT InvTransferOnce
INVARIANT InvIntact
INVARIANT InvReturnedMeansSent
INVARIANT InvCloseClears
INVARIANT InvPutAdds
INVARIANT InvMetaScopes
INVARIANT InvMetaData
INVARIANT InvTimes
INVARIANT InvFields
INVARIANT InvOpenOk
PROPERTY RaiseKeepsBuffer
PROPERTY RequestsOk
CHECK_DEADLOCK FALSE
