\* one Elasticsearch store, larger bounds (6 records = three chunks, two retries, four opens); repaired variant
SPECIFICATION Spec
CONSTANTS
  TypeOf <- TEsEs
  Active <- OnlyRc
  HasTrackParams <- TPdrv
  Keys <- K1
  TagKey = "tag_u"
  Vals <- V1
  Nodes <- N1
  Ctxs <- CtxOne
  WorldsOf <- WorldsOne
  PutArgs <- PutOne
  ChunkSize = 2
  MaxRetries = 2
  Alpha <- AlphaAll
  RefreshAlpha <- RBoth
  MaxRecs = 6
  MaxClock = 0
  MaxMeta = 0
  MaxCalls = 6
  MaxOpens = 4
  ExplicitRel = 5
  ExplicitAbs = 7
  IdempotentIds = TRUE
  DocMetaAlways = TRUE
VIEW view
INVARIANT TypeOK
INVARIANT InvNoLoss
INVARIANT InvEsNoLoss
INVARIANT InvDropOnlyAfterError
INVARIANT InvAtMostOnce
INVARIANT InvTransferOnce
INVARIANT InvIntact
INVARIANT InvReturnedMeansSent
INVARIANT InvCloseClears
INVARIANT InvPutAdds
INVARIANT InvMetaScopes
INVARIANT InvMetaData
INVARIANT InvTimes
INVARIANT InvFields
INVARIANT InvOpenOk
PROPERTY RaiseKeepsBuffer
PROPERTY RequestsOk
CHECK_DEADLOCK FALSE
