\* both stores, pipeline and direct puts, every outcome, re-opens; repaired variant
SPECIFICATION Spec
CONSTANTS
  TypeOf <- TMemEs
  Active <- Both
  HasTrackParams <- TPdrv
  Keys <- K1
  TagKey = "tag_u"
  Vals <- V1
  Nodes <- N1
  Ctxs <- CtxOne
  WorldsOf <- WorldsOne
  PutArgs <- PutQuick
  ChunkSize = 2
  MaxRetries = 1
  Alpha <- AlphaAll
  RefreshAlpha <- RBoth
  MaxRecs = 3
  MaxClock = 1
  MaxMeta = 1
  MaxCalls = 3
  MaxOpens = 3
  ExplicitRel = 5
  ExplicitAbs = 7
  IdempotentIds = TRUE
  DocMetaAlways = TRUE
VIEW view
INVARIANT TypeOK
INVARIANT InvNoLoss
INVARIANT InvEsNoLoss
INVARIANT InvDropOnlyAfterError
INVARIANT InvAtMostOnce
INVARIANT InvTransferOnce
INVARIANT InvIntact
INVARIANT InvReturnedMeansSent
INVARIANT InvCloseClears
INVARIANT InvPutAdds
INVARIANT InvMetaScopes
INVARIANT InvMetaData
INVARIANT InvTimes
INVARIANT InvFields
INVARIANT InvOpenOk
PROPERTY RaiseKeepsBuffer
PROPERTY RequestsOk
CHECK_DEADLOCK FALSE
