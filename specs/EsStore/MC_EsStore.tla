---- MODULE MC_EsStore ----
EXTENDS EsStore
(* store types: which class the driver's and race control's store are *)
TMemEs(s)  == IF s = "drv" THEN "mem" ELSE "es"     \* in-memory driver store, Elasticsearch store at race control
TMemMem(s) == "mem"                                  \* the default: both in memory
TEsEs(s)   == "es"                                   \* datastore.type = elasticsearch: both write to the metrics cluster
TPdrv(s)   == s = "drv"
OnlyRc == {"rc"}
OnlyDrv == {"drv"}
Both == {"drv", "rc"}

K1 == {"a"}
K2 == {"a", "b"}
V1 == {1}
V12 == {1, 2}
N1 == {"n1"}
N2 == {"n1", "n2"}

C1 == [race |-> "r1", ts |-> "20260926T101112Z", y |-> 2026, m |-> 9, track |-> "geo", chal |-> "ch1", car |-> <<"c1", "c2">>]
C2 == [race |-> "r2", ts |-> "20251231T235959Z", y |-> 2025, m |-> 12, track |-> "nyc", chal |-> "ch2", car |-> <<"c4g">>]
CtxOne == {C1}
CtxTwo == {C1, C2}

W(tmpl, ow, ix, mig, tag) == [tmpl |-> tmpl, ow |-> ow, idx |-> ix, mig |-> mig, tag |-> tag]
WorldsOne(t) == {W("none", FALSE, FALSE, FALSE, 0)}
WorldsTag(t) == {W("none", FALSE, FALSE, FALSE, tag) : tag \in {0, 2}}
WorldsQuick(t) == IF t = "mem" THEN {W("none", FALSE, FALSE, FALSE, 0)}
                  ELSE {W("none", FALSE, FALSE, FALSE, 0), W("diff", TRUE, TRUE, TRUE, 2)}
WorldsAll(t) == IF t = "mem" THEN {W("none", FALSE, FALSE, FALSE, tag) : tag \in {0, 2}}
                ELSE {W(tmpl, ow, ix, mig, tag) : tmpl \in {"none", "same", "diff"}, ow \in BOOLEAN, ix \in BOOLEAN, mig \in BOOLEAN, tag \in {0, 2}}

Md(k0, v) == [k \in AllKeys |-> IF k = k0 THEN v ELSE 0]
A(kind, lvl, node, md, tm, sty, task, op, opt) ==
    [kind |-> kind, lvl |-> lvl, node |-> node, md |-> md, tm |-> tm, sty |-> sty, task |-> task, op |-> op, opt |-> opt]
PutOne == {A("value", "cluster", "", NoMeta, "auto", "normal", "t1", "o1", "bulk")}
PutQuick == {A("value", "cluster", "", NoMeta, "auto", "normal", "t1", "o1", "bulk"),
             A("value", "node", "n1", Md("a", 3), "auto", "warmup", "", "", ""),
             A("doc", "cluster", "", Md("a", 3), "auto", "", "", "", "")}
PutMeta == {A(kind, lvl, IF lvl = "node" THEN "n1" ELSE "", md, "auto", IF kind = "value" THEN "normal" ELSE "", "", "", "") :
              kind \in {"value", "doc"}, lvl \in {"cluster", "node", "none"}, md \in {NoMeta, Md("a", 3)}}
           \ {A("value", "none", "", md, "auto", "normal", "", "", "") : md \in {NoMeta, Md("a", 3)}}
PutAll == {A(kind, lvl, node, md, tm, sty, task, op, opt) :
              kind \in {"value", "doc"}, lvl \in {"cluster", "node", "none"}, node \in Nodes \cup {""},
              md \in {NoMeta} \cup {Md(k, 3) : k \in AllKeys}, tm \in {"auto", "explicit"},
              sty \in {"warmup", "normal", ""}, task \in {"", "t1"}, op \in {"", "o1"}, opt \in {"", "bulk"}}
PutSim == {a \in PutAll : /\ (a.lvl = "node") = (a.node # "")
                          /\ (a.kind = "value" => a.lvl # "none" /\ a.sty # "")
                          /\ (a.kind = "doc" => a.sty = "" /\ a.task = "" /\ a.op = "" /\ a.opt = "")}

O(k, bad) == [k |-> k, bad |-> bad, v |-> 0]     \* v: variant (which exception class / status the harness injects), ignored by the specification
OV(k, bad, v) == [k |-> k, bad |-> bad, v |-> v]
AlphaOk(n) == {O("ok", {})}
AlphaWhole(n) == {O("ok", {}), O("reqT", {}), O("reqF", {})}                       \* a request is indexed completely or not at all
AlphaAll(n) == {O(k, {}) : k \in {"ok", "reqT", "reqTdone", "reqF"}}
               \cup {O(k, B) : k \in {"itemT", "itemF"}, B \in (SUBSET (1..n)) \ {{}}}
(* simulation: success is as likely as the faults together, a few shapes of partial failures *)
AlphaSim(n) == {OV("ok", {}, v) : v \in 0..7} \cup {OV("reqT", {}, v) : v \in 0..3} \cup {OV("reqF", {}, v) : v \in 0..1}
               \cup {O("reqTdone", {})}
               \cup {OV("itemT", B, v) : B \in {{1}, {n}, 1..n}, v \in 0..1} \cup {O("itemF", B) : B \in {{1}, {n}}}
ROk == {"ok"}
RBoth == {"ok", "fatal"}
====
