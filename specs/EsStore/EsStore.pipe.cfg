\* driver (in memory) -> to_externalizable(clear) -> wire -> bulk_add -> race control (Elasticsearch) -> flush; code as it is, all-or-nothing requests
SPECIFICATION Spec
CONSTANTS
  TypeOf <- TMemEs
  Active <- Both
  HasTrackParams <- TPdrv
  Keys <- K1
  TagKey = "tag_u"
  Vals <- V1
  Nodes <- N1
  Ctxs <- CtxOne
  WorldsOf <- WorldsOne
  PutArgs <- PutOne
  ChunkSize = 8
  MaxRetries = 1
  Alpha <- AlphaWhole
  RefreshAlpha <- ROk
  MaxRecs = 2
  MaxClock = 0
  MaxMeta = 0
  MaxCalls = 4
  MaxOpens = 2
  ExplicitRel = 5
  ExplicitAbs = 7
  IdempotentIds = FALSE
  DocMetaAlways = FALSE
VIEW view
INVARIANT TypeOK
INVARIANT InvNoLoss
INVARIANT InvEsNoLoss
INVARIANT InvDropOnlyAfterError
INVARIANT InvAtMostOnce
INVARIANT InvTransferOnce
INVARIANT InvIntact
INVARIANT InvReturnedMeansSent
INVARIANT InvCloseClears
INVARIANT InvPutAdds
INVARIANT InvMetaScopes
INVARIANT InvMetaData
INVARIANT InvTimes
INVARIANT InvFields
INVARIANT InvOpenOk
PROPERTY RaiseKeepsBuffer
PROPERTY RequestsOk
CHECK_DEADLOCK FALSE
