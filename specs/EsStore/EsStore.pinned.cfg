\* self-test: the same with the code as it is (documents without _id): a retried or re-sent batch stores accepted records twice -> InvAtMostOnce is violated
SPECIFICATION Spec
CONSTANTS
  TypeOf <- TEsEs
  Active <- OnlyRc
  HasTrackParams <- TPdrv
  Keys <- K1
  TagKey = "tag_u"
  Vals <- V1
  Nodes <- N1
  Ctxs <- CtxOne
  WorldsOf <- WorldsOne
  PutArgs <- PutOne
  ChunkSize = 2
  MaxRetries = 1
  Alpha <- AlphaAll
  RefreshAlpha <- RBoth
  MaxRecs = 4
  MaxClock = 0
  MaxMeta = 0
  MaxCalls = 4
  MaxOpens = 2
  ExplicitRel = 5
  ExplicitAbs = 7
  IdempotentIds = FALSE
  DocMetaAlways = FALSE
VIEW view
INVARIANT TypeOK
INVARIANT InvNoLoss
INVARIANT InvEsNoLoss
INVARIANT InvDropOnlyAfterError
INVARIANT InvAtMostOnce
INVARIANT InvTransferOnce
INVARIANT InvIntact
INVARIANT InvReturnedMeansSent
INVARIANT InvCloseClears
INVARIANT InvPutAdds
INVARIANT InvMetaScopes
INVARIANT InvMetaData
INVARIANT InvTimes
INVARIANT InvFields
INVARIANT InvOpenOk
PROPERTY RaiseKeepsBuffer
PROPERTY RequestsOk
CHECK_DEADLOCK FALSE
