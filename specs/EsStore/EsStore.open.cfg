\* open(): every state of the metrics cluster (template absent / identical / different, overwrite setting, index exists, migrated index exists), create and read mode,
\* direct and by open_context, re-open after close, user tag
SPECIFICATION Spec
CONSTANTS
  TypeOf <- TMemEs
  Active <- Both
  HasTrackParams <- TPdrv
  Keys <- K1
  TagKey = "tag_u"
  Vals <- V12
  Nodes <- N1
  Ctxs <- CtxTwo
  WorldsOf <- WorldsAll
  PutArgs <- PutOne
  ChunkSize = 2
  MaxRetries = 1
  Alpha <- AlphaOk
  RefreshAlpha <- ROk
  MaxRecs = 0
  MaxClock = 1
  MaxMeta = 0
  MaxCalls = 0
  MaxOpens = 3
  ExplicitRel = 5
  ExplicitAbs = 7
  IdempotentIds = TRUE
  DocMetaAlways = TRUE
VIEW view
INVARIANT TypeOK
INVARIANT InvNoLoss
INVARIANT InvEsNoLoss
INVARIANT InvDropOnlyAfterError
INVARIANT InvAtMostOnce
INVARIANT InvTransferOnce
INVARIANT InvIntact
INVARIANT InvReturnedMeansSent
INVARIANT InvCloseClears
INVARIANT InvPutAdds
INVARIANT InvMetaScopes
INVARIANT InvMetaData
INVARIANT InvTimes
INVARIANT InvFields
INVARIANT InvOpenOk
PROPERTY RaiseKeepsBuffer
PROPERTY RequestsOk
CHECK_DEADLOCK FALSE
