\* the code as it is, but every _bulk request is indexed completely or not at all and the buffer fits into one chunk:
\* exactly-once holds, also across a flush that raised (the buffer is kept and sent again by the next flush)
SPECIFICATION Spec
CONSTANTS
  TypeOf <- TEsEs
  Active <- OnlyRc
  HasTrackParams <- TPdrv
  Keys <- K1
  TagKey = "tag_u"
  Vals <- V1
  Nodes <- N1
  Ctxs <- CtxOne
  WorldsOf <- WorldsOne
  PutArgs <- PutOne
  ChunkSize = 3
  MaxRetries = 2
  Alpha <- AlphaWhole
  RefreshAlpha <- RBoth
  MaxRecs = 3
  MaxClock = 0
  MaxMeta = 0
  MaxCalls = 4
  MaxOpens = 2
  ExplicitRel = 5
  ExplicitAbs = 7
  IdempotentIds = FALSE
  DocMetaAlways = FALSE
VIEW view
INVARIANT TypeOK
INVARIANT InvNoLoss
INVARIANT InvEsNoLoss
INVARIANT InvDropOnlyAfterError
INVARIANT InvAtMostOnce
INVARIANT InvTransferOnce
INVARIANT InvIntact
INVARIANT InvReturnedMeansSent
INVARIANT InvCloseClears
INVARIANT InvPutAdds
INVARIANT InvMetaScopes
INVARIANT InvMetaData
INVARIANT InvTimes
INVARIANT InvFields
INVARIANT InvOpenOk
PROPERTY RaiseKeepsBuffer
PROPERTY RequestsOk
CHECK_DEADLOCK FALSE
