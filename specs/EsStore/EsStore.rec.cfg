\* content of records: meta-info scopes, per-record meta_data, relative time and reset, sample type / task fields, race context, user tag, open() variants;
\* repaired put_doc (meta_data always merged)
SPECIFICATION Spec
CONSTANTS
  TypeOf <- TEsEs
  Active <- OnlyRc
  HasTrackParams <- TPdrv
  Keys <- K1
  TagKey = "tag_u"
  Vals <- V12
  Nodes <- N1
  Ctxs <- CtxOne
  WorldsOf <- WorldsTag
  PutArgs <- PutMeta
  ChunkSize = 2
  MaxRetries = 1
  Alpha <- AlphaOk
  RefreshAlpha <- ROk
  MaxRecs = 2
  MaxClock = 1
  MaxMeta = 2
  MaxCalls = 1
  MaxOpens = 1
  ExplicitRel = 5
  ExplicitAbs = 7
  IdempotentIds = TRUE
  DocMetaAlways = TRUE
VIEW view
INVARIANT TypeOK
INVARIANT InvNoLoss
INVARIANT InvEsNoLoss
INVARIANT InvDropOnlyAfterError
INVARIANT InvAtMostOnce
INVARIANT InvTransferOnce
INVARIANT InvIntact
INVARIANT InvReturnedMeansSent
INVARIANT InvCloseClears
INVARIANT InvPutAdds
INVARIANT InvMetaScopes
INVARIANT InvMetaData
INVARIANT InvTimes
INVARIANT InvFields
INVARIANT InvOpenOk
PROPERTY RaiseKeepsBuffer
PROPERTY RequestsOk
CHECK_DEADLOCK FALSE
