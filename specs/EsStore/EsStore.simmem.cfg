\* simulation, both stores in memory; code as it is
SPECIFICATION Spec
CONSTANTS
  TypeOf <- TMemMem
  Active <- Both
  HasTrackParams <- TPdrv
  Keys <- K2
  TagKey = "tag_u"
  Vals <- V12
  Nodes <- N2
  Ctxs <- CtxTwo
  WorldsOf <- WorldsAll
  PutArgs <- PutSim
  ChunkSize = 5000
  MaxRetries = 2
  Alpha <- AlphaSim
  RefreshAlpha <- RBoth
  MaxRecs = 8
  MaxClock = 6
  MaxMeta = 4
  MaxCalls = 8
  MaxOpens = 4
  ExplicitRel = 5
  ExplicitAbs = 7
  IdempotentIds = FALSE
  DocMetaAlways = FALSE
VIEW view
INVARIANT TypeOK
INVARIANT InvNoLoss
INVARIANT InvEsNoLoss
INVARIANT InvDropOnlyAfterError
INVARIANT InvTransferOnce
INVARIANT InvIntact
INVARIANT InvReturnedMeansSent
INVARIANT InvCloseClears
INVARIANT InvPutAdds
INVARIANT InvMetaScopes
INVARIANT InvTimes
INVARIANT InvFields
INVARIANT InvOpenOk
PROPERTY RaiseKeepsBuffer
PROPERTY RequestsOk
CHECK_DEADLOCK FALSE
