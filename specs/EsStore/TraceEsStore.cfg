\* the code as it is (documents without _id, put_doc drops meta_data on an empty scope); the harness replaces the lines
\* marked (batch) per batch of traces: store types and chunk size (2 for executions in which one record stands for 2500 documents)
SPECIFICATION TSpec
CONSTANTS
  TypeOf <- TMemEs
  Active <- Both
  HasTrackParams <- TPdrv
  Keys <- K2
  TagKey = "tag_u"
  Vals <- V12
  Nodes <- N2
  Ctxs = {}
  WorldsOf <- NoWorlds
  PutArgs = {}
  ChunkSize = 5000
  MaxRetries = 10
  Alpha <- NoAlpha
  RefreshAlpha = {}
  MaxRecs = 0
  MaxClock = 0
  MaxMeta = 0
  MaxCalls = 0
  MaxOpens = 0
  ExplicitRel = 5
  ExplicitAbs = 7
  IdempotentIds = FALSE
  DocMetaAlways = FALSE
CHECK_DEADLOCK FALSE
