\* simulation of multi-chunk batches (ChunkSize 2: executed with one record = 2500 documents); code as it is
SPECIFICATION Spec
CONSTANTS
  TypeOf <- TEsEs
  Active <- Both
  HasTrackParams <- TPdrv
  Keys <- K2
  TagKey = "tag_u"
  Vals <- V12
  Nodes <- N2
  Ctxs <- CtxOne
  WorldsOf <- WorldsTag
  PutArgs <- PutQuick
  ChunkSize = 2
  MaxRetries = 2
  Alpha <- AlphaSim
  RefreshAlpha <- RBoth
  MaxRecs = 5
  MaxClock = 2
  MaxMeta = 1
  MaxCalls = 8
  MaxOpens = 3
  ExplicitRel = 5
  ExplicitAbs = 7
  IdempotentIds = FALSE
  DocMetaAlways = FALSE
VIEW view
INVARIANT TypeOK
INVARIANT InvNoLoss
INVARIANT InvEsNoLoss
INVARIANT InvDropOnlyAfterError
INVARIANT InvTransferOnce
INVARIANT InvIntact
INVARIANT InvReturnedMeansSent
INVARIANT InvCloseClears
INVARIANT InvPutAdds
INVARIANT InvMetaScopes
INVARIANT InvTimes
INVARIANT InvFields
INVARIANT InvOpenOk
PROPERTY RaiseKeepsBuffer
PROPERTY RequestsOk
CHECK_DEADLOCK FALSE
