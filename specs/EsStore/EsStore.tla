------------------------------- MODULE EsStore -------------------------------
(***************************************************************************)
(* Buffering and flushing of metric records in Rally's metrics stores       *)
(* (esrally/metrics.py: MetricsStore, EsMetricsStore, InMemoryMetricsStore, *)
(* EsClient.bulk_index / guarded).  EXTRA module: not one of the 20 listed  *)
(* properties.                                                             *)
(*                                                                         *)
(* Two stores: "drv" (the load driver's store) and "rc" (race control's).   *)
(* TypeOf(s) says whether a store is an InMemoryMetricsStore ("mem") or an  *)
(* EsMetricsStore ("es").  Records are put into either store, the driver's  *)
(* store is externalized (to_externalizable) into a memento that travels    *)
(* on `wire` and is bulk_add-ed to race control's store.  An "es" store     *)
(* keeps records in its buffer (_docs) until flush()/close() hands the      *)
(* buffer to EsClient.bulk_index, i.e. guarded(elasticsearch.helpers.bulk): *)
(* the buffer is cut into chunks of ChunkSize records, every chunk is one   *)
(* request to the _bulk endpoint (action BulkReq, the environment chooses   *)
(* its outcome), a transient fault restarts the WHOLE batch from its first  *)
(* chunk (up to MaxRetries times), any other fault raises.  The buffer is   *)
(* cleared only after bulk_index has returned: a flush that raises keeps    *)
(* the whole buffer, and the next flush sends all of it again.              *)
(*                                                                         *)
(* Outcomes of a _bulk request (record [k, bad]):                           *)
(*   ok        every item is accepted (201)                                 *)
(*   reqT      the request fails with a transient fault (connection error / *)
(*             timeout, HTTP 429/502/503/504) and nothing was indexed       *)
(*   reqTdone  the client sees a connection timeout but the metrics cluster *)
(*             did process the request (everything was indexed)             *)
(*   reqF      the request fails with a non-retryable fault, nothing indexed*)
(*   itemT     HTTP 200, the items at the positions `bad` were rejected with*)
(*             429, all other items were indexed                            *)
(*   itemF     HTTP 200, the items at `bad` failed with 400, others indexed *)
(*                                                                         *)
(* The whole system state is the record Sys; every action is a function     *)
(* XStep(S, args) from state to state, so that the trace specification can  *)
(* evaluate the very same step on states recorded from the implementation.  *)
(***************************************************************************)
EXTENDS Integers, Sequences, FiniteSets, TLC

CONSTANTS TypeOf(_),          \* store -> "mem" | "es"
          Active,             \* the stores that are used at all (a configuration may look at one store only)
          HasTrackParams(_),  \* store -> BOOLEAN: is track/params configured (non-empty) for that store
          Keys,               \* meta-info keys used by add_meta_info and per-record meta_data
          TagKey,             \* key under which the user tag of race/user.tags appears ("tag_u")
          Vals,               \* meta values (positive integers)
          Nodes,              \* node names
          Ctxs,               \* race contexts [race, ts, y, m, track, chal, car]
          WorldsOf(_),        \* store type -> what open() may meet: [tmpl, ow, idx, mig, tag]
          PutArgs,            \* argument records of put_value_* / put_doc
          ChunkSize,          \* chunk_size of elasticsearch.helpers.bulk (5000 in the code)
          MaxRetries,         \* max_execution_count of guarded (10 in the code)
          Alpha(_),           \* chunk length -> outcomes the environment may choose for a _bulk request
          RefreshAlpha,       \* outcomes of the refresh request after a flush: subset of {"ok", "fatal"}
          MaxRecs, MaxClock, MaxMeta, MaxCalls, MaxOpens,     \* bounds of the model
          ExplicitRel, ExplicitAbs,                           \* the values used when a caller passes its own times
          IdempotentIds,      \* FALSE = code as it is: documents are sent without _id, every accepted item is a NEW document
                              \* TRUE  = repaired: every record gets a client-generated _id when buffered, re-sending overwrites
          DocMetaAlways       \* FALSE = code as it is: put_doc drops meta_data when the scope's meta info is empty / level None
                              \* TRUE  = repaired: meta_data is always merged

Stores  == {"drv", "rc"}
AllKeys == Keys \cup {TagKey}
Other(s) == IF s = "drv" THEN "rc" ELSE "drv"

VARIABLES store,   \* [Stores -> [phase, base, ctx, index, cl, nd, docs]]
          wire,    \* mementos in transit: <<[none, docs]>>
          idx,     \* the documents of the metrics index, by record id, in order of arrival
          call,    \* the store call that is in progress (flush / close of an "es" store): program counter of bulk_index
          last,    \* the most recent API call / backend request and how it ended
          clock,   \* virtual time
          hist,    \* history (ghost) variables the invariants are stated over
          act      \* last action and arguments (schedule extraction; hidden by VIEW)

vars == <<store, wire, idx, call, last, clock, hist, act>>
view == <<store, wire, idx, call, last, clock, hist>>

Sys == [store |-> store, wire |-> wire, idx |-> idx, call |-> call, last |-> last, clock |-> clock]

-----------------------------------------------------------------------------
Min(a, b) == IF a <= b THEN a ELSE b
Ids(s) == [i \in 1..Len(s) |-> s[i].id]                           \* ids of a sequence of records
CountId(s, id) == Cardinality({i \in DOMAIN s : s[i] = id})       \* s: sequence of ids
Count(s, id) == Cardinality({i \in DOMAIN s : s[i].id = id})      \* s: sequence of records
RECURSIVE SumWire(_, _)
SumWire(w, id) == IF w = <<>> THEN 0 ELSE Count(Head(w).docs, id) + SumWire(Tail(w), id)

NoMeta     == [k \in AllKeys |-> 0]                               \* 0 = key absent
NoNodeMeta == [n \in Nodes |-> NoMeta]
Update(m, u) == [k \in AllKeys |-> IF u[k] # 0 THEN u[k] ELSE m[k]]   \* dict.update
IsEmpty(m) == \A k \in AllKeys : m[k] = 0

NoCtx == [race |-> "", ts |-> "", y |-> 0, m |-> 0, track |-> "", chal |-> "", car |-> <<>>]
NoIx  == [y |-> 0, m |-> 0, new |-> FALSE]
BaseIx(c) == [y |-> c.y, m |-> c.m, new |-> FALSE]                \* "rally-metrics-%04d-%02d" of the race timestamp
NewIx(c)  == [y |-> c.y, m |-> c.m, new |-> TRUE]                 \* the same with suffix ".new"

NewStore == [phase |-> "new", base |-> -1, ctx |-> NoCtx, index |-> NoIx, cl |-> NoMeta, nd |-> NoNodeMeta, docs |-> <<>>]
Idle == [op |-> "none", s |-> "", stage |-> "", att |-> 0, pos |-> 0, refresh |-> FALSE]
NoArgs == [kind |-> "", lvl |-> "", node |-> "", md |-> NoMeta, tm |-> "", sty |-> "", task |-> "", op |-> "", opt |-> ""]
NoWorld == [tmpl |-> "none", ow |-> FALSE, idx |-> FALSE, mig |-> FALSE, tag |-> 0]
LastOf(op, s, k) == [op |-> op, s |-> s, k |-> k, reqs |-> <<>>, a |-> NoArgs, create |-> FALSE, w |-> NoWorld]

RECURSIVE JoinPlus(_)
JoinPlus(q) == IF q = <<>> THEN "" ELSE IF Len(q) = 1 THEN q[1] ELSE q[1] \o "+" \o JoinPlus(Tail(q))
DocCtx(c) == [race |-> c.race, ts |-> c.ts, env |-> "vf", track |-> c.track, chal |-> c.chal, car |-> JoinPlus(c.car)]

-----------------------------------------------------------------------------
(* open()                                                                  *)
Req(m, ix) == [m |-> m, ix |-> ix]

(* the requests open() sends to the metrics cluster (EsMetricsStore.open / _ensure_index_template) *)
OpenReqs(c, create, w) ==
    IF create
    THEN <<Req("template_exists", NoIx)>>
         \o (IF w.tmpl # "none" THEN <<Req("get_template", NoIx)>> ELSE <<>>)
         \o (IF w.tmpl = "none" \/ (w.tmpl = "diff" /\ w.ow) THEN <<Req("put_template", NoIx)>> ELSE <<>>)
         \o <<Req("exists", BaseIx(c))>>
         \o (IF ~w.idx THEN <<Req("create", BaseIx(c))>> ELSE <<>>)
         \o <<Req("refresh", BaseIx(c))>>
    ELSE <<Req("exists", NewIx(c)), Req("refresh", IF w.mig THEN NewIx(c) ELSE BaseIx(c))>>

OpenStep(S, s, c, create, w) ==
    LET st == S.store[s]
        es == TypeOf(s) = "es"
        n  == [st EXCEPT !.phase = "open", !.base = S.clock, !.ctx = c,
                         !.index = IF ~es THEN NoIx ELSE IF create \/ ~w.mig THEN BaseIx(c) ELSE NewIx(c),
                         !.cl = IF w.tag # 0 THEN [st.cl EXCEPT ![TagKey] = w.tag] ELSE st.cl,
                         !.docs = IF es THEN <<>> ELSE st.docs]         \* EsMetricsStore.open: self._docs = []
    IN [S EXCEPT !.store[s] = n,
                 !.last = [LastOf("open", s, "returned") EXCEPT !.reqs = IF es THEN OpenReqs(c, create, w) ELSE <<>>,
                                                                !.create = create, !.w = w]]

(* add_meta_info *)
AddMetaStep(S, s, scope, n, k, v) ==
    [S EXCEPT !.store[s] = IF scope = "cluster" THEN [@ EXCEPT !.cl[k] = v] ELSE [@ EXCEPT !.nd[n][k] = v],
              !.last = LastOf("meta", s, "returned")]

(* put_value_cluster_level / put_value_node_level (_put_metric) and put_doc *)
ScopeMeta(st, a) == IF a.lvl = "cluster" THEN st.cl
                    ELSE IF a.lvl = "node" THEN Update(st.cl, st.nd[a.node])
                    ELSE NoMeta                                                    \* put_doc(level=None): meta = None
RecMeta(st, a) ==
    IF a.kind = "value" THEN Update(ScopeMeta(st, a), a.md)
    ELSE IF DocMetaAlways \/ ~IsEmpty(ScopeMeta(st, a)) THEN Update(ScopeMeta(st, a), a.md)     \* `if meta and meta_data:`
    ELSE ScopeMeta(st, a)

MkRec(S, s, id, a) ==
    LET st == S.store[s]
        mt == RecMeta(st, a)
    IN [id |-> id, kind |-> a.kind, meta |-> mt,
        hasMeta |-> (a.kind = "value" \/ ~IsEmpty(mt)),                            \* put_doc: `if meta: doc["meta"] = meta`
        rel |-> IF a.tm = "auto" THEN S.clock - st.base ELSE ExplicitRel,
        abs |-> IF a.tm = "auto" THEN S.clock ELSE ExplicitAbs,
        sty |-> IF a.kind = "value" THEN a.sty ELSE "none",
        task |-> IF a.kind = "value" THEN a.task ELSE "",
        op |-> IF a.kind = "value" THEN a.op ELSE "",
        opt |-> IF a.kind = "value" THEN a.opt ELSE "",
        ctx |-> DocCtx(st.ctx), tp |-> HasTrackParams(s)]

PutStep(S, s, id, a) ==
    [S EXCEPT !.store[s].docs = Append(@, MkRec(S, s, id, a)),
              !.last = [LastOf("put", s, "returned") EXCEPT !.a = a]]

ResetStep(S, s) == [S EXCEPT !.store[s].base = S.clock, !.last = LastOf("reset", s, "returned")]
TickStep(S) == [S EXCEPT !.clock = @ + 1, !.last = LastOf("tick", "", "returned")]

(* to_externalizable(clear) and bulk_add *)
ExtStep(S, s, clear) ==
    IF TypeOf(s) = "mem"
    THEN [S EXCEPT !.wire = Append(@, [none |-> FALSE, docs |-> S.store[s].docs]),
                   !.store[s].docs = IF clear THEN <<>> ELSE @,
                   !.last = LastOf("ext", s, "returned")]
    ELSE [S EXCEPT !.wire = Append(@, [none |-> TRUE, docs |-> <<>>]),             \* EsMetricsStore: returns None
                   !.last = LastOf("ext", s, "returned")]

BulkAddStep(S, d) ==
    [S EXCEPT !.store[d].docs = @ \o Head(S.wire).docs,                            \* bulk_add(None) adds nothing
              !.wire = Tail(@),
              !.last = LastOf("bulkadd", d, "returned")]

-----------------------------------------------------------------------------
(* flush() / close() of a store and the requests of EsClient.bulk_index     *)
Chunk(docs, pos) == SubSeq(docs, pos, Min(pos + ChunkSize - 1, Len(docs)))

ClearMeta(st) == [st EXCEPT !.cl = NoMeta, !.nd = NoNodeMeta]

(* the call returns normally *)
Returned(S, op, s) ==
    [S EXCEPT !.store[s] = IF op = "close" THEN ClearMeta(@) ELSE @,               \* close: self._clear_meta_info() after flush()
              !.call = Idle,
              !.last = LastOf(op, s, "returned")]

(* the call raises: nothing else happens - in particular the buffer keeps ALL its records *)
Raised(S, op, s) == [S EXCEPT !.call = Idle, !.last = LastOf(op, s, "raised")]

(* after bulk_index (or with an empty buffer): self._docs = []; refresh if asked *)
AfterBulk(S, op, s, refresh) ==
    LET S1 == [S EXCEPT !.store[s].docs = <<>>]
    IN IF refresh
       THEN [S1 EXCEPT !.call = [op |-> op, s |-> s, stage |-> "refresh", att |-> 1, pos |-> 0, refresh |-> TRUE],
                       !.last = LastOf(op, s, "running")]
       ELSE Returned(S1, op, s)

StartFlush(S, op, s, refresh) ==
    IF TypeOf(s) = "mem" THEN Returned(S, op, s)                                   \* InMemoryMetricsStore.flush: pass
    ELSE IF S.store[s].docs = <<>> THEN AfterBulk(S, op, s, refresh)               \* `if self._docs:`
    ELSE [S EXCEPT !.call = [op |-> op, s |-> s, stage |-> "bulk", att |-> 1, pos |-> 1, refresh |-> refresh],
                   !.last = LastOf(op, s, "running")]

FlushStep(S, s, refresh) == StartFlush(S, "flush", s, refresh)
CloseStep(S, s) == StartFlush([S EXCEPT !.store[s].phase = "closed"], "close", s, TRUE)   \* self.opened = False; self.flush()

RECURSIVE KeepFrom(_, _, _)
KeepFrom(ch, bad, i) == IF i > Len(ch) THEN <<>> ELSE (IF i \in bad THEN <<>> ELSE <<ch[i]>>) \o KeepFrom(ch, bad, i + 1)

(* record ids the metrics cluster indexes for a chunk under outcome o *)
Accepted(ch, o) == IF o.k \in {"ok", "reqTdone"} THEN Ids(ch)
                   ELSE IF o.k \in {"itemT", "itemF"} THEN Ids(KeepFrom(ch, o.bad, 1))
                   ELSE <<>>

RECURSIVE Deliver(_, _)
Deliver(ix, ids) ==
    IF ids = <<>> THEN ix
    ELSE IF IdempotentIds /\ CountId(ix, Head(ids)) > 0 THEN Deliver(ix, Tail(ids))     \* same _id: the document is overwritten
    ELSE Deliver(Append(ix, Head(ids)), Tail(ids))                                        \* no _id: a new document

TheRequest(S) == [index |-> S.store[S.call.s].index, recs |-> Chunk(S.store[S.call.s].docs, S.call.pos)]

IsTransient(o) == o.k \in {"reqT", "reqTdone", "itemT"}

BulkReqStep(S, o) ==
    LET c  == S.call
        st == S.store[c.s]
        ch == Chunk(st.docs, c.pos)
        S1 == [S EXCEPT !.idx = Deliver(@, Accepted(ch, o))]
    IN IF o.k = "ok"
       THEN IF c.pos + ChunkSize > Len(st.docs)
            THEN AfterBulk(S1, c.op, c.s, c.refresh)                                     \* helpers.bulk and bulk_index return
            ELSE [S1 EXCEPT !.call.pos = @ + ChunkSize, !.last = LastOf(c.op, c.s, "running")]
       ELSE IF IsTransient(o) /\ c.att <= MaxRetries
            THEN [S1 EXCEPT !.call.att = @ + 1, !.call.pos = 1,                          \* guarded: sleep, then the WHOLE batch again
                            !.last = LastOf(c.op, c.s, "running")]
            ELSE Raised(S1, c.op, c.s)

RefreshReqStep(S, o) == IF o = "ok" THEN Returned(S, S.call.op, S.call.s) ELSE Raised(S, S.call.op, S.call.s)

-----------------------------------------------------------------------------
(* history *)
InitHist == [recs |-> <<>>,           \* <<[rec, home]>>: record number i as it was when it was put, and into which store
             xfer |-> <<>>,           \* ids handed to race control's store by bulk_add
             lastStart |-> [s \in Stores |-> -1],   \* time of the most recent open() / reset_relative_time() per store
             raised |-> FALSE,        \* some flush / close has raised
             extNoClear |-> FALSE,    \* to_externalizable was called with clear=False on a non-empty in-memory store
             dropped |-> <<>>,        \* ids dropped from a buffer by re-opening the store
             nMeta |-> 0, nCalls |-> 0, nOpens |-> 0]

HOpen(h, S, s)  == [h EXCEPT !.lastStart[s] = S.clock, !.nOpens = @ + 1,
                             !.dropped = IF TypeOf(s) = "es" THEN @ \o Ids(S.store[s].docs) ELSE @]
HMeta(h)        == [h EXCEPT !.nMeta = @ + 1]
HPut(h, s, r)   == [h EXCEPT !.recs = Append(@, [rec |-> r, home |-> s])]
HReset(h, S, s) == [h EXCEPT !.lastStart[s] = S.clock]
HExt(h, S, s, clear) == [h EXCEPT !.nCalls = @ + 1,
                                  !.extNoClear = @ \/ (~clear /\ TypeOf(s) = "mem" /\ S.store[s].docs # <<>>)]
HBulkAdd(h, S)  == [h EXCEPT !.nCalls = @ + 1, !.xfer = @ \o Ids(Head(S.wire).docs)]
HCall(h, k)     == [h EXCEPT !.nCalls = @ + 1, !.raised = @ \/ (k = "raised")]
HReq(h, k)      == [h EXCEPT !.raised = @ \/ (k = "raised")]

-----------------------------------------------------------------------------
Becomes(n) == /\ store' = n.store /\ wire' = n.wire /\ idx' = n.idx
              /\ call' = n.call /\ last' = n.last /\ clock' = n.clock

IdleNow == call.op = "none"

Init == /\ store = [s \in Stores |-> NewStore]
        /\ wire = <<>> /\ idx = <<>> /\ call = Idle /\ last = LastOf("init", "", "returned")
        /\ clock = 0 /\ hist = InitHist /\ act = [name |-> "Init"]

Open(s, how, c, create, w) ==
    /\ IdleNow /\ s \in Active /\ store[s].phase \in {"new", "closed"} /\ hist.nOpens < MaxOpens
    /\ how = "ctx" => (store[Other(s)].phase # "new" /\ c = store[Other(s)].ctx)        \* open(ctx=other.open_context)
    /\ (TypeOf(s) = "mem" => create)
    /\ Becomes(OpenStep(Sys, s, c, create, w))
    /\ hist' = HOpen(hist, Sys, s)
    /\ act' = [name |-> "Open", s |-> s, how |-> how, c |-> c, create |-> create, w |-> w]

AddMeta(s, scope, n, k, v) ==
    /\ IdleNow /\ store[s].phase = "open" /\ hist.nMeta < MaxMeta
    /\ Becomes(AddMetaStep(Sys, s, scope, n, k, v))
    /\ hist' = HMeta(hist)
    /\ act' = [name |-> "AddMeta", s |-> s, scope |-> scope, n |-> n, k |-> k, v |-> v]

Put(s, a) ==
    /\ IdleNow /\ store[s].phase = "open" /\ Len(hist.recs) < MaxRecs
    /\ LET id == Len(hist.recs) + 1
       IN /\ Becomes(PutStep(Sys, s, id, a))
          /\ hist' = HPut(hist, s, MkRec(Sys, s, id, a))
    /\ act' = [name |-> "Put", s |-> s, a |-> a]

Reset(s) ==
    /\ IdleNow /\ store[s].phase = "open" /\ store[s].base # clock
    /\ Becomes(ResetStep(Sys, s))
    /\ hist' = HReset(hist, Sys, s)
    /\ act' = [name |-> "Reset", s |-> s]

Tick == /\ IdleNow /\ clock < MaxClock
        /\ Becomes(TickStep(Sys)) /\ UNCHANGED hist
        /\ act' = [name |-> "Tick"]

Ext(clear) ==
    /\ IdleNow /\ store["drv"].phase = "open" /\ hist.nCalls < MaxCalls
    /\ Becomes(ExtStep(Sys, "drv", clear))
    /\ hist' = HExt(hist, Sys, "drv", clear)
    /\ act' = [name |-> "Ext", s |-> "drv", clear |-> clear]

BulkAdd ==
    /\ IdleNow /\ store["rc"].phase = "open" /\ wire # <<>>
    /\ Becomes(BulkAddStep(Sys, "rc"))
    /\ hist' = HBulkAdd(hist, Sys)
    /\ act' = [name |-> "BulkAdd", s |-> "rc"]

Flush(s, refresh) ==
    /\ IdleNow /\ store[s].phase = "open" /\ hist.nCalls < MaxCalls
    /\ LET n == FlushStep(Sys, s, refresh) IN Becomes(n) /\ hist' = HCall(hist, n.last.k)
    /\ act' = [name |-> "Flush", s |-> s, refresh |-> refresh]

Close(s) ==
    /\ IdleNow /\ store[s].phase = "open"
    /\ LET n == CloseStep(Sys, s) IN Becomes(n) /\ hist' = HCall(hist, n.last.k)
    /\ act' = [name |-> "Close", s |-> s]

BulkReq(o) ==
    /\ call.stage = "bulk"
    /\ LET n == BulkReqStep(Sys, o) IN Becomes(n) /\ hist' = HReq(hist, n.last.k)
    /\ act' = [name |-> "BulkReq", o |-> o, req |-> TheRequest(Sys)]

RefreshReq(o) ==
    /\ call.stage = "refresh"
    /\ LET n == RefreshReqStep(Sys, o) IN Becomes(n) /\ hist' = HReq(hist, n.last.k)
    /\ act' = [name |-> "RefreshReq", o |-> o]

Next ==
    \/ \E s \in Stores, how \in {"direct", "ctx"}, c \in Ctxs, create \in BOOLEAN :
          \E w \in WorldsOf(TypeOf(s)) : Open(s, how, c, create, w)
    \/ \E s \in Stores, scope \in {"cluster", "node"}, n \in Nodes, k \in Keys, v \in Vals :
          (scope = "cluster" => n = CHOOSE x \in Nodes : TRUE) /\ AddMeta(s, scope, n, k, v)
    \/ \E s \in Stores, a \in PutArgs : Put(s, a)
    \/ \E s \in Stores : Reset(s)
    \/ Tick
    \/ \E clear \in BOOLEAN : Ext(clear)
    \/ BulkAdd
    \/ \E s \in Stores, refresh \in BOOLEAN : Flush(s, refresh)
    \/ \E s \in Stores : Close(s)
    \/ call.stage = "bulk" /\ \E o \in Alpha(Len(Chunk(store[call.s].docs, call.pos))) : BulkReq(o)
    \/ \E o \in RefreshAlpha : RefreshReq(o)

Spec == Init /\ [][Next]_vars

-----------------------------------------------------------------------------
(* INVARIANTS, as operators over (S, h) so that the trace specification      *)
(* evaluates the same formulas on recorded states.                           *)
EsStores == {s \in Stores : TypeOf(s) = "es"}
RECURSIVE SumBuf(_, _, _)
SumBuf(S, SS, id) == IF SS = {} THEN 0
                     ELSE LET s == CHOOSE x \in SS : TRUE IN Count(S.store[s].docs, id) + SumBuf(S, SS \ {s}, id)
AllIds(h) == 1..Len(h.recs)
Quiescent(S) == S.last.k # "running"

(* how often record id has been handed to an Elasticsearch store (put there, or bulk_add-ed to race control's store) *)
EsAdded(h, id) == (IF TypeOf(h.recs[id].home) = "es" THEN 1 ELSE 0) + (IF TypeOf("rc") = "es" THEN CountId(h.xfer, id) ELSE 0)

(* nothing is lost: between store calls, every record ever put is still in a store, in transit, in the index - or was dropped by a  *)
(* re-open.  (While a flush is running the records being sent may be in flight.)                                                    *)
NoLoss(S, h) ==
    Quiescent(S) =>
       \A id \in AllIds(h) : SumBuf(S, Stores, id) + SumWire(S.wire, id) + CountId(S.idx, id) + CountId(h.dropped, id) >= 1
(* stronger, for Elasticsearch stores: what was handed to them is in a buffer or in the index *)
EsNoLoss(S, h) ==
    (Quiescent(S) /\ ~h.extNoClear) =>
       \A id \in AllIds(h) : SumBuf(S, EsStores, id) + CountId(S.idx, id) + CountId(h.dropped, id) >= EsAdded(h, id)
(* a buffer is only ever dropped (by open() re-initialising it) after an error has surfaced *)
DropOnlyAfterError(S, h) == h.dropped # <<>> => h.raised
(* nothing is stored twice: the index holds a record at most as often as it was handed to an Elasticsearch store *)
AtMostOnce(S, h) == \A id \in AllIds(h) : CountId(S.idx, id) <= EsAdded(h, id)
(* the pipeline driver -> race control moves every record exactly once (as long as clear=True is used) *)
TransferOnce(S, h) ==
    ~h.extNoClear =>
       \A id \in AllIds(h) : h.recs[id].home = "drv" =>
           IF TypeOf("drv") = "mem"
           THEN Count(S.store["drv"].docs, id) + SumWire(S.wire, id) + CountId(h.xfer, id) = 1
           ELSE SumWire(S.wire, id) + CountId(h.xfer, id) = 0
(* records are never altered after they were put: in a buffer, on the wire (pickled) or in a bulk request *)
IntactSeq(q, h) == \A i \in DOMAIN q : q[i].id \in AllIds(h) /\ q[i] = h.recs[q[i].id].rec
Intact(S, h) == /\ \A s \in Stores : IntactSeq(S.store[s].docs, h)
                /\ \A i \in DOMAIN S.wire : IntactSeq(S.wire[i].docs, h)
(* flush()/close() that returns has emptied the buffer (with NoLoss: everything buffered is in the index) *)
ReturnedMeansSent(S, h) ==
    (S.last.op \in {"flush", "close"} /\ S.last.k = "returned" /\ TypeOf(S.last.s) = "es") => S.store[S.last.s].docs = <<>>
(* close(): the store is closed in any case, meta info is cleared when it returns *)
CloseClears(S, h) ==
    S.last.op = "close" => /\ S.store[S.last.s].phase = "closed"
                           /\ (S.last.k = "returned" => (S.store[S.last.s].cl = NoMeta /\ S.store[S.last.s].nd = NoNodeMeta))

(* the record that was just put *)
JustPut(S) == S.store[S.last.s].docs[Len(S.store[S.last.s].docs)]
PutAdds(S, h) == S.last.op = "put" => (S.store[S.last.s].docs # <<>> /\ JustPut(S).id = Len(h.recs))
IsPut(S) == S.last.op = "put" /\ S.store[S.last.s].docs # <<>>
(* meta info: the innermost scope that defines a key wins (cluster < node), put_doc(level=None) has no scope *)
ScopeKey(st, a, k) == IF a.lvl = "node" /\ st.nd[a.node][k] # 0 THEN st.nd[a.node][k]
                      ELSE IF a.lvl \in {"cluster", "node"} THEN st.cl[k] ELSE 0
MetaScopes(S, h) == IsPut(S) => \A k \in AllKeys : S.last.a.md[k] = 0 => JustPut(S).meta[k] = ScopeKey(S.store[S.last.s], S.last.a, k)
(* the caller's meta_data is on top *)
MetaData(S, h) == IsPut(S) => \A k \in AllKeys : S.last.a.md[k] # 0 => JustPut(S).meta[k] = S.last.a.md[k]
(* relative time counts from the most recent open()/reset_relative_time(), explicit times are taken as they are *)
Times(S, h) ==
    IsPut(S) => /\ JustPut(S).rel = IF S.last.a.tm = "auto" THEN S.clock - h.lastStart[S.last.s] ELSE ExplicitRel
                /\ JustPut(S).abs = IF S.last.a.tm = "auto" THEN S.clock ELSE ExplicitAbs
(* sample type, task / operation fields, the race's identity *)
Fields(S, h) ==
    IsPut(S) => LET r == JustPut(S)
                    a == S.last.a
                IN /\ r.kind = a.kind
                   /\ (a.kind = "value" => r.sty = a.sty /\ r.task = a.task /\ r.op = a.op /\ r.opt = a.opt /\ r.hasMeta)
                   /\ r.ctx = DocCtx(S.store[S.last.s].ctx)
                   /\ r.tp = HasTrackParams(S.last.s)

(* open(): what exists on the metrics cluster afterwards follows from what was sent *)
TemplateAfter(w, reqs) == IF \E i \in DOMAIN reqs : reqs[i].m = "put_template" THEN "rally"
                          ELSE IF w.tmpl = "none" THEN "none" ELSE IF w.tmpl = "same" THEN "rally" ELSE "other"
OpenOk(S, h) ==
    (S.last.op = "open" /\ TypeOf(S.last.s) = "es") =>
       LET w == S.last.w
           reqs == S.last.reqs
           st == S.store[S.last.s]
           Has(m) == \E i \in DOMAIN reqs : reqs[i].m = m
       IN /\ st.docs = <<>> /\ st.phase = "open"
          /\ reqs # <<>> /\ reqs[Len(reqs)] = Req("refresh", st.index)                       \* searchable right after open
          /\ S.last.create =>
               /\ st.index = BaseIx(st.ctx)                                                  \* index by year and month of the race
               /\ TemplateAfter(w, reqs) = (IF w.tmpl = "diff" /\ ~w.ow THEN "other" ELSE "rally")
               /\ (w.tmpl = "same" => ~Has("put_template"))
               /\ (Has("create") <=> ~w.idx)
               /\ \A i \in DOMAIN reqs : reqs[i].m = "create" => reqs[i].ix = st.index
          /\ ~S.last.create =>
               /\ st.index = (IF w.mig THEN NewIx(st.ctx) ELSE BaseIx(st.ctx))               \* prefers the migrated index
               /\ ~Has("put_template") /\ ~Has("create")

StateClauses == {"NoLoss", "EsNoLoss", "DropOnlyAfterError", "AtMostOnce", "TransferOnce", "Intact", "ReturnedMeansSent",
                 "CloseClears", "PutAdds", "MetaScopes", "MetaData", "Times", "Fields", "OpenOk"}
Holds(c, S, h) ==
    CASE c = "NoLoss" -> NoLoss(S, h)
      [] c = "EsNoLoss" -> EsNoLoss(S, h)
      [] c = "DropOnlyAfterError" -> DropOnlyAfterError(S, h)
      [] c = "AtMostOnce" -> AtMostOnce(S, h)
      [] c = "TransferOnce" -> TransferOnce(S, h)
      [] c = "Intact" -> Intact(S, h)
      [] c = "ReturnedMeansSent" -> ReturnedMeansSent(S, h)
      [] c = "CloseClears" -> CloseClears(S, h)
      [] c = "PutAdds" -> PutAdds(S, h)
      [] c = "MetaScopes" -> MetaScopes(S, h)
      [] c = "MetaData" -> MetaData(S, h)
      [] c = "Times" -> Times(S, h)
      [] c = "Fields" -> Fields(S, h)
      [] c = "OpenOk" -> OpenOk(S, h)
Failing(S, h) == {c \in StateClauses : ~Holds(c, S, h)}

(* a _bulk request carries records unaltered, to the index named after the race's year and month (".new" only when opened for reading) *)
RequestOk(S, h, req) ==
    /\ IntactSeq(req.recs, h)
    /\ req.index = S.store[S.call.s].index
(* in the code as it is the records of a request are (still) in the buffer *)
RequestFromBuffer(S, req) == \A i \in DOMAIN req.recs : Count(S.store[S.call.s].docs, req.recs[i].id) >= 1

InvNoLoss == NoLoss(Sys, hist)
InvEsNoLoss == EsNoLoss(Sys, hist)
InvDropOnlyAfterError == DropOnlyAfterError(Sys, hist)
InvAtMostOnce == AtMostOnce(Sys, hist)
InvTransferOnce == TransferOnce(Sys, hist)
InvIntact == Intact(Sys, hist)
InvReturnedMeansSent == ReturnedMeansSent(Sys, hist)
InvCloseClears == CloseClears(Sys, hist)
InvPutAdds == PutAdds(Sys, hist)
InvMetaScopes == MetaScopes(Sys, hist)
InvMetaData == MetaData(Sys, hist)
InvTimes == Times(Sys, hist)
InvFields == Fields(Sys, hist)
InvOpenOk == OpenOk(Sys, hist)

(* what the code does when a flush finally raises: the buffer is exactly what it was (model-level statement, not an L1 clause) *)
RaiseKeepsBuffer == [][(last'.k = "raised") => \A s \in Stores : store'[s].docs = store[s].docs]_vars
(* every _bulk request the model sends satisfies RequestOk *)
RequestsOk == [][(act'.name = "BulkReq") => (RequestOk(Sys, hist, act'.req) /\ RequestFromBuffer(Sys, act'.req))]_vars

TypeOK == /\ call.op \in {"none", "flush", "close"}
          /\ (call.op = "none") = (last.k # "running")
          /\ call.att <= MaxRetries + 1
          /\ \A s \in Stores : store[s].phase \in {"new", "open", "closed"}
          /\ \A s \in Stores : TypeOf(s) = "mem" => store[s].index = NoIx
=============================================================================
