---------------------------- MODULE TraceEsStore ----------------------------
(***************************************************************************)
(* Validates recorded executions of the REAL esrally.metrics stores         *)
(* (EsMetricsStore / InMemoryMetricsStore over the real EsClient and the    *)
(* real elasticsearch.helpers.bulk, on top of a scripted fake Elasticsearch *)
(* client; see harness/extras/esstore.py) against EsStore.tla.              *)
(* Input (env VERIF_TRACES): JSON array of items [id, events], one event    *)
(* per store call or request that reached the fake metrics cluster:         *)
(*   ev    "Open" | "AddMeta" | "Put" | "Reset" | "Tick" | "Ext" | "BulkAdd" *)
(*         | "Flush" | "Close" | "BulkReq" | "RefreshReq"                    *)
(*   ...   the arguments of the call / the scripted outcome o of the request *)
(*         and, for BulkReq, what arrived at the _bulk endpoint (req)        *)
(*   st    [store, wire, idx, last, clock]: the state projected from the     *)
(*         real objects (and the fake's index) at the next observation point *)
(*         (the next request or the end of the call)                         *)
(*   bk    (Open) what exists on the fake cluster afterwards                 *)
(* The program counter of bulk_index (`call`) is not observable; it is the   *)
(* specification's own.  For every event TLC evaluates                       *)
(*   L1: the invariants of EsStore.tla on the recorded state (history        *)
(*       variables computed from the recorded events), RequestOk on what     *)
(*       arrived at the endpoint, OpenBackend on the fake cluster's state,   *)
(*   L2: the recorded state is the one the specification's step produces     *)
(*       from the previous recorded state, and the request that arrived is   *)
(*       the chunk the specification sends.                                  *)
(* <<"V", id, line, "L1"|"L2", clauses>> per failing event, <<"DONE", ..>>.  *)
(***************************************************************************)
EXTENDS MC_EsStore, Json, IOUtils

Traces == JsonDeserialize(IOEnv.VERIF_TRACES)

VARIABLES tid, l, nev, seen     \* seen: L1 clauses already reported for the current trace (a violated state invariant stays violated)
tvars == <<vars, tid, l, nev, seen>>

Item == Traces[tid]
ToSet(q) == {q[i] : i \in DOMAIN q}
NoAlpha(n) == {}
NoWorlds(t) == {}

Outcome(o) == [k |-> o.k, bad |-> ToSet(o.bad)]

Enabled(S, e) ==
    CASE e.ev = "Open" -> S.call.op = "none" /\ (e.how = "ctx" => e.c = S.store[Other(e.s)].ctx)
      [] e.ev = "BulkAdd" -> S.call.op = "none" /\ S.wire # <<>>
      [] e.ev = "BulkReq" -> S.call.stage = "bulk" /\ S.call.s = e.s
      [] e.ev = "RefreshReq" -> S.call.stage = "refresh" /\ S.call.s = e.s
      [] OTHER -> S.call.op = "none"

Step(S, e, id) ==
    CASE e.ev = "Open" -> OpenStep(S, e.s, e.c, e.create, e.w)
      [] e.ev = "AddMeta" -> AddMetaStep(S, e.s, e.scope, e.n, e.k, e.v)
      [] e.ev = "Put" -> PutStep(S, e.s, id, e.a)
      [] e.ev = "Reset" -> ResetStep(S, e.s)
      [] e.ev = "Tick" -> TickStep(S)
      [] e.ev = "Ext" -> ExtStep(S, e.s, e.clear)
      [] e.ev = "BulkAdd" -> BulkAddStep(S, e.s)
      [] e.ev = "Flush" -> FlushStep(S, e.s, e.refresh)
      [] e.ev = "Close" -> CloseStep(S, e.s)
      [] e.ev = "BulkReq" -> BulkReqStep(S, Outcome(e.o))
      [] e.ev = "RefreshReq" -> RefreshReqStep(S, e.o)

DummyRec == [id |-> 0]

HistStep(h, S, e, R) ==
    CASE e.ev = "Open" -> HOpen(h, S, e.s)
      [] e.ev = "AddMeta" -> HMeta(h)
      [] e.ev = "Put" -> HPut(h, e.s, IF R.store[e.s].docs # <<>> THEN R.store[e.s].docs[Len(R.store[e.s].docs)] ELSE DummyRec)
      [] e.ev = "Reset" -> HReset(h, S, e.s)
      [] e.ev = "Tick" -> h
      [] e.ev = "Ext" -> HExt(h, S, e.s, e.clear)
      [] e.ev = "BulkAdd" -> IF S.wire # <<>> THEN HBulkAdd(h, S) ELSE h
      [] e.ev \in {"Flush", "Close"} -> HCall(h, R.last.k)
      [] e.ev \in {"BulkReq", "RefreshReq"} -> HReq(h, R.last.k)

(* what exists on the (fake) metrics cluster after open(create=True): the Rally template unless a different one was to be kept, and the index *)
OpenBackend(e, R) ==
    (e.ev = "Open" /\ TypeOf(e.s) = "es" /\ e.create) =>
        /\ e.bk.tmpl = (IF e.w.tmpl = "diff" /\ ~e.w.ow THEN "other" ELSE "rally")
        /\ e.bk.hasIndex

TInit == /\ Init /\ tid = 1 /\ l = 1 /\ nev = 0 /\ seen = {}

Consume ==
    /\ tid <= Len(Traces)
    /\ l <= Len(Item.events)
    /\ LET e  == Item.events[l]
           S  == Sys
           en == Enabled(S, e)
           m  == IF en THEN Step(S, e, Len(hist.recs) + 1) ELSE S
           R  == [store |-> e.st.store, wire |-> e.st.wire, idx |-> e.st.idx, call |-> m.call, last |-> e.st.last, clock |-> e.st.clock]
           h2 == HistStep(hist, S, e, R)
           rq == IF e.ev = "BulkReq" THEN [index |-> e.req.index, recs |-> e.req.recs] ELSE [index |-> NoIx, recs |-> <<>>]
           l1 == Failing(R, h2)
                 \cup (IF e.ev = "BulkReq" /\ ~RequestOk([S EXCEPT !.call.s = e.s], hist, rq) THEN {"RequestOk"} ELSE {})
                 \cup (IF OpenBackend(e, R) THEN {} ELSE {"OpenBackend"})
           l2 == /\ en
                 /\ m.store = R.store /\ m.wire = R.wire /\ m.idx = R.idx /\ m.last = R.last /\ m.clock = R.clock
                 /\ (e.ev = "BulkReq" => rq = TheRequest(S))
       IN /\ IF l1 \subseteq seen THEN TRUE ELSE PrintT(<<"V", Item.id, l, "L1", l1 \ seen>>)
          /\ IF l2 THEN TRUE ELSE PrintT(<<"V", Item.id, l, "L2", {}>>)
          /\ seen' = seen \cup l1
          /\ store' = R.store /\ wire' = R.wire /\ idx' = R.idx /\ call' = m.call /\ last' = R.last /\ clock' = R.clock
          /\ hist' = h2
    /\ l' = l + 1 /\ nev' = nev + 1
    /\ UNCHANGED <<tid, act>>

NextTrace ==
    /\ tid <= Len(Traces)
    /\ l > Len(Item.events)
    /\ store' = [s \in Stores |-> NewStore] /\ wire' = <<>> /\ idx' = <<>> /\ call' = Idle
    /\ last' = LastOf("init", "", "returned") /\ clock' = 0 /\ hist' = InitHist
    /\ tid' = tid + 1 /\ l' = 1 /\ seen' = {}
    /\ IF tid < Len(Traces) THEN TRUE ELSE PrintT(<<"DONE", Len(Traces), nev>>)
    /\ UNCHANGED <<nev, act>>

TNext == Consume \/ NextTrace
TSpec == TInit /\ [][TNext]_tvars
=============================================================================
