SPECIFICATION TSpec
CONSTANTS
  Inputs = {}
  Sched <- NoSched
  ZeroThroughputFix = TRUE
CHECK_DEADLOCK FALSE
