SPECIFICATION TSpec
CONSTANTS
  Inputs = {}
  Sched = <<>>
  ZeroThroughputFix = TRUE
CHECK_DEADLOCK FALSE
