SPECIFICATION MCSpec
CONSTANTS
  Inputs = {}
  Tier = "quick"
  Sched <- Sched2
  ZeroThroughputFix = TRUE
INVARIANT PropertyHolds
INVARIANT InputsWellFormed
CHECK_DEADLOCK FALSE
