SPECIFICATION MCSpec
CONSTANTS
  Inputs = {}
  Tier = "thorough"
  Sched <- Sched2
  ZeroThroughputFix = TRUE
INVARIANT PropertyHolds
INVARIANT InputsWellFormed
CHECK_DEADLOCK FALSE
