----------------------------- MODULE TraceStats -----------------------------
(***************************************************************************)
(* Validates results recorded from the real esrally.metrics code.          *)
(* "store" items: [id, kind, sched, S, R, RN, RL, RS, D, DN, diff] -- the    *)
(*   records S were loaded into a real InMemoryMetricsStore, R =            *)
(*   calculate_results, RN = the same on the store without warm-up records, *)
(*   RL / RS = R after FileRaceStore.store_race read back through           *)
(*   find_by_race_id / list(), D / DN = direct getter answers, diff = paths *)
(*   at which the reloaded results differ (==) from the original ones.      *)
(* "doc" items: [id, kind, doc, R, RL, RS, diff] -- GlobalStats built from a *)
(*   result document, stored and read back.                                 *)
(* L1: the clauses of Stats.tla (C08) on the recorded observation; the      *)
(*     functional dependence sample count -> reported percentile set is     *)
(*     also checked ACROSS items (variable seen).                           *)
(* L2: the recorded results equal the transcription of the code.            *)
(***************************************************************************)
EXTENDS Stats, Json, IOUtils

Items == JsonDeserialize(IOEnv.VERIF_TRACES)
NoSched == <<>>        \* every item carries its own schedule
SeqToSet(s) == {s[j] : j \in 1..Len(s)}

VARIABLES i, seen
TInit == i = 1 /\ seen = {} /\ inp = [kind |-> "none"] /\ out = <<>> /\ done = FALSE

Report(it, l1, l2) ==
    /\ IF l1 = {} THEN TRUE ELSE PrintT(<<"V", it.id, 1, "L1", l1>>)
    /\ IF l1 # {} \/ l2 THEN TRUE ELSE PrintT(<<"V", it.id, 1, "L2", {}>>)

CheckStore(it) ==
    LET S == it.S
        sched == it.sched
        o == [R |-> it.R, RN |-> it.RN, RL |-> it.RL, RS |-> it.RS, D |-> it.D, DN |-> it.DN, diff |-> it.diff, PF |-> it.PF]
        pairs == CountKeys(S, sched, o)
        crossOk == Functional(seen \cup pairs)
        l1 == {cl \in Clauses : ~Holds(cl, S, sched, o)} \cup (IF crossOk THEN {} ELSE {"PctSetByCount"})
        m == ModelObs(S, sched)
        l2 == o.R = m.R /\ o.D = m.D /\ o.RN = m.RN /\ o.DN = m.DN /\ o.PF = m.PF
    IN /\ Assert(WellFormed(S), <<"ill-formed store in item", it.id>>)
       /\ Report(it, l1, l2)
       /\ seen' = IF l1 = {} THEN seen \cup pairs ELSE seen      \* only cases that satisfy every clause teach the count -> percentile-set function

CheckDoc(it) ==
    LET doc == [has |-> SeqToSet(it.doc.has), g |-> it.doc.g, hasOps |-> it.doc.hasOps, ops |-> it.doc.ops]
        l1 == IF it.RL = it.R /\ it.RS = it.R /\ it.diff = <<>> THEN {} ELSE {"RoundTrip"}
        l2 == it.R = Load(doc)
    IN /\ Report(it, l1, l2)
       /\ seen' = seen

TNext == /\ i <= Len(Items)
         /\ IF Items[i].kind = "store" THEN CheckStore(Items[i]) ELSE CheckDoc(Items[i])
         /\ i' = i + 1
         /\ IF i < Len(Items) THEN TRUE ELSE PrintT(<<"DONE", Len(Items), Len(Items)>>)
         /\ UNCHANGED vars

TSpec == TInit /\ [][TNext]_<<vars, i, seen>>
=============================================================================
