\* pinned behaviour of summary_stats (`if mean and median and stats`): a throughput whose mean or median is 0
\* is reported as None. Self-test only: the model with the switch off must violate the property.
SPECIFICATION MCSpec
CONSTANTS
  Inputs = {}
  Tier = "pinned"
  Sched <- Sched2
  ZeroThroughputFix = FALSE
INVARIANT PropertyHolds
CHECK_DEADLOCK FALSE
