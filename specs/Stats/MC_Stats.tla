---- MODULE MC_Stats ----
EXTENDS Stats
CONSTANT Tier      \* "quick" | "thorough" | "pinned": TLC evaluates every constant definition at start-up, so only one input set is defined

(* t2 is reported only if its error rate is > 0; the operation of t1 is NAMED like the task t2 (as task search-cold *)
(* on operation search, followed by a task search): a lookup by task name must not be caught by it               *)
Sched2 == << <<"t1", TRUE, "t2">>, <<"t2", FALSE, "op-t2">> >>
NoAP == <<"", "", 0, 0, 0, 0, 0, 0>>

(* bags = non-decreasing sequences of length <= n over 0..k *)
Bags(n, k) == {s \in UNION {[1..len -> 0..k] : len \in 0..n} : \A i \in 1..(Len(s) - 1) : s[i] <= s[i + 1]}

(* the normal records of the metric in focus for task t1; service_time elements carry the success flag *)
FocusRecs(m, s) ==
    [i \in 1..Len(s) |-> IF m = "svc" THEN <<m, "t1", TRUE, TRUE, s[i] \div 2, s[i] % 2 = 1, i>>
                                       ELSE <<m, "t1", TRUE, TRUE, s[i], TRUE, i>>]

(* warm-up records of the same metric and task: larger / smaller than every normal value, earlier / later *)
WarmAll(m) == {<<>>,
               << <<m, "t1", TRUE, FALSE, 9, FALSE, 0>> >>,
               << <<m, "t1", TRUE, FALSE, 0, FALSE, 99>> >>,
               << <<m, "t1", TRUE, FALSE, 9, TRUE, 0>>, <<m, "t1", TRUE, FALSE, 1, FALSE, 99>> >>}
WarmFew(m) == {<<>>, << <<m, "t1", TRUE, FALSE, 9, TRUE, 0>>, <<m, "t1", TRUE, FALSE, 0, FALSE, 99>> >>}

OtherTask(m) == << <<m, "t2", TRUE, TRUE, 7, FALSE, 50>>, <<"svc", "t2", TRUE, TRUE, 6, FALSE, 51>>, <<"svc", "t2", TRUE, TRUE, 4, TRUE, 52>> >>
OtherMetrics(m) == SelectSeq(<< <<"tp", "t1", TRUE, TRUE, 8, TRUE, 60>>, <<"lat", "t1", TRUE, TRUE, 8, TRUE, 61>>,
                                <<"svc", "t1", TRUE, TRUE, 8, FALSE, 62>>, <<"proc", "t1", TRUE, TRUE, 8, TRUE, 63>> >>,
                             LAMBDA r : r[1] # m)
System == << <<"g_tt", "", TRUE, TRUE, 0, TRUE, 0>>, <<"g_segc", "", TRUE, TRUE, 3, TRUE, 0>>, <<"g_segc", "", TRUE, TRUE, 4, TRUE, 0>>,
             <<"g_mseg", "", TRUE, TRUE, 5, TRUE, 0>>, <<"g_ygc", "", TRUE, TRUE, 2, TRUE, 0>>, <<"g_ygc", "", TRUE, TRUE, 3, TRUE, 0>> >>
NoiseAll(m) == {<<>>, OtherMetrics(m), OtherTask(m) \o OtherMetrics(m) \o System}
NoiseFew(m) == {<<>>, OtherTask(m) \o OtherMetrics(m) \o System}
(* a dependent timing of a composite operation: service_time of the task with another operation type *)
(* (sub-requests: same task, other operation type, their own success flags; 9 is larger than every own value) *)
Foreign(m) == IF m = "svc" THEN {<<>>, << <<"svc", "t1", FALSE, TRUE, 2, FALSE, 70>>, <<"svc", "t1", FALSE, TRUE, 9, TRUE, 71>>, <<"svc", "t1", FALSE, TRUE, 9, FALSE, 72>> >>}
              ELSE {<<>>}

BagInit(ms, n, k, warm(_), noise(_)) ==
    \E m \in ms : \E s \in Bags(n, IF m = "svc" THEN 2 * k + 1 ELSE k) : \E w \in warm(m), nz \in noise(m), f \in Foreign(m) :
        inp = [kind |-> "store", S |-> [recs |-> w \o FocusRecs(m, s) \o nz \o f, ap |-> NoAP]]

(* arithmetic progressions: the size is a parameter *)
APWarm(m) == {<<>>, << <<m, "t1", TRUE, FALSE, 50000, FALSE, 0>>, <<m, "t2", TRUE, TRUE, 7, TRUE, 1>> >>}
(* tails: set of <<number of outliers, gap>> (heavy tail; <<0, 0>>: none) *)
APInit(ms, sizes, a0s, steps, tails) ==
    \E m \in ms, n \in sizes, a0 \in a0s, st \in steps, tl \in tails : \E w \in APWarm(m) :
        /\ tl[1] <= n
        /\ inp = [kind |-> "store", S |-> [recs |-> w, ap |-> <<m, "t1", n, a0, st, IF m = "svc" /\ n > 1 THEN 1 ELSE 0, tl[1], tl[2]>>]]

(* result documents: every system metric absent / null / 0 / positive; op_metrics absent / empty / one entry *)
DocVals == {None, Whole(0), Rat(5, 2)}
Op1 == [p |-> TRUE, tp |-> [min |-> Whole(0), mean |-> Rat(1, 2), med |-> Whole(0), max |-> Whole(1), unit |-> "ops/s"],
        lat |-> [k |-> <<5000, 10000>>, v |-> <<Whole(0), Rat(5, 2)>>, mean |-> Whole(0), unit |-> "ms", x |-> 0],
        svc |-> EmptyTable, proc |-> EmptyTable, er |-> Whole(0), dur |-> None]
Op2 == [p |-> TRUE, tp |-> NoSummary("none"), lat |-> EmptyTable,
        svc |-> [k |-> <<10000>>, v |-> <<Whole(3)>>, mean |-> Whole(3), unit |-> "ms", x |-> 0], proc |-> EmptyTable, er |-> Rat(1, 2), dur |-> Whole(7)]
DocInputs ==
    UNION {{[kind |-> "doc", doc |-> [has |-> h, g |-> g, hasOps |-> ops[1], ops |-> ops[2]]] :
              g \in {x \in [GKeys -> DocVals] : \A key \in GKeys \ h : x[key] = None},
              ops \in {<<FALSE, <<>>>>, <<TRUE, <<>>>>, <<TRUE, <<Op1, Op2>>>>}} : h \in SUBSET GKeys}

AllM == {"tp", "lat", "svc", "proc"}
(* Init is a predicate (not `inp \in <set>`): TLC enumerates it without building and normalising one big set *)
MCInit ==
    /\ \/ /\ Tier = "quick"
          /\ \/ BagInit(AllM, 4, 2, WarmFew, NoiseFew)
             \/ APInit(AllM, {1, 2, 9, 10, 99, 100}, {1}, {0, 2}, {<<0, 0>>})
             \/ APInit(AllM, {10, 100}, {1}, {2}, {<<3, 1000>>})
             \/ APInit({"lat", "svc"}, {999, 1000, 1998}, {1}, {3}, {<<0, 0>>, <<3, 10000>>})
             \/ APInit({"lat"}, {9999, 10000}, {0}, {1}, {<<0, 0>>, <<3, 10000>>})
             \/ inp \in DocInputs
       \/ /\ Tier = "thorough"
          /\ \/ BagInit(AllM, 5, 3, WarmAll, NoiseAll)
             \/ APInit(AllM, {1, 2, 9, 10, 11, 99, 100, 101, 999, 1000}, {0, 2}, {0, 1, 3}, {<<0, 0>>, <<2, 500>>})
             \/ APInit({"lat", "svc", "tp"}, {9999, 10000, 10001}, {0, 5}, {0, 1, 3}, {<<0, 0>>})
             \/ APInit({"lat", "svc"}, {1001, 1998, 2001, 10000, 10002}, {0}, {1}, {<<3, 10000>>, <<20, 700>>})
             \/ inp \in DocInputs
       \/ /\ Tier = "pinned"      \* self-test input: enough to show that the pinned summary_stats violates the property
          /\ BagInit({"tp"}, 3, 2, WarmFew, NoiseFew)
    /\ out = <<>>
    /\ done = FALSE
MCSpec == MCInit /\ [][Eval]_vars
ASSUME NoVanityPercentiles
====
