-------------------------------- MODULE Stats --------------------------------
(***************************************************************************)
(* What a race reports (esrally.metrics): InMemoryMetricsStore getters,    *)
(* percentiles_for_sample_size, GlobalStatsCalculator, GlobalStats and the  *)
(* race.json round trip.  Function-like: Init chooses an input, Eval        *)
(* computes the result.                                                     *)
(*                                                                         *)
(* A metrics record is the tuple <<m, t, own, nrm, v, ok, rt>>:             *)
(*   m   metric: "tp" throughput, "lat" latency, "svc" service_time,        *)
(*       "proc" processing_time, or a system metric "g_tt" | "g_ygc" |      *)
(*       "g_mseg" | "g_segc" (t = "")                                       *)
(*   t   task name          own  operation-type = the task's operation type *)
(*   nrm sample-type normal (FALSE: warmup)      v  value (an integer; the  *)
(*       implementation is fed v * unit, see driver)                        *)
(*   ok  meta.success       rt   relative time                              *)
(* A store is [recs |-> sequence of records, ap |-> <<m, t, n, a0, step,    *)
(* fails, tn, gap>>]: besides the explicit records, n normal own records of *)
(* (m, t) with values a0 + i*step, rt = i (i = 0..n-1), the first `fails`   *)
(* of them with ok = FALSE (arithmetic progression; n = 0: none); the       *)
(* largest tn of them are outliers: the j-th of these (j = 1..tn) is larger *)
(* by j*gap (heavy tail: unequal neighbours at the high ranks).             *)
(* Well-formed: no explicit normal own record for the (m, t) of the         *)
(* progression, tn <= n.                                                    *)
(*                                                                         *)
(* Numbers in results are rationals in lowest terms [n |-> num, d |-> den], *)
(* d > 0.  None is [n |-> 0, d |-> 0].  d < 0 marks a value recorded from   *)
(* the implementation that is not (within tolerance) a rational with a      *)
(* small denominator: about n/|d|, equal to nothing.                        *)
(* A percentile p is given in 1/100 percent (99.9 -> 9990).                 *)
(***************************************************************************)
EXTENDS Integers, Sequences, FiniteSets, SequencesExt, TLC

CONSTANTS Inputs,             \* set of inputs: [kind |-> "store", S |-> store] or [kind |-> "doc", doc |-> document]
          Sched,              \* schedule: sequence of <<task name, include-in-reporting, operation name>>
          ZeroThroughputFix   \* TRUE: repaired summary_stats (0 is a value); FALSE: pinned truthiness test

None == [n |-> 0, d |-> 0]
Abs(x) == IF x < 0 THEN -x ELSE x
RECURSIVE Gcd(_, _)
Gcd(a, b) == IF b = 0 THEN a ELSE Gcd(b, a % b)
Rat(a, b) == LET g == Gcd(Abs(a), b) IN [n |-> a \div g, d |-> b \div g]      \* b > 0
Whole(a) == [n |-> a, d |-> 1]
(* x <= y without overflow (integer parts first, then the fractional parts) *)
RatLE(x, y) == /\ x.d # 0 /\ y.d # 0
               /\ LET xd == Abs(x.d)  yd == Abs(y.d)
                      xi == x.n \div xd  yi == y.n \div yd
                  IN IF xi # yi THEN xi < yi ELSE (x.n % xd) * yd <= (y.n % yd) * xd
SetMax(S) == CHOOSE x \in S : \A y \in S : y <= x
SumSeq(s) == FoldLeft(LAMBDA a, b : a + b, 0, s)        \* SequencesExt (Java override, no recursion)

TaskMetrics == <<"tp", "lat", "svc", "proc">>
TableMetrics == <<"lat", "svc", "proc">>
UnitOf(m) == IF m = "tp" THEN "ops/s" ELSE "ms"
PList == <<0, 5000, 9000, 9900, 9990, 9999, 10000>>      \* percentiles asked directly from get_percentiles

(***************************************************************************)
(* InMemoryMetricsStore._get and the sorted column of values               *)
(***************************************************************************)
Match(r, m, t, nrmOnly, ownOnly) == r[1] = m /\ r[2] = t /\ (nrmOnly => r[4]) /\ (ownOnly => r[3])
Sel(S, m, t, nrmOnly, ownOnly) == SelectSeq(S.recs, LAMBDA r : Match(r, m, t, nrmOnly, ownOnly))
HasAP(S, m, t) == S.ap[3] > 0 /\ S.ap[1] = m /\ S.ap[2] = t
WellFormed(S) == S.ap[3] > 0 => Sel(S, S.ap[1], S.ap[2], TRUE, TRUE) = <<>> /\ S.ap[7] \in 0..S.ap[3] /\ S.ap[8] >= 0

ColOf(vs) == [n |-> Len(vs), ap |-> FALSE, a0 |-> 0, step |-> 0, tn |-> 0, gap |-> 0, sv |-> SortSeq(vs, LAMBDA a, b : a < b)]
(* values of the normal records of (m, t); own: restricted to the task's operation type (as the code does) *)
ColX(S, m, t, own) ==
    IF HasAP(S, m, t) THEN [n |-> S.ap[3], ap |-> TRUE, a0 |-> S.ap[4], step |-> S.ap[5], tn |-> S.ap[7], gap |-> S.ap[8], sv |-> <<>>]
    ELSE LET rs == Sel(S, m, t, TRUE, own) IN ColOf([i \in 1..Len(rs) |-> rs[i][5]])
Col(S, m, t) == ColX(S, m, t, TRUE)
At(c, i) == IF c.ap THEN c.a0 + i * c.step + (IF i >= c.n - c.tn THEN (i - (c.n - c.tn) + 1) * c.gap ELSE 0)
            ELSE c.sv[i + 1]                                       \* i-th smallest value, i = 0..n-1
CMin(c) == Whole(At(c, 0))
CMax(c) == Whole(At(c, c.n - 1))
CSum(c) == IF c.ap THEN c.n * c.a0 + c.step * ((c.n * (c.n - 1)) \div 2) + c.gap * ((c.tn * (c.tn + 1)) \div 2) ELSE SumSeq(c.sv)
Mean(c) == Rat(CSum(c), c.n)
(* the median as the statement defines it: the middle value, or the mean of the two middle values *)
Median(c) == IF c.n % 2 = 1 THEN Whole(At(c, (c.n - 1) \div 2))
             ELSE Rat(At(c, c.n \div 2 - 1) + At(c, c.n \div 2), 2)

(***************************************************************************)
(* InMemoryMetricsStore.percentile_value: rank = p/100 * (n-1), linear     *)
(* interpolation between the neighbouring order statistics                  *)
(***************************************************************************)
Percentile(c, p) ==
    LET k == p * (c.n - 1)
        lr == k \div 10000
        rem == k % 10000
    IN IF rem = 0 THEN Whole(At(c, lr))
       ELSE Rat(At(c, lr) * 10000 + (At(c, lr + 1) - At(c, lr)) * rem, 10000)

(* percentiles_for_sample_size *)
PercentilesFor(n) ==
    IF n = 1 THEN <<10000>>
    ELSE IF n < 10 THEN <<5000, 10000>>
    ELSE IF n < 100 THEN <<5000, 9000, 10000>>
    ELSE IF n < 1000 THEN <<5000, 9000, 9900, 10000>>
    ELSE IF n < 10000 THEN <<5000, 9000, 9900, 9990, 10000>>
    ELSE <<5000, 9000, 9900, 9990, 9999, 10000>>

(***************************************************************************)
(* GlobalStatsCalculator: per task                                         *)
(***************************************************************************)
(* get_unit: first record of (m, t, operation type), any sample type *)
Unit(S, m, t) == IF HasAP(S, m, t) \/ Sel(S, m, t, FALSE, TRUE) # <<>> THEN UnitOf(m) ELSE "none"

(* x: number of entries of the table that are neither a percentile nor mean / unit (none in the code as it is) *)
EmptyTable == [k |-> <<>>, v |-> <<>>, mean |-> None, unit |-> "none", x |-> 0]
(* single_latency *)
Table(S, m, t) ==
    LET c == Col(S, m, t)
    IN IF c.n = 0 THEN EmptyTable
       ELSE LET ks == PercentilesFor(c.n)
            IN [k |-> ks, v |-> [i \in 1..Len(ks) |-> Percentile(c, ks[i])], mean |-> Mean(c), unit |-> Unit(S, m, t), x |-> 0]

NoSummary(u) == [min |-> None, mean |-> None, med |-> None, max |-> None, unit |-> u]
(* summary_stats("throughput"): `if mean and median and stats` *)
Summary(S, t) ==
    LET c == Col(S, "tp", t)
        u == Unit(S, "tp", t)
    IN IF c.n = 0 THEN NoSummary(u)
       ELSE LET mean == Mean(c)
                med == Percentile(c, 5000)
            IN IF ~ZeroThroughputFix /\ (mean.n = 0 \/ med.n = 0) THEN NoSummary(u)
               ELSE [min |-> CMin(c), mean |-> mean, med |-> med, max |-> CMax(c), unit |-> u]

(* get_error_rate(task, operation type, Normal): over service_time records *)
ReqCount(S, t, own) == Len(Sel(S, "svc", t, TRUE, own)) + (IF HasAP(S, "svc", t) THEN S.ap[3] ELSE 0)
Failed(S, t, own) == Len(SelectSeq(Sel(S, "svc", t, TRUE, own), LAMBDA r : ~r[6])) + (IF HasAP(S, "svc", t) THEN S.ap[6] ELSE 0)
FailedOverAll(S, t, own) == Rat(Failed(S, t, own), ReqCount(S, t, own))
ErrorRate(S, t) == IF ReqCount(S, t, TRUE) = 0 THEN Whole(0) ELSE FailedOverAll(S, t, TRUE)

(* duration: relative time of the latest service_time record of the task (any sample type, any operation type) *)
Duration(S, t) ==
    LET rs == Sel(S, "svc", t, FALSE, FALSE)
        rts == {rs[i][7] : i \in 1..Len(rs)} \cup (IF HasAP(S, "svc", t) THEN {S.ap[3] - 1} ELSE {})
    IN IF rts = {} THEN None ELSE Whole(SetMax(rts))

NoOp == [p |-> FALSE, tp |-> NoSummary("none"), lat |-> EmptyTable, svc |-> EmptyTable, proc |-> EmptyTable, er |-> None, dur |-> None]
(* one entry of op_metrics; p = the entry exists (include-in-reporting or error rate > 0) *)
OpResult(S, task) ==
    LET t == task[1]
        er == ErrorRate(S, t)
    IN IF ~(task[2] \/ er.n > 0) THEN NoOp
       ELSE [p |-> TRUE, tp |-> Summary(S, t), lat |-> Table(S, "lat", t), svc |-> Table(S, "svc", t),
             proc |-> Table(S, "proc", t), er |-> er, dur |-> Duration(S, t)]

(***************************************************************************)
(* GlobalStatsCalculator: a representative of each kind of system metric   *)
(* (sum, median, int(median)); all records of the name, any sample type    *)
(***************************************************************************)
GVals(S, m) == LET rs == SelectSeq(S.recs, LAMBDA r : r[1] = m) IN [i \in 1..Len(rs) |-> rs[i][5]]
GSum(S, m) == IF GVals(S, m) = <<>> THEN None ELSE Whole(SumSeq(GVals(S, m)))
GMedian(S, m) == IF GVals(S, m) = <<>> THEN None ELSE Percentile(ColOf(GVals(S, m)), 5000)
Floor(x) == IF x.d = 0 THEN None ELSE Whole(x.n \div x.d)
Globals(S) == [tt |-> GSum(S, "g_tt"), ygc |-> GSum(S, "g_ygc"), mseg |-> GMedian(S, "g_mseg"), segc |-> Floor(GMedian(S, "g_segc"))]

Results(S, sched) == [ops |-> [i \in 1..Len(sched) |-> OpResult(S, sched[i])], g |-> Globals(S)]

(* what the getters return when asked directly (sample type Normal, the task's operation type): *)
(* get_percentiles(percentiles = PList) and get_stats                                            *)
DirectOf(c) ==
    IF c.n = 0 THEN [k |-> <<>>, v |-> <<>>, n |-> 0, min |-> None, max |-> None, mean |-> None]
    ELSE [k |-> PList, v |-> [i \in 1..Len(PList) |-> Percentile(c, PList[i])], n |-> c.n, min |-> CMin(c), max |-> CMax(c), mean |-> Mean(c)]
Direct(S, sched) == [i \in 1..Len(sched) |-> [j \in 1..Len(TaskMetrics) |-> DirectOf(Col(S, TaskMetrics[j], sched[i][1]))]]

NormalOnly(S) == [S EXCEPT !.recs = SelectSeq(S.recs, LAMBDA r : r[4])]

(***************************************************************************)
(* Persistence: GlobalStats.as_dict -> Race.as_dict -> race.json ->         *)
(* Race.from_dict -> GlobalStats(d).  A document is [has |-> set of global  *)
(* keys present, g |-> values, hasOps, ops]; as_dict writes every           *)
(* attribute, JSON keeps numbers, null, strings and nesting, GlobalStats.v  *)
(* takes a present key as it is (also null) and defaults an absent one.     *)
(***************************************************************************)
GKeys == {"tt", "ygc", "mseg", "segc"}
Persist(R) == [has |-> GKeys, g |-> R.g, hasOps |-> TRUE, ops |-> R.ops]
Load(doc) == [ops |-> IF doc.hasOps THEN doc.ops ELSE <<>>,
              g |-> [key \in GKeys |-> IF key \in doc.has THEN doc.g[key] ELSE None]]

(* GlobalStats.metrics(task), the access path of compare on results read back from race.json: the FIRST entry of *)
(* op_metrics whose task name is `task` (the operation name only stands in for a missing task key of pre-0.8.0    *)
(* files, so an operation named like another task must not match).  Entries exist for the reported tasks only.    *)
Entries(R, sched) == SelectSeq([i \in 1..Len(sched) |-> [task |-> sched[i][1], op |-> sched[i][3], r |-> R.ops[i]]], LAMBDA e : e.r.p)
Lookup(R, sched, name) == LET es == SelectSeq(Entries(R, sched), LAMBDA e : e.task = name)
                          IN IF es = <<>> THEN NoOp ELSE es[1].r
ReadBack(R, sched) == [ops |-> [i \in 1..Len(sched) |-> Lookup(R, sched, sched[i][1])], g |-> R.g]

(***************************************************************************)
(* Property C08 as predicates over (store, schedule, observation) so that  *)
(* the trace specification evaluates the same formulas on results recorded *)
(* from the implementation.  Observation o:                                *)
(*   R   results of calculate_results        RN  the same on NormalOnly(S) *)
(*   RL  read back by find_by_race_id        RS  read back through list()   *)
(*       (per task through GlobalStats.metrics(task), as compare does)      *)
(*   D, DN  direct getter answers on S / NormalOnly(S)                      *)
(*   diff   paths at which reloaded and original results differ (==)        *)
(*   PF  per task and table metric: what percentiles_for_sample_size        *)
(*       answers for the sample count get_stats reports                     *)
(* "The requests / samples of the task" are the normal records that carry   *)
(* the task's name AND the task's own operation type (Col, ReqCount with    *)
(* own = TRUE; get_error_rate(task, operation_type, sample_type)): the      *)
(* dependent timings of a composite operation (same task, other operation   *)
(* type, their own success flags) are not requests of the task and must not *)
(* enter its statistics or its error rate.                                  *)
(***************************************************************************)

Monotone(k, v) == \A i, j \in 1..Len(k) : k[i] <= k[j] => RatLE(v[i], v[j])
Bounded(k, v, c) == \A i \in 1..Len(k) : RatLE(CMin(c), v[i]) /\ RatLE(v[i], CMax(c))
P100IsMax(k, v, c) == \A i \in 1..Len(k) : k[i] = 10000 => v[i] = CMax(c)
P50IsMedian(k, v, c) == \A i \in 1..Len(k) : k[i] = 5000 => v[i] = Median(c)

(* the definition itself: rank p/100*(n-1), linear interpolation between the neighbouring sorted values *)
IsInterpolated(k, v, c) == \A i \in 1..Len(k) : k[i] \in 0..10000 /\ v[i] = Percentile(c, k[i])

(* quantification over the reported entries and their columns *)
Tasks(sched) == 1..Len(sched)
ForTables(S, sched, o, P(_, _, _)) ==      \* P(key sequence, value sequence, column)
    \A i \in Tasks(sched) :
      /\ o.R.ops[i].p =>
           \A m \in {"lat", "svc", "proc"} :
             LET c == Col(S, m, sched[i][1])
                 tab == IF m = "lat" THEN o.R.ops[i].lat ELSE IF m = "svc" THEN o.R.ops[i].svc ELSE o.R.ops[i].proc
             IN (c.n > 0) => P(tab.k, tab.v, c)
      /\ \A j \in 1..Len(TaskMetrics) :
             LET c == Col(S, TaskMetrics[j], sched[i][1])
             IN (c.n > 0) => P(o.D[i][j].k, o.D[i][j].v, c)

PctMonotone(S, sched, o) == ForTables(S, sched, o, LAMBDA k, v, c : Monotone(k, v))
PctBounds(S, sched, o) == ForTables(S, sched, o, LAMBDA k, v, c : Bounded(k, v, c))
P100Max(S, sched, o) == ForTables(S, sched, o, LAMBDA k, v, c : P100IsMax(k, v, c))
PctLinearInterpolation(S, sched, o) ==
    /\ ForTables(S, sched, o, LAMBDA k, v, c : IsInterpolated(k, v, c))
    /\ \A i \in Tasks(sched) :
         LET c == Col(S, "tp", sched[i][1])
         IN (o.R.ops[i].p /\ c.n > 0) => o.R.ops[i].tp.med = Percentile(c, 5000)
P50Median(S, sched, o) ==
    /\ ForTables(S, sched, o, LAMBDA k, v, c : P50IsMedian(k, v, c))
    /\ \A i \in Tasks(sched) :
         LET c == Col(S, "tp", sched[i][1])
         IN (o.R.ops[i].p /\ c.n > 0) => o.R.ops[i].tp.med = Median(c)

MeanMinMax(S, sched, o) ==
    \A i \in Tasks(sched) :
      LET t == sched[i][1]
          r == o.R.ops[i]
      IN /\ r.p =>
              /\ LET c == Col(S, "tp", t)
                 IN (c.n > 0) => r.tp.min = CMin(c) /\ r.tp.max = CMax(c) /\ r.tp.mean = Mean(c)
              /\ LET c == Col(S, "lat", t) IN (c.n > 0) => r.lat.mean = Mean(c)
              /\ LET c == Col(S, "svc", t) IN (c.n > 0) => r.svc.mean = Mean(c)
              /\ LET c == Col(S, "proc", t) IN (c.n > 0) => r.proc.mean = Mean(c)
         /\ \A j \in 1..Len(TaskMetrics) :
              LET c == Col(S, TaskMetrics[j], t)
                  d == o.D[i][j]
              IN (c.n > 0) => d.min = CMin(c) /\ d.max = CMax(c) /\ d.mean = Mean(c)

(* <<sample count, reported percentile keys>> of every reported table of the observation *)
CountKeys(S, sched, o) ==
    {<<Col(S, m, sched[i][1]).n,
       IF m = "lat" THEN o.R.ops[i].lat.k ELSE IF m = "svc" THEN o.R.ops[i].svc.k ELSE o.R.ops[i].proc.k>> :
        <<i, m>> \in {x \in Tasks(sched) \X {"lat", "svc", "proc"} : o.R.ops[x[1]].p}}
Functional(pairs) == \A a, b \in pairs : a[1] = b[1] => a[2] = b[2]
PctSetByCount(S, sched, o) == Functional(CountKeys(S, sched, o))

(* every percentile chosen for the sample count is reported under a key of its own (encode_float_key loses and merges *)
(* nothing: 99.9 -> "99_9", 99.99 -> "99_99", 100 -> "100_0"); WHICH percentiles are chosen for which count is L2      *)
PctKeysFaithful(S, sched, o) ==
    \A i \in Tasks(sched) :
        o.R.ops[i].p => o.R.ops[i].lat.k = o.PF[i][1] /\ o.R.ops[i].svc.k = o.PF[i][2] /\ o.R.ops[i].proc.k = o.PF[i][3]

ErrorRateIsFailedOverAll(S, sched, o) ==
    \A i \in Tasks(sched) :
      (o.R.ops[i].p /\ ReqCount(S, sched[i][1], TRUE) > 0)
         => o.R.ops[i].er = FailedOverAll(S, sched[i][1], TRUE)

(* only the statistics: units and the duration (not part of the summary report) are left out *)
StatTab(tab) == [k |-> tab.k, v |-> tab.v, mean |-> tab.mean]
StatOp(r) == [p |-> r.p, min |-> r.tp.min, mean |-> r.tp.mean, med |-> r.tp.med, max |-> r.tp.max,
              lat |-> StatTab(r.lat), svc |-> StatTab(r.svc), proc |-> StatTab(r.proc), er |-> r.er]
StatPart(R) == [i \in 1..Len(R.ops) |-> StatOp(R.ops[i])]
OnlyNormal(S, sched, o) == StatPart(o.R) = StatPart(o.RN) /\ o.D = o.DN

RoundTrip(S, sched, o) == o.RL = o.R /\ o.RS = o.R /\ o.diff = <<>>

Clauses == {"OnlyNormal", "PctLinearInterpolation", "PctMonotone", "PctBounds", "P100Max", "P50Median", "MeanMinMax", "PctSetByCount", "PctKeysFaithful", "ErrorRate", "RoundTrip"}
Holds(cl, S, sched, o) ==
    CASE cl = "OnlyNormal" -> OnlyNormal(S, sched, o)
      [] cl = "PctLinearInterpolation" -> PctLinearInterpolation(S, sched, o)
      [] cl = "PctMonotone" -> PctMonotone(S, sched, o)
      [] cl = "PctBounds" -> PctBounds(S, sched, o)
      [] cl = "P100Max" -> P100Max(S, sched, o)
      [] cl = "P50Median" -> P50Median(S, sched, o)
      [] cl = "MeanMinMax" -> MeanMinMax(S, sched, o)
      [] cl = "PctSetByCount" -> PctSetByCount(S, sched, o)
      [] cl = "PctKeysFaithful" -> PctKeysFaithful(S, sched, o)
      [] cl = "ErrorRate" -> ErrorRateIsFailedOverAll(S, sched, o)
      [] cl = "RoundTrip" -> RoundTrip(S, sched, o)

(* the observation the transcription of the code would produce *)
ModelObs(S, sched) ==
    LET R == Results(S, sched)
    IN [R |-> R, RN |-> Results(NormalOnly(S), sched), RL |-> ReadBack(Load(Persist(R)), sched), RS |-> ReadBack(Load(Persist(R)), sched),
        D |-> Direct(S, sched), DN |-> Direct(NormalOnly(S), sched), diff |-> <<>>,
        PF |-> [i \in 1..Len(sched) |-> [j \in 1..Len(TableMetrics) |->
                  LET c == Col(S, TableMetrics[j], sched[i][1]) IN IF c.n = 0 THEN <<>> ELSE PercentilesFor(c.n)]]]

(* documents: loading is total, keeps what is present and a loaded result survives another round trip *)
DocRoundTrip(doc) == LET R == Load(doc)
                     IN /\ Load(Persist(R)) = R
                        /\ \A key \in doc.has : R.g[key] = doc.g[key]
                        /\ doc.hasOps => R.ops = doc.ops

-----------------------------------------------------------------------------
VARIABLES inp, out, done
vars == <<inp, out, done>>

Init == /\ inp \in Inputs
        /\ out = <<>>
        /\ done = FALSE

Eval == /\ ~done
        /\ out' = IF inp.kind = "store" THEN Results(inp.S, Sched) ELSE Load(inp.doc)
        /\ done' = TRUE
        /\ UNCHANGED inp

Spec == Init /\ [][Eval]_vars

InputsWellFormed == inp.kind = "store" => WellFormed(inp.S)

PropertyHolds ==
    done => IF inp.kind = "store"
            THEN LET o == ModelObs(inp.S, Sched) IN o.R = out /\ \A cl \in Clauses : Holds(cl, inp.S, Sched, o)
            ELSE DocRoundTrip(inp.doc)

(* the thresholds of percentiles_for_sample_size say: p < 100 is reported iff at least one sample lies *)
(* above it, n * (100 - p) / 100 >= 1 (not part of C08; documents the transcription)                  *)
NoVanityPercentiles ==
    \A n \in 1..20000 : \A p \in {5000, 9000, 9900, 9990, 9999} :
        (\E i \in 1..Len(PercentilesFor(n)) : PercentilesFor(n)[i] = p) <=> n * (10000 - p) >= 10000 /\ n > 1
=============================================================================
