SPECIFICATION Spec
CONSTANTS
  Inputs <- InputsQ
INVARIANT PlanOK
CHECK_DEADLOCK FALSE
