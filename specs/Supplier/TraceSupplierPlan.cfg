SPECIFICATION TSpec
CONSTANTS
  Inputs = {}
CHECK_DEADLOCK FALSE
