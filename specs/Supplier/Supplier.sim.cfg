SPECIFICATION Spec
CONSTANTS
  NC = 3
  MaxT = 4
  MaxGen = 2
  Versions <- VersionsQ
  Requests <- ReqSim
  EnvActs <- EnvSim
  DirtyAware = FALSE
  CorePluginPaired = FALSE
  TsErrorExplicit = FALSE
  PluginTsBranch = FALSE
  NetErrorExplicit = FALSE
  CacheKeyEager = FALSE
VIEW view
INVARIANT TypeOK
INVARIANT CacheKeyed
CHECK_DEADLOCK FALSE
