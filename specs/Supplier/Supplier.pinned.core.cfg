SPECIFICATION Spec
CONSTANTS
  NC = 2
  MaxT = 0
  MaxGen = 2
  Versions <- VersionsQ
  Requests <- ReqCore
  EnvActs <- EnvCore
  DirtyAware = TRUE
  CorePluginPaired = FALSE
  TsErrorExplicit = TRUE
  PluginTsBranch = TRUE
  NetErrorExplicit = TRUE
  CacheKeyEager = TRUE
VIEW view
PROPERTY PropCorePaired
CHECK_DEADLOCK FALSE
