---------------------------- MODULE MC_Supplier ----------------------------
EXTENDS Supplier

Q(rev, plug, prev, c, rem, prem, days) ==
    [mode |-> "src", rev |-> rev, plug |-> plug, prev |-> prev, cache |-> c, remote |-> rem, premote |-> prem, days |-> days, ver |-> "", dcache |-> ""]
D(ver, dcache, plug) ==
    [mode |-> "dist", rev |-> Current, plug |-> plug, prev |-> Current, cache |-> FALSE, remote |-> FALSE, premote |-> FALSE, days |-> 0, ver |-> ver, dcache |-> dcache]
E(op, r, v) == [op |-> op, r |-> r, v |-> v]

Latest == Rev("latest", 0)
Branch == Rev("branch", 0)
Tag == Rev("tag", 0)
Bad == Rev("bad", 0)
C(n) == Rev("commit", n)
Ts(n) == Rev("ts", n)

\* ---- core plugin and uncommitted changes (no clock)
RevsCore == {Latest, Current, C(1), C(2)}
ReqCore == {Q(r, p, Current, TRUE, TRUE, FALSE, 7) : r \in RevsCore, p \in {"none", "core"}}
           \cup {Q(r, "core", Current, FALSE, TRUE, FALSE, 7) : r \in {Latest, C(1)}}
EnvCore == {E("Push", "es", ""), E("Edit", "es", ""), E("Revert", "es", ""), E("Wipe", "es", "")}

\* ---- the clock: pruning, timestamps
RevsTime == {Latest, Current, C(1), C(2), Ts(-1), Ts(0), Ts(1)}
ReqTime == {Q(r, "none", Current, TRUE, TRUE, FALSE, d) : r \in RevsTime, d \in {1, 2}} \cup {Q(C(1), "none", Current, FALSE, TRUE, FALSE, 1)}
EnvTime == {E("Tick", "", ""), E("Push", "es", "")}

\* ---- every kind of revision, with and without a remote, the network, trees without .git
RevsAll == {Latest, Current, C(1), C(2), Ts(0), Branch, Tag, Bad}
ReqLocal == {Q(r, "none", Current, c, rem, FALSE, 7) : r \in RevsAll, c \in BOOLEAN, rem \in BOOLEAN}
EnvLocal == {E("Push", "es", ""), E("Net", "", ""), E("Edit", "es", ""), E("Wipe", "es", ""), E("Ungit", "es", "")}

\* ---- an external plugin with a repository of its own
ReqExt == {Q(r, "ext", p, TRUE, TRUE, prem, 7) : r \in {C(1), Latest}, p \in {Latest, Current, C(1), C(2), Ts(-1), Ts(0)}, prem \in BOOLEAN}
EnvExt == {E("Push", "pl", ""), E("Push", "es", ""), E("Edit", "pl", ""), E("Net", "", "")}

\* ---- distributions
VersionsQ == {"8.0.0", "0.0.0"}
ReqDist == {D(v, dc, p) : v \in VersionsQ, dc \in {"true", "false", "missing"}, p \in {"none", "url", "nourl"}}
EnvDist == {E("Net", "", ""), E("Republish", "", "8.0.0")}

\* ---- wide alphabets for the simulator and the thorough tier
ReqSim == ReqCore \cup ReqTime \cup ReqLocal
          \cup {Q(r, "core", Current, TRUE, rem, FALSE, d) : r \in RevsAll \cup {Ts(-1), Ts(1), C(3)}, rem \in BOOLEAN, d \in {1, 7}}
          \cup {Q(r, "ext", p, c, TRUE, prem, 2) : r \in {C(1), Latest, Current}, p \in RevsAll \cup {Ts(-1), C(3)}, c \in BOOLEAN, prem \in BOOLEAN}
EnvSim == {E("Tick", "", ""), E("Net", "", "")}
          \cup {E(op, r, "") : op \in {"Push", "Edit", "Revert", "Wipe", "Ungit"}, r \in {"es", "pl"}}
VersionsT == {"8.0.0", "8.1.0-SNAPSHOT", "0.0.0"}
ReqDistT == {D(v, dc, p) : v \in VersionsT, dc \in {"true", "false", "missing"}, p \in {"none", "url", "nourl"}}
EnvDistT == {E("Net", "", ""), E("Tick", "", ""), E("Republish", "", "8.0.0"), E("Republish", "", "8.1.0-SNAPSHOT")}
ReqThorough == ReqCore \cup {Q(r, p, Current, TRUE, rem, FALSE, 1) : r \in RevsAll \cup {Ts(-1)}, p \in {"none", "core"}, rem \in BOOLEAN}
EnvThorough == {E("Tick", "", ""), E("Net", "", ""), E("Push", "es", ""), E("Edit", "es", ""), E("Revert", "es", ""), E("Wipe", "es", ""), E("Ungit", "es", "")}
=============================================================================
