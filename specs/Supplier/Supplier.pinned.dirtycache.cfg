SPECIFICATION Spec
CONSTANTS
  NC = 2
  MaxT = 0
  MaxGen = 2
  Versions <- VersionsQ
  Requests <- ReqCore
  EnvActs <- EnvCore
  DirtyAware = FALSE
  CorePluginPaired = TRUE
  TsErrorExplicit = TRUE
  PluginTsBranch = TRUE
  NetErrorExplicit = TRUE
  CacheKeyEager = TRUE
VIEW view
INVARIANT CacheClean
CHECK_DEADLOCK FALSE
