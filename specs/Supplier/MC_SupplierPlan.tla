-------------------------- MODULE MC_SupplierPlan --------------------------
EXTENDS SupplierPlan

I(c, r) == [c |-> c, r |-> r]
In(items, sources, dver, plugins, caching, days, extcfg, jdk, method) ==
    [items |-> items, sources |-> sources, dver |-> dver, plugins |-> plugins, caching |-> caching, days |-> days, extcfg |-> extcfg, jdk |-> jdk, method |-> method]

Toks == {"latest", "current", "ts", "brts", "hash"}
ToksQ == {"latest", "ts", "hash"}
ItemsOf(T, U) == {<<>>} \cup {<<I(c, r)>> : c \in {"", "elasticsearch", "ext"}, r \in T}
                 \cup {<<I("elasticsearch", r1), I("ext", r2)>> : r1 \in U, r2 \in T}
                 \cup {<<I("ext", r2), I("elasticsearch", r1)>> : r1 \in U, r2 \in U}
                 \cup {<<I("", r1), I("ext", r1)>> : r1 \in U}
                 \cup {<<I("elasticsearch", r1), I("elasticsearch", r2)>> : r1 \in U, r2 \in U}
                 \cup {<<I("other", r1)>> : r1 \in U}
PluginsQ == {<<>>, <<"core">>, <<"ext">>, <<"module">>, <<"core", "ext">>, <<"module", "ext">>}
PluginsT == PluginsQ \cup {<<"ext", "core">>, <<"core", "module">>, <<"ext", "module", "core">>}
HasExt(ps) == \E k \in DOMAIN ps : ps[k] = "ext"

Family(IT, PS) ==
    \* the main table: everything that decides the composition, the rest at its default
    {In(it, s, d, ps, c, 7, "dir", "ok", "default") : it \in IT, s \in BOOLEAN, d \in BOOLEAN, ps \in PS, c \in BOOLEAN}
    \* the remaining switches, each against a smaller table
    \cup {In(it, s, TRUE, ps, c, 7, x, "ok", "default") : it \in IT, s \in BOOLEAN, ps \in {p \in PS : HasExt(p)}, c \in BOOLEAN, x \in {"subdir", "both", "neither"}}
    \cup {In(it, s, TRUE, ps, TRUE, dd, "dir", j, m) : it \in {x \in IT : Len(x) <= 1}, s \in BOOLEAN, ps \in {<<>>, <<"core">>, <<"ext">>}, dd \in {7, 1, 0, -1}, j \in {"ok", "bad"}, m \in {"default", "docker"}}

InputsQ == Family(ItemsOf(ToksQ, {"latest", "hash"}), PluginsQ)
InputsT == Family(ItemsOf(Toks, {"latest", "hash", "ts"}), PluginsT)
=============================================================================
