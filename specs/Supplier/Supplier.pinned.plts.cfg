SPECIFICATION Spec
CONSTANTS
  NC = 2
  MaxT = 1
  MaxGen = 2
  Versions <- VersionsQ
  Requests <- ReqExt
  EnvActs <- EnvExt
  DirtyAware = TRUE
  CorePluginPaired = TRUE
  TsErrorExplicit = TRUE
  PluginTsBranch = FALSE
  NetErrorExplicit = TRUE
  CacheKeyEager = TRUE
VIEW view
PROPERTY PropSucceeds
CHECK_DEADLOCK FALSE
