\* the code as it is (all switches FALSE); the alphabets of the model checking configurations are not used
SPECIFICATION TSpec
CONSTANTS
  NC = 4
  MaxT = 60
  MaxGen = 6
  Versions <- TraceVersions
  Requests = {}
  EnvActs = {}
  DirtyAware = FALSE
  CorePluginPaired = FALSE
  TsErrorExplicit = FALSE
  PluginTsBranch = FALSE
  NetErrorExplicit = FALSE
  CacheKeyEager = FALSE
CHECK_DEADLOCK FALSE
