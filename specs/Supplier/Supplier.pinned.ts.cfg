SPECIFICATION Spec
CONSTANTS
  NC = 2
  MaxT = 3
  MaxGen = 2
  Versions <- VersionsQ
  Requests <- ReqTime
  EnvActs <- EnvTime
  DirtyAware = TRUE
  CorePluginPaired = TRUE
  TsErrorExplicit = FALSE
  PluginTsBranch = TRUE
  NetErrorExplicit = TRUE
  CacheKeyEager = TRUE
VIEW view
PROPERTY PropExplicitFailure
CHECK_DEADLOCK FALSE
