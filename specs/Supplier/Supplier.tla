------------------------------ MODULE Supplier ------------------------------
(***************************************************************************)
(* How Rally obtains the Elasticsearch / plugin artifacts                   *)
(* (esrally/mechanic/supplier.py: create, _prune, CompositeSupplier,        *)
(* CachedSourceSupplier, ElasticsearchSourceSupplier, CorePlugin- /         *)
(* ExternalPluginSourceSupplier, SourceRepository, Builder,                 *)
(* ElasticsearchDistributionSupplier, PluginDistributionSupplier,           *)
(* DistributionRepository; esrally/utils/git.py).                           *)
(*                                                                         *)
(* The world: a clock `now` (ticks = days), the network (up / down), two    *)
(* source repositories repos.es (Elasticsearch) and repos.pl (an external   *)
(* plugin), each a remote linear history on the default branch (rhead       *)
(* commits, commit i pushed at tick rtime[i], tag v1 = commit 1) and a      *)
(* local directory (clone: absent / empty / git / plain = sources without   *)
(* .git; head = commit in the working tree, main / omain = local branch and *)
(* remote tracking branch, dirty = uncommitted change of a tracked file),   *)
(* the source artifact cache <root>/distributions/src (cache[<<kind, n>>] = *)
(* file named by the hash of commit n, born = tick it was created, c / d =  *)
(* the commit / dirtiness of the tree it was really built from), downloaded *)
(* distributions (dist[v] = generation of the file for version v, 0 = not   *)
(* there) and what the download server serves (rgen[v], 0 = 404).           *)
(*                                                                         *)
(* One action per supplier invocation (supplier.create(cfg, ..)() of a new  *)
(* Rally process on the same home directory): Supply(q) with the request    *)
(*  q = [mode "src" | "dist", rev, plug "none" | "core" | "ext" | "url" |   *)
(*       "nourl", prev, cache (source.cache), remote / premote (a remote    *)
(*       URL is configured for Elasticsearch / the plugin), days            *)
(*       (cache.days), ver, dcache (<repo>.cache "true" | "false" |         *)
(*       "missing")]                                                        *)
(* a revision is [k, n]: latest, current, ts (@timestamp: end of tick n),   *)
(* commit (full hash of commit n), branch (the default branch by name),     *)
(* tag (v1), bad (a hash that does not exist).                              *)
(* ret = [err, bins (the binaries map in insertion order: a = artifact,     *)
(* w = "cache" | "tree" | "dist" | "url", c / d = what it was built from),  *)
(* ops (the git / build / download operations in order)].                   *)
(* Environment actions: Tick, Push, Net, Edit, Revert, Wipe, Ungit,         *)
(* Republish.                                                               *)
(*                                                                         *)
(* Switches (TRUE = intended behaviour, FALSE = the code as it is):         *)
(*   DirtyAware        a working copy with uncommitted changes is never     *)
(*                     cached under / served from the artifact of its HEAD  *)
(*                     hash, and a revision other than `current` is refused *)
(*                     on it.  Code: `git status` is never consulted.       *)
(*   CorePluginPaired  a core plugin is looked up / built for the revision  *)
(*                     the Elasticsearch binary comes from.  Code: for the  *)
(*                     HEAD the source tree happens to have (`current`),    *)
(*                     which is stale when Elasticsearch itself came out of *)
(*                     the cache without a checkout.                        *)
(*   TsErrorExplicit   @timestamp before the first commit is a SupplyError. *)
(*                     Code: IndexError (rev-list prints nothing).          *)
(*   PluginTsBranch    @timestamp for an external plugin is resolved on the *)
(*                     plugin's default branch.  Code: pull_ts is told that *)
(*                     the default branch is Elasticsearch's (`main`) while *)
(*                     the plugin branch is `master`: `git rev-list         *)
(*                     origin/main..origin/master` fails, its error text is *)
(*                     handed to `git checkout`, SupplyError.               *)
(*   NetErrorExplicit  an unreachable download server is a SystemSetupError *)
(*                     Code: only urllib HTTPError is translated.           *)
(*   CacheKeyEager     a missing <repo>.cache key is always reported.  Code:*)
(*                     only once the file is there (`not isfile or not      *)
(*                     cache`), i.e. on the second run.                     *)
(***************************************************************************)
EXTENDS Integers, Sequences, FiniteSets, TLC

CONSTANTS
    NC,             \* commits a remote history may grow to
    MaxT,           \* last tick
    MaxGen,         \* generations a download may be republished to
    Versions,       \* distribution versions ("0.0.0" does not exist on the server)
    Requests,       \* the requests that occur
    EnvActs,        \* the environment actions that occur: records [op, r, v]
    DirtyAware, CorePluginPaired, TsErrorExplicit, PluginTsBranch, NetErrorExplicit, CacheKeyEager

VARIABLES now, net, repos, cache, dist, rgen, act, ret

vars == <<now, net, repos, cache, dist, rgen, act, ret>>
view == <<now, net, repos, cache, dist, rgen>>

RepoNames == {"es", "pl"}
Kinds == {"es", "core", "ext"}
Keys == Kinds \X (1..NC)
NoKey == <<>>
NoEntry == [born |-> -1, c |-> 0, d |-> FALSE]
Has(C, key) == C[key].born >= 0
NoRet == [err |-> "none", bins |-> <<>>, ops |-> <<>>]
RallyErrors == {"SupplyError", "SystemSetupError", "BuildError"}

Rev(k, n) == [k |-> k, n |-> n]
Current == Rev("current", 0)
XC(n) == "c" \o ToString(n)
RevName(rev) ==                 \* the revision as it appears on a git command line
    CASE rev.k = "commit" -> XC(rev.n)
      [] rev.k = "ts" -> "@" \o ToString(rev.n)
      [] rev.k = "tag" -> "v1"
      [] OTHER -> rev.k
BranchName(r) == IF r = "pl" THEN "master" ELSE "main"      \* DEFAULT_ELASTICSEARCH_BRANCH / ExternalPluginSourceSupplier: branch="master"
RevText(r, rev) == IF rev.k = "branch" THEN BranchName(r) ELSE RevName(rev)
Jdk(R) == IF R.clone \in {"git", "plain"} THEN ToString(16 + R.head) ELSE "17"      \* .ci/java-versions.properties of the tree

State == [now |-> now, net |-> net, repos |-> repos, cache |-> cache, dist |-> dist, rgen |-> rgen]

Repo0 == [rhead |-> 1, rtime |-> <<0>>, clone |-> "absent", head |-> 0, main |-> 0, omain |-> 0, dirty |-> FALSE]

(* newest commit among 1..upto pushed not later than tick t (0 = none) *)
NewestBefore(R, upto, t) ==
    LET ok == {i \in 1..upto : R.rtime[i] <= t}
    IN IF ok = {} THEN 0 ELSE CHOOSE i \in ok : \A j \in ok : j <= i

(***************************************************************************)
(* SourceRepository.fetch(revision) as a transformer of the step record W   *)
(* = [net, now, repos, cache, ops, err, res, cp, built, bins, esFetched];   *)
(* res = the resolved git revision (0 = None: not a git repository).        *)
(***************************************************************************)
Op(o, r, x) == [o |-> o, r |-> r, x |-> x]
AddOp(W, op) == [W EXCEPT !.ops = Append(@, op)]
Fail(W, e) == [W EXCEPT !.err = e]
Ok(W) == W.err = "none"

GitClone(W, r) ==
    LET R == W.repos[r]
        W1 == AddOp(W, Op("clone", r, ""))
    IN IF W.net /\ R.clone \in {"absent", "empty"}
         THEN [W1 EXCEPT !.repos[r] = [R EXCEPT !.clone = "git", !.head = R.rhead, !.main = R.rhead, !.omain = R.rhead, !.dirty = FALSE]]
         ELSE Fail([W1 EXCEPT !.repos[r].clone = IF R.clone = "absent" THEN "empty" ELSE R.clone], "SupplyError")   \* io.ensure_dir came first

TryInit(W, r, rev, hasRemote) ==
    LET R == W.repos[r]
    IN IF R.clone = "git" THEN W
       ELSE IF hasRemote THEN GitClone(W, r)
       ELSE IF R.clone \in {"empty", "plain"} /\ rev.k = "current" THEN W
       ELSE Fail(W, "SystemSetupError")

GitFetch(W, r) ==
    LET W1 == AddOp(W, Op("fetch", r, ""))
    IN IF W.net THEN [W1 EXCEPT !.repos[r].omain = W.repos[r].rhead] ELSE Fail(W1, "SupplyError")

(* git checkout <name>, where name denotes commit c (0 = nothing); local changes are carried along iff the tracked file does not differ *)
GitCheckout(W, r, name, c) ==
    LET R == W.repos[r]
        W1 == AddOp(W, Op("checkout", r, name))
    IN IF c > 0 /\ (R.dirty => c = R.head) THEN [W1 EXCEPT !.repos[r].head = c] ELSE Fail(W1, "SupplyError")

GitRebase(W, r) ==      \* git rebase origin/main on the local default branch (no local commits: a fast-forward); refuses a dirty tree
    LET R == W.repos[r]
        W1 == AddOp(W, Op("rebase", r, ""))
    IN IF R.dirty THEN Fail(W1, "SupplyError") ELSE [W1 EXCEPT !.repos[r].head = R.omain, !.repos[r].main = R.omain]

Update(W, r, rev, hasRemote) ==
    LET R == W.repos[r]
    IN CASE hasRemote /\ rev.k = "latest" ->
              LET A == GitFetch(W, r)
                  B == IF Ok(A) THEN GitCheckout(A, r, BranchName(r), A.repos[r].main) ELSE A
              IN IF Ok(B) THEN GitRebase(B, r) ELSE B
         [] rev.k = "current" -> W
         [] hasRemote /\ rev.k = "ts" ->
              LET A == GitFetch(W, r)
                  asEs == r = "es" \/ PluginTsBranch
                  B == IF Ok(A) THEN AddOp(A, Op("revlist", r, IF asEs THEN RevName(rev) ELSE RevName(rev) \o ":origin/main..origin/master")) ELSE A
                  c == NewestBefore(A.repos[r], A.repos[r].omain, rev.n)
              IN IF ~Ok(B) THEN B
                 ELSE IF ~asEs THEN GitCheckout(B, r, "fatal", 0)
                 ELSE IF c = 0 THEN Fail(B, IF TsErrorExplicit THEN "SupplyError" ELSE "IndexError")
                 ELSE GitCheckout(B, r, XC(c), c)
         [] hasRemote ->         \* commit hash, branch name or tag
              LET A == GitFetch(W, r)
                  B == IF Ok(A) THEN AddOp(A, Op("showref", r, RevText(r, rev))) ELSE A
                  o == A.repos[r].omain
              IN IF ~Ok(B) THEN B
                 ELSE CASE rev.k = "branch" -> GitCheckout(B, r, "origin/" \o BranchName(r), o)
                        [] rev.k = "commit" -> GitCheckout(B, r, RevName(rev), IF rev.n <= o THEN rev.n ELSE 0)
                        [] rev.k = "tag" -> GitCheckout(B, r, RevName(rev), 1)
                        [] OTHER -> GitCheckout(B, r, RevName(rev), 0)
         [] OTHER ->             \* no remote: git checkout <revision> whatever it is
              CASE rev.k = "commit" -> GitCheckout(W, r, RevName(rev), IF rev.n <= R.omain THEN rev.n ELSE 0)
                [] rev.k = "branch" -> GitCheckout(W, r, BranchName(r), R.main)
                [] rev.k = "tag" -> GitCheckout(W, r, RevName(rev), 1)
                [] OTHER -> GitCheckout(W, r, RevName(rev), 0)

SrcFetch(W, r, rev, hasRemote) ==
    LET A == TryInit([W EXCEPT !.res = 0], r, rev, hasRemote)
        B == IF Ok(A) THEN Update(A, r, rev, hasRemote) ELSE A
        R == B.repos[r]
    IN IF ~Ok(B) THEN B
       ELSE IF R.clone # "git" THEN B
       ELSE LET C == AddOp(B, Op("head", r, "")) IN
            IF DirtyAware /\ R.dirty
              THEN IF rev.k = "current" THEN C ELSE Fail(C, "SupplyError")     \* uncommitted changes: no revision info / refused
              ELSE [C EXCEPT !.res = R.head]

(***************************************************************************)
(* The suppliers of one invocation: Elasticsearch first, then the plugin;   *)
(* CompositeSupplier: fetch all, prepare all, add all.                      *)
(***************************************************************************)
Comps(q) == IF q.plug \in {"core", "ext"} THEN <<"es", q.plug>> ELSE <<"es">>
RepoOf(k) == IF k = "ext" THEN "pl" ELSE "es"
RevOf(q, k) == IF k = "ext" THEN q.prev ELSE q.rev
(* the file name CachedSourceSupplier looks for before fetching is made of the revision as the user wrote it: a cache key iff that is a full hash *)
PreKey(q, k) == LET rev == RevOf(q, k) IN IF rev.k = "commit" /\ rev.n \in 1..NC THEN <<k, rev.n>> ELSE NoKey

Pruned(C, n, days) == [key \in Keys |-> IF Has(C, key) /\ n - C[key].born > days THEN NoEntry ELSE C[key]]
Seen(S, q) == IF q.cache THEN Pruned(S.cache, S.now, q.days) ELSE S.cache        \* the cache after create() has pruned it

RawFetch(W, q, k) ==
    CASE k = "es" -> [SrcFetch(W, "es", q.rev, q.remote) EXCEPT !.esFetched = TRUE]
      [] k = "core" -> IF CorePluginPaired /\ ~W.esFetched
                         THEN [SrcFetch(W, "es", q.rev, q.remote) EXCEPT !.esFetched = TRUE]
                         ELSE SrcFetch(W, "es", Current, FALSE)
      [] k = "ext" -> SrcFetch(W, "pl", q.prev, q.premote)

FetchComp(W, q, k) ==
    IF ~Ok(W) THEN W
    ELSE IF q.cache /\ PreKey(q, k) # NoKey /\ Has(W.cache, PreKey(q, k)) THEN [W EXCEPT !.cp[k] = PreKey(q, k)]
    ELSE LET F == RawFetch(W, q, k)
         IN IF Ok(F) /\ q.cache /\ F.res > 0 THEN [F EXCEPT !.cp[k] = <<k, F.res>>] ELSE F

Hit(W, k) == W.cp[k] # NoKey /\ Has(W.cache, W.cp[k])

Build(W, q, k) ==
    LET R == W.repos[RepoOf(k)]
        there == R.clone \in {"git", "plain"}
        o == [c |-> R.head, d |-> R.dirty]
    IN CASE k = "es" ->
              LET A == AddOp(W, Op("clean", "es", Jdk(R)))
              IN IF ~there THEN Fail(A, "BuildError") ELSE [AddOp(A, Op("build", "es", Jdk(R))) EXCEPT !.built[k] = o]
         [] k = "core" ->
              LET A == AddOp(W, Op("build", "core", Jdk(R)))
              IN IF ~there THEN Fail(A, "BuildError") ELSE [A EXCEPT !.built[k] = o]
         [] k = "ext" ->
              LET A == AddOp(W, Op("build", "ext", "None"))
              IN IF ~there THEN Fail(A, "BuildError") ELSE [A EXCEPT !.built[k] = o]

PrepareComp(W, q, k) == IF ~Ok(W) \/ Hit(W, k) THEN W ELSE Build(W, q, k)

Bin(a, w, c, d) == [a |-> a, w |-> w, c |-> c, d |-> d]
AddComp(W, q, k) ==
    IF ~Ok(W) THEN W
    ELSE IF Hit(W, k) THEN LET e == W.cache[W.cp[k]] IN [W EXCEPT !.bins = Append(@, Bin(k, "cache", e.c, e.d))]
    ELSE LET o == W.built[k]
         IN IF W.cp[k] # NoKey
              THEN [W EXCEPT !.cache[W.cp[k]] = [born |-> W.now, c |-> o.c, d |-> o.d], !.bins = Append(@, Bin(k, "cache", o.c, o.d))]
              ELSE [W EXCEPT !.bins = Append(@, Bin(k, "tree", o.c, o.d))]

Each(F(_, _, _), W, q, ks) == IF Len(ks) = 1 THEN F(W, q, ks[1]) ELSE F(F(W, q, ks[1]), q, ks[2])

SrcStep(S, q) ==
    LET W0 == [net |-> S.net, now |-> S.now, repos |-> S.repos, cache |-> Seen(S, q), ops |-> <<>>, err |-> "none", res |-> 0,
               cp |-> [k \in Kinds |-> NoKey], built |-> [k \in Kinds |-> [c |-> 0, d |-> FALSE]], bins |-> <<>>, esFetched |-> FALSE]
        ks == Comps(q)
        W1 == Each(FetchComp, W0, q, ks)
        W2 == Each(PrepareComp, W1, q, ks)
        W3 == Each(AddComp, W2, q, ks)
    IN [S |-> [S EXCEPT !.repos = W3.repos, !.cache = W3.cache],
        ret |-> [err |-> W3.err, bins |-> IF Ok(W3) THEN W3.bins ELSE <<>>, ops |-> W3.ops]]

(***************************************************************************)
(* ElasticsearchDistributionSupplier / PluginDistributionSupplier           *)
(***************************************************************************)
DistStep(S, q) ==
    LET v == q.ver
        present == S.dist[v] > 0
        keyRead == CacheKeyEager \/ present                 \* `not os.path.isfile(path) or not self.repo.cache`
        download == ~present \/ q.dcache = "false"
        plug == IF q.plug = "url" THEN <<Bin("pl", "url", 0, FALSE)>> ELSE <<>>
        dl == <<Op("download", "", v)>>
        Err(e, ops) == [S |-> S, ret |-> [err |-> e, bins |-> <<>>, ops |-> ops]]
    IN IF keyRead /\ q.dcache = "missing" THEN Err("SystemSetupError", <<>>)
       ELSE IF ~download THEN [S |-> S, ret |-> [err |-> "none", bins |-> <<Bin("es", "dist", S.dist[v], FALSE)>> \o plug, ops |-> <<>>]]
       ELSE IF ~S.net THEN Err(IF NetErrorExplicit THEN "SystemSetupError" ELSE "MaxRetryError", dl)
       ELSE IF S.rgen[v] = 0 THEN Err("SystemSetupError", dl)
       ELSE [S |-> [S EXCEPT !.dist[v] = S.rgen[v]], ret |-> [err |-> "none", bins |-> <<Bin("es", "dist", S.rgen[v], FALSE)>> \o plug, ops |-> dl]]

SupplyStep(S, q) == IF q.mode = "src" THEN SrcStep(S, q) ELSE DistStep(S, q)

(* a commit can only be asked for by its hash once it exists *)
Askable(S, q) ==
    /\ q.mode = "src" => (q.rev.k = "commit" => q.rev.n <= S.repos.es.rhead)
    /\ (q.mode = "src" /\ q.plug = "ext") => (q.prev.k = "commit" => q.prev.n <= S.repos.pl.rhead)

(***************************************************************************)
(* The environment                                                         *)
(***************************************************************************)
EnvEnabled(S, a) ==
    CASE a.op = "Tick" -> S.now < MaxT
      [] a.op = "Push" -> S.repos[a.r].rhead < NC
      [] a.op = "Net" -> TRUE
      [] a.op = "Edit" -> S.repos[a.r].clone \in {"git", "plain"} /\ ~S.repos[a.r].dirty
      [] a.op = "Revert" -> S.repos[a.r].clone = "git" /\ S.repos[a.r].dirty
      [] a.op = "Wipe" -> S.repos[a.r].clone # "absent"
      [] a.op = "Ungit" -> S.repos[a.r].clone = "git"
      [] a.op = "Republish" -> S.rgen[a.v] \in 1..(MaxGen - 1)
      [] OTHER -> FALSE

EnvStep(S, a) ==
    CASE a.op = "Tick" -> [S EXCEPT !.now = @ + 1]
      [] a.op = "Push" -> [S EXCEPT !.repos[a.r].rhead = @ + 1, !.repos[a.r].rtime = Append(@, S.now)]
      [] a.op = "Net" -> [S EXCEPT !.net = ~@]
      [] a.op = "Edit" -> [S EXCEPT !.repos[a.r].dirty = TRUE]
      [] a.op = "Revert" -> [S EXCEPT !.repos[a.r].dirty = FALSE]
      [] a.op = "Wipe" -> [S EXCEPT !.repos[a.r] = [@ EXCEPT !.clone = "absent", !.head = 0, !.main = 0, !.omain = 0, !.dirty = FALSE]]
      [] a.op = "Ungit" -> [S EXCEPT !.repos[a.r] = [@ EXCEPT !.clone = "plain", !.main = 0, !.omain = 0]]
      [] a.op = "Republish" -> [S EXCEPT !.rgen[a.v] = @ + 1]

(***************************************************************************)
(* Behaviour                                                               *)
(***************************************************************************)
Init ==
    /\ now = 0
    /\ net = TRUE
    /\ repos = [r \in RepoNames |-> Repo0]
    /\ cache = [key \in Keys |-> NoEntry]
    /\ dist = [v \in Versions |-> 0]
    /\ rgen = [v \in Versions |-> IF v = "0.0.0" THEN 0 ELSE 1]
    /\ act = [op |-> "Init"]
    /\ ret = NoRet

Bind(S) == now' = S.now /\ net' = S.net /\ repos' = S.repos /\ cache' = S.cache /\ dist' = S.dist /\ rgen' = S.rgen

Supply(q) ==
    /\ Askable(State, q)
    /\ LET s == SupplyStep(State, q) IN Bind(s.S) /\ ret' = s.ret
    /\ act' = [op |-> "Supply", q |-> q]

Env(a) ==
    /\ EnvEnabled(State, a)
    /\ Bind(EnvStep(State, a))
    /\ act' = a
    /\ ret' = NoRet

(* the environment is one action so that the simulator (which picks an action first) does not favour it *)
Next == (\E q \in Requests : Supply(q)) \/ (TRUE /\ \E a \in EnvActs : Env(a))

Spec == Init /\ [][Next]_vars

(***************************************************************************)
(* Properties.  State invariants on the cache, action properties            *)
(* A(S, T, a, rt) on a Supply step from S to T with the request a.q and the *)
(* returned rt.  The clauses marked STRONG are the intended behaviour the   *)
(* code as it is does not meet (see the switches); the others hold for both.*)
(***************************************************************************)
TypeOK ==
    /\ now \in 0..MaxT /\ net \in BOOLEAN
    /\ \A r \in RepoNames :
         LET R == repos[r] IN
         /\ R.rhead \in 1..NC /\ Len(R.rtime) = R.rhead
         /\ R.clone \in {"absent", "empty", "git", "plain"}
         /\ R.head \in 0..NC /\ R.main \in 0..NC /\ R.omain \in 0..NC /\ R.dirty \in BOOLEAN
         /\ R.clone = "git" => (R.head >= 1 /\ R.main >= 1 /\ R.omain >= R.main /\ R.omain >= R.head /\ R.omain <= R.rhead)
         /\ R.clone \in {"absent", "empty"} => (R.head = 0 /\ ~R.dirty)
    /\ \A key \in Keys : cache[key].born \in -1..now
    /\ \A v \in Versions : dist[v] \in 0..MaxGen /\ rgen[v] \in 0..MaxGen /\ dist[v] <= rgen[v]

(* an artifact named by the hash of commit n is a build of commit n ... *)
CacheKeyedOf(C) == \A key \in Keys : Has(C, key) => C[key].c = key[2]
CacheKeyed == CacheKeyedOf(cache)
(* ... of the committed state of n (STRONG: DirtyAware) *)
CacheCleanOf(C) == \A key \in Keys : Has(C, key) => ~C[key].d
CacheClean == CacheCleanOf(cache)

IsSrc(a) == a.op = "Supply" /\ a.q.mode = "src"
IsDist(a) == a.op = "Supply" /\ a.q.mode = "dist"
HasBin(rt, k) == \E i \in DOMAIN rt.bins : rt.bins[i].a = k
BinOf(rt, k) == rt.bins[CHOOSE i \in DOMAIN rt.bins : rt.bins[i].a = k]
OpsOf(rt, os, r) == {i \in DOMAIN rt.ops : rt.ops[i].o \in os /\ rt.ops[i].r = r}
CompSet(q) == {Comps(q)[i] : i \in DOMAIN Comps(q)}
PreHit(S, q, k) == q.cache /\ PreKey(q, k) # NoKey /\ Has(Seen(S, q), PreKey(q, k))

(* the commit a revision denotes when the invocation starts (0 = nothing) *)
Want(R, rev, hasRemote) ==
    CASE rev.k = "current" -> IF hasRemote /\ R.clone \in {"absent", "empty"} THEN R.rhead ELSE R.head      \* a missing tree is cloned first
      [] rev.k = "commit" -> rev.n
      [] rev.k = "tag" -> 1
      [] rev.k = "branch" -> IF hasRemote THEN R.rhead ELSE R.main
      [] rev.k = "latest" -> IF hasRemote THEN R.rhead ELSE 0
      [] rev.k = "ts" -> IF hasRemote THEN NewestBefore(R, R.rhead, rev.n) ELSE 0
      [] OTHER -> 0

(* the map returned has exactly the requested artifacts, Elasticsearch first *)
BinsShape(S, T, a, rt) ==
    (IsSrc(a) /\ rt.err = "none") => /\ Len(rt.bins) = Len(Comps(a.q))
                                     /\ \A i \in DOMAIN rt.bins : rt.bins[i].a = Comps(a.q)[i] /\ rt.bins[i].w \in {"cache", "tree"}

(* the binary returned for a revision is a build of the commit that revision denotes *)
RevisionExact(S, T, a, rt) ==
    (IsSrc(a) /\ rt.err = "none") =>
        /\ HasBin(rt, "es") /\ BinOf(rt, "es").c = Want(S.repos.es, a.q.rev, a.q.remote) /\ BinOf(rt, "es").c > 0
        /\ a.q.plug = "ext" => (HasBin(rt, "ext") /\ BinOf(rt, "ext").c = Want(S.repos.pl, a.q.prev, a.q.premote) /\ BinOf(rt, "ext").c > 0)

(* ... of its committed state; only `current` means the working tree as it is, uncommitted changes included (STRONG: DirtyAware) *)
DirtyExact(S, T, a, rt) ==
    (IsSrc(a) /\ rt.err = "none") =>
        \A k \in CompSet(a.q) : HasBin(rt, k) =>
            BinOf(rt, k).d = (IF RevOf(a.q, k).k = "current" THEN S.repos[RepoOf(k)].dirty ELSE FALSE)

(* a core plugin comes from the same commit as Elasticsearch: STRONG (CorePluginPaired) in general, as it is whenever Elasticsearch was fetched *)
CorePaired(S, T, a, rt) ==
    (IsSrc(a) /\ rt.err = "none" /\ a.q.plug = "core") => (HasBin(rt, "core") /\ HasBin(rt, "es") /\ BinOf(rt, "core").c = BinOf(rt, "es").c)
CorePairedFetched(S, T, a, rt) == (IsSrc(a) /\ ~PreHit(S, a.q, "es")) => CorePaired(S, T, a, rt)

(* every requested artifact already cached under the requested hash: nothing is run, nothing changes, it cannot fail *)
HitSilent(S, T, a, rt) ==
    (IsSrc(a) /\ \A k \in CompSet(a.q) : PreHit(S, a.q, k)) => (rt.ops = <<>> /\ rt.err = "none" /\ T.repos = S.repos)

(* with the cache: an artifact is built iff the cache does not hold the resolved revision; it then returns the cached copy.
   without: everything is built and returned from the source tree *)
BuildIffMiss(S, T, a, rt) ==
    (IsSrc(a) /\ rt.err = "none") =>
        \A k \in CompSet(a.q) : HasBin(rt, k) =>
            LET b == BinOf(rt, k)
                built == OpsOf(rt, {"build"}, k) # {}
            IN /\ b.w = "cache" => (a.q.cache /\ (built <=> ~Has(Seen(S, a.q), <<k, b.c>>)))
               /\ b.w = "tree" => built
               /\ (k = "es" /\ built) => \E i, j \in DOMAIN rt.ops : i < j /\ rt.ops[i].o = "clean" /\ rt.ops[j] = Op("build", "es", rt.ops[i].x)
               \* Elasticsearch and its core plugins are built with the JDK the built commit asks for (.ci/java-versions.properties)
               /\ k \in {"es", "core"} => \A i \in OpsOf(rt, {"build"}, k) : rt.ops[i].x = ToString(16 + b.c)

(* after a miss the artifact sits under the key a later identical request finds; only a tree without revision info is not cached *)
AddedUnderKey(S, T, a, rt) ==
    (IsSrc(a) /\ rt.err = "none" /\ a.q.cache) =>
        \A k \in CompSet(a.q) : HasBin(rt, k) =>
            LET b == BinOf(rt, k)
                R == T.repos[RepoOf(k)]
            IN /\ b.w = "cache" => (Has(T.cache, <<k, b.c>>) /\ T.cache[<<k, b.c>>].c = b.c /\ T.cache[<<k, b.c>>].d = b.d)
               /\ b.w = "tree" => (R.clone # "git" \/ R.dirty)
               /\ (R.clone = "git" /\ ~R.dirty) => b.w = "cache"

(* create() deletes exactly the artifacts older than cache.days; nothing else disappears or changes, what is new was returned by this invocation *)
PruneExact(S, T, a, rt) ==
    IsSrc(a) =>
        LET P == Seen(S, a.q) IN
        \A key \in Keys :
            /\ Has(P, key) => T.cache[key] = P[key]
            /\ (~Has(P, key) /\ Has(T.cache, key)) =>
                   (T.cache[key].born = S.now /\ rt.err = "none" /\ a.q.cache /\ HasBin(rt, key[1]) /\ BinOf(rt, key[1]).c = key[2])
            /\ ~a.q.cache => T.cache[key] = S.cache[key]

(* without a remote URL nothing touches the network and a missing source tree is an explicit error *)
Offline(S, T, a, rt) ==
    IsSrc(a) =>
        /\ ~a.q.remote => (OpsOf(rt, {"clone", "fetch"}, "es") = {} /\ T.repos.es.omain = S.repos.es.omain)
        /\ (~a.q.premote \/ a.q.plug # "ext") => OpsOf(rt, {"clone", "fetch"}, "pl") = {}
        /\ (~a.q.remote /\ S.repos.es.clone = "absent" /\ ~PreHit(S, a.q, "es")) => rt.err = "SystemSetupError"
        /\ (~a.q.remote /\ ~PreHit(S, a.q, "es") /\ a.q.rev.k \in {"latest", "ts"}) => rt.err \in RallyErrors

(* the network is down: whoever needs it fails with a SupplyError at that point *)
NetDown(S, T, a, rt) ==
    (IsSrc(a) /\ ~S.net) =>
        \A i \in DOMAIN rt.ops : rt.ops[i].o \in {"clone", "fetch"} => (i = Len(rt.ops) /\ rt.err = "SupplyError")

(* a revision that exists, the network up, a remote configured, no uncommitted changes: the invocation succeeds
   (STRONG: PluginTsBranch, CorePluginPaired; as it is, never for an external plugin at a timestamp, and not for a core plugin when
   Elasticsearch comes out of the cache and there is no source tree: "A remote repository URL is mandatory for Elasticsearch", or a
   BuildError in the empty directory a failed clone left behind) *)
Healthy(S, q) ==
    /\ S.net /\ q.remote /\ S.repos.es.clone # "plain" /\ ~S.repos.es.dirty /\ Want(S.repos.es, q.rev, TRUE) > 0
    /\ q.plug = "ext" => (q.premote /\ S.repos.pl.clone # "plain" /\ ~S.repos.pl.dirty /\ Want(S.repos.pl, q.prev, TRUE) > 0)
Succeeds(S, T, a, rt) ==
    /\ (IsSrc(a) /\ Healthy(S, a.q)) => rt.err = "none"
    /\ (IsDist(a) /\ S.net /\ S.rgen[a.q.ver] > 0 /\ a.q.dcache # "missing") => rt.err = "none"
SucceedsAsIs(S, T, a, rt) ==
    ~(IsSrc(a) /\ \/ (a.q.plug = "ext" /\ a.q.prev.k = "ts")
                  \/ (a.q.plug = "core" /\ PreHit(S, a.q, "es") /\ S.repos.es.clone \in {"absent", "empty"})) => Succeeds(S, T, a, rt)

(* failures are Rally errors (STRONG: TsErrorExplicit, NetErrorExplicit); as it is, two situations leak a raw Python exception *)
ExplicitFailure(S, T, a, rt) == a.op = "Supply" => rt.err \in RallyErrors \cup {"none"}
TsBeforeHistory(S, q) == q.mode = "src" /\ \/ (q.rev.k = "ts" /\ q.remote /\ Want(S.repos.es, q.rev, TRUE) = 0)
                                           \/ (q.plug = "ext" /\ q.prev.k = "ts" /\ q.premote /\ Want(S.repos.pl, q.prev, TRUE) = 0)
ExplicitFailureAsIs(S, T, a, rt) ==
    a.op = "Supply" => \/ rt.err \in RallyErrors \cup {"none"}
                       \/ rt.err = "IndexError" /\ TsBeforeHistory(S, a.q)
                       \/ rt.err = "MaxRetryError" /\ a.q.mode = "dist" /\ ~S.net
(* a failed invocation returns nothing, adds nothing to the cache and leaves the downloaded distributions alone *)
FailClean(S, T, a, rt) ==
    (a.op = "Supply" /\ rt.err # "none") => (rt.bins = <<>> /\ T.dist = S.dist /\ (IsSrc(a) => T.cache = Seen(S, a.q)))

(* distributions: downloaded iff not (caching is on and the file is there); a download brings what the server has now *)
Downloaded(rt) == \E i \in DOMAIN rt.ops : rt.ops[i].o = "download"
DownloadIff(S, T, a, rt) ==
    (IsDist(a) /\ (rt.err = "none" \/ Downloaded(rt))) =>
        (Downloaded(rt) <=> ~(a.q.dcache = "true" /\ S.dist[a.q.ver] > 0))
DistExact(S, T, a, rt) ==
    (IsDist(a) /\ rt.err = "none") =>
        LET v == a.q.ver IN
        /\ HasBin(rt, "es") /\ BinOf(rt, "es").w = "dist" /\ BinOf(rt, "es").c = T.dist[v] /\ T.dist[v] > 0
        /\ Downloaded(rt) => T.dist[v] = S.rgen[v]
        /\ ~Downloaded(rt) => T.dist[v] = S.dist[v]
        /\ \A u \in Versions \ {v} : T.dist[u] = S.dist[u]
        /\ HasBin(rt, "pl") <=> a.q.plug = "url"
(* a missing <repo>.cache key is a SystemSetupError (STRONG: CacheKeyEager), as it is once the file exists *)
CacheKeyChecked(S, T, a, rt) == (IsDist(a) /\ a.q.dcache = "missing") => rt.err = "SystemSetupError"
CacheKeyCheckedAsIs(S, T, a, rt) == (IsDist(a) /\ a.q.dcache = "missing" /\ S.dist[a.q.ver] > 0) => rt.err = "SystemSetupError"

(* what an invocation cannot change *)
Frame(S, T, a, rt) ==
    a.op = "Supply" =>
        /\ T.now = S.now /\ T.net = S.net /\ T.rgen = S.rgen
        /\ \A r \in RepoNames : T.repos[r].rhead = S.repos[r].rhead /\ T.repos[r].rtime = S.repos[r].rtime
        /\ IsSrc(a) => (T.dist = S.dist /\ (a.q.plug # "ext" => T.repos.pl = S.repos.pl))
        /\ IsDist(a) => (T.repos = S.repos /\ T.cache = S.cache)

(* the same request again, with nothing in between, builds nothing and returns the same artifacts (model only) *)
Repeatable(S, T, a, rt) ==
    (IsSrc(a) /\ rt.err = "none" /\ a.q.cache /\ \A i \in DOMAIN rt.bins : rt.bins[i].w = "cache") =>
        LET again == SrcStep(T, a.q).ret
        IN /\ again.err = "none" /\ again.bins = rt.bins
           /\ \A i \in DOMAIN again.ops : again.ops[i].o \notin {"clean", "build", "clone"}

StateP == [now |-> now', net |-> net', repos |-> repos', cache |-> cache', dist |-> dist', rgen |-> rgen']

PropBinsShape == [][BinsShape(State, StateP, act', ret')]_vars
PropRevisionExact == [][RevisionExact(State, StateP, act', ret')]_vars
PropDirtyExact == [][DirtyExact(State, StateP, act', ret')]_vars
PropCorePaired == [][CorePaired(State, StateP, act', ret')]_vars
PropCorePairedFetched == [][CorePairedFetched(State, StateP, act', ret')]_vars
PropHitSilent == [][HitSilent(State, StateP, act', ret')]_vars
PropBuildIffMiss == [][BuildIffMiss(State, StateP, act', ret')]_vars
PropAddedUnderKey == [][AddedUnderKey(State, StateP, act', ret')]_vars
PropPruneExact == [][PruneExact(State, StateP, act', ret')]_vars
PropOffline == [][Offline(State, StateP, act', ret')]_vars
PropNetDown == [][NetDown(State, StateP, act', ret')]_vars
PropExplicitFailure == [][ExplicitFailure(State, StateP, act', ret')]_vars
PropExplicitFailureAsIs == [][ExplicitFailureAsIs(State, StateP, act', ret')]_vars
PropSucceeds == [][Succeeds(State, StateP, act', ret')]_vars
PropSucceedsAsIs == [][SucceedsAsIs(State, StateP, act', ret')]_vars
PropFailClean == [][FailClean(State, StateP, act', ret')]_vars
PropDownloadIff == [][DownloadIff(State, StateP, act', ret')]_vars
PropDistExact == [][DistExact(State, StateP, act', ret')]_vars
PropCacheKeyChecked == [][CacheKeyChecked(State, StateP, act', ret')]_vars
PropCacheKeyCheckedAsIs == [][CacheKeyCheckedAsIs(State, StateP, act', ret')]_vars
PropFrame == [][Frame(State, StateP, act', ret')]_vars
PropRepeatable == [][Repeatable(State, StateP, act', ret')]_vars
=============================================================================
