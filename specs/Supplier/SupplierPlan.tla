---------------------------- MODULE SupplierPlan ----------------------------
(***************************************************************************)
(* What supplier.create(cfg, sources, distribution, car, plugins) composes  *)
(* (esrally/mechanic/supplier.py: _extract_revisions, _supply_requirements, *)
(* create): function-like, Init chooses an input, Eval computes the plan.   *)
(*                                                                         *)
(* inp = [items    the --revision value as <<[c, r]>>: component ("" = none) *)
(*                 and revision token (latest, current, ts = @timestamp,    *)
(*                 brts = branch@timestamp, hash); <<>> = not given         *)
(*        sources  pipeline from-sources (distribution = ~sources)          *)
(*        dver     a distribution version is configured                     *)
(*        plugins  <<"core" | "ext" | "module">> (module = a plugin that has *)
(*                 moved into Elasticsearch: repository-s3 ...)             *)
(*        caching  source.cache, days = cache.days                          *)
(*        extcfg   which of plugin.<ext>.src.dir / .src.subdir are set      *)
(*        jdk      car variable build.jdk is an integer ("ok") or not       *)
(*        method   source.build.method default | docker]                    *)
(* plan = [err, builder, sup = <<[t, name, rev, cached, b]>>]: the suppliers *)
(* of the CompositeSupplier in order; t = EsSrc | EsDist | CoreSrc | ExtSrc |*)
(* PlDist, cached = wrapped into a CachedSourceSupplier, b = its builder.   *)
(***************************************************************************)
EXTENDS Integers, Sequences, FiniteSets, TLC

CONSTANTS Inputs

VARIABLES inp, plan, done
pvars == <<inp, plan, done>>

Components == {"elasticsearch", "all", "ext", "core", "other"}
NoRevs == [c \in Components |-> ""]
NoPlan == [err |-> "none", builder |-> "none", sup |-> <<>>]
Err(e) == [err |-> e, builder |-> "none", sup |-> <<>>]
HashLike(r) == r \notin {"latest", "current", "ts"}          \* SourceRepository.is_commit_hash: a branch@timestamp counts as a hash

(* _extract_revisions *)
Extract(items) ==
    CASE Len(items) = 0 -> [err |-> "none", m |-> NoRevs]
      [] Len(items) = 1 ->
           IF items[1].c = "" THEN [err |-> "none", m |-> [NoRevs EXCEPT !["elasticsearch"] = items[1].r, !["all"] = items[1].r]]
           ELSE [err |-> "none", m |-> [NoRevs EXCEPT ![items[1].c] = items[1].r]]
      [] OTHER ->
           IF \E i \in DOMAIN items : items[i].c = "" THEN [err |-> "SystemSetupError", m |-> NoRevs]
           ELSE [err |-> "none", m |-> [c \in Components |->
                    LET I == {i \in DOMAIN items : items[i].c = c} IN IF I = {} THEN "" ELSE items[CHOOSE i \in I : \A j \in I : j <= i].r]]

(* _supply_requirements: [t "source" | "distribution", v, err] per artifact *)
Req(t, v) == [t |-> t, v |-> v, err |-> "none"]
ReqErr == [t |-> "", v |-> "", err |-> "SystemSetupError"]
EsReq(i, m) == IF m["elasticsearch"] # "" /\ i.sources THEN Req("source", m["elasticsearch"])
               ELSE IF i.dver THEN Req("distribution", "dver") ELSE ReqErr
PluginReq(i, m, p) ==
    CASE p = "core" -> EsReq(i, m)
      [] p = "ext" ->
           IF m["ext"] # "" THEN Req("source", m["ext"])
           ELSE IF m["all"] # "" /\ i.sources THEN (IF HashLike(m["all"]) THEN ReqErr ELSE Req("source", m["all"]))
           ELSE IF i.dver THEN Req("distribution", "dver") ELSE ReqErr
      [] OTHER -> Req("skip", "")

Real(ps) == SelectSeq(ps, LAMBDA p : p # "module")

Plan(i) ==
    LET x == Extract(i.items)
        m == x.m
        es == EsReq(i, m)
        ps == Real(i.plugins)
        reqs == [k \in DOMAIN ps |-> PluginReq(i, m, ps[k])]
        build == es.t = "source" \/ \E k \in DOMAIN ps : reqs[k].t = "source"
        builder == IF ~build THEN "none" ELSE IF i.method = "docker" THEN "DockerBuilder" ELSE "Builder"
        esSup == IF es.t = "source" THEN [t |-> "EsSrc", name |-> "elasticsearch", rev |-> es.v, cached |-> i.caching, b |-> builder]
                 ELSE [t |-> "EsDist", name |-> "elasticsearch", rev |-> "dver", cached |-> FALSE, b |-> "none"]
        PlSup(k) ==
            LET p == ps[k] r == reqs[k] IN
            IF r.t = "source"
              THEN IF p = "core" THEN [t |-> "CoreSrc", name |-> p, rev |-> "", cached |-> i.caching, b |-> builder, err |-> "none"]
                   ELSE [t |-> "ExtSrc", name |-> p, rev |-> r.v, cached |-> i.caching, b |-> "Builder",
                         err |-> IF i.extcfg \in {"both", "neither"} THEN "SystemSetupError" ELSE "none"]
              ELSE [t |-> "PlDist", name |-> p, rev |-> "", cached |-> FALSE, b |-> "none",
                    err |-> IF es.t = "source" THEN "AssertionError" ELSE "none"]        \* assert repo is not None
        bad == {k \in DOMAIN ps : PlSup(k).err # "none"}
        Strip(s) == [t |-> s.t, name |-> s.name, rev |-> s.rev, cached |-> s.cached, b |-> s.b]
    IN CASE i.sources /\ i.items = <<>> -> Err("ConfigError")                      \* source.revision is mandatory for from-sources
         [] x.err # "none" -> Err(x.err)
         [] es.err # "none" -> Err(es.err)
         [] \E k \in DOMAIN ps : reqs[k].err # "none" -> Err("SystemSetupError")
         [] build /\ i.method # "docker" /\ i.jdk # "ok" -> Err("SystemSetupError")
         [] i.caching /\ i.days <= 0 -> Err("SystemSetupError")
         [] bad # {} -> Err(PlSup(CHOOSE k \in bad : \A j \in bad : k <= j).err)
         [] OTHER -> [err |-> "none", builder |-> builder, sup |-> <<esSup>> \o [k \in DOMAIN ps |-> Strip(PlSup(k))]]

Init == inp \in Inputs /\ plan = NoPlan /\ done = FALSE
Eval == ~done /\ plan' = Plan(inp) /\ done' = TRUE /\ UNCHANGED inp
Spec == Init /\ [][Eval]_pvars

(***************************************************************************)
(* Properties of a plan P for an input i                                    *)
(***************************************************************************)
Given(i, c) == \E k \in DOMAIN i.items : i.items[k].c = c
(* Elasticsearch first, then one supplier per plugin that is not a module, in the order given *)
PlanOrder(i, P) ==
    P.err = "none" => /\ Len(P.sup) = 1 + Len(Real(i.plugins))
                      /\ P.sup[1].name = "elasticsearch" /\ P.sup[1].t \in {"EsSrc", "EsDist"}
                      /\ \A k \in DOMAIN Real(i.plugins) : P.sup[k + 1].name = Real(i.plugins)[k]
(* Elasticsearch is built from sources iff the pipeline is from-sources and a revision is given for it; a core plugin follows Elasticsearch *)
PlanKinds(i, P) ==
    P.err = "none" => /\ P.sup[1].t = "EsSrc" <=> (i.sources /\ (Given(i, "elasticsearch") \/ (Len(i.items) = 1 /\ i.items[1].c = "")))
                      /\ \A k \in DOMAIN P.sup : P.sup[k].name = "core" => (P.sup[k].t = "CoreSrc" <=> P.sup[1].t = "EsSrc")
                      /\ \A k \in DOMAIN P.sup : P.sup[k].t = "PlDist" => P.sup[1].t = "EsDist"
(* the revisions are the ones asked for: qualified ones for their component, an unqualified one for Elasticsearch and (unless a hash) every plugin *)
PlanRevs(i, P) ==
    P.err = "none" =>
        \A k \in DOMAIN P.sup :
            /\ P.sup[k].t = "EsSrc" => \E j \in DOMAIN i.items : i.items[j].c \in {"", "elasticsearch"} /\ i.items[j].r = P.sup[k].rev
            /\ P.sup[k].t = "ExtSrc" => \E j \in DOMAIN i.items : /\ i.items[j].r = P.sup[k].rev
                                                                  /\ \/ i.items[j].c = "ext"
                                                                     \/ (i.items[j].c = "" /\ i.sources /\ ~HashLike(i.items[j].r))
(* source suppliers are wrapped into the artifact cache iff source.cache, downloads never; a builder exists iff something is built *)
PlanCached(i, P) ==
    P.err = "none" => /\ \A k \in DOMAIN P.sup : P.sup[k].cached <=> (i.caching /\ P.sup[k].t \in {"EsSrc", "CoreSrc", "ExtSrc"})
                      /\ (P.builder # "none") <=> \E k \in DOMAIN P.sup : P.sup[k].t \in {"EsSrc", "CoreSrc", "ExtSrc"}
                      /\ \A k \in DOMAIN P.sup : P.sup[k].t \in {"EsSrc", "CoreSrc"} => P.sup[k].b = P.builder
(* a hash given without a component never becomes the revision of an external plugin; from-sources without a revision is refused *)
PlanRefusals(i, P) ==
    /\ (i.sources /\ i.items = <<>>) => P.err # "none"
    /\ (i.caching /\ i.days <= 0) => P.err # "none"
    /\ (Len(i.items) > 1 /\ \E k \in DOMAIN i.items : i.items[k].c = "") => P.err = "SystemSetupError"
    /\ P.err \in {"none", "SystemSetupError", "ConfigError", "AssertionError"}
    /\ P.err = "AssertionError" => (i.sources /\ \E k \in DOMAIN i.plugins : i.plugins[k] = "ext")

PlanClauses(i, P) == PlanOrder(i, P) /\ PlanKinds(i, P) /\ PlanRevs(i, P) /\ PlanCached(i, P) /\ PlanRefusals(i, P)
PlanOK == done => PlanClauses(inp, plan)
=============================================================================
