SPECIFICATION Spec
CONSTANTS
  NC = 3
  MaxT = 0
  MaxGen = 2
  Versions <- VersionsQ
  Requests <- ReqThorough
  EnvActs <- EnvThorough
  DirtyAware = FALSE
  CorePluginPaired = FALSE
  TsErrorExplicit = FALSE
  PluginTsBranch = FALSE
  NetErrorExplicit = FALSE
  CacheKeyEager = FALSE
VIEW view
INVARIANT TypeOK
INVARIANT CacheKeyed
PROPERTY PropBinsShape
PROPERTY PropRevisionExact
PROPERTY PropCorePairedFetched
PROPERTY PropHitSilent
PROPERTY PropBuildIffMiss
PROPERTY PropAddedUnderKey
PROPERTY PropPruneExact
PROPERTY PropOffline
PROPERTY PropNetDown
PROPERTY PropSucceedsAsIs
PROPERTY PropExplicitFailureAsIs
PROPERTY PropFailClean
PROPERTY PropDownloadIff
PROPERTY PropDistExact
PROPERTY PropCacheKeyCheckedAsIs
PROPERTY PropFrame
PROPERTY PropRepeatable
CHECK_DEADLOCK FALSE
