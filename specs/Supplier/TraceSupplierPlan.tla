------------------------- MODULE TraceSupplierPlan -------------------------
(***************************************************************************)
(* Validates what the REAL supplier.create() composed (the suppliers of the *)
(* CompositeSupplier inspected by harness/extras/supplier.py) against        *)
(* SupplierPlan.tla.  Input (env VERIF_TRACES): JSON array of items          *)
(* [id, inp, plan].  Per item: L1 = the clauses of SupplierPlan.tla on       *)
(* (inp, recorded plan), L2 = the recorded plan is Plan(inp).                *)
(***************************************************************************)
EXTENDS SupplierPlan, Json, IOUtils

Traces == JsonDeserialize(IOEnv.VERIF_TRACES)

VARIABLES tid
tvars == <<pvars, tid>>

Clauses == {"PlanOrder", "PlanKinds", "PlanRevs", "PlanCached", "PlanRefusals"}
Holds(c, i, P) ==
    CASE c = "PlanOrder" -> PlanOrder(i, P)
      [] c = "PlanKinds" -> PlanKinds(i, P)
      [] c = "PlanRevs" -> PlanRevs(i, P)
      [] c = "PlanCached" -> PlanCached(i, P)
      [] c = "PlanRefusals" -> PlanRefusals(i, P)

TInit == inp = [items |-> <<>>] /\ plan = NoPlan /\ done = FALSE /\ tid = 1

Consume ==
    /\ tid <= Len(Traces)
    /\ LET i == Traces[tid].inp
           P == Traces[tid].plan
           l1 == {c \in Clauses : ~Holds(c, i, P)}
       IN /\ inp' = i /\ plan' = P /\ done' = TRUE
          /\ IF l1 = {} THEN TRUE ELSE PrintT(<<"V", Traces[tid].id, 1, "L1", l1>>)
          /\ IF Plan(i) = P THEN TRUE ELSE PrintT(<<"V", Traces[tid].id, 1, "L2", {}>>)
    /\ tid' = tid + 1
    /\ IF tid < Len(Traces) THEN TRUE ELSE PrintT(<<"DONE", Len(Traces), Len(Traces)>>)

TSpec == TInit /\ [][Consume]_tvars
=============================================================================
