SPECIFICATION Spec
CONSTANTS
  Inputs <- InputsT
INVARIANT PlanOK
CHECK_DEADLOCK FALSE
