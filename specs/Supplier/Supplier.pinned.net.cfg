SPECIFICATION Spec
CONSTANTS
  NC = 2
  MaxT = 0
  MaxGen = 2
  Versions <- VersionsQ
  Requests <- ReqDist
  EnvActs <- EnvDist
  DirtyAware = TRUE
  CorePluginPaired = TRUE
  TsErrorExplicit = TRUE
  PluginTsBranch = TRUE
  NetErrorExplicit = FALSE
  CacheKeyEager = TRUE
VIEW view
PROPERTY PropExplicitFailure
CHECK_DEADLOCK FALSE
