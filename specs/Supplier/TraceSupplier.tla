--------------------------- MODULE TraceSupplier ---------------------------
(***************************************************************************)
(* Validates recorded executions of the REAL suppliers                      *)
(* (supplier.create(cfg, ..)() of esrally/mechanic/supplier.py on real git  *)
(* repositories, a real artifact cache directory, a scripted download       *)
(* server; harness/extras/supplier.py) against Supplier.tla.                *)
(* Input (env VERIF_TRACES): JSON array of items [id, events: <<[a, st, ret]>>] *)
(*   a    the invocation [op "Supply", q] or the environment action [op, r, v] *)
(*   st   the world AFTERWARDS, read by the harness itself from the disk     *)
(*        (git rev-parse / status of the clones, the content of every file   *)
(*        of the artifact cache and of the distributions directory):         *)
(*        now, net, repos, cache <<[k, n, born, c, d]>>, dist / rgen <<[v, g]>>, *)
(*        junk = number of files below distributions/ that are not named    *)
(*        <artifact>-<hash of an existing commit> / by a version (L1 clause  *)
(*        CacheNamed: there are none)                                        *)
(*   ret  [err, bins, ops] of the invocation (the operations are the command  *)
(*        lines that reached esrally.utils.process / the download requests)   *)
(* For every event TLC evaluates                                            *)
(*   L1: the properties of Supplier.tla on previous state / action / recorded *)
(*       state (the clauses the code meets and, separately named, the STRONG  *)
(*       clauses of the intended behaviour),                                 *)
(*   L2: the recorded state and return value are the ones the step of the     *)
(*       specification (switches as in the cfg: the code as it is) produces.  *)
(* <<"V", id, line, "L1"|"L2", clauses>> per failing event, <<"DONE", ..>>.   *)
(***************************************************************************)
EXTENDS Supplier, Json, IOUtils

Traces == JsonDeserialize(IOEnv.VERIF_TRACES)
TraceVersions == {"8.0.0", "8.1.0-SNAPSHOT", "0.0.0"}

VARIABLES tid, l, nev
tvars == <<vars, tid, l, nev>>

CacheOf(st) == [key \in Keys |-> IF \E i \in DOMAIN st.cache : <<st.cache[i].k, st.cache[i].n>> = key
                                   THEN LET e == st.cache[CHOOSE i \in DOMAIN st.cache : <<st.cache[i].k, st.cache[i].n>> = key]
                                        IN [born |-> e.born, c |-> e.c, d |-> e.d]
                                   ELSE NoEntry]
GenOf(lst) == [v \in Versions |-> IF \E i \in DOMAIN lst : lst[i].v = v THEN lst[CHOOSE i \in DOMAIN lst : lst[i].v = v].g ELSE 0]
Recorded(st) == [now |-> st.now, net |-> st.net, repos |-> st.repos, cache |-> CacheOf(st), dist |-> GenOf(st.dist), rgen |-> GenOf(st.rgen)]

WellFormed(st) ==
    /\ \A i \in DOMAIN st.cache : st.cache[i].k \in Kinds /\ st.cache[i].n \in 1..NC /\ st.cache[i].born \in 0..MaxT /\ st.cache[i].c \in 0..NC
    /\ \A i, j \in DOMAIN st.cache : (st.cache[i].k = st.cache[j].k /\ st.cache[i].n = st.cache[j].n) => i = j
    /\ \A i \in DOMAIN st.dist : st.dist[i].v \in Versions /\ st.dist[i].g \in 1..MaxGen
    /\ \A i \in DOMAIN st.rgen : st.rgen[i].v \in Versions /\ st.rgen[i].g \in 0..MaxGen
    /\ \A r \in RepoNames : LET R == st.repos[r] IN R.rhead \in 1..NC /\ Len(R.rtime) = R.rhead /\ R.head \in 0..NC /\ R.main \in 0..NC /\ R.omain \in 0..NC
    /\ st.now \in 0..MaxT

\* the clauses the code meets ...
L1Clauses == {"CacheKeyed", "BinsShape", "RevisionExact", "CorePairedFetched", "HitSilent", "BuildIffMiss", "AddedUnderKey", "PruneExact", "Offline",
              "NetDown", "SucceedsAsIs", "ExplicitFailureAsIs", "FailClean", "DownloadIff", "DistExact", "CacheKeyCheckedAsIs", "Frame",
\* ... and the STRONG clauses of the intended behaviour (pinned by the switches)
              "CacheClean", "DirtyExact", "CorePaired", "Succeeds", "ExplicitFailure", "CacheKeyChecked"}

Holds(c, S, T, a, rt) ==
    CASE c = "CacheKeyed" -> CacheKeyedOf(T.cache)
      [] c = "CacheClean" -> CacheCleanOf(T.cache) \/ ~CacheCleanOf(S.cache)      \* reported where it arises
      [] c = "BinsShape" -> BinsShape(S, T, a, rt)
      [] c = "RevisionExact" -> RevisionExact(S, T, a, rt)
      [] c = "DirtyExact" -> DirtyExact(S, T, a, rt)
      [] c = "CorePaired" -> CorePaired(S, T, a, rt)
      [] c = "CorePairedFetched" -> CorePairedFetched(S, T, a, rt)
      [] c = "HitSilent" -> HitSilent(S, T, a, rt)
      [] c = "BuildIffMiss" -> BuildIffMiss(S, T, a, rt)
      [] c = "AddedUnderKey" -> AddedUnderKey(S, T, a, rt)
      [] c = "PruneExact" -> PruneExact(S, T, a, rt)
      [] c = "Offline" -> Offline(S, T, a, rt)
      [] c = "NetDown" -> NetDown(S, T, a, rt)
      [] c = "Succeeds" -> Succeeds(S, T, a, rt)
      [] c = "SucceedsAsIs" -> SucceedsAsIs(S, T, a, rt)
      [] c = "ExplicitFailure" -> ExplicitFailure(S, T, a, rt)
      [] c = "ExplicitFailureAsIs" -> ExplicitFailureAsIs(S, T, a, rt)
      [] c = "FailClean" -> FailClean(S, T, a, rt)
      [] c = "DownloadIff" -> DownloadIff(S, T, a, rt)
      [] c = "DistExact" -> DistExact(S, T, a, rt)
      [] c = "CacheKeyChecked" -> CacheKeyChecked(S, T, a, rt)
      [] c = "CacheKeyCheckedAsIs" -> CacheKeyCheckedAsIs(S, T, a, rt)
      [] c = "Frame" -> Frame(S, T, a, rt)

Conforms(S, T, a, rt) ==
    IF a.op = "Supply" THEN Askable(S, a.q) /\ SupplyStep(S, a.q) = [S |-> T, ret |-> rt]
    ELSE EnvEnabled(S, a) /\ T = EnvStep(S, a) /\ rt = NoRet

TInit == Init /\ tid = 1 /\ l = 1 /\ nev = 0

Consume ==
    /\ tid <= Len(Traces)
    /\ l <= Len(Traces[tid].events)
    /\ LET e == Traces[tid].events[l]
           a == e.a
           S == State
           T == Recorded(e.st)
           rt == e.ret
       IN /\ Bind(T)
          /\ act' = a /\ ret' = rt
          /\ IF ~WellFormed(e.st) THEN PrintT(<<"V", Traces[tid].id, l, "L2", {}>>)
             ELSE LET l1 == {c \in L1Clauses : ~Holds(c, S, T, a, rt)} \cup (IF e.st.junk > 0 THEN {"CacheNamed"} ELSE {})
                  IN /\ IF l1 = {} THEN TRUE ELSE PrintT(<<"V", Traces[tid].id, l, "L1", l1>>)
                     /\ IF Conforms(S, T, a, rt) /\ e.st.junk = 0 THEN TRUE ELSE PrintT(<<"V", Traces[tid].id, l, "L2", {}>>)
    /\ l' = l + 1 /\ nev' = nev + 1 /\ tid' = tid

NextTrace ==
    /\ tid <= Len(Traces)
    /\ l > Len(Traces[tid].events)
    /\ now' = 0 /\ net' = TRUE /\ repos' = [r \in RepoNames |-> Repo0] /\ cache' = [key \in Keys |-> NoEntry]
    /\ dist' = [v \in Versions |-> 0] /\ rgen' = [v \in Versions |-> IF v = "0.0.0" THEN 0 ELSE 1]
    /\ act' = [op |-> "Init"] /\ ret' = NoRet
    /\ tid' = tid + 1 /\ l' = 1 /\ nev' = nev
    /\ IF tid < Len(Traces) THEN TRUE ELSE PrintT(<<"DONE", Len(Traces), nev>>)

TNext == Consume \/ NextTrace
TSpec == TInit /\ [][TNext]_tvars
=============================================================================
