SPECIFICATION Spec
CONSTANTS
  NC = 2
  MaxT = 2
  MaxGen = 2
  Versions <- VersionsT
  Requests <- ReqDistT
  EnvActs <- EnvDistT
  DirtyAware = FALSE
  CorePluginPaired = FALSE
  TsErrorExplicit = FALSE
  PluginTsBranch = FALSE
  NetErrorExplicit = FALSE
  CacheKeyEager = FALSE
VIEW view
INVARIANT TypeOK
CHECK_DEADLOCK FALSE
