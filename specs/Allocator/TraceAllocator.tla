--------------------------- MODULE TraceAllocator ---------------------------
(***************************************************************************)
(* Validates results recorded from the real esrally code:                   *)
(*  "alloc"  items [id, kind, s, m, jps, tpj, clients, l2]: schedule s (as   *)
(*           projected from the real track objects handed to Allocator),    *)
(*           m = Allocator.allocations, jps = Allocator.join_points,        *)
(*           tpj = Allocator.tasks_per_joinpoint (lists of task names),     *)
(*           clients = Allocator.clients, walk = "ok" | "fail" | "na": did  *)
(*           the real Driver.update_progress_message find an entry for      *)
(*           every step 0..len(join_points)-2;                              *)
(*  "assign" items [id, kind, hosts, n, a, l2]: a = calculate_worker_       *)
(*           assignments(hosts, n);                                         *)
(*  "start"  items [id, kind, hosts, n, a, created, sent, cpw, l2]: the real *)
(*           Driver.start_benchmark run with a recording driver actor on    *)
(*           load-driver hosts `hosts` and a schedule needing n clients:    *)
(*           created / sent as described in Allocator.tla (recorded at call *)
(*           time), a = the real calculate_worker_assignments(hosts, n),    *)
(*           cpw = Driver.clients_per_worker by client id.                  *)
(* Verdict lines are printed one per failing clause: TLC wraps values wider *)
(* than 80 columns over several lines, which the harness cannot parse.      *)
(* L1: the clauses of property C02 on the recorded values.                  *)
(* L2: the recorded values equal the transcription (skipped if ~l2).        *)
(***************************************************************************)
EXTENDS Allocator, TLC, Json, IOUtils

Items == JsonDeserialize(IOEnv.VERIF_TRACES)

VARIABLES i
TInit == i = 1

Check(it) ==
    IF it.kind = "alloc" THEN
        LET tpj == AsSeq([k \in 1..Len(it.tpj) |-> SeqToSet(it.tpj[k])])
            l1 == AllocFailing(it.s, it.m, it.jps, tpj)
                  \cup (IF it.walk = "fail" THEN {"DriverWalksEveryStep"} ELSE {})
            am == Alloc(it.s)
            l2 == ~it.l2 \/ (/\ it.m = am
                             /\ it.jps = JoinPoints(am)
                             /\ tpj = TasksPerJP(am)
                             /\ it.clients = MaxClients(it.s))
        IN /\ \A c \in l1 : PrintT(<<"V", it.id, 1, "L1", {c}>>)
           /\ IF l1 # {} \/ l2 THEN TRUE ELSE PrintT(<<"V", it.id, 1, "L2", {}>>)
    ELSE IF it.kind = "start" THEN
        LET l1 == StartFailing(it.n, it.a, it.created, it.sent)
            plan == StartPlan(Assign(it.hosts, it.n))
            l2 == ~it.l2 \/ (/\ it.created = PlanCreated(plan)
                             /\ it.sent = PlanSent(plan)
                             /\ it.cpw = ClientsPerWorker(it.n, plan))
        IN /\ \A c \in l1 : PrintT(<<"V", it.id, 1, "L1", {c}>>)
           /\ IF l1 # {} \/ l2 THEN TRUE ELSE PrintT(<<"V", it.id, 1, "L2", {}>>)
    ELSE
        LET l1 == AssignFailing(it.hosts, it.n, it.a)
            l2 == ~it.l2 \/ it.a = Assign(it.hosts, it.n)
        IN /\ \A c \in l1 : PrintT(<<"V", it.id, 1, "L1", {c}>>)
           /\ IF l1 # {} \/ l2 THEN TRUE ELSE PrintT(<<"V", it.id, 1, "L2", {}>>)

TNext == /\ i <= Len(Items)
         /\ Check(Items[i])
         /\ i' = i + 1
         /\ IF i < Len(Items) THEN TRUE ELSE PrintT(<<"DONE", Len(Items), Len(Items)>>)

TSpec == TInit /\ [][TNext]_i
=============================================================================
