\* inputs as they arise while TaskFilterTrackProcessor leaves emptied parallel elements in the schedule
\* (before the fix): the allocator has one more step than progress entries. Self-test only.
SPECIFICATION Spec
CONSTANTS
  AllocFamilies <- AllocWithEmpty
  AssignFamilies <- NoAssign
INVARIANT PropertyHolds
CHECK_DEADLOCK FALSE
