SPECIFICATION Spec
CONSTANTS
  AllocFamilies <- AllocThorough
  AssignFamilies <- AssignThorough
INVARIANT PropertyHolds
INVARIANT ModelSanity
CHECK_DEADLOCK FALSE
