SPECIFICATION Spec
CONSTANTS
  AllocFamilies <- AllocThorough
  AssignFamilies <- AssignThorough
INVARIANT PropertyHolds
INVARIANT ModelSanity
INVARIANT StartSelfTest
CHECK_DEADLOCK FALSE
