SPECIFICATION Spec
CONSTANTS
  AllocFamilies <- AllocQuick
  AssignFamilies <- AssignQuick
INVARIANT PropertyHolds
INVARIANT ModelSanity
INVARIANT StartSelfTest
CHECK_DEADLOCK FALSE
