SPECIFICATION Spec
CONSTANTS
  AllocFamilies <- AllocQuick
  AssignFamilies <- AssignQuick
INVARIANT PropertyHolds
INVARIANT ModelSanity
CHECK_DEADLOCK FALSE
