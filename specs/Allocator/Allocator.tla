------------------------------ MODULE Allocator ------------------------------
(***************************************************************************)
(* Which client runs which task (esrally.driver.driver.Allocator) and which *)
(* worker process on which load-driver host simulates which client          *)
(* (esrally.driver.driver.calculate_worker_assignments).                    *)
(*                                                                         *)
(* PURE OPERATOR MODULE: no CONSTANTS, no VARIABLES, so that it can be      *)
(* reused with a plain `EXTENDS Allocator` / `INSTANCE Allocator` (by       *)
(* TaskFilter.tla for "the filtered schedule is runnable" and by the        *)
(* actor-protocol model of the driver).  The function-like state machine    *)
(* that enumerates inputs for property C02 lives in MC_Allocator.tla.       *)
(*                                                                         *)
(* FORMATS                                                                  *)
(*   schedule  = sequence of elements (challenge.schedule)                  *)
(*   element   = leaf task | parallel                                       *)
(*   leaf task = [k |-> "task", name, type, tags, clients, cp, acp]          *)
(*               name    task name (unique within a schedule, the loader    *)
(*                       rejects duplicates)                                *)
(*               type    operation type (string), tags sequence of strings  *)
(*               clients >= 1                                               *)
(*               cp      track.Task.completes_parent   (the parallel's      *)
(*                       completed-by names this task)                      *)
(*               acp     track.Task.any_completes_parent (completed-by: any)*)
(*               (records may carry further fields, they are passed through)*)
(*   parallel  = [k |-> "par", cap, tasks]                                   *)
(*               cap   the parallel's own `clients` value, 0 = not given    *)
(*               tasks sequence of leaf tasks (empty only if a task filter  *)
(*                     removed every task)                                  *)
(*   Use LeafTask(..) and ParallelOf(cap, completedBy, tasks) to build them *)
(*   the way track.loader does (completed-by -> cp / acp flags).            *)
(*                                                                         *)
(*   allocation matrix m = Alloc(schedule): m[c+1] is the row of client c   *)
(*   (Python client ids are 0-based), every row a sequence of cells         *)
(*   cell = [k |-> "jp", id, cby, any]   driver.JoinPoint: id 0..#elements,  *)
(*              cby = clients_executing_completing_task (sequence of        *)
(*              physical client ids in allocation order, repeats possible), *)
(*              any = any_task_completes_parent (same)                      *)
(*        | [k |-> "task", task, idx, gidx, total]   driver.TaskAllocation:  *)
(*              task name, client_index_in_task, global_client_index,       *)
(*              total_clients (= clients of the enclosing element)          *)
(*        | [k |-> "none"]               padding (Python None)              *)
(*   JoinPoints(m)  = Allocator.join_points        (sequence of jp cells)   *)
(*   TasksPerJP(m)  = Allocator.tasks_per_joinpoint (sequence of sets of    *)
(*                    task names; entry k = tasks of step k)                *)
(*                                                                         *)
(*   hosts = sequence of [host, cores]; Assign(hosts, n) = sequence of      *)
(*   [host, workers] with workers a sequence (one per core) of sequences of *)
(*   client ids.  StartPlan(a) = the workers Driver.start_benchmark creates *)
(*   and the clients whose allocation rows each StartWorker message carries *)
(*   (see the section at the end).                                          *)
(***************************************************************************)
EXTENDS Integers, Sequences, FiniteSets

AMax(a, b) == IF a >= b THEN a ELSE b
AMin(a, b) == IF a <= b THEN a ELSE b
SeqToSet(q) == {q[i] : i \in 1..Len(q)}
(* The identity on sequences.  TLC evaluates a function constructor [i \in 1..n |-> e] lazily (e is recomputed on *)
(* every application); concatenation turns it into an explicit tuple once.                                        *)
AsSeq(f) == f \o <<>>

NoneCell == [k |-> "none"]
LeafTask(name, type, tags, clients) ==
    [k |-> "task", name |-> name, type |-> type, tags |-> tags, clients |-> clients, cp |-> FALSE, acp |-> FALSE]
(* loader.parse_task: completes_parent = (task_name == completed_by), any_completes_parent = (completed_by == "any") *)
ParallelOf(cap, completedBy, ts) ==
    [k |-> "par", cap |-> cap,
     tasks |-> [i \in 1..Len(ts) |-> [ts[i] EXCEPT !.cp = (ts[i].name = completedBy), !.acp = (completedBy = "any")]]]

Leaves(el) == IF el.k = "par" THEN el.tasks ELSE <<el>>
AllLeaves(s) == LET F[i \in 0..Len(s)] == IF i = 0 THEN <<>> ELSE F[i-1] \o Leaves(s[i]) IN F[Len(s)]
LeafNames(el) == {Leaves(el)[j].name : j \in 1..Len(Leaves(el))}
HasEmptyParallel(s) == \E i \in 1..Len(s) : s[i].k = "par" /\ s[i].tasks = <<>>

SumClients(ts) == LET S[i \in 0..Len(ts)] == IF i = 0 THEN 0 ELSE S[i-1] + ts[i].clients IN S[Len(ts)]
(* track.Parallel.clients: the cap if given, else the sum over the sub-tasks; track.Task.clients *)
ElClients(el) == IF el.k = "par" /\ el.cap # 0 THEN el.cap ELSE SumClients(Leaves(el))
(* Allocator.clients: max_clients = 1; for task in schedule: max(max_clients, task.clients) *)
MaxClients(s) == LET M[i \in 0..Len(s)] == IF i = 0 THEN 1 ELSE AMax(M[i-1], ElClients(s[i])) IN M[Len(s)]

-----------------------------------------------------------------------------
(***************************************************************************)
(* Transcription of Allocator.allocations.                                  *)
(* Owners(ts)[g+1] = index of the sub-task whose loop body runs for the     *)
(* logical client index g (`for sub_task in task: for client_index in       *)
(* range(start_client_index, start_client_index + sub_task.clients)`).      *)
(***************************************************************************)
StartIdx(ts, j) == SumClients(SubSeq(ts, 1, j - 1))
Owners(ts) == AsSeq([n \in 1..SumClients(ts) |->
                 CHOOSE j \in 1..Len(ts) : StartIdx(ts, j) < n /\ n <= StartIdx(ts, j) + ts[j].clients])

(* the TaskAllocation objects of one element in the order they are created; gidx = logical client index *)
Logical(el) ==
    LET ts == Leaves(el)
        ow == Owners(ts)
        tot == ElClients(el)
    IN AsSeq([n \in 1..Len(ow) |->
          [k |-> "task", task |-> ts[ow[n]].name, idx |-> (n - 1) - StartIdx(ts, ow[n]), gidx |-> n - 1, total |-> tot]])

(* physical_client_index = client_index % max_clients of the logical indices whose sub-task satisfies P *)
PhysOf(ts, M, P(_)) ==
    LET ow == Owners(ts)
        sel == SelectSeq([n \in 1..Len(ow) |-> n], LAMBDA n : P(ts[ow[n]]))
    IN AsSeq([i \in 1..Len(sel) |-> (sel[i] - 1) % M])

JPCell(id, cby, any) == [k |-> "jp", id |-> id, cby |-> cby, any |-> any]
(* `if sub_task.completes_parent: ... elif sub_task.any_completes_parent: ...` *)
JPAfter(id, el, M) ==
    JPCell(id, PhysOf(Leaves(el), M, LAMBDA t : t.cp), PhysOf(Leaves(el), M, LAMBDA t : ~t.cp /\ t.acp))

(* what one element appends to the row of client c (0-based): its allocations, then the None padding *)
(* `if start_client_index % max_clients > 0: for client_index in range(start_client_index % max_clients, max_clients)` *)
Column(L, M, c) ==
    SelectSeq(L, LAMBDA x : x.gidx % M = c)
    \o (IF Len(L) % M > 0 /\ c >= Len(L) % M THEN <<NoneCell>> ELSE <<>>)

Alloc(s) ==
    LET M == MaxClients(s)
        Ls == AsSeq([i \in 1..Len(s) |-> Logical(s[i])])
        Js == AsSeq([i \in 1..Len(s) |-> JPAfter(i, s[i], M)])
        Row(c) == LET R[i \in 0..Len(s)] ==
                          IF i = 0 THEN <<JPCell(0, <<>>, <<>>)>>
                          ELSE R[i-1] \o Column(Ls[i], M, c) \o <<Js[i]>>
                  IN R[Len(s)]
    IN AsSeq([c \in 1..M |-> Row(c - 1)])

(* Allocator.join_points: the JoinPoint entries of client 0 *)
JoinPoints(m) == SelectSeq(m[1], LAMBDA x : x.k = "jp")

(* Allocator.tasks_per_joinpoint: column by column, client by client; a join point closes the current set *)
(* only if that set is not empty (`elif isinstance(allocation, JoinPoint) and len(current_tasks) > 0`).    *)
TasksPerJP(m) ==
    LET M == Len(m)
        W == Len(m[1])
        Cell(n) == m[((n - 1) % M) + 1][((n - 1) \div M) + 1]
        R[n \in 0..(M * W)] ==
            IF n = 0 THEN [tasks |-> <<>>, cur |-> {}]
            ELSE LET p == R[n-1]
                     x == Cell(n)
                 IN IF x.k = "task" THEN [p EXCEPT !.cur = @ \cup {x.task}]
                    ELSE IF x.k = "jp" /\ p.cur # {} THEN [tasks |-> Append(p.tasks, p.cur), cur |-> {}]
                    ELSE p
    IN R[M * W].tasks

(* Driver.start_benchmark: number_of_steps = len(allocator.join_points) - 1 *)
NumberOfSteps(m) == Len(JoinPoints(m)) - 1

-----------------------------------------------------------------------------
(***************************************************************************)
(* Transcription of calculate_worker_assignments(host_configs, client_count)*)
(***************************************************************************)
WorkerLoad(m, k, w) == (m \div k) + (IF w < m % k THEN 1 ELSE 0)   \* clients_per_worker[c % workers] += 1 for c in range(m); w 0-based
HostWorkers(m, k, first) ==
    LET Off[w \in 0..k] == IF w = 0 THEN first ELSE Off[w-1] + WorkerLoad(m, k, w - 1)
    IN AsSeq([w \in 1..k |-> AsSeq([i \in 1..WorkerLoad(m, k, w - 1) |-> Off[w-1] + i - 1])])

Assign(hosts, n) ==
    LET H == Len(hosts)
        cph == (n + H - 1) \div H                      \* math.ceil(client_count / host_count)
        R[h \in 0..H] ==
            IF h = 0 THEN [rem |-> n, idx |-> 0, out |-> <<>>]
            ELSE LET p == R[h-1]
                     m == AMin(cph, p.rem)             \* clients_on_this_host
                 IN [rem |-> p.rem - m, idx |-> p.idx + m,
                     out |-> Append(p.out, [host |-> hosts[h].host, workers |-> HostWorkers(m, hosts[h].cores, p.idx)])]
    IN R[H].out

-----------------------------------------------------------------------------
(***************************************************************************)
(* Property C02, allocation part, as predicates over (schedule s, matrix m, *)
(* join points jps, progress entries tpj) so that they can be evaluated on  *)
(* values recorded from the implementation.                                 *)
(***************************************************************************)
Rectangular(m) == Len(m) >= 1 /\ \A c \in 1..Len(m) : Len(m[c]) = Len(m[1])

(* every column that holds a join point holds the same one on every client *)
JPAligned(m) ==
    \A i \in 1..Len(m[1]) :
        (\E c \in 1..Len(m) : m[c][i].k = "jp") =>
            \A c \in 1..Len(m) : m[c][i].k = "jp" /\ m[c][i].id = m[1][i].id

(* One row cut at its join points: sequence of segments [b, a, cells]; b / a = id of the join point that  *)
(* opens / closes the segment (-1: none), cells = the task cells in between.                              *)
RowSegments(row) ==
    LET R[i \in 0..Len(row)] ==
            IF i = 0 THEN [segs |-> <<>>, b |-> -1, cells |-> <<>>]
            ELSE LET p == R[i-1]
                     x == row[i]
                 IN IF x.k = "jp" THEN [segs |-> Append(p.segs, [b |-> p.b, a |-> x.id, cells |-> p.cells]), b |-> x.id, cells |-> <<>>]
                    ELSE IF x.k = "task" THEN [p EXCEPT !.cells = Append(@, x)]
                    ELSE p
        e == R[Len(row)]
    IN IF e.cells = <<>> THEN e.segs ELSE Append(e.segs, [b |-> e.b, a |-> -1, cells |-> e.cells])

(* every task cell of the matrix with the join points left and right of it on its client: *)
(* set of [c, g, n, task, idx, b, a] (client row, segment, position in the segment)       *)
Facts(m) ==
    UNION {LET sg == RowSegments(m[c])
           IN UNION {{[c |-> c, g |-> g, n |-> n, task |-> sg[g].cells[n].task, idx |-> sg[g].cells[n].idx, b |-> sg[g].b, a |-> sg[g].a]
                        : n \in 1..Len(sg[g].cells)} : g \in 1..Len(sg)}
             : c \in 1..Len(m)}

(* each task occupies exactly `clients` cells and its client indices are 0..clients-1, each exactly once; *)
(* no cell belongs to a task that is not in the schedule                                                   *)
IndicesExactlyOnceF(s, F) ==
    LET ls == AllLeaves(s)
    IN /\ \A j \in 1..Len(ls) :
             LET mine == {f \in F : f.task = ls[j].name}
             IN /\ Cardinality(mine) = ls[j].clients
                /\ {f.idx : f \in mine} = 0..(ls[j].clients - 1)
       /\ {f.task : f \in F} \subseteq {ls[j].name : j \in 1..Len(ls)}
IndicesExactlyOnce(s, m) == IndicesExactlyOnceF(s, Facts(m))

(* all tasks of one schedule element lie between the same pair of join points on every client *)
SameIntervalF(s, F) ==
    \A e \in 1..Len(s) :
        LET names == LeafNames(s[e])
            pairs == {<<f.b, f.a>> : f \in {x \in F : x.task \in names}}
        IN /\ Cardinality(pairs) <= 1
           /\ \A pr \in pairs : pr[1] # -1 /\ pr[2] # -1
SameInterval(s, m) == SameIntervalF(s, Facts(m))

(* one progress entry per step (the race walks len(join_points)-1 steps and reads entry current_step), *)
(* none of them empty                                                                                   *)
OneEntryPerStep(jps, tpj) == Len(tpj) = Len(jps) - 1 /\ \A k \in 1..Len(tpj) : tpj[k] # {}
(* entry k names exactly the tasks that the clients execute in step k, i.e. after join point jps[k] *)
EntryIsStepF(F, jps, tpj) ==
    \A k \in 1..AMin(Len(tpj), Len(jps) - 1) : tpj[k] = {f.task : f \in {x \in F : x.b = jps[k].id}}
EntryIsStep(m, jps, tpj) == EntryIsStepF(Facts(m), jps, tpj)
(* the entries are the schedule's elements (those that have tasks), in schedule order *)
NonEmptyElems(s) == SelectSeq(s, LAMBDA el : Leaves(el) # <<>>)
EntriesAreElements(s, tpj) ==
    /\ Len(tpj) = Len(NonEmptyElems(s))
    /\ \A k \in 1..Len(tpj) : tpj[k] = LeafNames(NonEmptyElems(s)[k])

AllocClauses == {"Rectangular", "JPAligned", "IndicesExactlyOnce", "SameInterval", "OneEntryPerStep", "EntryIsStep", "EntriesAreElements"}
AllocHoldsF(c, s, m, F, jps, tpj) ==
    CASE c = "Rectangular" -> Rectangular(m)
      [] c = "JPAligned" -> JPAligned(m)
      [] c = "IndicesExactlyOnce" -> IndicesExactlyOnceF(s, F)
      [] c = "SameInterval" -> SameIntervalF(s, F)
      [] c = "OneEntryPerStep" -> OneEntryPerStep(jps, tpj)
      [] c = "EntryIsStep" -> EntryIsStepF(F, jps, tpj)
      [] c = "EntriesAreElements" -> EntriesAreElements(s, tpj)
(* the matrix clauses are only meaningful (and total) on a rectangular matrix *)
AllocFailing(s, m, jps, tpj) ==
    IF ~Rectangular(m) THEN {"Rectangular"}
    ELSE LET F == Facts(m) IN {c \in AllocClauses : ~AllocHoldsF(c, s, m, F, jps, tpj)}

(* C02 for the specification's own allocation of s (used by TaskFilter: "the filtered schedule is runnable") *)
AllocFailingSpec(s) == LET m == Alloc(s) IN AllocFailing(s, m, JoinPoints(m), TasksPerJP(m))

-----------------------------------------------------------------------------
(***************************************************************************)
(* Property C02, worker assignment part: predicates over (hosts, n, a).     *)
(***************************************************************************)
Flat(a) == LET ws == LET F[h \in 0..Len(a)] == IF h = 0 THEN <<>> ELSE F[h-1] \o a[h].workers IN F[Len(a)]
               G[w \in 0..Len(ws)] == IF w = 0 THEN <<>> ELSE G[w-1] \o ws[w]
           IN G[Len(ws)]

HostsKept(hosts, a) == Len(a) = Len(hosts) /\ \A h \in 1..Len(a) : a[h].host = hosts[h].host
(* client ids 0..n-1, none lost, none duplicated *)
ExactPartition(n, a) == Len(Flat(a)) = n /\ SeqToSet(Flat(a)) = 0..(n - 1)
(* every worker simulates a contiguous ascending range of client ids *)
ContiguousRanges(a) ==
    \A h \in 1..Len(a) : \A w \in 1..Len(a[h].workers) :
        \A i \in 1..(Len(a[h].workers[w]) - 1) : a[h].workers[w][i+1] = a[h].workers[w][i] + 1
(* at most one worker (that gets clients, only those are started) per core *)
Started(ws) == {w \in 1..Len(ws) : ws[w] # <<>>}
OneWorkerPerCore(hosts, a) == \A h \in 1..Len(a) : Cardinality(Started(a[h].workers)) <= hosts[h].cores
(* worker loads on one host differ by at most one client; a core without a worker counts as load 0 *)
BalancedOnHost(hosts, a) ==
    \A h \in 1..Len(a) :
        LET ws == a[h].workers
            loads == {Len(ws[w]) : w \in Started(ws)} \cup (IF Cardinality(Started(ws)) < hosts[h].cores THEN {0} ELSE {})
        IN \A x, y \in loads : x - y <= 1

AssignClauses == {"HostsKept", "ExactPartition", "ContiguousRanges", "OneWorkerPerCore", "BalancedOnHost"}
AssignHolds(c, hosts, n, a) ==
    CASE c = "HostsKept" -> HostsKept(hosts, a)
      [] c = "ExactPartition" -> ExactPartition(n, a)
      [] c = "ContiguousRanges" -> ContiguousRanges(a)
      [] c = "OneWorkerPerCore" -> OneWorkerPerCore(hosts, a)
      [] c = "BalancedOnHost" -> BalancedOnHost(hosts, a)
AssignFailing(hosts, n, a) ==
    IF ~HostsKept(hosts, a) THEN {"HostsKept"}
    ELSE {c \in AssignClauses : ~AssignHolds(c, hosts, n, a)}

-----------------------------------------------------------------------------
(***************************************************************************)
(* Driver.start_benchmark: what is actually handed to the worker processes. *)
(* For every NON-EMPTY entry of the assignment one worker is created on     *)
(* that host (driver_actor.create_client(host, cfg, worker_id), worker ids  *)
(* 0, 1, ... in creation order) and started with a ClientAllocations object *)
(* holding the allocation rows of exactly its clients                       *)
(* (driver_actor.start_worker -> StartWorker message).                      *)
(*   plan entry / StartWorker = [wid, host, clients]                        *)
(* Recorded from the implementation (at the time of the call, as the actor  *)
(* system serialises the message when it is sent):                          *)
(*   created = sequence of [wid, host]             (create_client calls)    *)
(*   sent    = sequence of [wid, host, rows, rowok, ctx] (start_worker      *)
(*             calls): rows = client ids of the allocation rows in the      *)
(*             message, rowok = every such row is that client's row of the  *)
(*             allocation matrix, ctx = client ids of the client contexts,  *)
(*             host = host of the created worker the message goes to.       *)
(***************************************************************************)
AllWorkers(a) ==
    LET F[h \in 0..Len(a)] ==
            IF h = 0 THEN <<>>
            ELSE F[h-1] \o AsSeq([w \in 1..Len(a[h].workers) |-> [host |-> a[h].host, clients |-> a[h].workers[w]]])
    IN F[Len(a)]
NonEmptyWorkers(a) == SelectSeq(AllWorkers(a), LAMBDA x : x.clients # <<>>)   \* `if len(clients) > 0:`
StartPlan(a) ==
    LET ne == NonEmptyWorkers(a)
    IN AsSeq([k \in 1..Len(ne) |-> [wid |-> k - 1, host |-> ne[k].host, clients |-> ne[k].clients]])
(* Driver.clients_per_worker as a sequence indexed by client id + 1 *)
ClientsPerWorker(n, plan) ==
    AsSeq([c \in 1..n |-> LET ks == {k \in 1..Len(plan) : (c - 1) \in SeqToSet(plan[k].clients)}
                          IN IF ks = {} THEN -1 ELSE plan[CHOOSE k \in ks : TRUE].wid])

SentFlat(sent) == LET G[k \in 0..Len(sent)] == IF k = 0 THEN <<>> ELSE G[k-1] \o sent[k].rows IN G[Len(sent)]
(* the rows sent to the workers partition the client ids 0..n-1: none lost, none simulated by two workers *)
RowsPartitionClients(n, sent) == Len(SentFlat(sent)) = n /\ SeqToSet(SentFlat(sent)) = 0..(n - 1)
(* every worker gets exactly the clients that the assignment a gives to it, on the host it is assigned to *)
WorkerGetsAssignedClients(a, sent) ==
    /\ Len(sent) = Len(NonEmptyWorkers(a))
    /\ {[host |-> sent[k].host, clients |-> sent[k].rows] : k \in 1..Len(sent)} = SeqToSet(NonEmptyWorkers(a))
(* workers without clients are not created; every created worker is started exactly once *)
NoWorkerWithoutClients(created, sent) ==
    /\ \A k \in 1..Len(sent) : sent[k].rows # <<>>
    /\ \A x, y \in 1..Len(created) : created[x].wid = created[y].wid => x = y
    /\ \A x \in 1..Len(created) : Cardinality({k \in 1..Len(sent) : sent[k].wid = created[x].wid}) = 1
    /\ \A k \in 1..Len(sent) : \E x \in 1..Len(created) : created[x].wid = sent[k].wid /\ created[x].host = sent[k].host
(* the row sent for client c is client c's row of the allocation matrix *)
SentRowIsClientsRow(sent) == \A k \in 1..Len(sent) : sent[k].rowok

StartClauses == {"RowsPartitionClients", "WorkerGetsAssignedClients", "NoWorkerWithoutClients", "SentRowIsClientsRow"}
StartHolds(c, n, a, created, sent) ==
    CASE c = "RowsPartitionClients" -> RowsPartitionClients(n, sent)
      [] c = "WorkerGetsAssignedClients" -> WorkerGetsAssignedClients(a, sent)
      [] c = "NoWorkerWithoutClients" -> NoWorkerWithoutClients(created, sent)
      [] c = "SentRowIsClientsRow" -> SentRowIsClientsRow(sent)
StartFailing(n, a, created, sent) == {c \in StartClauses : ~StartHolds(c, n, a, created, sent)}

(* what the transcription creates / sends for the assignment a *)
PlanCreated(plan) == AsSeq([k \in 1..Len(plan) |-> [wid |-> plan[k].wid, host |-> plan[k].host]])
PlanSent(plan) ==
    AsSeq([k \in 1..Len(plan) |-> [wid |-> plan[k].wid, host |-> plan[k].host, rows |-> plan[k].clients, rowok |-> TRUE, ctx |-> plan[k].clients]])
=============================================================================
