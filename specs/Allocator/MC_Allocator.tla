---------------------------- MODULE MC_Allocator ----------------------------
(***************************************************************************)
(* Function-like state machine for property C02 over the pure operators of  *)
(* Allocator.tla: Init chooses an input (a schedule, or a host list with a  *)
(* client count), Eval computes the transcription's result, PropertyHolds   *)
(* states C02 on it.  Every reachable state is one implementation test      *)
(* (harness/drivers/c02.py).  Also defines the bounded input sets.          *)
(***************************************************************************)
EXTENDS Allocator, TLC

CONSTANTS AllocFamilies,  \* set of [E |-> set of raw elements, n |-> max. number of elements]
          AssignFamilies  \* set of [h |-> max. hosts, cores |-> set of core counts, n |-> max. clients]

VARIABLES inp, out, done
vars == <<inp, out, done>>

Names == << <<"a1", "a2", "a3">>, <<"b1", "b2", "b3">>, <<"c1", "c2", "c3">> >>
HostNames == <<"h1", "h2", "h3", "h4", "h5">>

(* raw element: leaf = [par |-> FALSE, cl |-> <<clients>>], parallel = [par |-> TRUE, cap, cb, cl] with *)
(* cb = 0 no completed-by, -1 "any", j > 0 the j-th task; cl = clients per task.  Names are positional.  *)
Mk(r, i) ==
    IF ~r.par THEN LeafTask(Names[i][1], "bulk", <<>>, r.cl[1])
    ELSE ParallelOf(r.cap,
                    IF r.cb = 0 THEN "" ELSE IF r.cb = -1 THEN "any" ELSE Names[i][r.cb],
                    [j \in 1..Len(r.cl) |-> LeafTask(Names[i][j], "bulk", <<>>, r.cl[j])])

Init == /\ \/ \E fam \in AllocFamilies : \E n \in 0..fam.n : \E q \in [1..n -> fam.E] :
                  inp = [kind |-> "alloc", s |-> [i \in 1..n |-> Mk(q[i], i)]]
           \/ \E fam \in AssignFamilies : \E nh \in 1..fam.h : \E q \in [1..nh -> fam.cores] : \E n \in 1..fam.n :
                  inp = [kind |-> "assign", hosts |-> [h \in 1..nh |-> [host |-> HostNames[h], cores |-> q[h]]], n |-> n]
        /\ out = <<>>
        /\ done = FALSE

Eval == /\ ~done
        /\ out' = IF inp.kind = "alloc"
                  THEN LET m == Alloc(inp.s) IN [m |-> m, jps |-> JoinPoints(m), tpj |-> TasksPerJP(m)]
                  ELSE LET a == Assign(inp.hosts, inp.n) IN [a |-> a, plan |-> StartPlan(a)]
        /\ done' = TRUE
        /\ UNCHANGED inp

Spec == Init /\ [][Eval]_vars

PropertyHolds ==
    done => IF inp.kind = "alloc" THEN AllocFailing(inp.s, out.m, out.jps, out.tpj) = {}
            ELSE /\ AssignFailing(inp.hosts, inp.n, out.a) = {}
                 /\ StartFailing(inp.n, out.a, PlanCreated(out.plan), PlanSent(out.plan)) = {}

(* structural facts of the transcription that are not part of the property statement (model sanity) *)
ModelSanity ==
    (done /\ inp.kind = "alloc") =>
        /\ Len(out.m) = MaxClients(inp.s)
        /\ Len(out.jps) = Len(inp.s) + 1
        /\ \A k \in 1..Len(out.jps) : out.jps[k].id = k - 1
        /\ (~HasEmptyParallel(inp.s) => Len(out.tpj) = Len(inp.s))

(* self-test of the start clauses: a container that is only reset per host (the k-th worker of a host also gets the  *)
(* rows of the earlier workers of that host) must be rejected wherever a host has two workers with clients           *)
CumulativeSent(plan) ==
    AsSeq([k \in 1..Len(plan) |->
        LET G[j \in 0..k] == IF j = 0 THEN <<>>
                             ELSE G[j-1] \o (IF plan[j].host = plan[k].host THEN plan[j].clients ELSE <<>>)
        IN [wid |-> plan[k].wid, host |-> plan[k].host, rows |-> G[k], rowok |-> TRUE, ctx |-> plan[k].clients]])
StartSelfTest ==
    (done /\ inp.kind = "assign") =>
        LET twoOnAHost == \E x, y \in 1..Len(out.plan) : x # y /\ out.plan[x].host = out.plan[y].host
        IN twoOnAHost <=> StartFailing(inp.n, out.a, PlanCreated(out.plan), CumulativeSent(out.plan)) # {}

-----------------------------------------------------------------------------
(* bounded input sets *)
RawLeaves(CL) == {[par |-> FALSE, cap |-> 0, cb |-> 0, cl |-> <<c>>] : c \in CL}
RawPars(CL, lo, hi, Caps, Cbs) ==
    {r \in [par : {TRUE}, cap : Caps, cb : Cbs, cl : UNION {[1..n -> CL] : n \in lo..hi}] : r.cb <= Len(r.cl)}

AllocQuick == {[E |-> RawLeaves({1, 2, 3}) \cup RawPars({1, 2, 3}, 1, 2, {0, 1, 2, 5}, {0, -1, 2}), n |-> 2]}
AssignQuick == {[h |-> 3, cores |-> 1..4, n |-> 12]}
NoAssign == {}

(* parallels emptied by a filter: the allocator itself is not prepared for them (self-test) *)
AllocWithEmpty == {[E |-> RawLeaves({1, 2}) \cup RawPars({1, 2}, 0, 1, {0, 2}, {0}), n |-> 3]}

AllocThorough ==
    {[E |-> RawLeaves({1, 2, 3, 4}) \cup RawPars({1, 2, 3, 4}, 1, 2, {0, 2, 3, 7}, {0, -1, 2})
              \cup RawPars({1, 2}, 3, 3, {0, 2, 4}, {0, -1, 3}), n |-> 2],
     [E |-> RawLeaves({1, 3}) \cup RawPars({1, 2}, 1, 2, {0, 3}, {0, -1, 2}), n |-> 3]}
AssignThorough == {[h |-> 3, cores |-> 1..5, n |-> 20], [h |-> 4, cores |-> {1, 2, 3}, n |-> 16]}
=============================================================================
