\* thorough: up to 3 files in up to 2 corpora (reader staggering over corpora, round-robin over files)
SPECIFICATION Spec
CONSTANTS
  MaxFiles = 3
  MaxCorpora = 2
  DocSizes = {2, 5}
  MetaVals <- B
  Ns = {1, 2, 3, 4}
  MaxGroups = 3
  Bulks = {2, 3}
  Mults = {1}
  Pcts <- PctQuick
  Conflicts <- CNone
  OnConflicts <- OIdx
  AllowWrap = FALSE
  TieAny = TRUE
  SeekCases <- NoSeekCases
VIEW view
INVARIANT ModelSanity
INVARIANT ExactCover
INVARIANT ContiguousInOrder
INVARIANT BulkBound
INVARIANT Paired
INVARIANT PctStop
INVARIANT ConflictsLocal
CHECK_DEADLOCK FALSE
