---- MODULE MC_BulkPartition ----
EXTENDS BulkPartition
B == BOOLEAN
NoMeta == {FALSE}
P(n, d) == [num |-> n, den |-> d]
PctAll == {P(1, 1), P(1, 2), P(1, 4), P(1, 8)}
PctFull == {P(1, 1)}
PctQuick == {P(1, 1), P(1, 4)}
PctSim == {P(1, 1), P(1, 2), P(1, 4), P(1, 8), P(3, 4), P(1, 5), P(1, 100), P(99, 100)}
PctWeighted == <<P(1, 1), P(1, 1), P(1, 1), P(1, 1), P(1, 2), P(1, 4), P(1, 8), P(3, 4), P(1, 5), P(1, 100), P(99, 100)>>
CNone == {"none"}
CConf == {"seq", "rnd"}
CAll == {"none", "seq", "rnd"}
OIdx == {"index"}
OBoth == {"index", "update"}
Pats(maxlen, vals) == UNION {[1..m -> vals] : m \in 1..maxlen}
SeekSmall == {[pat |-> p, n |-> n, K |-> k, l |-> l] : p \in Pats(3, {1, 2, 3}), n \in 0..7, k \in 1..3, l \in 0..7}
SeekModel == {s \in SeekSmall : s.l <= s.n}
NoSeekCases == {}

(* -simulate: TLC generates ALL successors of a state before picking one; Configure has ~10^4 of them.  The simulation  *)
(* specification draws the configuration with RandomElement instead (one successor per step, seeded by -seed).        *)
One(S) == {RandomElement(S)}     \* bound by \E so that the draw is evaluated exactly once

SimAddFile ==
    /\ phase = "files" /\ Len(files) < nfiles
    /\ LET last == IF files = <<>> THEN 0 ELSE files[Len(files)].corpus
       IN \E corpus \in One(IF files = <<>> THEN {1} ELSE {last, last + 1} \cap (1..MaxCorpora)),
             docs \in One(DocSizes), meta \in One(MetaVals) : AddFile(corpus, docs, meta)

SimConfigure ==
    /\ phase = "files" /\ Len(files) = nfiles
    /\ \E n \in One(Ns) :
         \E split \in One(Splits(n)), o \in One(OffChoices(files, n)),
            conflict \in One(IF \E f \in 1..Len(files) : files[f].meta THEN {"none"} ELSE Conflicts) :
           \E onc \in One(IF conflict = "none" THEN {"index"} ELSE OnConflicts),
              bulk \in One(Bulks), mult \in One(Mults), pct \in One({PctWeighted[i] : i \in One(1..Len(PctWeighted))}) :
             Configure(n, split, bulk, mult, pct, conflict, onc, o)

(* one random active client calls params(); with id conflicts one random admissible id sequence *)
SimNextBulk ==
    /\ phase = "run"
    /\ LET active == {gc \in UNION {{<<g, c>> : c \in cfg.groups[g]} : g \in DOMAIN cfg.groups} : ~stopped[gc[2]]}
       IN /\ active # {}
          /\ \E gc \in One(active) :
               LET g == gc[1]  c == gc[2]
               IN IF cur[g] < limit[g]
                  THEN \E ids \in One(IdChoices(g)) :
                         /\ ghist' = [ghist EXCEPT ![g] = Append(@, BulkOf(g, ids))]
                         /\ seen' = [seen EXCEPT ![g] = SeenBefore(g) \cup IdsOf(ids)]
                         /\ cur' = [cur EXCEPT ![g] = @ + 1]
                         /\ stopped' = stopped
                         /\ act' = [name |-> "Bulk", g |-> g, c |-> c]
                         /\ UNCHANGED <<phase, nfiles, files, cfg, off, plan, limit, sk>>
                  ELSE NextBulk(g, c)

SimNext == SimAddFile \/ SimConfigure \/ SimNextBulk

SimSpec == Init /\ [][SimNext]_vars
====
