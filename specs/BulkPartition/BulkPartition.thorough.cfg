\* thorough: 1..2 files of 1..7 documents, all four percentages
SPECIFICATION Spec
CONSTANTS
  MaxFiles = 2
  MaxCorpora = 2
  DocSizes = {1, 2, 3, 4, 5, 6, 7}
  MetaVals <- B
  Ns = {1, 2, 3, 4}
  MaxGroups = 3
  Bulks = {1, 2, 3}
  Mults = {1}
  Pcts <- PctAll
  Conflicts <- CNone
  OnConflicts <- OIdx
  AllowWrap = FALSE
  TieAny = TRUE
  SeekCases <- NoSeekCases
VIEW view
INVARIANT ModelSanity
INVARIANT ExactCover
INVARIANT ContiguousInOrder
INVARIANT BulkBound
INVARIANT Paired
INVARIANT PctStop
INVARIANT ConflictsLocal
CHECK_DEADLOCK FALSE
