\* skip_lines with an offset table of stride K lands where line-wise skipping lands: every small file / stride / target
SPECIFICATION SpecSeek
CONSTANTS
  MaxFiles = 1
  MaxCorpora = 1
  DocSizes = {1}
  MetaVals <- NoMeta
  Ns = {1}
  MaxGroups = 1
  Bulks = {1}
  Mults = {1}
  Pcts <- PctFull
  Conflicts <- CNone
  OnConflicts <- OIdx
  AllowWrap = FALSE
  TieAny = FALSE
  SeekCases <- SeekModel
INVARIANT SeekCorrect
CHECK_DEADLOCK FALSE
