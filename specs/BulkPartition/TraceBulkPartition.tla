------------------------- MODULE TraceBulkPartition -------------------------
(***************************************************************************)
(* Validates observations recorded from the real esrally code against       *)
(* BulkPartition.tla.  Input (env VERIF_TRACES): JSON array of items.       *)
(*                                                                         *)
(* kind "run": one bulk task executed on real files by real                 *)
(*   BulkIndexParamSource objects (one per group, partition() per client):  *)
(*   [id, kind, files, cfg, off, full, events]                              *)
(*     files  : <<[corpus, docs, meta]>>                                    *)
(*     cfg    : [N, groups (sequences of client ids), bulk, mult, num, den, *)
(*              conflict, onc]                                              *)
(*     off    : off[f][i + 1] = start offset (documents) that the real      *)
(*              bounds() returns for client i, off[f][N + 1] = end offset   *)
(*              of client N - 1                                             *)
(*     full   : full[g] = the bulks (as runs) the group hands out in a      *)
(*              separate real run with ingest percentage 100                *)
(*     events : <<[g, c, stop, b]>> one per params() call of client c of    *)
(*              group g, in call order; stop = StopIteration was raised,    *)
(*              otherwise b = [size, runs, unpaired, ids] lexed from the    *)
(*              returned body / "bulk-size"                                 *)
(*   step 0 binds the configuration, step k the k-th event.                 *)
(*   L1: PctStop on every recorded state, all clauses of BulkPartition.tla  *)
(*       on the last one (they are monotone in the history);                *)
(*   L2: every event is the NextBulk step of the specification.             *)
(* kind "seek": [id, kind, pat, n, K, l, table, fast, slow] -- position of  *)
(*   a real source after the real skip_lines with (fast) and without (slow) *)
(*   the real offset table.  L1 fast = slow; L2 = model Seek / Table.       *)
(* kind "bnd": [id, kind, N, lpd, total, per, grp, small] -- results of the *)
(*   real bounds() for every single client and for client ranges; numbers   *)
(*   are [h, l] = h * 10^6 + l.  L1: the slices chain up from 0 to total.   *)
(* kind "pct": [id, kind, b, rows] -- a group whose real parameter source    *)
(*   hands out b bulks at 100 %; rows = <<[num, den, got]>>: with            *)
(*   ingest-percentage num / den (per cent, exact) the real source handed    *)
(*   out `got` bulks before StopIteration.  L1 (PctStop): got = ceil(b *     *)
(*   num / (100 * den)) in integer arithmetic; L2 is the same formula.       *)
(* Output: <<"V", id, step, "L1", {clause}>> per failing clause,            *)
(*         <<"V", id, step, "L2", {}>>, and <<"DONE", #items, #steps>>.     *)
(***************************************************************************)
EXTENDS BulkPartition, Json, IOUtils

Items == JsonDeserialize(IOEnv.VERIF_TRACES)

VARIABLES tid, l, nev
tvars == <<vars, tid, l, nev>>

ToSet(s) == {s[i] : i \in 1..Len(s)}

Blank == /\ phase' = "files" /\ nfiles' = 0 /\ files' = <<>>
         /\ cfg' = NoCfg /\ off' = <<>> /\ plan' = <<>> /\ limit' = <<>>
         /\ cur' = <<>> /\ seen' = <<>> /\ stopped' = <<>> /\ ghist' = <<>>
         /\ sk' = NoSeek /\ act' = [name |-> "Init"]

TInit == /\ phase = "files" /\ nfiles = 0 /\ files = <<>>
         /\ cfg = NoCfg /\ off = <<>> /\ plan = <<>> /\ limit = <<>>
         /\ cur = <<>> /\ seen = <<>> /\ stopped = <<>> /\ ghist = <<>>
         /\ sk = NoSeek /\ act = [name |-> "Init"]
         /\ tid = 1 /\ l = 0 /\ nev = 0

Report(it, step, l1, l2) ==
    /\ \A c \in l1 : PrintT(<<"V", it.id, step, "L1", {c}>>)
    /\ IF l1 # {} \/ l2 THEN TRUE ELSE PrintT(<<"V", it.id, step, "L2", {}>>)

LastStep(it) == IF it.kind = "run" THEN Len(it.events) ELSE 0

-----------------------------------------------------------------------------
(* run items *)
CfgOf(it) == [N |-> it.cfg.N, groups |-> [g \in 1..Len(it.cfg.groups) |-> ToSet(it.cfg.groups[g])],
              bulk |-> it.cfg.bulk, mult |-> it.cfg.mult, num |-> it.cfg.num, den |-> it.cfg.den,
              conflict |-> it.cfg.conflict, onc |-> it.cfg.onc]
OffOf(it) == [f \in 1..Len(it.files) |-> [i \in 0..it.cfg.N |-> it.off[f][i + 1]]]

TraceHolds(cl, it) == IF cl = "PctStop" THEN PctStopWith(LAMBDA h : it.full[h]) ELSE Holds(cl)

RunConfigure(it) ==
    LET c == CfgOf(it)
        o == OffOf(it)
        l2 == /\ IsPartition(c.groups, c.N)
              /\ \A f \in 1..Len(it.files) : OffOk(o[f], it.files[f].docs, c.N)
              /\ Len(it.full) = Len(c.groups)
    IN /\ files' = it.files /\ nfiles' = Len(it.files) /\ phase' = "run"
       /\ Configured(it.files, c, o)
       /\ sk' = NoSeek /\ act' = [name |-> "Configure"]
       /\ Report(it, 0, {}, l2)

RunEvent(it) ==
    LET e == it.events[l]
        g == e.g
        c == e.c
        inplan == cur[g] < Len(plan[g])
        l2 == /\ c \in cfg.groups[g] /\ ~stopped[c]
              /\ IF e.stop THEN cur[g] >= limit[g]
                 ELSE /\ cur[g] < limit[g]
                      /\ e.b.runs = <<NextOf(g)>>
                      /\ e.b.size = NextOf(g).hi - NextOf(g).lo + 1
                      /\ e.b.unpaired = 0
                      /\ ValidIds(cfg, e.b.ids, e.b.size, SeenBefore(g),
                                  GStart(off, NextOf(g).f, cfg.groups[g]), GEnd(off, NextOf(g).f, cfg.groups[g]))
    IN /\ ghist' = IF e.stop THEN ghist ELSE [ghist EXCEPT ![g] = Append(@, e.b)]
       /\ stopped' = IF e.stop THEN [stopped EXCEPT ![c] = TRUE] ELSE stopped
       /\ cur' = IF e.stop THEN cur ELSE [cur EXCEPT ![g] = @ + 1]
       /\ seen' = IF e.stop \/ ~inplan THEN seen ELSE [seen EXCEPT ![g] = SeenBefore(g) \cup IdsOf(e.b.ids)]
       /\ act' = [name |-> IF e.stop THEN "Stop" ELSE "Bulk", g |-> g, c |-> c]
       /\ UNCHANGED <<phase, nfiles, files, cfg, off, plan, limit, sk>>
       /\ LET check == IF l = Len(it.events) THEN Clauses ELSE {"PctStop"}
              l1 == {cl \in check : ~TraceHolds(cl, it)'}
          IN Report(it, l, l1, l2)

-----------------------------------------------------------------------------
(* seek items *)
SeekItem(it) ==
    LET s == [pat |-> it.pat, n |-> it.n, K |-> it.K, l |-> it.l]
        l1 == IF it.fast = it.slow THEN {} ELSE {"SeekCorrect"}
        l2 == /\ it.table = Table(s)
              /\ it.fast = Seek(s, it.table, it.l)
              /\ it.slow = BytePos(s, it.l)
    IN /\ Blank
       /\ Report(it, 0, l1, l2)

-----------------------------------------------------------------------------
(* bounds items: numbers [h, l] = h * 10^6 + l, 0 <= l < 10^6, h >= 0 (a negative number is recorded as h = -1) *)
Base == 1000000
Z == [h |-> 0, l |-> 0]
LOk(x) == x.h >= 0 /\ x.l >= 0 /\ x.l < Base
LAdd(x, y) == [h |-> x.h + y.h + (x.l + y.l) \div Base, l |-> (x.l + y.l) % Base]
LScale(x, k) == IF k = 1 THEN x ELSE LAdd(x, x)
LEnd(r) == LAdd(r.s, r.ln)
RECURSIVE LSumN(_, _, _)
LSumN(per, a, b) == IF a > b THEN Z ELSE LAdd(per[a].n, LSumN(per, a + 1, b))

BoundsChain(it) ==
    /\ Len(it.per) = it.N
    /\ \A i \in 1..it.N : LOk(it.per[i].s) /\ LOk(it.per[i].n) /\ LOk(it.per[i].ln) /\ it.per[i].ln = LScale(it.per[i].n, it.lpd)
    /\ it.per[1].s = Z
    /\ \A i \in 1..(it.N - 1) : it.per[i + 1].s = LEnd(it.per[i])
    /\ LEnd(it.per[it.N]) = LScale(it.total, it.lpd)
    /\ \A k \in 1..Len(it.grp) :
         LET r == it.grp[k]
         IN /\ LOk(r.s) /\ LOk(r.n) /\ LOk(r.ln)
            /\ r.s = it.per[r.a + 1].s
            /\ r.n = LSumN(it.per, r.a + 1, r.b + 1)
            /\ r.ln = LScale(r.n, it.lpd)

(* pct items *)
PctItem(it) ==
    LET bad == {r \in 1..Len(it.rows) : it.rows[r].got # PctBulks(it.b, it.rows[r].num, 100 * it.rows[r].den)}
        l1 == IF bad = {} THEN {} ELSE {"PctStop"}
    IN /\ Blank
       /\ Report(it, 0, l1, TRUE)

BoundsItem(it) ==
    LET l1 == IF BoundsChain(it) THEN {} ELSE {"BoundsChain"}
        l2 == ~it.small \/ \A i \in 1..it.N : Nearest(it.per[i].s.l \div it.lpd, it.total.l, i - 1, it.N)
    IN /\ Blank
       /\ Report(it, 0, l1, l2)

-----------------------------------------------------------------------------
Consume ==
    /\ tid <= Len(Items)
    /\ l <= LastStep(Items[tid])
    /\ l' = l + 1 /\ nev' = nev + 1 /\ tid' = tid       \* first: primed L1 formulas mention Items[tid]
    /\ LET it == Items[tid]
       IN IF it.kind = "run" THEN (IF l = 0 THEN RunConfigure(it) ELSE RunEvent(it))
          ELSE IF it.kind = "seek" THEN SeekItem(it)
          ELSE IF it.kind = "pct" THEN PctItem(it)
          ELSE BoundsItem(it)

NextTrace ==
    /\ tid <= Len(Items)
    /\ l > LastStep(Items[tid])
    /\ Blank
    /\ tid' = tid + 1 /\ l' = 0 /\ nev' = nev
    /\ IF tid < Len(Items) THEN TRUE ELSE PrintT(<<"DONE", Len(Items), nev>>)

TNext == Consume \/ NextTrace
TSpec == TInit /\ [][TNext]_tvars
=============================================================================
