\* id conflicts: every choice of fresh / conflicting id per document (sequential and shuffled ids, index and update)
SPECIFICATION Spec
CONSTANTS
  MaxFiles = 2
  MaxCorpora = 1
  DocSizes = {2, 3}
  MetaVals <- NoMeta
  Ns = {1, 2}
  MaxGroups = 2
  Bulks = {1, 2}
  Mults = {1}
  Pcts <- PctFull
  Conflicts <- CConf
  OnConflicts <- OBoth
  AllowWrap = FALSE
  TieAny = FALSE
  SeekCases <- NoSeekCases
VIEW view
INVARIANT ModelSanity
INVARIANT ExactCover
INVARIANT ContiguousInOrder
INVARIANT BulkBound
INVARIANT Paired
INVARIANT PctStop
INVARIANT ConflictsLocal
CHECK_DEADLOCK FALSE
