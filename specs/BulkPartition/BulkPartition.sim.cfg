\* wide alphabets for -simulate (leg S2C): behaviours = configuration + one order of params() calls
SPECIFICATION SimSpec
CONSTANTS
  MaxFiles = 3
  MaxCorpora = 3
  DocSizes = {1, 2, 3, 4, 5, 6, 7, 9, 10}
  MetaVals <- B
  Ns = {1, 2, 3, 4, 5, 6}
  MaxGroups = 3
  Bulks = {1, 2, 3, 4}
  Mults = {1, 2, 3}
  Pcts <- PctSim
  Conflicts <- CAll
  OnConflicts <- OBoth
  AllowWrap = FALSE
  TieAny = FALSE
  SeekCases <- NoSeekCases
INVARIANT ModelSanity
INVARIANT ExactCover
INVARIANT ContiguousInOrder
INVARIANT BulkBound
INVARIANT Paired
INVARIANT PctStop
INVARIANT ConflictsLocal
CHECK_DEADLOCK FALSE
