\* exhaustive: every file layout x split x bulk size x percentage x every order of params() calls
SPECIFICATION Spec
CONSTANTS
  MaxFiles = 2
  MaxCorpora = 2
  DocSizes = {1, 7}
  MetaVals <- B
  Ns = {1, 2, 3, 4}
  MaxGroups = 3
  Bulks = {1, 2, 3}
  Mults = {1}
  Pcts <- PctQuick
  Conflicts <- CNone
  OnConflicts <- OIdx
  AllowWrap = FALSE
  TieAny = TRUE
  SeekCases <- NoSeekCases
VIEW view
INVARIANT ModelSanity
INVARIANT ExactCover
INVARIANT ContiguousInOrder
INVARIANT BulkBound
INVARIANT Paired
INVARIANT PctStop
INVARIANT ConflictsLocal
CHECK_DEADLOCK FALSE
