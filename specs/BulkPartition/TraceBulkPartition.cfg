SPECIFICATION TSpec
CONSTANTS
  MaxFiles = 0
  MaxCorpora = 0
  DocSizes = {}
  MetaVals = {}
  Ns = {}
  MaxGroups = 0
  Bulks = {}
  Mults = {}
  Pcts = {}
  Conflicts = {}
  OnConflicts = {}
  AllowWrap = FALSE
  TieAny = TRUE
  SeekCases = {}
CHECK_DEADLOCK FALSE
