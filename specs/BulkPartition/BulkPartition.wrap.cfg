\* Self-test and documentation of a latent hazard: if a worker ever held a NON-contiguous set of in-task client ids of one
\* task in one allocation column (e.g. {3, 0} of 4), the min..max span of _init_internal_params would make it read the
\* slices of clients it does not own: TLC must report an ExactCover violation here.  The real Allocator +
\* calculate_worker_assignments never produce such a set (checked on the real code by drivers/c03.py, leg "alloc").
SPECIFICATION Spec
CONSTANTS
  MaxFiles = 1
  MaxCorpora = 1
  DocSizes = {4}
  MetaVals <- NoMeta
  Ns = {4}
  MaxGroups = 2
  Bulks = {2}
  Mults = {1}
  Pcts <- PctFull
  Conflicts <- CNone
  OnConflicts <- OIdx
  AllowWrap = TRUE
  TieAny = FALSE
  SeekCases <- NoSeekCases
VIEW view
INVARIANT ExactCover
CHECK_DEADLOCK FALSE
