---------------------------- MODULE BulkPartition ----------------------------
(***************************************************************************)
(* How esrally partitions the document files of a bulk task over clients   *)
(* (esrally/track/params.py: BulkIndexParamSource, PartitionBulkIndexParam- *)
(* Source, bounds, number_of_bulks, create_readers, chain, Slice, the index *)
(* data readers, GenerateActionMetaData; esrally/utils/io.py: skip_lines,   *)
(* FileOffsetTable).                                                       *)
(*                                                                         *)
(* A task has N clients 0..N-1.  The driver creates ONE parameter source    *)
(* per task in every worker (AsyncIoAdapter.run) and calls partition(i, N)  *)
(* for every co-located client i (schedule_for); all these clients then     *)
(* share that source and call params() in any order.  A "group" is the set  *)
(* of in-task client ids that share one source.                             *)
(*                                                                         *)
(* files : sequence of [corpus, docs, meta]; corpora are numbered 1..NCorp  *)
(*         in track order; meta = the action-and-meta-data line of every    *)
(*         document is in the file (2 lines per document).                  *)
(* off   : off[f][i] = document offset at which client i starts in file f   *)
(*         (bounds(): round(docs / N * i)), off[f][N] = end of last client. *)
(* A bulk is [size, runs, unpaired, ids]:                                   *)
(*   runs     = the documents of the body in body order, run-length encoded *)
(*              as [f, lo, hi] (documents lo..hi of file f, 0-based);       *)
(*   size     = the "bulk-size" parameter reported with the body;           *)
(*   unpaired = number of body lines that are not part of a well-formed     *)
(*              (action-and-meta-data line, its document) pair;             *)
(*   ids      = with id conflicts: [id, upd] per document (upd = the action *)
(*              is "update"), otherwise << >>.                              *)
(***************************************************************************)
EXTENDS Integers, Sequences, FiniteSets, TLC

CONSTANTS MaxFiles,     \* files per configuration: 1..MaxFiles
          MaxCorpora,   \* corpora: 1..MaxCorpora
          DocSizes,     \* possible numbers of documents of a file
          MetaVals,     \* subset of BOOLEAN
          Ns,           \* possible client counts of the task
          MaxGroups,    \* a split has at most that many groups
          Bulks,        \* bulk sizes
          Mults,        \* batch-size = mult * bulk-size (no observable effect, see BatchNote)
          Pcts,         \* ingest percentages as [num, den] (= 100 * num / den per cent)
          Conflicts,    \* subset of {"none", "seq", "rnd"}
          OnConflicts,  \* subset of {"index", "update"}
          AllowWrap,    \* FALSE: groups are contiguous client ranges (what Allocator + calculate_worker_assignments
                        \*        produce for one worker and one allocation column);
                        \* TRUE : additionally every rotation of such a split (non-contiguous sets such as {3, 0}) --
                        \*        only used to show that the min..max span of _init_internal_params then duplicates documents
          TieAny,       \* TRUE: an offset at an exact .5 tie may be either neighbour (float rounding is not modelled)
          SeekCases     \* inputs of SpecSeek: [pat, n, K, l]

VARIABLES phase,    \* "files" -> "run"   |  "seek"
          nfiles,   \* number of files of this configuration
          files,
          cfg,      \* [N, groups, bulk, mult, num, den, conflict, onc]
          off,
          plan,     \* plan[g]  = the sequence of [f, lo, hi] the source of group g yields at 100 %
          limit,    \* limit[g] = number of bulks after which the source of group g raises StopIteration
          cur,      \* cur[g]   = bulks handed out so far by the source of group g (current_bulk)
          seen,     \* seen[g]  = fresh ids emitted so far by the current reader of group g
          stopped,  \* stopped[c] = client c has received StopIteration
          ghist,    \* ghist[g] = bulks handed out by the source of group g, in order
          sk,       \* seek input (phase "seek")
          act       \* last action (history, hidden by VIEW)

vars == <<phase, nfiles, files, cfg, off, plan, limit, cur, seen, stopped, ghist, sk, act>>
view == <<phase, nfiles, files, cfg, off, plan, limit, cur, seen, stopped, ghist, sk>>

-----------------------------------------------------------------------------
SetMin(S) == CHOOSE x \in S : \A y \in S : x <= y
SetMax(S) == CHOOSE x \in S : \A y \in S : y <= x
Least(a, b) == IF a <= b THEN a ELSE b
CeilDiv(a, b) == (a + b - 1) \div b

RECURSIVE Flatten(_)
Flatten(ss) == IF ss = <<>> THEN <<>> ELSE Head(ss) \o Flatten(Tail(ss))

RECURSIVE SumSeq(_)
SumSeq(s) == IF s = <<>> THEN 0 ELSE Head(s) + SumSeq(Tail(s))

(***************************************************************************)
(* bounds(): offsets                                                       *)
(***************************************************************************)
HalfEven(a, n) ==       \* round(a / n), ties to even (Python round)
    LET q == a \div n
        r == a % n
    IN IF 2 * r < n THEN q ELSE IF 2 * r > n THEN q + 1 ELSE IF q % 2 = 0 THEN q ELSE q + 1

IsTie(docs, i, n) == 2 * ((docs * i) % n) = n

(* o is a nearest integer of docs * i / n *)
Nearest(o, docs, i, n) == LET d == o * n - docs * i IN 2 * d <= n /\ -2 * d <= n

OffOk(o, docs, n) ==    \* an offset function the code may compute for a file of `docs` documents and n clients
    /\ DOMAIN o = 0..n
    /\ o[0] = 0 /\ o[n] = docs
    /\ \A i \in 0..n : Nearest(o[i], docs, i, n)

(* all offset tables for the files fs and n clients *)
OffChoices(fs, n) ==
    LET ties == {<<f, i>> \in (1..Len(fs)) \X (1..(n - 1)) : TieAny /\ IsTie(fs[f].docs, i, n)}
    IN {[f \in 1..Len(fs) |-> [i \in 0..n |->
            IF <<f, i>> \in ties
            THEN (fs[f].docs * i) \div n + (IF <<f, i>> \in T THEN 1 ELSE 0)
            ELSE HalfEven(fs[f].docs * i, n)]] : T \in SUBSET ties}

(***************************************************************************)
(* splits of the clients 0..n-1 into groups                                 *)
(***************************************************************************)
ContigSplit(n, cuts) ==     \* cuts \subseteq 1..n-1 : a new group starts at every cut
    LET idx(x) == 1 + Cardinality({c \in cuts : c <= x})
    IN [g \in 1..(Cardinality(cuts) + 1) |-> {x \in 0..(n - 1) : idx(x) = g}]

Rotate(split, n, r) == [g \in DOMAIN split |-> {(x + r) % n : x \in split[g]}]

Splits(n) ==
    {Rotate(ContigSplit(n, cuts), n, r) :
        cuts \in {c \in SUBSET (1..(n - 1)) : Cardinality(c) < MaxGroups},
        r \in (IF AllowWrap THEN 0..(n - 1) ELSE {0})}

IsPartition(split, n) ==
    /\ \A g \in DOMAIN split : split[g] # {} /\ split[g] \subseteq 0..(n - 1)
    /\ \A x \in 0..(n - 1) : Cardinality({g \in DOMAIN split : x \in split[g]}) = 1

(***************************************************************************)
(* _init_internal_params / create_readers / number_of_bulks                 *)
(* Parameterised by (fs, c, o) so that the trace specification can apply    *)
(* them to recorded configurations.                                        *)
(***************************************************************************)
(* the source of a group reads from the start of its smallest to the end of its largest client *)
GStart(o, f, G) == o[f][SetMin(G)]
GEnd(o, f, G) == o[f][SetMax(G) + 1]
GDocs(o, f, G) == GEnd(o, f, G) - GStart(o, f, G)

NCorp(fs) == fs[Len(fs)].corpus

(* files in the order in which the chained readers of group G are consumed *)
ReaderOrder(fs, o, G) ==
    LET nc == NCorp(fs)
        start == SetMin(G) % nc                                   \* start_client_index % len(corpora)
        reord == [j \in 1..nc |-> ((start + j - 1) % nc) + 1]     \* corpora[start:] + corpora[:start]
        idx == [f \in 1..Len(fs) |-> f]
        Q(j) == SelectSeq(idx, LAMBDA f : fs[f].corpus = reord[j] /\ GDocs(o, f, G) > 0)
        maxlen == SetMax({Len(Q(j)) : j \in 1..nc} \cup {0})
    IN Flatten([r \in 1..maxlen |-> Flatten([j \in 1..nc |-> IF r <= Len(Q(j)) THEN <<Q(j)[r]>> ELSE <<>>])])

(* Slice + read_bulk: at most `bulk` documents per bulk, the rest of the slice in the last one *)
Chunks(f, s, e, bulk) ==
    [j \in 1..CeilDiv(e - s, bulk) |-> [f |-> f, lo |-> s + (j - 1) * bulk, hi |-> Least(s + j * bulk, e) - 1]]

GroupPlan(fs, c, o, G) ==
    LET ord == ReaderOrder(fs, o, G)
    IN Flatten([k \in 1..Len(ord) |-> Chunks(ord[k], GStart(o, ord[k], G), GEnd(o, ord[k], G), c.bulk)])

NumberOfBulks(fs, c, o, G) == SumSeq([f \in 1..Len(fs) |-> CeilDiv(GDocs(o, f, G), c.bulk)])

(* ceil(b * num / den) in exact integer arithmetic: the number of bulks a group with b bulks hands out when the ingest *)
(* percentage is 100 * num / den per cent                                                                           *)
PctBulks(b, num, den) == CeilDiv(b * num, den)

(* total_bulks = ceil(all_bulks * ingest_percentage / 100); the generator itself ends after Len(plan) bulks *)
GroupLimit(fs, c, o, G) ==
    Least(PctBulks(NumberOfBulks(fs, c, o, G), c.num, c.den), Len(GroupPlan(fs, c, o, G)))

(* BatchNote: IndexDataReader reads batch-size documents in bulks of bulk-size and bulk_generator hands out the bulks of a *)
(* batch one by one: the sequence of bulks does not depend on c.mult.                                                    *)

(***************************************************************************)
(* GenerateActionMetaData with conflicting ids                              *)
(* The ids of a reader are GStart..GEnd-1 (build_conflicting_ids uses the   *)
(* line offset; files with meta lines cannot have conflicts), in order      *)
(* ("seq") or shuffled ("rnd").  Per document: a conflict (some id already  *)
(* emitted by this reader; action = on-conflict) or the next fresh id.      *)
(***************************************************************************)
RECURSIVE IdSeqs(_, _, _, _, _)
IdSeqs(c, k, sn, s, e) ==      \* all id sequences for k documents; sn = fresh ids emitted so far; [s, e) id range
    IF c.conflict = "none" \/ k = 0 THEN {<<>>}
    ELSE LET fresh == IF Cardinality(sn) >= e - s THEN {}
                      ELSE IF c.conflict = "seq" THEN {s + Cardinality(sn)}
                      ELSE (s..(e - 1)) \ sn
         IN UNION {{<<[id |-> x, upd |-> FALSE]>> \o t : t \in IdSeqs(c, k - 1, sn \cup {x}, s, e)} : x \in fresh}
            \cup UNION {{<<[id |-> x, upd |-> (c.onc = "update")]>> \o t : t \in IdSeqs(c, k - 1, sn, s, e)} : x \in sn}

IdsOf(seq) == {seq[i].id : i \in 1..Len(seq)}

(* the same relation as a predicate (ids \in IdSeqs(c, k, sn, s, e)), for long recorded bulks *)
RECURSIVE ValidIds(_, _, _, _, _, _)
ValidIds(c, ids, k, sn, s, e) ==
    IF c.conflict = "none" THEN ids = <<>>
    ELSE IF k = 0 THEN ids = <<>>
    ELSE /\ ids # <<>>
         /\ LET x == Head(ids)
            IN IF x.id \in sn
               THEN x.upd = (c.onc = "update") /\ ValidIds(c, Tail(ids), k - 1, sn, s, e)
               ELSE /\ ~x.upd
                    /\ Cardinality(sn) < e - s
                    /\ IF c.conflict = "seq" THEN x.id = s + Cardinality(sn) ELSE x.id \in s..(e - 1)
                    /\ ValidIds(c, Tail(ids), k - 1, sn \cup {x.id}, s, e)

-----------------------------------------------------------------------------
NoCfg == [N |-> 0, groups |-> <<>>, bulk |-> 0, mult |-> 0, num |-> 0, den |-> 1, conflict |-> "none", onc |-> "index"]
NoSeek == [pat |-> <<>>, n |-> 0, K |-> 1, l |-> 0]

Init == /\ phase = "files"
        /\ nfiles \in 1..MaxFiles
        /\ files = <<>>
        /\ cfg = NoCfg /\ off = <<>> /\ plan = <<>> /\ limit = <<>>
        /\ cur = <<>> /\ seen = <<>> /\ stopped = <<>> /\ ghist = <<>>
        /\ sk = NoSeek
        /\ act = [name |-> "Init"]

AddFile(corpus, docs, meta) ==
    /\ phase = "files" /\ Len(files) < nfiles
    /\ corpus \in 1..MaxCorpora
    /\ IF files = <<>> THEN corpus = 1 ELSE corpus \in {files[Len(files)].corpus, files[Len(files)].corpus + 1}
    /\ files' = Append(files, [corpus |-> corpus, docs |-> docs, meta |-> meta])
    /\ act' = [name |-> "AddFile"]
    /\ UNCHANGED <<phase, nfiles, cfg, off, plan, limit, cur, seen, stopped, ghist, sk>>

(* the state of a configured task before the first params() call *)
Configured(fs, c, o) ==
    /\ cfg' = c
    /\ off' = o
    /\ plan' = [g \in DOMAIN c.groups |-> GroupPlan(fs, c, o, c.groups[g])]
    /\ limit' = [g \in DOMAIN c.groups |-> GroupLimit(fs, c, o, c.groups[g])]
    /\ cur' = [g \in DOMAIN c.groups |-> 0]
    /\ seen' = [g \in DOMAIN c.groups |-> {}]
    /\ stopped' = [x \in 0..(c.N - 1) |-> FALSE]
    /\ ghist' = [g \in DOMAIN c.groups |-> <<>>]

Configure(n, split, bulk, mult, pct, conflict, onc, o) ==
    /\ phase = "files" /\ Len(files) = nfiles
    /\ (conflict # "none") => \A f \in 1..Len(files) : ~files[f].meta     \* rejected by BulkIndexParamSource otherwise
    /\ (conflict = "none") => onc = "index"
    /\ LET c == [N |-> n, groups |-> split, bulk |-> bulk, mult |-> mult, num |-> pct.num, den |-> pct.den,
                 conflict |-> conflict, onc |-> onc]
       IN Configured(files, c, o)
    /\ phase' = "run"
    /\ act' = [name |-> "Configure"]
    /\ UNCHANGED <<nfiles, files, sk>>

(* the bulk that the source of group g hands out next and the reader state after it; ids = the chosen id sequence *)
NextOf(g) == plan[g][cur[g] + 1]
NewReader(g) == cur[g] = 0 \/ plan[g][cur[g]].f # NextOf(g).f
SeenBefore(g) == IF NewReader(g) THEN {} ELSE seen[g]
IdChoices(g) ==
    LET b == NextOf(g)
        G == cfg.groups[g]
    IN IdSeqs(cfg, b.hi - b.lo + 1, SeenBefore(g), GStart(off, b.f, G), GEnd(off, b.f, G))

BulkOf(g, ids) ==
    LET b == NextOf(g) IN [size |-> b.hi - b.lo + 1, runs |-> <<b>>, unpaired |-> 0, ids |-> ids]

(* client c (one of the co-located clients of group g) calls params() *)
NextBulk(g, c) ==
    /\ phase = "run" /\ g \in DOMAIN cfg.groups /\ c \in cfg.groups[g] /\ ~stopped[c]
    /\ IF cur[g] < limit[g]
       THEN \E ids \in IdChoices(g) :
              /\ ghist' = [ghist EXCEPT ![g] = Append(@, BulkOf(g, ids))]
              /\ seen' = [seen EXCEPT ![g] = SeenBefore(g) \cup IdsOf(ids)]
              /\ cur' = [cur EXCEPT ![g] = @ + 1]
              /\ stopped' = stopped
              /\ act' = [name |-> "Bulk", g |-> g, c |-> c]
       ELSE /\ stopped' = [stopped EXCEPT ![c] = TRUE]                    \* StopIteration
            /\ act' = [name |-> "Stop", g |-> g, c |-> c]
            /\ UNCHANGED <<ghist, seen, cur>>
    /\ UNCHANGED <<phase, nfiles, files, cfg, off, plan, limit, sk>>

Next == \/ /\ phase = "files" /\ Len(files) < nfiles          \* guards first: TLC evaluates quantifier bounds eagerly
           /\ \E corpus \in 1..MaxCorpora, docs \in DocSizes, meta \in MetaVals : AddFile(corpus, docs, meta)
        \/ /\ phase = "files" /\ Len(files) = nfiles
           /\ \E n \in Ns, bulk \in Bulks, mult \in Mults, pct \in Pcts, conflict \in Conflicts, onc \in OnConflicts :
                \E split \in Splits(n), o \in OffChoices(files, n) : Configure(n, split, bulk, mult, pct, conflict, onc, o)
        \/ /\ phase = "run"
           /\ \E g \in DOMAIN cfg.groups : \E c \in cfg.groups[g] : NextBulk(g, c)

Spec == Init /\ [][Next]_vars

-----------------------------------------------------------------------------
(***************************************************************************)
(* PROPERTY C03 -- state predicates over (files, cfg, stopped, ghist)       *)
(* so that the trace specification evaluates the very same formulas on      *)
(* bulks recorded from the implementation.                                  *)
(***************************************************************************)
Running == phase = "run"
Groups == DOMAIN cfg.groups
Exhausted == Running /\ \A c \in 0..(cfg.N - 1) : stopped[c]
FullIngest == cfg.num = cfg.den

DocsOf(b) == SumSeq([i \in 1..Len(b.runs) |-> b.runs[i].hi - b.runs[i].lo + 1])

(* all runs handed out by group g / by anyone, tagged with their origin <<g, k, i>> *)
RunsOfGroup(g) == Flatten([k \in 1..Len(ghist[g]) |-> ghist[g][k].runs])
TaggedRuns == UNION {UNION {{[g |-> g, k |-> k, i |-> i, r |-> ghist[g][k].runs[i]] : i \in 1..Len(ghist[g][k].runs)}
                              : k \in 1..Len(ghist[g])} : g \in Groups}

WellFormedRuns == \A t \in TaggedRuns : /\ t.r.f \in 1..Len(files)
                                        /\ 0 <= t.r.lo /\ t.r.lo <= t.r.hi /\ t.r.hi < files[t.r.f].docs

(* no document is handed out twice (any time, any percentage) *)
NoDuplicate ==
    Running => \A t, u \in TaggedRuns :
                  (t # u /\ t.r.f = u.r.f) => (t.r.hi < u.r.lo \/ u.r.hi < t.r.lo)

(* at exhaustion with 100 % every document of every file has been handed out *)
Complete ==
    (Exhausted /\ FullIngest) =>
        \A f \in 1..Len(files) :
            LET rs == {t \in TaggedRuns : t.r.f = f}
                ordered == {t.r.lo : t \in rs}
            IN /\ \A d \in {0} \cup {t.r.hi + 1 : t \in rs} : d = files[f].docs \/ d \in ordered
               \* every run is followed by another run (or the end): together with NoDuplicate and WellFormedRuns = exact cover

ExactCover == (Running => WellFormedRuns) /\ NoDuplicate /\ Complete

(* each group reads, per file, one contiguous slice in file order *)
ContiguousInOrder ==
    Running => \A g \in Groups : \A f \in 1..Len(files) :
        LET rs == SelectSeq(RunsOfGroup(g), LAMBDA r : r.f = f)
        IN \A i \in 1..(Len(rs) - 1) : rs[i + 1].lo = rs[i].hi + 1

BulkBound == Running => \A g \in Groups : \A k \in 1..Len(ghist[g]) : DocsOf(ghist[g][k]) <= cfg.bulk

Paired == Running => \A g \in Groups : \A k \in 1..Len(ghist[g]) : ghist[g][k].unpaired = 0

(* with percentage p a group stops after the first ceil(p * n) of the n bulks it hands out at 100 % *)
(* Full(g) = the bulks (as runs) the group hands out in a run with ingest percentage 100 *)
PctStopWith(Full(_)) ==
    Running => \A g \in Groups :
        LET cnt == PctBulks(Len(Full(g)), cfg.num, cfg.den)
        IN /\ Len(ghist[g]) <= cnt
           /\ (\E c \in cfg.groups[g] : stopped[c]) => Len(ghist[g]) = cnt
           /\ [k \in 1..Len(ghist[g]) |-> ghist[g][k].runs] = SubSeq(Full(g), 1, Len(ghist[g]))
FullOfPlan(g) == [k \in 1..Len(plan[g]) |-> <<plan[g][k]>>]
PctStop == PctStopWith(FullOfPlan)

(* ids: <<file, id>> pairs; an id handed out by a group that some bulk handed out before is one the SAME group handed *)
(* out before (for the same file), and an update refers to an id the same group has handed out before.             *)
ItemsOfGroup(g) ==      \* sequence of [f, id, upd] in emission order; ids pair up with the documents of the runs
    Flatten([k \in 1..Len(ghist[g]) |->
        LET b == ghist[g][k]
            docfiles == Flatten([i \in 1..Len(b.runs) |-> [d \in 1..(b.runs[i].hi - b.runs[i].lo + 1) |-> b.runs[i].f]])
        IN [j \in 1..Len(b.ids) |-> [f |-> IF j <= Len(docfiles) THEN docfiles[j] ELSE 0, id |-> b.ids[j].id, upd |-> b.ids[j].upd]]])

ConflictsLocal ==
    (Running /\ cfg.conflict # "none") =>
        /\ \A g \in Groups :
             LET it == ItemsOfGroup(g)
             IN \A j \in 1..Len(it) : it[j].upd => \E i \in 1..(j - 1) : it[i].f = it[j].f /\ it[i].id = it[j].id
        /\ \A g, h \in Groups : g # h =>
             LET a == ItemsOfGroup(g)  b == ItemsOfGroup(h)
             IN {<<a[i].f, a[i].id>> : i \in 1..Len(a)} \cap {<<b[i].f, b[i].id>> : i \in 1..Len(b)} = {}

Clauses == {"ExactCover", "ContiguousInOrder", "BulkBound", "Paired", "PctStop", "ConflictsLocal"}
Holds(c) == CASE c = "ExactCover" -> ExactCover
              [] c = "ContiguousInOrder" -> ContiguousInOrder
              [] c = "BulkBound" -> BulkBound
              [] c = "Paired" -> Paired
              [] c = "PctStop" -> PctStop
              [] c = "ConflictsLocal" -> ConflictsLocal

(* sanity of the model itself *)
ModelSanity ==
    Running => /\ IsPartition(cfg.groups, cfg.N)
               /\ \A f \in 1..Len(files) : OffOk(off[f], files[f].docs, cfg.N)
               /\ \A g \in Groups : cur[g] = Len(ghist[g]) /\ cur[g] <= limit[g]
               /\ \A g \in Groups : Len(plan[g]) = NumberOfBulks(files, cfg, off, cfg.groups[g])

-----------------------------------------------------------------------------
(***************************************************************************)
(* skip_lines / FileOffsetTable.  A file of sk.n lines; line i (1-based)    *)
(* has sk.pat[((i - 1) % Len(pat)) + 1] bytes.  The table holds the byte    *)
(* offset after every K-th line (prepare_file_offset_table: K = 50000).     *)
(***************************************************************************)
BytePos(s, l) ==    \* byte offset of the start of line l + 1 = after skipping l lines one by one
    LET P == Len(s.pat) IN (l \div P) * SumSeq(s.pat) + SumSeq(SubSeq(s.pat, 1, l % P))

Table(s) == [j \in 1..(s.n \div s.K) |-> [line |-> s.K * j, off |-> BytePos(s, s.K * j)]]

(* find_closest_offset: walk the table while line_number <= target *)
RECURSIVE Closest(_, _, _)
Closest(table, l, prior) ==
    IF table = <<>> \/ Head(table).line > l THEN prior
    ELSE Closest(Tail(table), l, [line |-> Head(table).line, off |-> Head(table).off, rem |-> l - Head(table).line])

(* skip_lines: seek to the closest offset, then read the remaining lines (-1: the table entry is not a line start) *)
Seek(s, table, l) ==
    IF l = 0 THEN 0
    ELSE LET c == Closest(table, l, [line |-> 0, off |-> 0, rem |-> l])
         IN IF c.line <= s.n /\ BytePos(s, c.line) = c.off THEN BytePos(s, Least(c.line + c.rem, s.n)) ELSE -1

SeekCorrect == phase = "seek" => Seek(sk, Table(sk), sk.l) = BytePos(sk, sk.l)

InitSeek == /\ phase = "seek"
            /\ sk \in SeekCases
            /\ nfiles = 0 /\ files = <<>>
            /\ cfg = NoCfg /\ off = <<>> /\ plan = <<>> /\ limit = <<>>
            /\ cur = <<>> /\ seen = <<>> /\ stopped = <<>> /\ ghist = <<>>
            /\ act = [name |-> "Seek"]

SpecSeek == InitSeek /\ [][FALSE]_vars
=============================================================================
