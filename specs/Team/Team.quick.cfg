INIT InitQuick
NEXT Eval
CONSTANTS
  Inputs = {}
  Variant = "code"
INVARIANT PropertyHolds
CHECK_DEADLOCK FALSE
