-------------------------------- MODULE Team --------------------------------
(***************************************************************************)
(* How Rally composes cars / mixins into one benchmark candidate           *)
(* (esrally.mechanic.team.load_car), which variables the templates see     *)
(* (ElasticsearchInstaller.variables, BareProvisioner._provisioner_        *)
(* variables), what BareProvisioner.prepare leaves in the installation     *)
(* (_apply_config) and what provisioner.cleanup removes.                   *)
(*                                                                         *)
(* Function-like: Init chooses an input, the single step Eval computes     *)
(* what the code does (`Code`, an operational transcription: loops and     *)
(* dict.update as folds).  The property (C13) is stated declaratively      *)
(* (`Doc...` operators: "the highest ranking source that defines it",      *)
(* "concatenation of the renderings of all providers in order") and is     *)
(* evaluated both on the model's result (leg M) and on results recorded    *)
(* from the implementation (TraceTeam).                                    *)
(*                                                                         *)
(* VAL  = [l : BOOLEAN, v : Seq(STRING)]   scalar "x" = [l |-> FALSE, v |-> <<"x">>], a list has l = TRUE *)
(* FILE = [path : Seq(STRING), kind : {"text","binary"}, cid : STRING]      *)
(* inp  = [cars    : Seq([name, kind, bases : Seq(base name), vars : key -> VAL]),  \* the --car list, in order *)
(*         bases   : base name -> [vars : key -> VAL, tree : Seq(FILE)],            \* config bases of the team *)
(*         params  : key -> VAL,                                                    \* --car-params             *)
(*         tpl     : cid -> Seq(variable names the text template refers to),                                  *)
(*         shipped : Seq(FILE),             \* what the distribution archive contains below elasticsearch-x/    *)
(*         preserve: BOOLEAN,                                                                                  *)
(*         node    : [vars : key -> VAL      \* Rally's own node variables as derived from its start arguments  *)
(*                    default_data, home : STRING,                                                             *)
(*                    watch : Seq([p : STRING, inHome : BOOLEAN (below home), pre : BOOLEAN (string prefix home),     *)
(*                                 stuck : BOOLEAN (outside the home and cannot be deleted: rmtree raises OSError)])],    *)
(*         more    : Seq([vars, default_data, home])] \* 2nd, 3rd ... node provisioned from the SAME composed Car object *)
(* out  = [err, names, paths, vars, final : [captured, vars], tree : path -> Seq(SEG), dataPaths, home,         *)
(*         after : [exists : watched path -> BOOLEAN, same : BOOLEAN],                                         *)
(*         more  : Seq([err, final, tree, dataPaths, home, homeExists]),  \* per further node                  *)
(*         varsAfter : key -> VAL,              \* Car.variables after every node has been provisioned          *)
(*         docker : [err, final, tree, compose, dataPaths, home]]  \* DockerProvisioner.prepare on the same car *)
(* inp.docker = [vars (the container's node variables), home, es_version, node_ip, http_port, volumes]          *)
(* SEG  = [t : cid, vals : Seq(Seq(STRING))]  one rendering of a template / one verbatim blob (vals = <<>>)     *)
(***************************************************************************)
EXTENDS Integers, Sequences, FiniteSets, TLC

CONSTANTS Inputs,   \* set of inputs Init chooses from
          Variant   \* "code" = the implementation as it is; other values = seeded faults for the model self-test

S(x) == [l |-> FALSE, v |-> <<x>>]
L(s) == [l |-> TRUE, v |-> s]
ToSet(s) == {s[i] : i \in DOMAIN s}
NoVars == [k \in {} |-> S("")]
Over(a, b) == [k \in DOMAIN a \cup DOMAIN b |-> IF k \in DOMAIN b THEN b[k] ELSE a[k]]   \* a.update(b)
MapEq(a, b) == DOMAIN a = DOMAIN b /\ \A k \in DOMAIN a : a[k] = b[k]
Last(I) == CHOOSE i \in I : \A j \in I : j <= i

RECURSIVE Flat(_)
Flat(ss) == IF ss = <<>> THEN <<>> ELSE Head(ss) \o Flat(Tail(ss))

Has(tree, p) == \E f \in ToSet(tree) : f.path = p
FileAt(tree, p) == CHOOSE f \in ToSet(tree) : f.path = p
InConfig(p) == Len(p) > 1 /\ p[1] = "config"          \* the pre-bundled configuration directory of the distribution

Show(fin, n) == IF n \in DOMAIN fin THEN fin[n].v ELSE <<"">>     \* an undefined variable renders as nothing
\* template files whose text renders to nothing whatever the variables are (one conditional block on a name nobody defines, a
\* loop over an empty default list, an intentionally empty file): they are template files like the others - their rendering is
\* an empty line (t = "")
Blank == {"E1", "E2", "E3"}
Seg(inp, cid, fin) == IF cid \in Blank THEN [t |-> "", vals |-> <<>>]
                      ELSE [t |-> cid, vals |-> [i \in DOMAIN inp.tpl[cid] |-> Show(fin, inp.tpl[cid][i])]]
Raw(cid) == [t |-> cid, vals |-> <<>>]

-----------------------------------------------------------------------------
(***************************************************************************)
(* The documented behaviour (docs/car.rst, command line reference on       *)
(* data_paths; property C13)                                               *)
(***************************************************************************)
CarNames(inp) == [i \in DOMAIN inp.cars |-> inp.cars[i].name]
Mentions(inp) == Flat([i \in DOMAIN inp.cars |-> inp.cars[i].bases])     \* every mention of a config base, in order

\* in order of first mention, no duplicates
Dedup(s) ==
    LET idx == {i \in DOMAIN s : \A j \in 1..(i - 1) : s[j] # s[i]}
    IN  [n \in 1..Cardinality(idx) |-> s[CHOOSE i \in idx : Cardinality({j \in idx : j <= i}) = n]]
ConfigPaths(inp) == Dedup(Mentions(inp))

\* A variable has the value of the highest ranking source that defines it: car parameters, then the cars (a later car
\* outranks an earlier one), then the config bases in the order bs.  The statement fixes the order among config bases only as
\* "applied in order": bs is either every mention (a car applies its bases when it is applied; what the code does) or the
\* duplicate-free list.  Both readings are accepted, see L1Fails.
DocVar(inp, bs, k) ==
    IF k \in DOMAIN inp.params THEN inp.params[k]
    ELSE LET cs == {i \in DOMAIN inp.cars : k \in DOMAIN inp.cars[i].vars}
         IN  IF cs # {} THEN inp.cars[Last(cs)].vars[k]
             ELSE inp.bases[bs[Last({i \in DOMAIN bs : k \in DOMAIN inp.bases[bs[i]].vars})]].vars[k]
DocKeys(inp) == DOMAIN inp.params \cup UNION {DOMAIN inp.cars[i].vars : i \in DOMAIN inp.cars}
                                  \cup UNION {DOMAIN inp.bases[b].vars : b \in ToSet(Mentions(inp))}
DocVars(inp, bs) == [k \in DocKeys(inp) |-> DocVar(inp, bs, k)]

\* data_paths is the one node variable with documented special handling: the user may provide it, else Rally determines it
\* (nd: the record of the node that is provisioned - several nodes of one host are provisioned from the one composed car)
DocDataPathsN(nd, vars) == IF "data_paths" \in DOMAIN vars THEN vars["data_paths"].v ELSE <<nd.default_data>>
DocDataPaths(inp, vars) == DocDataPathsN(inp.node, vars)
\* Rally's own node variables cannot be overridden
DocFinalN(nd, vars) ==
    [k \in DOMAIN vars \cup DOMAIN nd.vars \cup {"data_paths"} |->
        IF k = "data_paths" THEN L(DocDataPathsN(nd, vars))
        ELSE IF k \in DOMAIN nd.vars THEN nd.vars[k]
        ELSE vars[k]]
DocFinal(inp, vars) == DocFinalN(inp.node, vars)

Provided(inp, paths) == UNION {{f.path : f \in ToSet(inp.bases[b].tree)} : b \in ToSet(paths)}
Providers(inp, paths, p) == SelectSeq(paths, LAMBDA b : Has(inp.bases[b].tree, p))
Before(inp, p) == IF ~InConfig(p) /\ Has(inp.shipped, p) THEN <<Raw(FileAt(inp.shipped, p).cid)>> ELSE <<>>
\* same relative path; text: what was there, then the renderings of all providers in order; binary: the last provider's bytes
DocContent(inp, paths, fin, p) ==
    LET prov == Providers(inp, paths, p)
        last == FileAt(inp.bases[prov[Len(prov)]].tree, p)
    IN  IF last.kind = "binary" THEN <<Raw(last.cid)>>
        ELSE Before(inp, p) \o [i \in DOMAIN prov |-> Seg(inp, FileAt(inp.bases[prov[i]].tree, p).cid, fin)]
KindOf(inp, paths, p) == FileAt(inp.bases[Providers(inp, paths, p)[1]].tree, p).kind

\* "removes the installation and all data paths": a data path that cannot be deleted does not keep the others (or the
\* installation) from being removed
DocCleanup(inp, dps, after) ==
    LET w(p) == CHOOSE x \in ToSet(inp.node.watch) : x.p = p IN
    IF inp.preserve THEN after.same
    ELSE ~after.exists[inp.node.home] /\ \A i \in DOMAIN dps : ~w(dps[i]).stuck => ~after.exists[dps[i]]

\* the per-node clauses: r = [final, tree, ...] is what provisioning a node from the composed car (documented variables vars,
\* config bases paths) produced; nodeKeys / fin: Rally's own variables of THAT node and what its templates have to see -
\* that node's own names / ports / paths, whichever node was provisioned before
NodeFailsG(inp, nodeKeys, fin, r, paths, vars) ==
    LET prov == Provided(inp, paths)
        wrong(K, m, exp) == \E k \in K : k \notin DOMAIN m \/ m[k] # exp[k]
    IN
       (IF r.final.captured /\ wrong(nodeKeys \ {"data_paths"}, r.final.vars, fin) THEN {"NodeVariablesNotOverridable"} ELSE {})
    \cup (IF r.final.captured /\ wrong({"data_paths"}, r.final.vars, fin) THEN {"DataPathsUserOrDefault"} ELSE {})
    \cup (IF r.final.captured /\ wrong(DOMAIN vars \ (nodeKeys \cup {"data_paths"}), r.final.vars, fin) THEN {"TemplatesSeeCarVariables"} ELSE {})
    \cup (IF \E p \in prov : p \notin DOMAIN r.tree THEN {"SameRelativePath"} ELSE {})
    \cup (IF \E p \in prov \cap DOMAIN r.tree : KindOf(inp, paths, p) = "text" /\ r.tree[p] # DocContent(inp, paths, fin, p) THEN {"TextRenderedAndAppended"} ELSE {})
    \cup (IF \E p \in prov \cap DOMAIN r.tree : KindOf(inp, paths, p) = "binary" /\ r.tree[p] # DocContent(inp, paths, fin, p) THEN {"BinaryVerbatimLastWins"} ELSE {})
NodeFails(inp, nd, r, paths, vars) == NodeFailsG(inp, DOMAIN nd.vars, DocFinalN(nd, vars), r, paths, vars)

\* the Docker provisioner (provisioner.docker(...).prepare on the same composed car): templates are rendered into <node root>/install
\* (no archive), with the container's node variables (dk.vars; data_paths is NOT user-definable here) which cannot be overridden
\* either; docker-compose.yml names Rally's version / port / ip / directories, the car's image and limits, and mounts every
\* rendered config file at the same relative path of the container's installation
Show1(m, k) == IF k \in DOMAIN m THEN m[k].v[1] ELSE "-"
DocCompose(inp, dk, paths, vars) ==
    [image |-> Show1(vars, "docker_image"), version |-> dk.es_version,
     ports |-> <<<<dk.http_port, dk.http_port>>, <<"9300">>>>, volumes |-> dk.volumes,
     health_port |-> dk.http_port, node_ip |-> dk.node_ip,
     cpu |-> Show1(vars, "docker_cpu_count"), mem |-> Show1(vars, "docker_mem_limit")]
DockerFails(inp, dk, r, paths, vars) ==
    IF r.err # "none" THEN {"NoSpuriousError", "DockerProvisioner"}
    ELSE LET exp == DocCompose(inp, dk, paths, vars)
             c == r.compose
             f == NodeFailsG([inp EXCEPT !.shipped = <<>>], DOMAIN dk.vars, Over(vars, dk.vars), r, paths, vars)
                  \cup (IF /\ c.version = exp.version /\ c.ports = exp.ports /\ c.volumes = exp.volumes
                           /\ c.health_port = exp.health_port /\ c.node_ip = exp.node_ip THEN {} ELSE {"ComposeUsesNodeValues"})
                  \cup (IF c.image = exp.image /\ c.cpu = exp.cpu /\ c.mem = exp.mem THEN {} ELSE {"ComposeUsesCarVariables"})
                  \cup (IF c.mounts = {[p |-> q, d |-> q] : q \in Provided(inp, paths)} THEN {} ELSE {"ComposeMountsEveryConfigFile"})
         IN  IF f = {} THEN {} ELSE f \cup {"DockerProvisioner"}

\* a further node provisioned from the same Car object: the same clauses with ITS node record; its NodeConfiguration (what cleanup
\* is called with) names its own installation and data paths; its installation is wiped unless preserve is set
LaterNodeFails(inp, nd, r, paths, vars) ==
    IF r.err # "none" THEN {"NoSpuriousError", "LaterNodeOfSameCar"}
    ELSE LET f == NodeFails(inp, nd, r, paths, vars)
                  \cup (IF r.home = nd.home /\ r.dataPaths = DocDataPathsN(nd, vars) THEN {} ELSE {"NodeConfigurationNamesOwnPaths"})
                  \cup (IF inp.preserve \/ ~r.homeExists THEN {} ELSE {"CleanupAllOrNothing"})
         IN  IF f = {} THEN {} ELSE f \cup {"LaterNodeOfSameCar"}

\* the clauses of C13 that the result o violates when config base variables are ranked in the order bs
FailsUnder(inp, o, bs) ==
    LET paths == ConfigPaths(inp)
        vars == DocVars(inp, bs)
        fromCar == {k \in DocKeys(inp) \ DOMAIN inp.params : \E i \in DOMAIN inp.cars : k \in DOMAIN inp.cars[i].vars}
        fromBase == (DocKeys(inp) \ DOMAIN inp.params) \ fromCar
        wrong(K, m, exp) == \E k \in K : k \notin DOMAIN m \/ m[k] # exp[k]
    IN
    IF paths = <<>> THEN (IF o.err # "none" THEN {} ELSE {"AtLeastOneBaseElseError"})
    ELSE IF o.err # "none" THEN {"NoSpuriousError"}
    ELSE
       (IF o.paths = paths THEN {} ELSE {"BasesInOrderNoDuplicates"})
    \cup (IF wrong(DOMAIN inp.params, o.vars, vars) THEN {"CarParamsOverrideAll"} ELSE {})
    \cup (IF wrong(fromCar, o.vars, vars) THEN {"LaterCarOverridesEarlierAndBases"} ELSE {})
    \cup (IF wrong(fromBase, o.vars, vars) THEN {"BaseVariablesInOrder"} ELSE {})
    \cup NodeFails(inp, inp.node, o, paths, vars)
    \cup (IF DocCleanup(inp, DocDataPaths(inp, vars), o.after) THEN {} ELSE {"CleanupAllOrNothing"})
    \cup (IF Len(o.more) = Len(inp.more) THEN {} ELSE {"NoSpuriousError", "LaterNodeOfSameCar"})
    \cup UNION {LaterNodeFails(inp, inp.more[i], o.more[i], paths, vars) : i \in DOMAIN inp.more \cap DOMAIN o.more}
    \cup DockerFails(inp, inp.docker, o.docker, paths, vars)
    \* the composed car is what the cars, bases and car params say - provisioning nodes from it does not change it
    \cup (IF MapEq(o.vars, o.varsAfter) THEN {} ELSE {"CarUnchangedByProvisioning"})

L1Fails(inp, o) ==
    LET a == FailsUnder(inp, o, Mentions(inp)) IN
    IF a = {} THEN {} ELSE IF FailsUnder(inp, o, ConfigPaths(inp)) = {} THEN {} ELSE a

-----------------------------------------------------------------------------
(***************************************************************************)
(* Transcription of the code                                               *)
(***************************************************************************)
\* CarLoader.load_car: the config bases of one car in the order listed; their config.ini variables copied into ONE dict in
\* that order; the car's own variables, then updated with the car params
RECURSIVE BaseFold(_, _)
BaseFold(inp, bs) ==
    IF bs = <<>> THEN NoVars
    ELSE LET first == BaseFold(inp, SubSeq(bs, 1, Len(bs) - 1))
             this == inp.bases[bs[Len(bs)]].vars
         IN IF Variant = "first_base_wins" THEN Over(this, first) ELSE Over(first, this)

Descriptor(inp, c) ==
    [paths |-> c.bases,
     bvars |-> BaseFold(inp, c.bases),
     vars  |-> IF Variant = "params_first" THEN Over(inp.params, c.vars) ELSE Over(c.vars, inp.params)]

\* team.load_car: `if p not in all_config_paths: append`, `all_config_base_vars.update`, `all_car_vars.update`
RECURSIVE AppendNew(_, _)
AppendNew(acc, ps) ==
    IF ps = <<>> THEN acc
    ELSE AppendNew(IF Head(ps) \in ToSet(acc) /\ Variant # "nodedup" THEN acc ELSE Append(acc, Head(ps)), Tail(ps))

RECURSIVE LoadLoop(_, _, _)
LoadLoop(inp, i, acc) ==
    IF i > Len(inp.cars) THEN acc
    ELSE LET d == Descriptor(inp, inp.cars[i])
         IN  LoadLoop(inp, i + 1,
                      [paths |-> AppendNew(acc.paths, d.paths),
                       bvars |-> Over(acc.bvars, d.bvars),
                       cvars |-> IF Variant = "earlier_car_wins" THEN Over(d.vars, acc.cvars) ELSE Over(acc.cvars, d.vars)])

LoadCar(inp) ==
    LET r == LoadLoop(inp, 1, [paths |-> <<>>, bvars |-> NoVars, cvars |-> NoVars])
    IN  [err |-> IF r.paths = <<>> THEN "SystemSetupError" ELSE "none",
         paths |-> r.paths,
         vars |-> IF Variant = "base_over_car" THEN Over(r.cvars, r.bvars) ELSE Over(r.bvars, r.cvars)]

\* ElasticsearchInstaller._data_paths / .variables, BareProvisioner._provisioner_variables (no plugins); nd = node record
CodeDataPathsN(nd, cv) == IF "data_paths" \in DOMAIN cv THEN cv["data_paths"].v ELSE <<nd.default_data>>
CodeDataPaths(inp, cv) == CodeDataPathsN(inp.node, cv)
DefaultsN(nd, cv) == Over(nd.vars, [k \in {"data_paths"} |-> L(CodeDataPathsN(nd, cv))])
ProvisionerVarsN(nd, cv) ==
    IF Variant = "internal_first" THEN Over(DefaultsN(nd, cv), cv) ELSE Over(cv, DefaultsN(nd, cv))
ProvisionerVars(inp, cv) == ProvisionerVarsN(inp.node, cv)

\* all nodes of the host are provisioned one after the other from ONE Car object (mechanic.create / Mechanic.start_engine);
\* `variables` copies car.variables into a fresh dict, so node i sees the car as composed (seeded fault leak_defaults: the node
\* defaults are written into the shared car and the next node finds them there)
Nodes(inp) == <<inp.node>> \o inp.more
RECURSIVE CarVarsAt(_, _, _)
CarVarsAt(inp, cv, i) ==
    IF i = 1 \/ Variant # "leak_defaults" THEN cv
    ELSE LET prev == CarVarsAt(inp, cv, i - 1) IN Over(prev, DefaultsN(Nodes(inp)[i - 1], prev))

\* _apply_config: every file of the template tree; text: open(target, "a").write(rendering); else shutil.copy
Put(fs, p, c) == [q \in DOMAIN fs \cup {p} |-> IF q = p THEN c ELSE fs[q]]
RECURSIVE ApplyFiles(_, _, _, _)
ApplyFiles(inp, fs, files, fin) ==
    IF files = <<>> THEN fs
    ELSE LET f == Head(files)
             old == IF f.path \in DOMAIN fs /\ Variant # "overwrite" THEN fs[f.path] ELSE <<>>
             new == IF f.kind = "text" THEN Append(old, Seg(inp, f.cid, fin)) ELSE <<Raw(f.cid)>>
         IN  IF Variant = "skip_blank" /\ f.kind = "text" /\ f.cid \in Blank    \* seeded fault: nothing rendered, file not touched
             THEN ApplyFiles(inp, fs, Tail(files), fin)
             ELSE ApplyFiles(inp, Put(fs, f.path, new), Tail(files), fin)
RECURSIVE ApplyBases(_, _, _, _)
ApplyBases(inp, fs, paths, fin) ==
    IF paths = <<>> THEN fs
    ELSE ApplyBases(inp, ApplyFiles(inp, fs, inp.bases[Head(paths)].tree, fin), Tail(paths), fin)

\* ElasticsearchInstaller.install + delete_pre_bundled_configuration
Unpacked(inp) ==
    LET keep == {f \in ToSet(inp.shipped) : ~InConfig(f.path)}
    IN  [p \in {f.path : f \in keep} |-> <<Raw((CHOOSE f \in keep : f.path = p).cid)>>]

\* provisioner.cleanup(preserve, node_config.binary_path, node_config.data_paths)
CodeAfter(inp, dps) ==
    LET w(p) == CHOOSE x \in ToSet(inp.node.watch) : x.p = p
        skipped(p) == Variant = "keep_data" \/ (Variant = "prefix_skip" /\ w(p).pre)   \* seeded faults only
        gone(p) == IF inp.preserve /\ Variant # "ignore_preserve" THEN FALSE
                   ELSE p = inp.node.home \/ w(p).inHome \/ (p \in ToSet(dps) /\ ~skipped(p) /\ ~w(p).stuck)
    IN  [exists |-> [p \in {x.p : x \in ToSet(inp.node.watch)} |-> ~gone(p)], same |-> inp.preserve /\ Variant # "ignore_preserve"]

\* DockerProvisioner.__init__ / prepare / docker_vars
DockerNone == [err |-> "skipped", final |-> [captured |-> FALSE, vars |-> NoVars], tree |-> NoVars,
               compose |-> [image |-> "", version |-> "", ports |-> <<>>, volumes |-> <<>>, mounts |-> {}, health_port |-> "",
                            node_ip |-> "", cpu |-> "-", mem |-> "-"],
               dataPaths |-> <<>>, home |-> ""]
CodeDocker(inp, paths, cv) ==
    LET dk == inp.docker
        fin == IF Variant = "docker_car_over_defaults" THEN Over(dk.vars, cv) ELSE Over(cv, dk.vars)
        prov == Provided(inp, paths)
    IN  [err |-> "none", final |-> [captured |-> TRUE, vars |-> fin],
         tree |-> ApplyBases(inp, NoVars, paths, fin),
         compose |-> [image |-> Show1(cv, "docker_image"), version |-> dk.es_version,
                      ports |-> <<<<dk.http_port, dk.http_port>>, <<"9300">>>>, volumes |-> dk.volumes,
                      mounts |-> {[p |-> q, d |-> q] : q \in prov},      \* (a set; the recorded list is turned into one)
                      health_port |-> dk.http_port, node_ip |-> dk.node_ip,
                      cpu |-> Show1(cv, "docker_cpu_count"), mem |-> Show1(cv, "docker_mem_limit")],
         dataPaths |-> <<dk.volumes[1][1]>>, home |-> dk.home]

ErrOut(e) == [err |-> e, names |-> <<>>, paths |-> <<>>, vars |-> NoVars, final |-> [captured |-> FALSE, vars |-> NoVars],
              tree |-> NoVars, dataPaths |-> <<>>, home |-> "", after |-> [exists |-> NoVars, same |-> FALSE],
              more |-> <<>>, varsAfter |-> NoVars, docker |-> DockerNone]

Code(inp) ==
    LET lc == LoadCar(inp) IN
    IF lc.err # "none" THEN ErrOut(lc.err)
    ELSE LET cv1 == CarVarsAt(inp, lc.vars, 1)
             fin == ProvisionerVars(inp, cv1)
             dps == CodeDataPaths(inp, cv1)
             later(i) == LET nd == inp.more[i]
                             cv == CarVarsAt(inp, lc.vars, i + 1)
                             f == ProvisionerVarsN(nd, cv)
                         IN  [err |-> "none", final |-> [captured |-> TRUE, vars |-> f],
                              tree |-> ApplyBases(inp, Unpacked(inp), lc.paths, f),
                              dataPaths |-> CodeDataPathsN(nd, cv), home |-> nd.home,
                              homeExists |-> inp.preserve /\ Variant # "ignore_preserve"]
         IN  [err |-> "none", names |-> CarNames(inp), paths |-> lc.paths, vars |-> lc.vars,
              final |-> [captured |-> TRUE, vars |-> fin],
              tree |-> ApplyBases(inp, Unpacked(inp), lc.paths, fin),
              dataPaths |-> dps, home |-> inp.node.home,
              after |-> CodeAfter(inp, dps),
              more |-> [i \in DOMAIN inp.more |-> later(i)],
              docker |-> CodeDocker(inp, lc.paths, CarVarsAt(inp, lc.vars, Len(inp.more) + 2)),
              varsAfter |-> CarVarsAt(inp, lc.vars, Len(inp.more) + 2)]

\* L2: a recorded result is the transcription's result
Conforms(inp, o) ==
    LET c == Code(inp) IN
    /\ o.err = c.err /\ o.names = c.names /\ o.paths = c.paths /\ MapEq(o.vars, c.vars)
    /\ (o.final.captured => MapEq(o.final.vars, c.final.vars))
    /\ MapEq(o.tree, c.tree)
    /\ o.dataPaths = c.dataPaths /\ o.home = c.home
    /\ MapEq(o.after.exists, c.after.exists) /\ o.after.same = c.after.same
    /\ Len(o.more) = Len(c.more)
    /\ \A i \in DOMAIN c.more :
          /\ o.more[i].err = c.more[i].err
          /\ (o.more[i].final.captured => MapEq(o.more[i].final.vars, c.more[i].final.vars))
          /\ MapEq(o.more[i].tree, c.more[i].tree)
          /\ o.more[i].dataPaths = c.more[i].dataPaths /\ o.more[i].home = c.more[i].home
          /\ o.more[i].homeExists = c.more[i].homeExists
    /\ MapEq(o.varsAfter, c.varsAfter)
    /\ o.docker.err = c.docker.err
    /\ (o.docker.final.captured => MapEq(o.docker.final.vars, c.docker.final.vars))
    /\ MapEq(o.docker.tree, c.docker.tree)
    /\ o.docker.dataPaths = c.docker.dataPaths /\ o.docker.home = c.docker.home
    /\ LET a == o.docker.compose  b == c.docker.compose
       IN  /\ a.image = b.image /\ a.version = b.version /\ a.ports = b.ports /\ a.volumes = b.volumes
           /\ a.mounts = b.mounts
           /\ a.health_port = b.health_port /\ a.node_ip = b.node_ip /\ a.cpu = b.cpu /\ a.mem = b.mem

-----------------------------------------------------------------------------
VARIABLES inp, out, done
vars == <<inp, out, done>>

Init == /\ inp \in Inputs
        /\ out = ErrOut("pending")
        /\ done = FALSE

Eval == /\ ~done
        /\ out' = Code(inp)
        /\ done' = TRUE
        /\ UNCHANGED inp

Spec == Init /\ [][Eval]_vars

PropertyHolds == done => L1Fails(inp, out) = {}
=============================================================================
