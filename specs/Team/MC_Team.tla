------------------------------ MODULE MC_Team ------------------------------
(* Input universes for the model checking leg.  The universe is a UNION of sub-universes, each of which varies one aspect *)
(* richly (V: who defines a variable, P: which car lists which config bases, T: template trees and archive content, C: data path layouts, N: several nodes from one car)       *)
(* and keeps the others small, instead of one unaffordable product.                                                        *)
EXTENDS Team

F(p, k, c) == [path |-> p, kind |-> k, cid |-> c]
Val(s) == S("$DATA/" \o s)                       \* every source gives "its own" value: the result shows who won
Def(flag, nm, s) == IF flag THEN (nm :> Val(s)) ELSE NoVars

Tpl == [T1 |-> <<"x", "http_port", "data_paths">>, T2 |-> <<"x", "log_path">>, T3 |-> <<>>]

AllData == <<"b1", "b2", "b3", "c1", "c2", "c3", "p", "q">>
\* where a data path can be relative to the installation ($ES = ES home = <node root>/install/elasticsearch-x):
\* on another root, inside the ES home, SIBLINGS of the ES home whose name starts with its name, next to / inside the install root
W(p, inHome, pre) == [p |-> p, inHome |-> inHome, pre |-> pre, stuck |-> FALSE]
Node == [vars |-> [http_port |-> S("39200"), log_path |-> S("$NODE/logs/server"), install_root_path |-> S("$ES"),
                   minimum_master_nodes |-> S("1"), cluster_settings |-> S("{}")],
         default_data |-> "$ES/data", home |-> "$ES",
         watch |-> <<W("$ES", TRUE, TRUE), W("$ES/data", TRUE, TRUE), W("$ES/inner/d", TRUE, TRUE),
                     W("$ES-data", FALSE, TRUE), W("$ES.data0", FALSE, TRUE), W("$ES.data1", FALSE, TRUE),
                     W("$NODE/install-data", FALSE, FALSE), W("$NODE/install/sibling", FALSE, FALSE), W("$NODE/data", FALSE, FALSE)>>
                   \o [i \in DOMAIN AllData |-> W("$DATA/" \o AllData[i], FALSE, FALSE)]]

DH == "/usr/share/elasticsearch"
Docker == [vars |-> [http_port |-> S("39200"), log_path |-> S("/var/log/elasticsearch"), install_root_path |-> S(DH),
                     data_paths |-> L(<<DH \o "/data">>), network_host |-> S("0.0.0.0"), cluster_settings |-> S("{}")],
           home |-> "$DNODE/install", es_version |-> "9.9.9", node_ip |-> "10.0.0.1", http_port |-> "39200",
           volumes |-> <<<<"$DNODE/data/UUID", DH \o "/data">>, <<"$DNODE/logs/server", "/var/log/elasticsearch">>,
                         <<"$DNODE/heapdump", DH \o "/heapdump">>>>]

CarName(i) == <<"c1", "c2", "c3", "c4">>[i]
Car(i, bs, vs) == [name |-> CarName(i), kind |-> IF bs = <<>> THEN "mixin" ELSE "car", bases |-> bs, vars |-> vs]

PYml == <<"config", "elasticsearch.yml">>
PKey == <<"config", "certs", "k.p12">>
PNotice == <<"NOTICE.txt">>
PJar == <<"lib", "t.jar">>
ShipFull == <<F(PYml, "text", "S1"), F(<<"config", "jvm.options">>, "text", "S2"), F(PNotice, "text", "S3"), F(PJar, "binary", "B1")>>
ShipBare == <<F(PYml, "text", "S1")>>

-----------------------------------------------------------------------------
\* V: one variable name under test; every source either defines it or not
TreeV == [b1 |-> <<F(PYml, "text", "T1")>>, b2 |-> <<F(PYml, "text", "T2")>>, b3 |-> <<F(PYml, "text", "T1")>>]
ParamsFor(nm) == {NoVars, nm :> Val("p")} \cup (IF nm = "data_paths" THEN {nm :> L(<<"$DATA/p", "$DATA/q">>)} ELSE {})

UniverseV(names, bnames, layouts) ==
    UNION {
    {[cars |-> [i \in 1..n |-> Car(i, lay[i], Def(cf[i], nm, CarName(i)))],
      bases |-> [b \in bnames |-> [vars |-> Def(bf[b], nm, b), tree |-> TreeV[b]]],
      params |-> pv, tpl |-> Tpl, shipped |-> ShipBare, preserve |-> pr, node |-> Node, docker |-> Docker, more |-> <<>>] :
        lay \in layouts, n \in 1..3, cf \in [1..3 -> BOOLEAN], bf \in [bnames -> BOOLEAN],
        pv \in ParamsFor(nm), pr \in BOOLEAN} : nm \in names}

LayoutsQ == {<<<<"b1">>, <<"b2">>, <<>>>>,
             <<<<"b1", "b2">>, <<"b1">>, <<>>>>,
             <<<<>>, <<"b2", "b1">>, <<"b2">>>>}
LayoutsT == {<<<<"b1">>, <<"b2">>, <<>>>>,
             <<<<"b1", "b2">>, <<"b1">>, <<>>>>,
             <<<<>>, <<"b2", "b1">>, <<"b2">>>>,
             <<<<"b3", "b1">>, <<"b2", "b3">>, <<"b1">>>>,
             <<<<"b1", "b2", "b3">>, <<>>, <<"b2">>>>,
             <<<<>>, <<>>, <<"b3">>>>}

-----------------------------------------------------------------------------
\* P: which car lists which config bases
TreePairs ==
    {[b1 |-> <<F(PYml, "text", "T1"), F(PKey, "binary", "B3")>>, b2 |-> <<F(PYml, "text", "T2"), F(PKey, "binary", "B1")>>, b3 |-> <<F(PYml, "text", "T3")>>],
     [b1 |-> <<F(PNotice, "text", "T2"), F(PJar, "binary", "B2")>>, b2 |-> <<F(<<"config", "jvm.options">>, "text", "T1")>>, b3 |-> <<F(PJar, "binary", "B3")>>],
     [b1 |-> <<F(PYml, "text", "T1")>>, b2 |-> <<>>, b3 |-> <<>>],
     \* the same file NAME in two directories of one config base (and across bases), with different template text
     [b1 |-> <<F(<<"config", "log4j2.properties">>, "text", "T1"), F(<<"config", "x-pack", "log4j2.properties">>, "text", "T2")>>,
      b2 |-> <<F(<<"config", "x-pack", "log4j2.properties">>, "text", "T1"), F(<<"log4j2.properties">>, "text", "T3")>>,
      b3 |-> <<F(<<"config", "log4j2.properties">>, "text", "T2")>>],
     [b1 |-> <<F(<<"config", "a", "b", "deep.properties">>, "text", "T2"), F(<<"top.yml">>, "text", "T3")>>,
      b2 |-> <<F(<<"config", "a", "b", "deep.properties">>, "text", "T1"), F(<<"config", "a", "other.bin">>, "binary", "B1")>>,
      b3 |-> <<F(<<"top.yml">>, "text", "T1")>>],
     \* template files that render to nothing (Blank): alone at their path, provided by two bases, appended to / before a non-empty one
     [b1 |-> <<F(PYml, "text", "T1"), F(<<"config", "jvm.options.d", "gc.options">>, "text", "E1"), F(<<"config", "roles.yml">>, "text", "E2")>>,
      b2 |-> <<F(PYml, "text", "E1"), F(<<"config", "roles.yml">>, "text", "E3"), F(<<"config", "log4j2.properties">>, "text", "E3")>>,
      b3 |-> <<F(<<"config", "log4j2.properties">>, "text", "T2"), F(PNotice, "text", "E2")>>]}

SeqsUpTo(A, n) == UNION {[1..m -> A] : m \in 0..n}
UniverseP(bnames, maxBases, maxCars) ==
    LET BaseSeqs == SeqsUpTo(bnames, maxBases) IN
    {[cars |-> [i \in DOMAIN bl |-> Car(i, bl[i], NoVars)],
      bases |-> [b \in bnames |-> [vars |-> "x" :> Val(b), tree |-> tp[b]]],
      params |-> NoVars, tpl |-> Tpl, shipped |-> ShipFull, preserve |-> FALSE, node |-> Node, docker |-> Docker, more |-> <<>>] :
        bl \in UNION {[1..n -> BaseSeqs] : n \in 1..maxCars}, tp \in TreePairs}

-----------------------------------------------------------------------------
\* T: template trees of two config bases and the archive content
PathSeq == <<[id |-> 1, path |-> PYml, kind |-> "text", a |-> "T1", b |-> "T2"],
             [id |-> 2, path |-> PKey, kind |-> "binary", a |-> "B1", b |-> "B3"],
             [id |-> 3, path |-> PNotice, kind |-> "text", a |-> "T2", b |-> "T3"],
             [id |-> 4, path |-> PJar, kind |-> "binary", a |-> "B2", b |-> "B3"]>>
TreeOf(ch) ==
    LET sel == SelectSeq(PathSeq, LAMBDA d : ch[d.id] # "-")
    IN  [i \in DOMAIN sel |-> F(sel[i].path, sel[i].kind, IF ch[sel[i].id] = "a" THEN sel[i].a ELSE sel[i].b)]
Choices(maxFiles) == {ch \in [1..4 -> {"-", "a", "b"}] : Cardinality({i \in 1..4 : ch[i] # "-"}) <= maxFiles}

UniverseT(maxFiles) ==
    {[cars |-> cl,
      bases |-> [b \in {"b1", "b2"} |-> [vars |-> "x" :> Val(b), tree |-> IF b = "b1" THEN TreeOf(c1) ELSE TreeOf(c2)]],
      params |-> NoVars, tpl |-> Tpl, shipped |-> sh, preserve |-> FALSE, node |-> Node, docker |-> Docker, more |-> <<>>] :
        cl \in {<<Car(1, <<"b1", "b2">>, "x" :> Val("c1"))>>, <<Car(1, <<"b2">>, NoVars), Car(2, <<"b1">>, NoVars)>>},
        c1 \in Choices(maxFiles), c2 \in Choices(maxFiles), sh \in {ShipFull, ShipBare}}

-----------------------------------------------------------------------------
\* C: where the data paths are relative to the installation x who proposes them x preserve
DP(v) == "data_paths" :> v
DataVals == {S("$ES-data"), L(<<"$ES/data", "$ES.data0", "$ES.data1">>), S("$ES/inner/d"), S("$NODE/install-data"),
             S("$NODE/install/sibling"), L(<<"$NODE/data", "$DATA/p">>), S("$ES/data")}
UniverseC ==
    {[cars |-> <<Car(1, <<"b1">>, cv)>>,
      bases |-> [b \in {"b1"} |-> [vars |-> bv, tree |-> TreeV[b]]],
      params |-> pv, tpl |-> Tpl, shipped |-> ShipBare, preserve |-> pr, node |-> Node, docker |-> Docker, more |-> <<>>] :
        cv \in {NoVars, DP(S("$DATA/c1")), DP(S("$ES-data"))}, bv \in {NoVars, DP(S("$ES.data0"))},
        pv \in {NoVars} \cup {DP(v) : v \in DataVals}, pr \in BOOLEAN}

\* N: several nodes of one host provisioned one after the other from the one composed car x who (if anybody) defines data_paths
Later(j) == [vars |-> [http_port |-> S("3920" \o j), log_path |-> S("$NODE" \o j \o "/logs/server"), install_root_path |-> S("$ES" \o j),
                       minimum_master_nodes |-> S("1"), cluster_settings |-> S("{}")],
             default_data |-> "$ES" \o j \o "/data", home |-> "$ES" \o j]
UniverseN ==
    {[cars |-> <<Car(1, <<"b1">>, cv), Car(2, <<"b2">>, NoVars)>>,
      bases |-> [b \in {"b1", "b2"} |-> [vars |-> bv, tree |-> TreeV[b]]],
      params |-> pv, tpl |-> Tpl, shipped |-> ShipBare, preserve |-> pr, node |-> Node, docker |-> Docker, more |-> mo] :
        cv \in {NoVars, DP(S("$DATA/c1")), "http_port" :> S("1")}, bv \in {NoVars, DP(S("$DATA/b1"))},
        pv \in {NoVars, DP(L(<<"$DATA/p", "$DATA/q">>)), "x" :> Val("p")}, pr \in BOOLEAN,
        mo \in {<<Later("2")>>, <<Later("2"), Later("3")>>}}

\* (disjunctions of memberships, not one big union: TLC would build the union eagerly and quadratically at start-up)
InitWith(U) == inp \in U /\ out = ErrOut("pending") /\ done = FALSE
InitQuick == \/ InitWith(UniverseV({"x", "http_port", "data_paths"}, {"b1", "b2"}, LayoutsQ))
             \/ InitWith(UniverseP({"b1", "b2"}, 2, 3))
             \/ InitWith(UniverseT(2))
             \/ InitWith(UniverseC)
             \/ InitWith(UniverseN)
InitThorough == \/ InitWith(UniverseV({"x", "http_port", "data_paths", "log_path"}, {"b1", "b2", "b3"}, LayoutsT))
                \/ InitWith(UniverseP({"b1", "b2", "b3"}, 2, 3))
                \/ InitWith(UniverseT(3))
                \/ InitWith(UniverseC)
                \/ InitWith(UniverseN)
InitSelf == \/ InitWith(UniverseV({"x", "http_port", "data_paths"}, {"b1", "b2"}, LayoutsQ))
            \/ InitWith(UniverseP({"b1", "b2"}, 2, 2))
            \/ InitWith(UniverseT(1))
            \/ InitWith(UniverseC)
            \/ InitWith(UniverseN)
=============================================================================
