SPECIFICATION TSpec
CONSTANTS
  Inputs = {}
  Variant = "code"
CHECK_DEADLOCK FALSE
