\* self-test of the property formulas: the driver replaces @VARIANT@ by a seeded fault; each must violate PropertyHolds.
INIT InitSelf
NEXT Eval
CONSTANTS
  Inputs = {}
  Variant = "@VARIANT@"
INVARIANT PropertyHolds
CHECK_DEADLOCK FALSE
