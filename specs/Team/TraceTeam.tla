------------------------------ MODULE TraceTeam ------------------------------
(***************************************************************************)
(* Validates recorded executions of the real code: item = [id, inp, out]   *)
(* where inp describes the team directory / archive / arguments that were  *)
(* materialised and out is the projection of the Car returned by           *)
(* team.load_car, of the variables handed to the templates, of the         *)
(* installation tree after BareProvisioner.prepare and of the directories  *)
(* after provisioner.cleanup (see harness/teamfs.py).                      *)
(* L1: the clauses of C13 (L1Fails); L2: the result is the one of the      *)
(* transcription (Conforms).                                               *)
(***************************************************************************)
EXTENDS Team, Json, IOUtils

Items == JsonDeserialize(IOEnv.VERIF_TRACES)

\* the recorded tree is a list of [path, content]; the specification uses a function path -> content
TreeFn(s) == [p \in {e.path : e \in ToSet(s)} |-> (CHOOSE e \in ToSet(s) : e.path = p).content]
Norm(o) == [o EXCEPT !.tree = TreeFn(o.tree), !.docker = [o.docker EXCEPT !.tree = TreeFn(o.docker.tree), !.compose.mounts = ToSet(o.docker.compose.mounts)], !.more = [i \in DOMAIN o.more |-> [o.more[i] EXCEPT !.tree = TreeFn(o.more[i].tree)]]]

VARIABLES i
TInit == i = 1 /\ inp = <<>> /\ out = <<>> /\ done = FALSE

Check(it) ==
    LET o == Norm(it.out)
        l1 == L1Fails(it.inp, o)
        l2 == Conforms(it.inp, o)
    IN /\ IF l1 = {} THEN TRUE ELSE PrintT(<<"V", it.id, 1, "L1", l1>>)
       /\ IF l1 # {} \/ l2 THEN TRUE ELSE PrintT(<<"V", it.id, 1, "L2", {}>>)

TNext == /\ i <= Len(Items)
         /\ Check(Items[i])
         /\ i' = i + 1
         /\ IF i < Len(Items) THEN TRUE ELSE PrintT(<<"DONE", Len(Items), Len(Items)>>)
         /\ UNCHANGED vars

TSpec == TInit /\ [][TNext]_<<vars, i>>
=============================================================================
