\* self-test: with RejectEmptyTarget = FALSE (the code as it is) the strong clause EmptyTargetNotAll is violated in the model
SPECIFICATION Spec
CONSTANTS
  Inputs <- InSelf
  RejectUnknownTarget = TRUE
  RejectEmptyTarget = FALSE
  KeepFalsy = TRUE
  TemplatesPassThrough = TRUE
  DeepSettings = TRUE
  MergeIntoCopy = TRUE
  FreshParams = TRUE
  UnknownSourceIsRallyError = TRUE
INVARIANT InvEmptyTargetNotAll
CHECK_DEADLOCK FALSE
