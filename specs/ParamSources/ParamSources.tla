---------------------------- MODULE ParamSources ----------------------------
(***************************************************************************)
(* The NON-bulk parameter sources of esrally/track/params.py and their      *)
(* registry: what the runner of an operation receives for (track, operation *)
(* definition).  (The bulk source is specs/BulkPartition, property C03.)    *)
(* Function-like: Init chooses a small track and an operation, Eval         *)
(* computes the parameters.  docs/track.rst (operation reference) and        *)
(* docs/advanced.rst (custom parameter sources) are the documentation.      *)
(*                                                                         *)
(* track  trk = [idx, ds, tpl, cpt, cmp]: the sections indices,             *)
(*   data-streams, templates, composable-templates, component-templates as  *)
(*   sequences (TRACK ORDER) of items [name, body, pat, dmi]                *)
(* dict   a JSON object is the SET of its leaves <<path, value>> (path =     *)
(*   sequence of keys, value = string; an empty object is the leaf "{}");    *)
(*   Body = [k |-> "none" | "dict", ps]  ("none": None / parameter absent)   *)
(* target T = [k |-> "absent" | "str" | "list" | "null", s, l]: the value of  *)
(*   index / data-stream / template / source-index                          *)
(* scalar a token: "absent" (no such key), "null", "true", "false", "i:3",   *)
(*   "s:text", "{k=tok,..}", "[tok,..]"                                      *)
(* op     = [type, src (param-source name or "absent"), tgt, alt (the        *)
(*   data-stream of search / force-merge / downsample), settings, body,     *)
(*   sc: ScKeys -> token]                                                   *)
(* result o = [err, named, items: Seq([name, body, dmi, pat]), target, sc,   *)
(*   keys (all keys of the parameter dict), same (params() twice and for     *)
(*   two partitions: equal), fresh (the second params() does not show what   *)
(*   the driver / runner did to the first), opsame, after (the track         *)
(*   afterwards), inf, pc]                                                  *)
(*                                                                         *)
(* Behaviours of the code that differ from the documented / intended        *)
(* mapping are named switches (TRUE = intended, FALSE = the code as it is): *)
(*   RejectUnknownTarget  create-index / create-data-stream /               *)
(*        create-index-template / delete-*-template with a track section:    *)
(*        a name the track does not declare is silently dropped (the         *)
(*        documented "one specific index defined by this operation" creates  *)
(*        NOTHING as soon as the track declares any index)                   *)
(*   RejectEmptyTarget    index: [] / "" (template: "") means ALL items of    *)
(*        the track (delete-index with an empty list deletes every index);   *)
(*        search / force-merge: index "" = the track default                 *)
(*   KeepFalsy            search: results-per-page: 0 / pages: 0 /            *)
(*        with-point-in-time-from: "" are dropped (`if x:`)                  *)
(*   TemplatesPassThrough create-composable-template /                       *)
(*        create-component-template / delete-component-template return ONLY   *)
(*        templates / request-params / only-if-exists: the documented retry  *)
(*        properties, request-timeout, headers, opaque-id never reach the    *)
(*        runner (`retries` has no effect)                                  *)
(*   DeepSettings         create-index / create-index-template merge the     *)
(*        settings with dict.update: a nested key replaces the whole nested   *)
(*        object of the track (sibling settings are lost); the composable /  *)
(*        component sources merge recursively                               *)
(*   MergeIntoCopy        settings are merged INTO the track's own           *)
(*        definition (later operations on the same track see them);          *)
(*        downsample writes `index` into the operation's parameters          *)
(*   FreshParams          search sources and the default source return their  *)
(*        own dict from params(): Runner._transport_request_params pops       *)
(*        request-timeout / headers / opaque-id from it, so only the FIRST   *)
(*        request of a client carries them                                   *)
(*   UnknownSourceIsRallyError  an unknown param-source name is a KeyError    *)
(***************************************************************************)
EXTENDS Integers, Sequences, FiniteSets, TLC

CONSTANTS Inputs,      \* sequence of sets of <<trk, op>> (no big unions: TLC's set union is slow on tens of thousands of records)
          RejectUnknownTarget, RejectEmptyTarget, KeepFalsy, TemplatesPassThrough, DeepSettings, MergeIntoCopy, FreshParams,
          UnknownSourceIsRallyError

(***************************************************************************)
(* Vocabulary                                                              *)
(***************************************************************************)
CI == "create-index"                 DI == "delete-index"
CDS == "create-data-stream"          DDS == "delete-data-stream"
CIT == "create-index-template"       DIT == "delete-index-template"
CCT == "create-composable-template"  DCT == "delete-composable-template"
CKT == "create-component-template"   DKT == "delete-component-template"
FM == "force-merge"                  SL == "sleep"                  DS == "downsample"
SearchTypes == {"search", "scroll-search", "paginated-search", "composite-agg"}
ItemFams == {CI, DI, CDS, DDS, CIT, DIT, CCT, CKT, DCT, DKT}
CreateFams == {CI, CIT, CCT, CKT}               \* emit (name, body)
ExplicitFirst == {DI, DDS}                      \* the operation's names are used as they are, the track is only the default
NoPassFams == {CCT, CKT, DKT}
Registered == ItemFams \cup SearchTypes \cup {FM, SL, DS}        \* everything else: the default ParamSource (pass-through)
Popping == SearchTypes \cup {"raw-request", "restore-snapshot", DS, "esql"}    \* runners that call _transport_request_params

ScKeys == {"request-params", "only-if-exists", "delete-matching-indices", "index-pattern", "type", "cache", "detailed-results", "pages",
           "results-per-page", "response-compression-enabled", "with-point-in-time-from", "assertions", "body", "max-num-segments", "mode",
           "poll-period", "request-timeout", "headers", "opaque-id", "retries", "duration", "fixed-interval", "target-index", "via", "kw"}
ClientKeys == {"request-timeout", "headers", "opaque-id"}
AlwaysGiven == {"name", "operation-type", "include-in-reporting"}        \* what the track loader always puts into an operation
Falsy(tok) == tok \in {"absent", "null", "false", "i:0", "s:", "{}", "[]", "f:0.0"}
IsNull(tok) == tok \in {"absent", "null"}

Absent == [k |-> "absent", s |-> "", l |-> <<>>]
NullT == [k |-> "null", s |-> "", l |-> <<>>]
Str(x) == [k |-> "str", s |-> x, l |-> <<>>]
Lst(q) == [k |-> "list", s |-> "", l |-> q]
Given(t) == t.k # "absent"
Truthy(t) == (t.k = "str" /\ t.s # "") \/ (t.k = "list" /\ t.l # <<>>)
AsList(t) == IF t.k = "str" THEN <<t.s>> ELSE t.l
ToSet(q) == {q[j] : j \in 1..Len(q)}

NoBody == [k |-> "none", ps |-> {}]
Dict(ps) == [k |-> "dict", ps |-> ps]
BGiven(b) == b.k # "none"
BTruthy(b) == b.k = "dict" /\ b.ps # {}

It(name, body, dmi, pat) == [name |-> name, body |-> body, dmi |-> dmi, pat |-> pat]
Names(sec) == [j \in 1..Len(sec) |-> sec[j].name]
NameSet(sec) == {sec[j].name : j \in 1..Len(sec)}
NoSc == [k \in ScKeys |-> "absent"]

Sec(trk, t) == IF t \in {CI, DI} THEN trk.idx ELSE IF t \in {CDS, DDS} THEN trk.ds ELSE IF t \in {CIT, DIT} THEN trk.tpl
               ELSE IF t \in {CCT, DCT} THEN trk.cpt ELSE IF t \in {CKT, DKT} THEN trk.cmp ELSE <<>>
TgtKey(t) == IF t \in {CDS, DDS} THEN "data-stream" ELSE IF t \in {CIT, DIT, CCT, CKT, DCT, DKT} THEN "template"
             ELSE IF t = DS THEN "source-index" ELSE "index"
ItemsKey(t) == IF t \in {CI, DI} THEN "indices" ELSE IF t \in {CDS, DDS} THEN "data-streams" ELSE "templates"
SettingsAt(t) == IF t \in {CCT, CKT} THEN <<"template", "settings">> ELSE <<"settings">>

(***************************************************************************)
(* Dicts as sets of leaves                                                 *)
(***************************************************************************)
IsPrefix(a, b) == Len(a) <= Len(b) /\ SubSeq(b, 1, Len(a)) = a
Conflict(a, b) == IsPrefix(a, b) \/ IsPrefix(b, a)
Put(pre, ps) == {<<pre \o e[1], e[2]>> : e \in ps}
\* body[pre].update(upd) resp. body[pre] = upd when there is no such key: a top-level key of upd replaces that key
ShallowAt(pre, ps, upd) ==
    {e \in ps : ~(IsPrefix(pre, e[1]) /\ (Len(e[1]) = Len(pre) \/ \E u \in upd : e[1][Len(pre) + 1] = u[1][1]))} \cup Put(pre, upd)
\* CreateTemplateParamSource._create_or_merge: recursive merge, a leaf of upd replaces what is at / above / below its path
DeepAt(pre, ps, upd) == {e \in ps : ~\E u \in upd : Conflict(e[1], pre \o u[1])} \cup Put(pre, upd)

(***************************************************************************)
(* What an operation definition contains                                   *)
(***************************************************************************)
GivenKeys(op) == AlwaysGiven \cup {k \in ScKeys : op.sc[k] # "absent"}
                 \cup (IF Given(op.tgt) THEN {TgtKey(op.type)} ELSE {})
                 \cup (IF Given(op.alt) THEN {"data-stream"} ELSE {})
                 \cup (IF BGiven(op.settings) THEN {"settings"} ELSE {})
                 \cup (IF BGiven(op.body) THEN {"body"} ELSE {})
                 \cup (IF op.src # "absent" THEN {"param-source"} ELSE {})
RPTok(op) == IF op.sc["request-params"] = "absent" THEN "{}" ELSE op.sc["request-params"]
OIETok(op) == IF op.sc["only-if-exists"] = "absent" THEN "true" ELSE op.sc["only-if-exists"]
Or(tok, dflt) == IF tok = "absent" THEN dflt ELSE tok

Res(items, target, sc, keys) == [err |-> "-", named |-> {}, items |-> items, target |-> target, sc |-> sc, keys |-> keys]
Err(kind, named) == [err |-> kind, named |-> named, items |-> <<>>, target |-> Absent, sc |-> NoSc, keys |-> {}]
Syntax(named) == Err("InvalidSyntax", named)

EmptyRejected(op) == RejectEmptyTarget /\ Given(op.tgt) /\ ~Truthy(op.tgt)
UnknownRejected(op, sec) == RejectUnknownTarget /\ sec # <<>> /\ Truthy(op.tgt) /\ ~(ToSet(AsList(op.tgt)) \subseteq NameSet(sec))

\* pass-through sources: p.update(self._params); p.update({items key, request-params, ...})
PassRes(op, items, extra) ==
    LET sc == [k \in ScKeys |-> IF k \in DOMAIN extra THEN extra[k] ELSE op.sc[k]]
    IN Res(items, Absent, sc, GivenKeys(op) \cup {ItemsKey(op.type)} \cup DOMAIN extra)
\* sources that return only their own keys (unless TemplatesPassThrough)
OwnRes(op, items, extra) ==
    IF TemplatesPassThrough THEN PassRes(op, items, extra)
    ELSE Res(items, Absent, [k \in ScKeys |-> IF k \in DOMAIN extra THEN extra[k] ELSE "absent"], {ItemsKey(op.type)} \cup DOMAIN extra)

(***************************************************************************)
(* Transcription: create-index / create-data-stream                        *)
(***************************************************************************)
\* `if isinstance(filter, str): filter = [filter]` and then `not filter or name in filter`: "" selects nothing, [] everything
SelectsAllL(t) == t.k = "absent" \/ (t.k = "list" /\ t.l = <<>>)
SelectedL(t, name) == SelectsAllL(t) \/ name \in ToSet(AsList(t))
\* `not filter or name == filter` (templates): every falsy value selects everything
SelectedT(t, name) == ~Truthy(t) \/ (t.k = "str" /\ t.s = name)

Merged(t, b, st) == IF DeepSettings \/ t \in {CCT, CKT} THEN DeepAt(SettingsAt(t), b.ps, st.ps) ELSE ShallowAt(SettingsAt(t), b.ps, st.ps)

CIBody(b, st) == IF ~BTruthy(st) THEN b                            \* `settings` falsy: the body as it is
                 ELSE IF BTruthy(b) THEN Dict(Merged(CI, b, st))    \* merged into the track's dict
                 ELSE Dict(Put(<<"settings">>, st.ps))              \* `body = {"settings": settings}`: a new dict
CodeCI(trk, op) ==
    LET sec == trk.idx
        extra == ("request-params" :> RPTok(op))
    IN IF EmptyRejected(op) \/ UnknownRejected(op, sec) THEN Syntax({"index"})
       ELSE IF sec # <<>> THEN
            LET sel == SelectSeq(sec, LAMBDA it : SelectedL(op.tgt, it.name))
            IN PassRes(op, [j \in 1..Len(sel) |-> It(sel[j].name, CIBody(sel[j].body, op.settings), "-", "-")], extra)
       ELSE IF ~Given(op.tgt) THEN Syntax({"index"})
       ELSE LET names == AsList(op.tgt)
            IN PassRes(op, [j \in 1..Len(names) |-> It(names[j], op.body, "-", "-")], extra)

CodeCDS(trk, op) ==
    LET sec == trk.ds
        extra == ("request-params" :> RPTok(op))
    IN IF EmptyRejected(op) \/ UnknownRejected(op, sec) THEN Syntax({"data-stream"})
       ELSE IF sec # <<>> THEN
            LET sel == SelectSeq(sec, LAMBDA it : SelectedL(op.tgt, it.name))
            IN PassRes(op, [j \in 1..Len(sel) |-> It(sel[j].name, NoBody, "-", "-")], extra)
       ELSE IF ~Given(op.tgt) THEN Syntax({"data-stream"})
       ELSE LET names == AsList(op.tgt)
            IN PassRes(op, [j \in 1..Len(names) |-> It(names[j], NoBody, "-", "-")], extra)

(* delete-index / delete-data-stream: `if target:` explicit names, elif the track's, else error (the message names no property) *)
CodeDel(trk, op) ==
    LET sec == Sec(trk, op.type)
        extra == ("request-params" :> RPTok(op)) @@ ("only-if-exists" :> OIETok(op))
    IN IF EmptyRejected(op) THEN Syntax({TgtKey(op.type)})
       ELSE IF Truthy(op.tgt) THEN
            LET names == AsList(op.tgt) IN PassRes(op, [j \in 1..Len(names) |-> It(names[j], NoBody, "-", "-")], extra)
       ELSE IF sec # <<>> THEN PassRes(op, [j \in 1..Len(sec) |-> It(sec[j].name, NoBody, "-", "-")], extra)
       ELSE Syntax({})

(***************************************************************************)
(* Transcription: the template family                                      *)
(***************************************************************************)
CITBody(b, st) == IF BTruthy(b) /\ BTruthy(st) THEN Dict(Merged(CIT, b, st)) ELSE b
CodeCIT(trk, op) ==
    LET sec == trk.tpl
        extra == ("request-params" :> RPTok(op))
    IN IF EmptyRejected(op) \/ UnknownRejected(op, sec) THEN Syntax({"template"})
       ELSE IF sec # <<>> THEN
            LET sel == SelectSeq(sec, LAMBDA it : SelectedT(op.tgt, it.name))
            IN PassRes(op, [j \in 1..Len(sel) |-> It(sel[j].name, CITBody(sel[j].body, op.settings), "-", "-")], extra)
       ELSE IF ~Given(op.tgt) \/ ~BGiven(op.body) THEN Syntax({"template", "body"})
       ELSE PassRes(op, <<It(op.tgt.s, op.body, "-", "-")>>, extra)

(* delete-index-template / delete-composable-template *)
CodeDelT(trk, op) ==
    LET sec == Sec(trk, op.type)
        extra == ("request-params" :> RPTok(op)) @@ ("only-if-exists" :> OIETok(op))
        dmi == Or(op.sc["delete-matching-indices"], "false")
    IN IF EmptyRejected(op) \/ UnknownRejected(op, sec) THEN Syntax({"template"})
       ELSE IF sec # <<>> THEN
            LET sel == SelectSeq(sec, LAMBDA it : SelectedT(op.tgt, it.name))
            IN PassRes(op, [j \in 1..Len(sel) |-> It(sel[j].name, NoBody, sel[j].dmi, sel[j].pat)], extra)
       ELSE IF ~Given(op.tgt) THEN Syntax({"template"})
       ELSE IF ~Falsy(dmi) /\ op.sc["index-pattern"] = "absent" THEN Syntax({"index-pattern", "delete-matching-indices"})
       ELSE PassRes(op, <<It(op.tgt.s, NoBody, dmi, IF Falsy(dmi) THEN "null" ELSE op.sc["index-pattern"])>>, extra)

CodeDKT(trk, op) ==
    LET sec == trk.cmp
        extra == ("request-params" :> RPTok(op)) @@ ("only-if-exists" :> OIETok(op))
    IN IF EmptyRejected(op) \/ UnknownRejected(op, sec) THEN Syntax({"template"})
       ELSE IF sec # <<>> THEN
            LET sel == SelectSeq(sec, LAMBDA it : SelectedT(op.tgt, it.name))
            IN OwnRes(op, [j \in 1..Len(sel) |-> It(sel[j].name, NoBody, "-", "-")], extra)
       ELSE IF ~Given(op.tgt) THEN Syntax({"template"})
       ELSE OwnRes(op, <<It(op.tgt.s, NoBody, "-", "-")>>, extra)

(* create-composable-template / create-component-template: template AND body in the operation win; else the track's templates *)
CCTExplicit(op) == Given(op.tgt) /\ BGiven(op.body)
CCTBody(t, b, st) == IF BTruthy(st) THEN Dict(Merged(t, b, st)) ELSE b
CodeCCT(trk, op) ==
    LET sec == Sec(trk, op.type)
        extra == ("request-params" :> RPTok(op))
    IN IF EmptyRejected(op) THEN Syntax({"template"})
       ELSE IF CCTExplicit(op) THEN OwnRes(op, <<It(op.tgt.s, op.body, "-", "-")>>, extra)
       ELSE IF sec # <<>> THEN
            LET sel == SelectSeq(sec, LAMBDA it : SelectedT(op.tgt, it.name))
            IN IF Truthy(op.tgt) /\ sel = <<>> THEN Syntax({})        \* "Unknown template: x. Available templates: ..."
               ELSE OwnRes(op, [j \in 1..Len(sel) |-> It(sel[j].name, CCTBody(op.type, sel[j].body, op.settings), "-", "-")], extra)
       ELSE Syntax({"template", "body"})

(***************************************************************************)
(* Transcription: search, force-merge, downsample, sleep, default, named    *)
(***************************************************************************)
RECURSIVE Join(_)
Join(q) == IF q = <<>> THEN "" ELSE IF Len(q) = 1 THEN q[1] ELSE q[1] \o "," \o Join(Tail(q))

\* params.get_target: a truthy index, else data-stream when GIVEN, else the only index / the only data stream, else None
GetTarget(trk, tgt, alt) ==
    LET dflt == IF Len(trk.idx) = 1 THEN Str(trk.idx[1].name) ELSE IF Len(trk.ds) = 1 THEN Str(trk.ds[1].name) ELSE NullT
    IN IF Truthy(tgt) THEN tgt ELSE IF Given(alt) THEN alt ELSE dflt

SearchOwn == {"index", "type", "cache", "detailed-results", "request-params", "response-compression-enabled", "body"} \cup ClientKeys
CodeSearch(trk, op) ==
    LET target == GetTarget(trk, op.tgt, op.alt)
        p == op.sc
        kept(k) == IF (IF KeepFalsy THEN IsNull(p[k]) ELSE Falsy(p[k])) THEN "absent" ELSE p[k]
        sc == [k \in ScKeys |->
                 IF k \in {"type", "cache", "body"} \cup ClientKeys THEN Or(p[k], "null")
                 ELSE IF k = "detailed-results" THEN Or(p[k], "false")
                 ELSE IF k = "response-compression-enabled" THEN Or(p[k], "true")
                 ELSE IF k = "request-params" THEN RPTok(op)
                 ELSE IF k \in {"pages", "results-per-page", "with-point-in-time-from"} THEN kept(k)
                 ELSE IF k = "assertions" THEN p[k]
                 ELSE "absent"]
    IN IF EmptyRejected(op) THEN Syntax({"index"})
       ELSE IF Truthy(op.alt) /\ ~Falsy(p["type"]) THEN Syntax({"type", "data-stream"})
       ELSE IF ~Truthy(target) THEN Syntax({"index", "data-stream"})
       ELSE IF p["assertions"] # "absent" /\ Falsy(p["detailed-results"]) /\ Falsy(p["pages"]) THEN Syntax({"detailed-results"})
       ELSE Res(<<>>, target, sc, SearchOwn \cup {k \in {"pages", "results-per-page", "with-point-in-time-from", "assertions"} : sc[k] # "absent"})

FMOwn == {"index", "max-num-segments", "mode", "poll-period"} \cup ClientKeys
CodeFM(trk, op) ==
    LET all == Names(trk.idx) \o Names(trk.ds)
        dflt == IF all = <<>> THEN Str("_all") ELSE Str(Join(all))
        target == IF Truthy(op.tgt) THEN op.tgt ELSE IF Given(op.alt) THEN op.alt ELSE dflt
        p == op.sc
        sc == [k \in ScKeys |-> IF k \in {"max-num-segments"} \cup ClientKeys THEN Or(p[k], "null")
                                ELSE IF k = "mode" THEN Or(p[k], "s:blocking")
                                ELSE IF k = "poll-period" THEN Or(p[k], "i:10")
                                ELSE "absent"]
    IN IF EmptyRejected(op) THEN Syntax({"index"}) ELSE Res(<<>>, target, sc, FMOwn)

TStr(t) == IF t.k = "str" THEN t.s ELSE IF t.k = "null" THEN "None" ELSE "?"
TokStr(tok) == IF tok = "null" THEN "None" ELSE tok          \* only used for string tokens below
DSOwn == {"fixed-interval", "source-index", "target-index"} \cup ClientKeys
CodeDS(trk, op) ==
    LET p == op.sc
        interval == Or(p["fixed-interval"], "s:1h")
        source == GetTarget(trk, op.tgt, op.alt)                  \* params["index"] = params.get("source-index")
        \* f"{source}-{interval}": tokens "s:<text>"
        dflt == "s:" \o TStr(source) \o "-" \o (IF interval = "null" THEN "None" ELSE SubSeq(interval, 3, Len(interval)))
        sc == [k \in ScKeys |-> IF k \in ClientKeys THEN Or(p[k], "null")
                                ELSE IF k = "fixed-interval" THEN interval
                                ELSE IF k = "target-index" THEN Or(p[k], dflt)
                                ELSE "absent"]
    IN Res(<<>>, source, sc, DSOwn)

\* sleep: duration mandatory, a number (bool is one), non-negative; dict(params)
IsNumTok(tok) == tok \in {"true", "false"} \/ (Len(tok) >= 2 /\ SubSeq(tok, 1, 2) \in {"i:", "f:"})
IsNegTok(tok) == Len(tok) >= 3 /\ SubSeq(tok, 3, 3) = "-"
CodeSleep(trk, op) ==
    LET d == op.sc["duration"]
    IN IF d = "absent" \/ ~IsNumTok(d) \/ IsNegTok(d) THEN Syntax({"duration"})
       ELSE Res(<<>>, Absent, op.sc, GivenKeys(op))

\* the default ParamSource: the operation's own parameters
CodeDefault(trk, op) == Res(<<>>, Absent, op.sc, GivenKeys(op))

\* a parameter source registered by name (track plugin): function -> DelegatingParamSource -> fn(track, params), class -> cls(track, params);
\* the harness' sources return dict(params, via=<kind>, kw=<names of the keyword arguments they got>)
NamedKinds == {"fn", "legacyfn", "cls", "legacycls"}
CodeNamed(trk, op) ==
    IF op.src \in NamedKinds
    THEN Res(<<>>, Absent, [k \in ScKeys |-> IF k = "via" THEN "s:" \o op.src ELSE IF k = "kw" THEN "[]" ELSE op.sc[k]], GivenKeys(op) \cup {"via", "kw"})
    ELSE Err(IF UnknownSourceIsRallyError THEN "InvalidSyntax" ELSE "KeyError", IF UnknownSourceIsRallyError THEN {"param-source"} ELSE {})

Code0(trk, op) ==
    IF op.src # "absent" THEN CodeNamed(trk, op)
    ELSE IF op.type = CI THEN CodeCI(trk, op)
    ELSE IF op.type = CDS THEN CodeCDS(trk, op)
    ELSE IF op.type \in {DI, DDS} THEN CodeDel(trk, op)
    ELSE IF op.type = CIT THEN CodeCIT(trk, op)
    ELSE IF op.type \in {DIT, DCT} THEN CodeDelT(trk, op)
    ELSE IF op.type = DKT THEN CodeDKT(trk, op)
    ELSE IF op.type \in {CCT, CKT} THEN CodeCCT(trk, op)
    ELSE IF op.type \in SearchTypes THEN CodeSearch(trk, op)
    ELSE IF op.type = FM THEN CodeFM(trk, op)
    ELSE IF op.type = DS THEN CodeDS(trk, op)
    ELSE IF op.type = SL THEN CodeSleep(trk, op)
    ELSE CodeDefault(trk, op)

(***************************************************************************)
(* Side effects                                                            *)
(***************************************************************************)
\* the track afterwards: settings merged into the selected definitions (in place unless MergeIntoCopy)
After(trk, op) ==
    LET t == op.type
        ok == Code0(trk, op).err = "-" /\ op.src = "absent" /\ BTruthy(op.settings) /\ ~MergeIntoCopy
        upd(sec, sel(_), body(_)) == [j \in 1..Len(sec) |-> IF sel(sec[j]) THEN [sec[j] EXCEPT !.body = body(sec[j].body)] ELSE sec[j]]
    IN IF ~ok THEN trk
       ELSE IF t = CI /\ trk.idx # <<>>
            THEN [trk EXCEPT !.idx = upd(trk.idx, LAMBDA it : SelectedL(op.tgt, it.name) /\ BTruthy(it.body), LAMBDA b : CIBody(b, op.settings))]
       ELSE IF t = CIT /\ trk.tpl # <<>>
            THEN [trk EXCEPT !.tpl = upd(trk.tpl, LAMBDA it : SelectedT(op.tgt, it.name), LAMBDA b : CITBody(b, op.settings))]
       ELSE IF t = CCT /\ ~CCTExplicit(op) /\ trk.cpt # <<>>
            THEN [trk EXCEPT !.cpt = upd(trk.cpt, LAMBDA it : SelectedT(op.tgt, it.name), LAMBDA b : CCTBody(t, b, op.settings))]
       ELSE IF t = CKT /\ ~CCTExplicit(op) /\ trk.cmp # <<>>
            THEN [trk EXCEPT !.cmp = upd(trk.cmp, LAMBDA it : SelectedT(op.tgt, it.name), LAMBDA b : CCTBody(t, b, op.settings))]
       ELSE trk

\* does the second params() equal the first although the driver added operation-type to the first and the runner (the ones that use
\* Runner._transport_request_params) popped request-timeout / headers / opaque-id from it?  None-valued keys do not count.
SharesDict(op) == op.src = "absent" /\ (op.type \in SearchTypes \/ op.type \notin Registered)
FreshOf(trk, op) == \/ FreshParams \/ Code0(trk, op).err # "-" \/ ~SharesDict(op) \/ op.type \notin Popping
                    \/ \A k \in ClientKeys : IsNull(op.sc[k])
OpSameOf(trk, op) == MergeIntoCopy \/ op.type # DS \/ op.src # "absent"

Code(trk, op) ==
    LET r == Code0(trk, op)
    IN [err |-> r.err, named |-> r.named, items |-> r.items, target |-> r.target, sc |-> r.sc, keys |-> r.keys,
        same |-> TRUE, fresh |-> FreshOf(trk, op), opsame |-> OpSameOf(trk, op), after |-> After(trk, op),
        inf |-> TRUE, pc |-> FALSE]

(***************************************************************************)
(* The documented mapping as clauses over (track, operation, result).       *)
(* Weak clauses: what the code as it is satisfies.  Strong clauses: the     *)
(* documented / intended form, met when the switches are TRUE.              *)
(***************************************************************************)
OK(o) == o.err = "-"
ONames(o) == [j \in 1..Len(o.items) |-> o.items[j].name]
RECURSIVE IsSubSeq(_, _)
IsSubSeq(a, b) == IF a = <<>> THEN TRUE ELSE IF b = <<>> THEN FALSE
                  ELSE IF a[1] = b[1] THEN IsSubSeq(Tail(a), Tail(b)) ELSE IsSubSeq(a, Tail(b))
Plain(op) == op.src = "absent"
ItemOp(op) == Plain(op) /\ op.type \in ItemFams
\* the names come from the operation alone
ExplicitMode(trk, op) == \/ op.type \in ExplicitFirst /\ Truthy(op.tgt)
                         \/ op.type \in {CCT, CKT} /\ CCTExplicit(op)
                         \/ op.type \notin ExplicitFirst /\ Sec(trk, op.type) = <<>>
TrackItem(sec, name) == sec[CHOOSE j \in 1..Len(sec) : sec[j].name = name]

\* errors are Rally's InvalidSyntax, never a leaked KeyError / TypeError (an unknown param-source name: strong form only)
ErrorsExplicitW(trk, op, o) == o.err \in {"-", "InvalidSyntax"} \/ (op.src # "absent" /\ op.src \notin NamedKinds)
ErrorsExplicit(trk, op, o) == o.err \in {"-", "InvalidSyntax"}
\* a refused operation is told which property to set: the message quotes it (delete-index / delete-data-stream "targets no index" and
\* create-composable / component-template "Unknown template: x" do not)
ErrorNamesProperty(trk, op, o) ==
    (Plain(op) /\ o.err = "InvalidSyntax") => \/ o.named # {}
                                             \/ op.type \in {DI, DDS}
                                             \/ (op.type \in {CCT, CKT} /\ Truthy(op.tgt))
\* neither the operation nor the track determines a target -> error
NoTargetIsError(trk, op, o) ==
    /\ (ItemOp(op) /\ Sec(trk, op.type) = <<>> /\ ~Given(op.tgt)) => ~OK(o)
    /\ (ItemOp(op) /\ op.type \in {CIT, CCT, CKT} /\ Sec(trk, op.type) = <<>> /\ ~BGiven(op.body)) => ~OK(o)
    /\ (Plain(op) /\ op.type \in SearchTypes /\ ~Given(op.tgt) /\ ~Given(op.alt) /\ Len(trk.idx) # 1 /\ Len(trk.ds) # 1) => ~OK(o)
    /\ (Plain(op) /\ op.type \in SearchTypes /\ Truthy(op.alt) /\ ~Falsy(op.sc["type"])) => ~OK(o)
    /\ (Plain(op) /\ op.type \in SearchTypes /\ op.sc["assertions"] # "absent" /\ Falsy(op.sc["detailed-results"]) /\ Falsy(op.sc["pages"])) => ~OK(o)
    /\ (Plain(op) /\ op.type = SL /\ ~(IsNumTok(op.sc["duration"]) /\ ~IsNegTok(op.sc["duration"]))) => ~OK(o)
\* ... and no error when the track section alone, or declared / explicit names, determine it
NoSpuriousError(trk, op, o) ==
    /\ (ItemOp(op) /\ Sec(trk, op.type) # <<>> /\ ~Given(op.tgt)) => OK(o)
    /\ (ItemOp(op) /\ Sec(trk, op.type) # <<>> /\ Truthy(op.tgt) /\ ToSet(AsList(op.tgt)) \subseteq NameSet(Sec(trk, op.type))) => OK(o)
    /\ (ItemOp(op) /\ op.type \in ExplicitFirst /\ Truthy(op.tgt)) => OK(o)
    /\ (ItemOp(op) /\ op.type \in {CI, CDS, DKT} /\ Sec(trk, op.type) = <<>> /\ Truthy(op.tgt)) => OK(o)
    /\ (ItemOp(op) /\ op.type \in {CIT, CCT, CKT} /\ Truthy(op.tgt) /\ BGiven(op.body) /\ Sec(trk, op.type) = <<>>) => OK(o)
    /\ (Plain(op) /\ op.type \in SearchTypes /\ Truthy(op.tgt) /\ ~(Truthy(op.alt) /\ ~Falsy(op.sc["type"])) /\ op.sc["assertions"] = "absent") => OK(o)
    /\ (Plain(op) /\ op.type \in {FM, DS} /\ (~Given(op.tgt) \/ Truthy(op.tgt))) => OK(o)
    /\ (Plain(op) /\ op.type \notin Registered) => OK(o)
\* without a target parameter: exactly the track's items, in track order
AllWhenAbsent(trk, op, o) == (ItemOp(op) /\ OK(o) /\ ~Given(op.tgt) /\ Sec(trk, op.type) # <<>>) => ONames(o) = Names(Sec(trk, op.type))
\* with a target parameter: nothing but the named items (explicit parameters win over the track)
OnlySelected(trk, op, o) == (ItemOp(op) /\ OK(o) /\ Truthy(op.tgt)) => ToSet(ONames(o)) \subseteq ToSet(AsList(op.tgt))
\* ... and (strong) every named item: none is silently dropped
SelectedEmitted(trk, op, o) == (ItemOp(op) /\ OK(o) /\ Truthy(op.tgt)) => ToSet(AsList(op.tgt)) \subseteq ToSet(ONames(o))
\* names taken from the track keep the track's order, each once; explicit names are used verbatim
TrackOrder(trk, op, o) ==
    (ItemOp(op) /\ OK(o)) => IF ExplicitMode(trk, op) THEN ONames(o) = AsList(op.tgt)
                             ELSE IsSubSeq(SelectSeq(ONames(o), LAMBDA n : n \in NameSet(Sec(trk, op.type))), Names(Sec(trk, op.type)))
\* (strong) an empty target ([] / "") is not "everything": nothing is emitted (or it is refused); search / force-merge: not the default
EmptyTargetNotAll(trk, op, o) ==
    /\ (ItemOp(op) /\ OK(o) /\ Given(op.tgt) /\ ~Truthy(op.tgt) /\ Sec(trk, op.type) # <<>>) => o.items = <<>>
    /\ (Plain(op) /\ op.type \in SearchTypes \cup {FM} /\ OK(o) /\ Given(op.tgt) /\ ~Truthy(op.tgt) /\ ~Given(op.alt)) => o.target = op.tgt

\* documented defaults, applied exactly when the parameter is absent
Defaults(t) ==
    IF t \in {DI, DDS, DIT, DCT, DKT} THEN ("request-params" :> "{}") @@ ("only-if-exists" :> "true")
    ELSE IF t \in ItemFams THEN ("request-params" :> "{}")
    ELSE IF t \in SearchTypes THEN ("request-params" :> "{}") @@ ("cache" :> "null") @@ ("detailed-results" :> "false") @@ ("type" :> "null")
                                   @@ ("response-compression-enabled" :> "true") @@ ("request-timeout" :> "null") @@ ("headers" :> "null")
                                   @@ ("opaque-id" :> "null") @@ ("pages" :> "absent") @@ ("results-per-page" :> "absent")
    ELSE IF t = FM THEN ("max-num-segments" :> "null") @@ ("mode" :> "s:blocking") @@ ("poll-period" :> "i:10") @@ ("request-timeout" :> "null")
    ELSE IF t = DS THEN ("fixed-interval" :> "s:1h")
    ELSE <<>>
DefaultWhenAbsent(trk, op, o) ==
    (Plain(op) /\ OK(o)) => \A k \in DOMAIN Defaults(op.type) : op.sc[k] = "absent" => o.sc[k] = Defaults(op.type)[k]
\* properties of the operation that are documented for its type (own ones, the client options, the retry options of retryable types)
Honoured(t) ==
    IF t \in {DI, DDS, DIT, DCT, DKT} THEN {"request-params", "only-if-exists", "retries"} \cup ClientKeys
    ELSE IF t \in ItemFams THEN {"request-params", "retries"} \cup ClientKeys
    ELSE IF t \in SearchTypes THEN {"request-params", "type", "cache", "detailed-results", "pages", "results-per-page", "body", "assertions",
                                    "response-compression-enabled", "with-point-in-time-from"} \cup ClientKeys
    ELSE IF t = FM THEN {"max-num-segments", "mode", "poll-period"} \cup ClientKeys
    ELSE IF t = DS THEN {"fixed-interval", "target-index"} \cup ClientKeys
    ELSE IF t = SL THEN {"duration"}
    ELSE IF t \in Registered THEN {}
    ELSE ScKeys \ {"via", "kw"}
TruthyOnly == {"pages", "results-per-page", "with-point-in-time-from"}
\* a given value reaches the runner as it is; weak: apart from falsy pages / results-per-page / point-in-time and from the
\* sources that return only their own keys; strong: always (0 / false / "" included)
GivenPreservedW(trk, op, o) ==
    (Plain(op) /\ OK(o)) => \A k \in Honoured(op.type) :
        (op.sc[k] # "absent" /\ ~(k \in TruthyOnly /\ Falsy(op.sc[k])) /\ ~(op.type \in NoPassFams /\ k \notin {"request-params", "only-if-exists"}))
            => o.sc[k] = op.sc[k]
FalsyPreserved(trk, op, o) ==
    (Plain(op) /\ OK(o)) => \A k \in Honoured(op.type) :
        (op.sc[k] # "absent" /\ k \in TruthyOnly /\ Falsy(op.sc[k])) => o.sc[k] = op.sc[k]
CommonPropsPassed(trk, op, o) ==
    (Plain(op) /\ OK(o) /\ op.type \in NoPassFams) => \A k \in Honoured(op.type) : op.sc[k] # "absent" => o.sc[k] = op.sc[k]
\* nothing else is handed to the runner than the operation's own properties and the source's keys
OwnKeys(t) == IF t \in ItemFams THEN {ItemsKey(t), "request-params", "only-if-exists"} ELSE IF t \in SearchTypes THEN SearchOwn \cup TruthyOnly \cup {"assertions"}
              ELSE IF t = FM THEN FMOwn ELSE IF t = DS THEN DSOwn ELSE {}
KeysExact(trk, op, o) ==
    (Plain(op) /\ OK(o)) => (/\ o.keys \subseteq GivenKeys(op) \cup OwnKeys(op.type)
                             /\ (op.type \in ItemFams => ItemsKey(op.type) \in o.keys)
                             /\ ((op.type \in ItemFams \ NoPassFams \/ op.type \notin Registered \/ op.type = SL) => GivenKeys(op) \subseteq o.keys))

\* settings of the operation are merged key-wise into the settings of the track's definition (index / legacy template: body.settings,
\* composable / component template: body.template.settings), the operation wins, everything else is kept
FromTrack(trk, op, o, j) == ~ExplicitMode(trk, op) /\ o.items[j].name \in NameSet(Sec(trk, op.type))
SettingsMerged(trk, op, o) ==
    (ItemOp(op) /\ OK(o) /\ op.type \in CreateFams) => \A j \in 1..Len(o.items) : FromTrack(trk, op, o, j) =>
        LET tb == TrackItem(Sec(trk, op.type), o.items[j].name).body
            ob == o.items[j].body
            pre == SettingsAt(op.type)
            st == op.settings
        IN IF ~BTruthy(st) \/ (op.type = CIT /\ ~BTruthy(tb)) THEN ob = tb
           ELSE /\ ob.k = "dict"
                /\ Put(pre, st.ps) \subseteq ob.ps                                              \* the operation wins
                /\ ob.ps \subseteq tb.ps \cup Put(pre, st.ps)                                   \* nothing is invented
                /\ {e \in tb.ps : ~\E u \in st.ps : Conflict(e[1], SubSeq(pre \o u[1], 1, Len(pre) + 1))} \subseteq ob.ps    \* untouched keys are kept
\* (strong) ... also below a nested key: only the leaves the operation names are replaced
SiblingsKept(trk, op, o) ==
    (ItemOp(op) /\ OK(o) /\ op.type \in CreateFams /\ BTruthy(op.settings)) => \A j \in 1..Len(o.items) : FromTrack(trk, op, o, j) =>
        LET tb == TrackItem(Sec(trk, op.type), o.items[j].name).body
        IN {e \in tb.ps : ~\E u \in op.settings.ps : Conflict(e[1], SettingsAt(op.type) \o u[1])} \subseteq o.items[j].body.ps
\* explicit definitions are passed verbatim (body, delete-matching-indices needs index-pattern)
ExplicitVerbatim(trk, op, o) ==
    (ItemOp(op) /\ OK(o) /\ ExplicitMode(trk, op)) =>
        /\ (op.type \in CreateFams => \A j \in 1..Len(o.items) : o.items[j].body = op.body)
        /\ (op.type \in {DIT, DCT} => /\ Len(o.items) = 1
                                      /\ o.items[1].dmi = Or(op.sc["delete-matching-indices"], "false")
                                      /\ o.items[1].pat = (IF Falsy(o.items[1].dmi) THEN "null" ELSE op.sc["index-pattern"]))
\* delete-*-template from the track: the template's own pattern and delete-matching-indices flag
TrackTemplateFacts(trk, op, o) ==
    (ItemOp(op) /\ OK(o) /\ op.type \in {DIT, DCT} /\ ~ExplicitMode(trk, op)) => \A j \in 1..Len(o.items) :
        o.items[j].name \in NameSet(Sec(trk, op.type)) =>
            LET ti == TrackItem(Sec(trk, op.type), o.items[j].name) IN o.items[j].dmi = ti.dmi /\ o.items[j].pat = ti.pat
\* delete-matching-indices without an index pattern is refused
PatternRequired(trk, op, o) ==
    (ItemOp(op) /\ op.type \in {DIT, DCT} /\ Sec(trk, op.type) = <<>> /\ ~Falsy(Or(op.sc["delete-matching-indices"], "false")) /\ op.sc["index-pattern"] = "absent") => ~OK(o)
\* search / force-merge / downsample: index of the operation, else its data-stream, else the track's only index / data stream
\* (force-merge: all of them, "_all" without any)
TargetResolved(trk, op, o) ==
    (Plain(op) /\ OK(o) /\ op.type \in SearchTypes \cup {FM, DS}) =>
        /\ Truthy(op.tgt) => o.target = op.tgt
        /\ (~Given(op.tgt) /\ Given(op.alt)) => o.target = op.alt
        /\ (~Given(op.tgt) /\ ~Given(op.alt)) =>
              IF op.type = FM THEN o.target = (IF trk.idx = <<>> /\ trk.ds = <<>> THEN Str("_all") ELSE Str(Join(Names(trk.idx) \o Names(trk.ds))))
              ELSE IF Len(trk.idx) = 1 THEN o.target = Str(trk.idx[1].name)
              ELSE IF Len(trk.ds) = 1 THEN o.target = Str(trk.ds[1].name)
              ELSE op.type = DS /\ o.target = NullT
\* (strong) neither the track nor the operation definition is modified
DefinitionsUnchanged(trk, op, o) == o.after = trk /\ o.opsame
\* params() twice and for two partitions: the same parameters; (strong) also after the consumer of the first result has modified it
Repeatable(trk, op, o) == o.same
FreshResult(trk, op, o) == o.fresh
\* these sources never end a task by themselves and report no progress
InfiniteNoProgress(trk, op, o) == OK(o) => o.inf /\ ~o.pc
\* a parameter source registered by name wins over the source of the operation type; functions get (track, params), no keyword arguments
NamedSourceUsed(trk, op, o) == (op.src \in NamedKinds) => OK(o) /\ o.sc["via"] = "s:" \o op.src /\ o.sc["kw"] = "[]" /\ GivenKeys(op) \subseteq o.keys

WeakClauses == {"ErrorsExplicitW", "ErrorNamesProperty", "NoTargetIsError", "NoSpuriousError", "AllWhenAbsent", "OnlySelected", "TrackOrder", "DefaultWhenAbsent",
                "GivenPreservedW", "KeysExact", "SettingsMerged", "ExplicitVerbatim", "TrackTemplateFacts", "PatternRequired", "TargetResolved",
                "Repeatable", "InfiniteNoProgress", "NamedSourceUsed"}
StrongClauses == {"ErrorsExplicit", "SelectedEmitted", "EmptyTargetNotAll", "FalsyPreserved", "CommonPropsPassed", "SiblingsKept",
                  "DefinitionsUnchanged", "FreshResult"}
Holds(c, trk, op, o) ==
    CASE c = "ErrorsExplicitW" -> ErrorsExplicitW(trk, op, o)
      [] c = "ErrorsExplicit" -> ErrorsExplicit(trk, op, o)
      [] c = "ErrorNamesProperty" -> ErrorNamesProperty(trk, op, o)
      [] c = "NoTargetIsError" -> NoTargetIsError(trk, op, o)
      [] c = "NoSpuriousError" -> NoSpuriousError(trk, op, o)
      [] c = "AllWhenAbsent" -> AllWhenAbsent(trk, op, o)
      [] c = "OnlySelected" -> OnlySelected(trk, op, o)
      [] c = "SelectedEmitted" -> SelectedEmitted(trk, op, o)
      [] c = "TrackOrder" -> TrackOrder(trk, op, o)
      [] c = "EmptyTargetNotAll" -> EmptyTargetNotAll(trk, op, o)
      [] c = "DefaultWhenAbsent" -> DefaultWhenAbsent(trk, op, o)
      [] c = "GivenPreservedW" -> GivenPreservedW(trk, op, o)
      [] c = "FalsyPreserved" -> FalsyPreserved(trk, op, o)
      [] c = "CommonPropsPassed" -> CommonPropsPassed(trk, op, o)
      [] c = "KeysExact" -> KeysExact(trk, op, o)
      [] c = "SettingsMerged" -> SettingsMerged(trk, op, o)
      [] c = "SiblingsKept" -> SiblingsKept(trk, op, o)
      [] c = "ExplicitVerbatim" -> ExplicitVerbatim(trk, op, o)
      [] c = "TrackTemplateFacts" -> TrackTemplateFacts(trk, op, o)
      [] c = "PatternRequired" -> PatternRequired(trk, op, o)
      [] c = "TargetResolved" -> TargetResolved(trk, op, o)
      [] c = "DefinitionsUnchanged" -> DefinitionsUnchanged(trk, op, o)
      [] c = "Repeatable" -> Repeatable(trk, op, o)
      [] c = "FreshResult" -> FreshResult(trk, op, o)
      [] c = "InfiniteNoProgress" -> InfiniteNoProgress(trk, op, o)
      [] c = "NamedSourceUsed" -> NamedSourceUsed(trk, op, o)

(***************************************************************************)
(* Registration (register_param_source_for_name / _for_operation)           *)
(***************************************************************************)
RegisterOutcome(what) == IF what \in {"function", "lambda", "class"} THEN "ok" ELSE "RallyAssertionError"

(***************************************************************************)
VARIABLES trk, op, out, done
vars == <<trk, op, out, done>>

NoOut == [err |-> "?", n |-> 0, changed |-> FALSE, fresh |-> TRUE]

Init == /\ \E j \in DOMAIN Inputs : \E i \in Inputs[j] : trk = i[1] /\ op = i[2]
        /\ out = NoOut
        /\ done = FALSE

Eval == /\ ~done
        /\ LET o == Code(trk, op) IN out' = [err |-> o.err, n |-> Len(o.items), changed |-> o.after # trk, fresh |-> o.fresh]
        /\ done' = TRUE
        /\ UNCHANGED <<trk, op>>

Spec == Init /\ [][Eval]_vars

InvWeak == done => \A c \in WeakClauses : Holds(c, trk, op, Code(trk, op))
InvStrong == done => \A c \in StrongClauses : Holds(c, trk, op, Code(trk, op))
InvErrorsExplicit == done => Holds("ErrorsExplicit", trk, op, Code(trk, op))
InvSelectedEmitted == done => Holds("SelectedEmitted", trk, op, Code(trk, op))
InvEmptyTargetNotAll == done => Holds("EmptyTargetNotAll", trk, op, Code(trk, op))
InvFalsyPreserved == done => Holds("FalsyPreserved", trk, op, Code(trk, op))
InvCommonPropsPassed == done => Holds("CommonPropsPassed", trk, op, Code(trk, op))
InvSiblingsKept == done => Holds("SiblingsKept", trk, op, Code(trk, op))
InvDefinitionsUnchanged == done => Holds("DefinitionsUnchanged", trk, op, Code(trk, op))
InvFreshResult == done => Holds("FreshResult", trk, op, Code(trk, op))
=============================================================================
