\* self-test: with TemplatesPassThrough = FALSE (the code as it is) the strong clause CommonPropsPassed is violated in the model
SPECIFICATION Spec
CONSTANTS
  Inputs <- InSelf
  RejectUnknownTarget = TRUE
  RejectEmptyTarget = TRUE
  KeepFalsy = TRUE
  TemplatesPassThrough = FALSE
  DeepSettings = TRUE
  MergeIntoCopy = TRUE
  FreshParams = TRUE
  UnknownSourceIsRallyError = TRUE
INVARIANT InvCommonPropsPassed
CHECK_DEADLOCK FALSE
