\* switches FALSE = the code as it is (L2 only; the L1 clauses do not depend on them)
SPECIFICATION TSpec
CONSTANTS
  Inputs <- NoInputs
  RejectUnknownTarget = FALSE
  RejectEmptyTarget = FALSE
  KeepFalsy = FALSE
  TemplatesPassThrough = FALSE
  DeepSettings = FALSE
  MergeIntoCopy = FALSE
  FreshParams = FALSE
  UnknownSourceIsRallyError = FALSE
CHECK_DEADLOCK FALSE
