\* self-test: with MergeIntoCopy = FALSE (the code as it is) the strong clause DefinitionsUnchanged is violated in the model
SPECIFICATION Spec
CONSTANTS
  Inputs <- InSelf
  RejectUnknownTarget = TRUE
  RejectEmptyTarget = TRUE
  KeepFalsy = TRUE
  TemplatesPassThrough = TRUE
  DeepSettings = TRUE
  MergeIntoCopy = FALSE
  FreshParams = TRUE
  UnknownSourceIsRallyError = TRUE
INVARIANT InvDefinitionsUnchanged
CHECK_DEADLOCK FALSE
