\* all switches TRUE = the documented / intended mapping: weak AND strong clauses hold
SPECIFICATION Spec
CONSTANTS
  Inputs <- InQuick
  RejectUnknownTarget = TRUE
  RejectEmptyTarget = TRUE
  KeepFalsy = TRUE
  TemplatesPassThrough = TRUE
  DeepSettings = TRUE
  MergeIntoCopy = TRUE
  FreshParams = TRUE
  UnknownSourceIsRallyError = TRUE
INVARIANT InvWeak
INVARIANT InvStrong
CHECK_DEADLOCK FALSE
