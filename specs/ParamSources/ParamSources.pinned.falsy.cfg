\* self-test: with KeepFalsy = FALSE (the code as it is) the strong clause FalsyPreserved is violated in the model
SPECIFICATION Spec
CONSTANTS
  Inputs <- InSelf
  RejectUnknownTarget = TRUE
  RejectEmptyTarget = TRUE
  KeepFalsy = FALSE
  TemplatesPassThrough = TRUE
  DeepSettings = TRUE
  MergeIntoCopy = TRUE
  FreshParams = TRUE
  UnknownSourceIsRallyError = TRUE
INVARIANT InvFalsyPreserved
CHECK_DEADLOCK FALSE
