\* self-test: with DeepSettings = FALSE (the code as it is) the strong clause SiblingsKept is violated in the model
SPECIFICATION Spec
CONSTANTS
  Inputs <- InSelf
  RejectUnknownTarget = TRUE
  RejectEmptyTarget = TRUE
  KeepFalsy = TRUE
  TemplatesPassThrough = TRUE
  DeepSettings = FALSE
  MergeIntoCopy = TRUE
  FreshParams = TRUE
  UnknownSourceIsRallyError = TRUE
INVARIANT InvSiblingsKept
CHECK_DEADLOCK FALSE
