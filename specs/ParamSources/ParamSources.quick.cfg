\* the parameter sources as they are (all switches FALSE): the clauses they satisfy; state dump = test table
SPECIFICATION Spec
CONSTANTS
  Inputs <- InQuick
  RejectUnknownTarget = FALSE
  RejectEmptyTarget = FALSE
  KeepFalsy = FALSE
  TemplatesPassThrough = FALSE
  DeepSettings = FALSE
  MergeIntoCopy = FALSE
  FreshParams = FALSE
  UnknownSourceIsRallyError = FALSE
INVARIANT InvWeak
CHECK_DEADLOCK FALSE
