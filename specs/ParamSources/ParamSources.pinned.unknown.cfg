\* self-test: with RejectUnknownTarget = FALSE (the code as it is) the strong clause SelectedEmitted is violated in the model
SPECIFICATION Spec
CONSTANTS
  Inputs <- InSelf
  RejectUnknownTarget = FALSE
  RejectEmptyTarget = TRUE
  KeepFalsy = TRUE
  TemplatesPassThrough = TRUE
  DeepSettings = TRUE
  MergeIntoCopy = TRUE
  FreshParams = TRUE
  UnknownSourceIsRallyError = TRUE
INVARIANT InvSelectedEmitted
CHECK_DEADLOCK FALSE
