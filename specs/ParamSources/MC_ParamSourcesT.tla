---- MODULE MC_ParamSourcesT ----
(* larger alphabets (thorough tier); a module of its own: TLC evaluates every zero-arity definition it loads *)
EXTENDS MC_ParamSources

\* ---- thorough: full products for the create / delete families, more shapes
TgtsL2 == TgtsL \cup {Lst(<<"n1", "n1">>), Lst(<<"x1">>), Lst(<<"">>), Lst(<<"n2">>)}
IdxSecs2 == IdxSecs \cup {<<Ix("n1", b1), Ix("n2", b2)>> : b1 \in {BEmpty, BMap, BFlat, BNest}, b2 \in {BEmpty, BMap, BFlat, BNest}}
OSets2 == OSets \cup {Dict({E(<<"g", "x", "deep">>, "o")}), Dict({E(<<"k1">>, "o"), E(<<"g", "y">>, "o")}), Dict({E(<<"k2">>, "{}")})}
InThorough ==
    InQuick \o <<
    {<<TI(sec), Op(CI, t, Absent, st, b, ("request-params" :> rp))>> : sec \in IdxSecs2, t \in TgtsL2, st \in OSets2, b \in {NoBody, BMap}, rp \in {"absent", "{wait=s:true}"}},
    {<<TI(sec), Op(DI, t, Absent, NoBody, NoBody, ("request-params" :> rp) @@ ("only-if-exists" :> oie) @@ ("retries" :> rt))>> :
             sec \in IdxNames, t \in TgtsL2, rp \in RPs, oie \in OIEs, rt \in {"absent", "i:0", "i:3"}},
    {<<TD(sec), Op(ty, t, Absent, NoBody, NoBody, ("request-params" :> rp) @@ ("only-if-exists" :> oie) @@ ("retries" :> rt))>> :
             ty \in {CDS, DDS}, sec \in DsSecs, t \in TgtsL2, rp \in RPs, oie \in OIEs, rt \in {"absent", "i:3"}},
    {<<TT(sec), Op(CIT, t, Absent, st, b, ("request-params" :> rp))>> : sec \in TplSecs, t \in TgtsT, st \in OSets2, b \in {NoBody, LPlain, LFlat}, rp \in RPs},
    {<<TC(sec), Op(CCT, t, Absent, st, b, ("request-params" :> rp) @@ ("retries" :> rt))>> :
             sec \in CptSecs, t \in TgtsT, st \in OSets2, b \in {NoBody, CPlain, CFlat}, rp \in RPs, rt \in {"absent", "i:3"}},
    {<<TK(sec), Op(CKT, t, Absent, st, b, ("request-params" :> rp) @@ ("retries" :> rt))>> :
             sec \in CmpSecs \cup {<<Ix("n1", KPlain), Ix("n2", KNest)>>}, t \in TgtsT, st \in OSets2, b \in {NoBody, KPlain}, rp \in RPs, rt \in {"absent", "i:3"}},
    {<<T, Op(ty, t, a, NoBody, NoBody,
              ("type" :> tp) @@ ("body" :> Query) @@ ("cache" :> c) @@ ("detailed-results" :> d) @@ ("pages" :> pg) @@ ("results-per-page" :> rpp) @@ ("assertions" :> as))>> :
            T \in Shapes, ty \in {"search", "scroll-search"}, t \in STgts, a \in SAlts, tp \in {"absent", "s:doc"}, c \in {"absent", "false"}, d \in {"absent", "true", "false"},
            pg \in {"absent", "i:0", "i:2"}, rpp \in {"absent", "i:0", "i:50"}, as \in {"absent", "[{property=s:hits}]"}},
    {<<T, Op(FM, t, a, NoBody, NoBody, ("max-num-segments" :> m) @@ ("mode" :> mo) @@ ("poll-period" :> pp) @@ ("request-timeout" :> to))>> :
            T \in Shapes, t \in STgts, a \in SAlts, m \in {"absent", "i:0", "i:1"}, mo \in {"absent", "s:polling", "s:"}, pp \in {"absent", "i:0", "i:5"}, to \in {"absent", "i:7"}} >>
====
