\* self-test: with UnknownSourceIsRallyError = FALSE (the code as it is) the strong clause ErrorsExplicit is violated in the model
SPECIFICATION Spec
CONSTANTS
  Inputs <- InSelf
  RejectUnknownTarget = TRUE
  RejectEmptyTarget = TRUE
  KeepFalsy = TRUE
  TemplatesPassThrough = TRUE
  DeepSettings = TRUE
  MergeIntoCopy = TRUE
  FreshParams = TRUE
  UnknownSourceIsRallyError = FALSE
INVARIANT InvErrorsExplicit
CHECK_DEADLOCK FALSE
