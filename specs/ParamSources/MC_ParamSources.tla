---- MODULE MC_ParamSources ----
(* Input alphabets: small tracks x operation definitions (each optional parameter absent / given / given falsy). *)
EXTENDS ParamSources

E(p, v) == <<p, v>>
Sc(ov) == [k \in ScKeys |-> IF k \in DOMAIN ov THEN ov[k] ELSE "absent"]
None == <<>>                                   \* no scalar parameter
Op(type, tgt, alt, settings, body, ov) == [type |-> type, src |-> "absent", tgt |-> tgt, alt |-> alt, settings |-> settings, body |-> body, sc |-> Sc(ov)]
Track(idx, ds, tpl, cpt, cmp) == [idx |-> idx, ds |-> ds, tpl |-> tpl, cpt |-> cpt, cmp |-> cmp]
NoTrack == Track(<<>>, <<>>, <<>>, <<>>, <<>>)
Ix(name, body) == It(name, body, "-", "-")
Tpl(name, body, dmi) == It(name, body, dmi, "s:" \o name \o "-*")

\* ---- settings: flat, nested
TFlat == {E(<<"k1">>, "t"), E(<<"k2">>, "t")}
TNest == {E(<<"k1">>, "t"), E(<<"g", "x">>, "t"), E(<<"g", "y">>, "t")}
Map == {E(<<"mappings", "properties", "f">>, "m")}
Pat == {E(<<"index_patterns">>, "p")}
OSets == {NoBody, Dict({}), Dict({E(<<"k1">>, "o")}), Dict({E(<<"k3">>, "o")}), Dict({E(<<"g", "x">>, "o")}), Dict({E(<<"g">>, "o")}), Dict({E(<<"k1", "z">>, "o"), E(<<"k2">>, "o")})}
OSetsSmall == {NoBody, Dict({E(<<"k1">>, "o")}), Dict({E(<<"g", "x">>, "o")})}

\* ---- targets
TgtsL == {Absent, Str(""), Lst(<<>>), Str("n1"), Str("n2"), Str("x1"), Lst(<<"n2", "n1">>), Lst(<<"n1", "x1">>)}
TgtsT == {Absent, Str(""), Str("n1"), Str("n2"), Str("x1")}
RPs == {"absent", "{}", "{wait=s:true}"}
OIEs == {"absent", "true", "false"}

\* ---- indices
BEmpty == Dict({})
BMap == Dict(Map)
BFlat == Dict(Map \cup Put(<<"settings">>, TFlat))
BNest == Dict(Map \cup Put(<<"settings">>, TNest))
IdxSecs == {<<>>} \cup {<<Ix("n1", b)>> : b \in {BEmpty, BMap, BFlat, BNest}}
           \cup {<<Ix("n1", BFlat), Ix("n2", BEmpty)>>, <<Ix("n1", BMap), Ix("n2", BNest)>>, <<Ix("n1", BNest), Ix("n2", BFlat)>>}
IdxNames == {<<>>, <<Ix("n1", BFlat)>>, <<Ix("n1", BFlat), Ix("n2", BMap)>>}
DsSecs == {<<>>, <<Ix("n1", NoBody)>>, <<Ix("n1", NoBody), Ix("n2", NoBody)>>}
TI(sec) == Track(sec, <<>>, <<>>, <<>>, <<>>)
TD(sec) == Track(<<>>, sec, <<>>, <<>>, <<>>)

InCI == {<<TI(sec), Op(CI, t, Absent, st, NoBody, None)>> : sec \in IdxSecs, t \in TgtsL, st \in OSets}
        \cup {<<TI(sec), Op(CI, t, Absent, st, b, ("request-params" :> rp) @@ ("retries" :> rt))>> :
                 sec \in {<<>>, <<Ix("n1", BFlat), Ix("n2", BEmpty)>>}, t \in {Absent, Str("n1"), Lst(<<"x1", "n1">>)},
                 st \in {NoBody, Dict({E(<<"k1">>, "o")})}, b \in {NoBody, BMap}, rp \in RPs, rt \in {"absent", "i:3"}}
InDI == {<<TI(sec), Op(DI, t, Absent, NoBody, NoBody, ("request-params" :> rp) @@ ("only-if-exists" :> oie))>> :
            sec \in IdxNames, t \in TgtsL, rp \in RPs, oie \in OIEs}
        \cup {<<TI(sec), Op(DI, t, Absent, NoBody, NoBody, ("retries" :> rt) @@ ("request-timeout" :> to) @@ ("headers" :> "{h=s:1}"))>> :
                 sec \in IdxNames, t \in {Absent, Str("x1")}, rt \in {"absent", "i:0", "i:3"}, to \in {"absent", "i:7"}}
InCDS == {<<TD(sec), Op(CDS, t, Absent, NoBody, NoBody, ("request-params" :> rp) @@ ("retries" :> rt))>> :
             sec \in DsSecs, t \in TgtsL, rp \in RPs, rt \in {"absent", "i:3"}}
InDDS == {<<TD(sec), Op(DDS, t, Absent, NoBody, NoBody, ("request-params" :> rp) @@ ("only-if-exists" :> oie))>> :
             sec \in DsSecs, t \in TgtsL, rp \in RPs, oie \in OIEs}

\* ---- legacy index templates: content with settings at the top level
LFlat == Dict(Pat \cup Map \cup Put(<<"settings">>, TFlat))
LNest == Dict(Pat \cup Map \cup Put(<<"settings">>, TNest))
LPlain == Dict(Pat \cup Map)
TplSecs == {<<>>} \cup {<<Tpl("n1", b, "false")>> : b \in {LFlat, LNest, LPlain}}
           \cup {<<Tpl("n1", LFlat, "true"), Tpl("n2", LPlain, "false")>>, <<Tpl("n1", LNest, "false"), Tpl("n2", LFlat, "true")>>}
TplNames == {<<>>, <<Tpl("n1", LFlat, "true")>>, <<Tpl("n1", LFlat, "false"), Tpl("n2", LPlain, "true")>>}
TT(sec) == Track(<<>>, <<>>, sec, <<>>, <<>>)
InCIT == {<<TT(sec), Op(CIT, t, Absent, st, b, None)>> : sec \in TplSecs, t \in TgtsT, st \in OSets, b \in {NoBody, LPlain}}
         \cup {<<TT(sec), Op(CIT, t, Absent, NoBody, LPlain, ("request-params" :> rp) @@ ("retries" :> rt))>> :
                  sec \in {<<>>, <<Tpl("n1", LFlat, "false")>>}, t \in {Absent, Str("n1")}, rp \in RPs, rt \in {"absent", "i:3"}}
DelTOps(type) == {Op(type, t, Absent, NoBody, NoBody, ("only-if-exists" :> oie) @@ ("delete-matching-indices" :> dmi) @@ ("index-pattern" :> pat)) :
                     t \in TgtsT, oie \in OIEs, dmi \in {"absent", "true", "false"}, pat \in {"absent", "s:logs-*"}}
                 \cup {Op(type, t, Absent, NoBody, NoBody, ("request-params" :> rp) @@ ("retries" :> rt)) : t \in {Absent, Str("n1")}, rp \in RPs, rt \in {"absent", "i:3"}}
InDIT == {<<TT(sec), o>> : sec \in TplNames, o \in DelTOps(DIT)}

\* ---- composable / component templates: settings below "template"
CFlat == Dict(Pat \cup Put(<<"template">>, Map \cup Put(<<"settings">>, TFlat)))
CNest == Dict(Pat \cup Put(<<"template">>, Map \cup Put(<<"settings">>, TNest)))
CPlain == Dict(Pat \cup Put(<<"template">>, Map))
CBare == Dict(Pat)
CptSecs == {<<>>} \cup {<<Tpl("n1", b, "false")>> : b \in {CFlat, CNest, CPlain, CBare}}
           \cup {<<Tpl("n1", CFlat, "true"), Tpl("n2", CBare, "false")>>, <<Tpl("n1", CNest, "false"), Tpl("n2", CFlat, "true")>>}
CptNames == {<<>>, <<Tpl("n1", CFlat, "true")>>, <<Tpl("n1", CFlat, "false"), Tpl("n2", CPlain, "true")>>}
TC(sec) == Track(<<>>, <<>>, <<>>, sec, <<>>)
InCCT == {<<TC(sec), Op(CCT, t, Absent, st, b, None)>> : sec \in CptSecs, t \in TgtsT, st \in OSets, b \in {NoBody, CPlain}}
         \cup {<<TC(sec), Op(CCT, t, Absent, NoBody, NoBody, ("request-params" :> rp) @@ ("retries" :> rt) @@ ("request-timeout" :> to))>> :
                  sec \in {<<Tpl("n1", CFlat, "false")>>}, t \in {Absent, Str("n1")}, rp \in RPs, rt \in {"absent", "i:0", "i:3"}, to \in {"absent", "i:7"}}
InDCT == {<<TC(sec), o>> : sec \in CptNames, o \in DelTOps(DCT)}
KFlat == Dict(Put(<<"template">>, Map \cup Put(<<"settings">>, TFlat)))
KNest == Dict(Put(<<"template">>, Map \cup Put(<<"settings">>, TNest)))
KPlain == Dict(Put(<<"template">>, Map))
CmpSecs == {<<>>, <<Ix("n1", KFlat)>>, <<Ix("n1", KPlain)>>, <<Ix("n1", KNest), Ix("n2", KFlat)>>}
TK(sec) == Track(<<>>, <<>>, <<>>, <<>>, sec)
InCKT == {<<TK(sec), Op(CKT, t, Absent, st, b, None)>> : sec \in CmpSecs, t \in TgtsT, st \in OSets, b \in {NoBody, KPlain}}
         \cup {<<TK(sec), Op(CKT, t, Absent, NoBody, NoBody, ("request-params" :> rp) @@ ("retries" :> rt))>> :
                  sec \in {<<Ix("n1", KFlat)>>}, t \in {Absent, Str("n1")}, rp \in RPs, rt \in {"absent", "i:3"}}
InDKT == {<<TK(sec), Op(DKT, t, Absent, NoBody, NoBody, ("request-params" :> rp) @@ ("only-if-exists" :> oie) @@ ("retries" :> rt))>> :
             sec \in CmpSecs, t \in TgtsT, rp \in RPs, oie \in OIEs, rt \in {"absent", "i:3"}}

\* ---- search, force-merge, downsample: tracks with 0 / 1 / 2 indices or 1 / 2 data streams (never both: the loader refuses that)
Shapes == {NoTrack, TI(<<Ix("n1", BMap)>>), TI(<<Ix("n1", BMap), Ix("n2", BMap)>>), TD(<<Ix("d1", NoBody)>>), TD(<<Ix("d1", NoBody), Ix("d2", NoBody)>>)}
STgts == {Absent, Str(""), Str("n1"), Str("x*"), Lst(<<"n1", "n2">>)}
SAlts == {Absent, Str(""), Str("d9")}
Query == "{query={match_all={}}}"
InSearch ==
    {<<T, Op("search", t, a, NoBody, NoBody, ("type" :> ty) @@ ("body" :> Query))>> : T \in Shapes, t \in STgts, a \in SAlts, ty \in {"absent", "s:doc", "s:"}}
    \cup {<<TI(<<Ix("n1", BMap)>>), Op("search", Absent, Absent, NoBody, NoBody,
              ("body" :> Query) @@ ("cache" :> c) @@ ("detailed-results" :> d) @@ ("pages" :> pg) @@ ("results-per-page" :> rpp) @@ ("assertions" :> as))>> :
            c \in {"absent", "true", "false"}, d \in {"absent", "true", "false"}, pg \in {"absent", "i:0", "i:2", "s:all"},
            rpp \in {"absent", "i:0", "i:50"}, as \in {"absent", "[{property=s:hits}]"}}
    \cup {<<TD(<<Ix("d1", NoBody)>>), Op(ty, Absent, Absent, NoBody, NoBody,
              ("body" :> b) @@ ("response-compression-enabled" :> rce) @@ ("with-point-in-time-from" :> pit) @@ ("request-params" :> rp))>> :
            ty \in SearchTypes, b \in {"absent", Query}, rce \in {"absent", "true", "false"}, pit \in {"absent", "s:", "s:open-pit"}, rp \in RPs}
    \cup {<<TI(<<Ix("n1", BMap)>>), Op(ty, Absent, Absent, NoBody, NoBody,
              ("body" :> Query) @@ ("request-timeout" :> to) @@ ("headers" :> h) @@ ("opaque-id" :> oid) @@ ("retries" :> "i:3"))>> :
            ty \in {"search", "paginated-search"}, to \in {"absent", "i:7", "i:0"}, h \in {"absent", "{h=s:1}"}, oid \in {"absent", "s:me"}}
InFM ==
    {<<T, Op(FM, t, a, NoBody, NoBody, None)>> : T \in Shapes, t \in STgts, a \in SAlts}
    \cup {<<T, Op(FM, Absent, Absent, NoBody, NoBody, ("max-num-segments" :> m) @@ ("mode" :> mo) @@ ("poll-period" :> pp) @@ ("request-timeout" :> to))>> :
            T \in {NoTrack, TI(<<Ix("n1", BMap), Ix("n2", BMap)>>)}, m \in {"absent", "i:0", "i:1"}, mo \in {"absent", "s:polling", "s:"},
            pp \in {"absent", "i:0", "i:5"}, to \in {"absent", "i:7"}}
InDS ==
    {<<T, Op(DS, t, a, NoBody, NoBody, ("fixed-interval" :> fi) @@ ("target-index" :> ti))>> :
        T \in {NoTrack, TI(<<Ix("n1", BMap)>>), TI(<<Ix("n1", BMap), Ix("n2", BMap)>>)}, t \in {Absent, Str(""), Str("x1")},
        a \in {Absent, Str("d9")}, fi \in {"absent", "s:1d", "s:"}, ti \in {"absent", "s:tgt"}}
InSleep == {<<NoTrack, Op(SL, Absent, Absent, NoBody, NoBody, ("duration" :> d) @@ ("retries" :> rt))>> :
               d \in {"absent", "i:0", "i:5", "i:-1", "f:0.5", "f:-0.5", "s:5", "true", "null"}, rt \in {"absent", "i:3"}}
\* the default source (types without a registered source) and sources registered by name
InDefault == {<<T, Op(ty, t, Absent, NoBody, b, ("request-timeout" :> to) @@ ("headers" :> h) @@ ("opaque-id" :> oid) @@ ("retries" :> rt))>> :
                 T \in {NoTrack, TI(<<Ix("n1", BMap)>>)}, ty \in {"raw-request", "verif-custom-op"}, t \in {Absent, Str("n1")}, b \in {NoBody, BMap},
                 to \in {"absent", "i:7"}, h \in {"absent", "{h=s:1}"}, oid \in {"absent", "s:me"}, rt \in {"absent", "i:3"}}
InNamed == {<<TI(<<Ix("n1", BMap)>>), [Op(ty, t, Absent, NoBody, NoBody, ("body" :> b) @@ ("request-timeout" :> to)) EXCEPT !.src = s]>> :
               ty \in {"search", "verif-custom-op", SL}, t \in {Absent, Str("n1")}, b \in {"absent", Query}, to \in {"absent", "i:7"},
               s \in NamedKinds \cup {"unknown"}}

InQuick == <<InCI, InDI, InCDS, InDDS, InCIT, InDIT, InCCT, InDCT, InCKT, InDKT, InSearch, InFM, InDS, InSleep, InDefault, InNamed>>

\* ---- small sets for the pinned self-tests (one switch FALSE each)
InSelf == << {<<TI(<<Ix("n1", BNest), Ix("n2", BFlat)>>), Op(CI, t, Absent, st, NoBody, None)>> : t \in TgtsL, st \in OSetsSmall},
             {<<TI(<<Ix("n1", BFlat)>>), Op(DI, t, Absent, NoBody, NoBody, None)>> : t \in TgtsL},
             {<<TC(<<Tpl("n1", CFlat, "false")>>), Op(CCT, Absent, Absent, NoBody, NoBody, ("retries" :> "i:3"))>>},
             {<<TI(<<Ix("n1", BMap)>>), Op("search", Absent, Absent, NoBody, NoBody, ("body" :> Query) @@ ("results-per-page" :> rpp) @@ ("request-timeout" :> to))>> :
                   rpp \in {"absent", "i:0"}, to \in {"absent", "i:7"}},
             {<<NoTrack, [Op("search", Absent, Absent, NoBody, NoBody, None) EXCEPT !.src = "unknown"]>>} >>

\* dict algebra
ASSUME ShallowAt(<<"settings">>, BNest.ps, {E(<<"g", "x">>, "o")}) = Map \cup Put(<<"settings">>, {E(<<"k1">>, "t"), E(<<"g", "x">>, "o")})
ASSUME DeepAt(<<"settings">>, BNest.ps, {E(<<"g", "x">>, "o")}) = Map \cup Put(<<"settings">>, {E(<<"k1">>, "t"), E(<<"g", "x">>, "o"), E(<<"g", "y">>, "t")})
ASSUME DeepAt(<<"settings">>, BNest.ps, {E(<<"g">>, "o")}) = Map \cup Put(<<"settings">>, {E(<<"k1">>, "t"), E(<<"g">>, "o")})
ASSUME DeepAt(<<"template", "settings">>, CBare.ps, {E(<<"k1">>, "o")}) = Pat \cup {E(<<"template", "settings", "k1">>, "o")}
ASSUME ShallowAt(<<"settings">>, BMap.ps, {E(<<"k1">>, "o")}) = Map \cup {E(<<"settings", "k1">>, "o")}
ASSUME Join(<<"n1", "n2">>) = "n1,n2" /\ IsSubSeq(<<"n2">>, <<"n1", "n2">>) /\ ~IsSubSeq(<<"n2", "n1">>, <<"n1", "n2">>)
ASSUME RegisterOutcome("function") = "ok" /\ RegisterOutcome("instance") = "RallyAssertionError"
====
