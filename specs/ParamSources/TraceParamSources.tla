------------------------- MODULE TraceParamSources -------------------------
(***************************************************************************)
(* Validates recorded runs of the REAL parameter sources (env VERIF_TRACES:  *)
(* JSON array).  Item kinds:                                                *)
(*  kind = "ps": a real track.Track and track.Operation / Task resolved by    *)
(*   esrally.track.loader.operation_parameters (the registry), partition(i, *)
(*   n) for two clients, params() twice:                                    *)
(*   [id, trk, op, out] in the vocabulary of ParamSources.tla; dicts are     *)
(*   arrays of [path, value] leaves, sets are arrays.                       *)
(*  kind = "reg": [id, what, res] outcome of register_param_source_for_name  *)
(*   / _for_operation for an object of kind `what`.                         *)
(* L1: every clause of ParamSources.tla (weak and strong) on the recorded   *)
(*     result (line 1: all failing clauses, line 2: those of them that the   *)
(*     transcription of the code as it is does not fail on this input);  L2: the recorded result is the transcription Code(trk, op); *)
(*     the "line" of an L2 verdict says which part differs (1 error, 2       *)
(*     items, 3 target, 4 scalars, 5 keys, 6 repeatability flags, 7 the      *)
(*     track afterwards).                                                   *)
(* <<"V", id, line, "L1"|"L2", clauses>>, <<"DONE", n, n>>.                  *)
(***************************************************************************)
EXTENDS ParamSources, Json, IOUtils

Items == JsonDeserialize(IOEnv.VERIF_TRACES)
NoInputs == <<>>

B(b) == [k |-> b.k, ps |-> ToSet(b.ps)]
Itm(i) == [name |-> i.name, body |-> B(i.body), dmi |-> i.dmi, pat |-> i.pat]
Sq(q) == [j \in 1..Len(q) |-> Itm(q[j])]
Trk(t) == [idx |-> Sq(t.idx), ds |-> Sq(t.ds), tpl |-> Sq(t.tpl), cpt |-> Sq(t.cpt), cmp |-> Sq(t.cmp)]
Tg(t) == [k |-> t.k, s |-> t.s, l |-> t.l]
OpOf(x) == [type |-> x.type, src |-> x.src, tgt |-> Tg(x.tgt), alt |-> Tg(x.alt), settings |-> B(x.settings), body |-> B(x.body), sc |-> x.sc]
OutOf(x) == [err |-> x.err, named |-> ToSet(x.named), items |-> Sq(x.items), target |-> Tg(x.target), sc |-> x.sc, keys |-> ToSet(x.keys),
             same |-> x.same, fresh |-> x.fresh, opsame |-> x.opsame, after |-> Trk(x.after), inf |-> x.inf, pc |-> x.pc]

AllClauses == WeakClauses \cup StrongClauses

PsL1(T, O, o) == {c \in AllClauses : ~Holds(c, T, O, o)}
PsL2(T, O, o) ==
    LET c == Code(T, O)
    IN (IF o.err = c.err /\ o.named = c.named THEN {} ELSE {1})
       \cup (IF o.items = c.items THEN {} ELSE {2})
       \cup (IF o.target = c.target THEN {} ELSE {3})
       \cup (IF o.sc = c.sc THEN {} ELSE {4})
       \cup (IF o.keys = c.keys THEN {} ELSE {5})
       \cup (IF o.same = c.same /\ o.fresh = c.fresh /\ o.opsame = c.opsame /\ o.inf = c.inf /\ o.pc = c.pc THEN {} ELSE {6})
       \cup (IF o.after = c.after THEN {} ELSE {7})

VARIABLES cur
TInit == /\ cur = 1 /\ trk = 0 /\ op = 0 /\ out = NoOut /\ done = FALSE

Check(it) ==
    IF it.kind = "reg" THEN
        IF it.res = RegisterOutcome(it.what) THEN TRUE ELSE PrintT(<<"V", it.id, 1, "L1", {"Registration"}>>)
    ELSE
        LET T == Trk(it.trk)
            O == OpOf(it.op)
            o == OutOf(it.out)
            l1 == PsL1(T, O, o)
            l2 == PsL2(T, O, o)
            \* failing clauses which the transcription (switches of the cfg: the code as it is) does NOT fail on this input
            unexp == {c \in l1 : Holds(c, T, O, Code(T, O))}
        IN /\ IF l1 = {} THEN TRUE ELSE PrintT(<<"V", it.id, 1, "L1", l1>>)
           /\ IF unexp = {} THEN TRUE ELSE PrintT(<<"V", it.id, 2, "L1", unexp>>)
           /\ \A x \in l2 : PrintT(<<"V", it.id, x, "L2", {}>>)

TNext == /\ cur <= Len(Items)
         /\ Check(Items[cur])
         /\ cur' = cur + 1
         /\ IF cur < Len(Items) THEN TRUE ELSE PrintT(<<"DONE", Len(Items), Len(Items)>>)
         /\ UNCHANGED vars

TSpec == TInit /\ [][TNext]_<<vars, cur>>
=============================================================================
