\* as quick, larger alphabets (MC_ParamSourcesT)
SPECIFICATION Spec
CONSTANTS
  Inputs <- InThorough
  RejectUnknownTarget = FALSE
  RejectEmptyTarget = FALSE
  KeepFalsy = FALSE
  TemplatesPassThrough = FALSE
  DeepSettings = FALSE
  MergeIntoCopy = FALSE
  FreshParams = FALSE
  UnknownSourceIsRallyError = FALSE
INVARIANT InvWeak
CHECK_DEADLOCK FALSE
