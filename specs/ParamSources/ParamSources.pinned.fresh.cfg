\* self-test: with FreshParams = FALSE (the code as it is) the strong clause FreshResult is violated in the model
SPECIFICATION Spec
CONSTANTS
  Inputs <- InSelf
  RejectUnknownTarget = TRUE
  RejectEmptyTarget = TRUE
  KeepFalsy = TRUE
  TemplatesPassThrough = TRUE
  DeepSettings = TRUE
  MergeIntoCopy = TRUE
  FreshParams = FALSE
  UnknownSourceIsRallyError = TRUE
INVARIANT InvFreshResult
CHECK_DEADLOCK FALSE
