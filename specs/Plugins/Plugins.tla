------------------------------- MODULE Plugins -------------------------------
(***************************************************************************)
(* How Rally resolves Elasticsearch plugins (esrally/mechanic/team.py:      *)
(* load_plugins / load_plugin / PluginLoader.load_plugin /                  *)
(* PluginLoader.plugins / PluginDescriptor).  Function-like: Init chooses   *)
(* (world, request), Eval computes the result.                              *)
(*                                                                          *)
(* world w = [core, dirs]                                                   *)
(*   core : sequence of names = the lines of plugins/v1/core-plugins.txt    *)
(*   dirs : sequence of [name, cfgs]: a directory plugins/v1/<name, - as _> *)
(*          cfgs : sequence of [c, bases, vars] = <c>.ini with              *)
(*          [config] base=<bases joined by ","> (<<>>: no base key) and     *)
(*          [variables] (vars: Keys -> value, "-" = not defined)            *)
(* request q = [k, specs, params]                                           *)
(*   k = "load": load_plugins(repo, specs, params); a spec = [name, colons, *)
(*       cfgs] is the text name | name:c1+c2 | name:c1:junk (colons = 2)    *)
(*   k = "list": PluginLoader.plugins()                                     *)
(* result res = [ok, exc, msg, at, ds, srt]                                 *)
(*   ds = the descriptors [name, core, config, root, paths, vars, moved]    *)
(*   (root: "own" = plugins/v1/<dir of name>, "-" = None; paths: the base   *)
(*   names b of <root>/<b>/templates), at = number of the refused spec,     *)
(*   msg = "spec" | "noconfig" | "unknown" | "nobase", srt = the listing is *)
(*   sorted by name.                                                        *)
(*                                                                          *)
(* Switches, TRUE = intended, FALSE = /repo as it is:                       *)
(*   CoreKeepsParams  a core plugin without directory and configuration     *)
(*                    keeps --plugin-params as its variables (FALSE: the    *)
(*                    descriptor of core-plugins.txt is returned, variables *)
(*                    = {})                                                 *)
(*   ListSorted       the listing is sorted by name (FALSE: sorted(..) is   *)
(*                    computed and thrown away: file order of               *)
(*                    core-plugins.txt, then the directories)               *)
(***************************************************************************)
EXTENDS Integers, Sequences, FiniteSets, TLC

CONSTANTS Worlds, Requests, Scope(_, _), CoreKeepsParams, ListSorted

VARIABLES w, q, res, done
vars == <<w, q, res, done>>

Keys == {"x", "y"}
NoVars == [k \in Keys |-> "-"]
Over(a, b) == [k \in Keys |-> IF b[k] # "-" THEN b[k] ELSE a[k]]
Range(s) == {s[i] : i \in DOMAIN s}
Moved == {"repository-s3", "repository-gcs", "repository-azure"}
\* ASCII order of the names the worlds use ("-" < "_")
NameOrder == <<"analysis-icu", "ghost", "my-plug", "my_plug", "repository-s3", "x-pack">>
Rank(n) == CHOOSE i \in DOMAIN NameOrder : NameOrder[i] = n
\* the directory of a plugin is its name with "_" for "-": my_plug and my-plug share one
Canon(n) == IF n = "my_plug" THEN "my-plug" ELSE n

IsCore(ww, n) == \E i \in DOMAIN ww.core : ww.core[i] = n
HasDir(ww, n) == \E i \in DOMAIN ww.dirs : ww.dirs[i].name = Canon(n)
Dir(ww, n) == ww.dirs[CHOOSE i \in DOMAIN ww.dirs : ww.dirs[i].name = Canon(n)]
HasCfg(ww, n, c) == HasDir(ww, n) /\ \E j \in DOMAIN Dir(ww, n).cfgs : Dir(ww, n).cfgs[j].c = c
Cfg(ww, n, c) == LET d == Dir(ww, n) IN d.cfgs[CHOOSE j \in DOMAIN d.cfgs : d.cfgs[j].c = c]

Desc(n, core, config, root, paths, vs) ==
    [name |-> n, core |-> core, config |-> config, root |-> root, paths |-> paths, vars |-> vs, moved |-> (n \in Moved /\ ~core)]
NoDesc == Desc("-", FALSE, <<>>, "-", <<>>, NoVars)
Res(ok, exc, msg, at, ds, srt) == [ok |-> ok, exc |-> exc, msg |-> msg, at |-> at, ds |-> ds, srt |-> srt]
None == Res(FALSE, "-", "-", 0, <<>>, FALSE)

(***************************************************************************)
(* Transcription of the code                                               *)
(***************************************************************************)
RECURSIVE AddBases(_, _, _)
AddBases(bases, j, pk) ==
    IF j > Len(bases) THEN pk
    ELSE LET b == bases[j]
             p2 == IF b # "" /\ b \notin pk.k THEN Append(pk.p, b) ELSE pk.p
         IN AddBases(bases, j + 1, [p |-> p2, k |-> pk.k \cup {b}])

RECURSIVE Loop(_, _, _, _, _, _)
Loop(ww, n, cfgs, params, i, acc) ==
    IF i > Len(cfgs) THEN
        IF Len(acc.p) = 0 THEN [ok |-> FALSE, msg |-> "nobase", d |-> NoDesc]
        ELSE [ok |-> TRUE, msg |-> "-", d |-> Desc(n, IsCore(ww, n), cfgs, "own", acc.p, acc.v)]
    ELSE IF ~HasCfg(ww, n, cfgs[i]) THEN [ok |-> FALSE, msg |-> IF IsCore(ww, n) THEN "noconfig" ELSE "unknown", d |-> NoDesc]
    ELSE LET c == Cfg(ww, n, cfgs[i])
             pk == AddBases(c.bases, 1, [p |-> acc.p, k |-> acc.k])
         IN Loop(ww, n, cfgs, params, i + 1, [p |-> pk.p, k |-> pk.k, v |-> Over(Over(acc.v, c.vars), params)])

LoadOne(ww, n, cfgs, params) ==
    IF Len(cfgs) = 0 THEN
        IF HasDir(ww, n) THEN [ok |-> TRUE, msg |-> "-", d |-> Desc(n, IsCore(ww, n), <<>>, "own", <<>>, params)]
        ELSE IF IsCore(ww, n) THEN [ok |-> TRUE, msg |-> "-", d |-> Desc(n, TRUE, <<>>, "-", <<>>, IF CoreKeepsParams THEN params ELSE NoVars)]
        ELSE [ok |-> TRUE, msg |-> "-", d |-> Desc(n, FALSE, <<>>, "-", <<>>, params)]
    ELSE Loop(ww, n, cfgs, params, 1, [p |-> <<>>, k |-> {}, v |-> NoVars])

RECURSIVE LoadAll(_, _, _, _)
LoadAll(ww, qq, i, ds) ==
    IF i > Len(qq.specs) THEN Res(TRUE, "-", "-", 0, ds, FALSE)
    ELSE LET s == qq.specs[i] IN
         IF s.colons >= 2 THEN Res(FALSE, "ValueError", "spec", i, <<>>, FALSE)
         ELSE LET o == LoadOne(ww, s.name, s.cfgs, qq.params) IN
              IF o.ok THEN LoadAll(ww, qq, i + 1, Append(ds, o.d))
              ELSE Res(FALSE, "SystemSetupError", o.msg, i, <<>>, FALSE)

RECURSIVE Flat(_, _)
Flat(ds, i) ==
    IF i > Len(ds) THEN <<>>
    ELSE [j \in 1..Len(ds[i].cfgs) |-> Desc(ds[i].name, FALSE, <<ds[i].cfgs[j].c>>, "-", <<>>, NoVars)] \o Flat(ds, i + 1)

IsSorted(ds) == \A i \in 1..(Len(ds) - 1) : Rank(ds[i].name) <= Rank(ds[i + 1].name)

\* the configured part is listed in the order os.listdir gives: the harness brings it into the order of w.dirs
Listing(ww) ==
    LET l == [i \in 1..Len(ww.core) |-> Desc(ww.core[i], TRUE, <<>>, "-", <<>>, NoVars)] \o Flat(ww.dirs, 1)
    IN Res(TRUE, "-", "-", 0, l, ListSorted \/ IsSorted(l))

Code(ww, qq) == IF qq.k = "list" THEN Listing(ww) ELSE LoadAll(ww, qq, 1, <<>>)

(***************************************************************************)
(* The clauses (what the behaviour promises, independent of the            *)
(* transcription)                                                          *)
(***************************************************************************)
Cfgs(s) == IF s.colons = 0 THEN <<>> ELSE s.cfgs
\* is spec s of world ww refused, and why
Refusal(ww, s) ==
    IF s.colons >= 2 THEN "spec"
    ELSE IF Len(s.cfgs) = 0 THEN "-"
    ELSE IF \E i \in DOMAIN s.cfgs : ~HasCfg(ww, s.name, s.cfgs[i]) THEN (IF IsCore(ww, s.name) THEN "noconfig" ELSE "unknown")
    ELSE IF \A i \in DOMAIN s.cfgs : Range(Cfg(ww, s.name, s.cfgs[i]).bases) \subseteq {""} THEN "nobase"
    ELSE "-"
FirstRefused(ww, qq) ==
    IF \E i \in DOMAIN qq.specs : Refusal(ww, qq.specs[i]) # "-"
    THEN CHOOSE i \in DOMAIN qq.specs : Refusal(ww, qq.specs[i]) # "-" /\ \A j \in 1..(i - 1) : Refusal(ww, qq.specs[j]) = "-"
    ELSE 0
\* the value of key k for spec s: plugin params, else the LAST requested configuration that defines it
LastDef(ww, s, k) ==
    LET I == {i \in DOMAIN s.cfgs : Cfg(ww, s.name, s.cfgs[i]).vars[k] # "-"}
    IN IF I = {} THEN "-" ELSE Cfg(ww, s.name, s.cfgs[CHOOSE i \in I : \A j \in I : j <= i]).vars[k]
\* every non-empty base of the requested configurations once, by first mention
AllBases(ww, s) == UNION {Range(Cfg(ww, s.name, s.cfgs[i]).bases) : i \in DOMAIN s.cfgs} \ {""}
FirstMention(ww, s, b) == CHOOSE p \in {<<i, j>> : i \in DOMAIN s.cfgs, j \in 1..5} :
    /\ p[2] \in DOMAIN Cfg(ww, s.name, s.cfgs[p[1]]).bases /\ Cfg(ww, s.name, s.cfgs[p[1]]).bases[p[2]] = b
    /\ \A i \in DOMAIN s.cfgs : \A j \in DOMAIN Cfg(ww, s.name, s.cfgs[i]).bases :
          Cfg(ww, s.name, s.cfgs[i]).bases[j] = b => (i > p[1] \/ (i = p[1] /\ j >= p[2]))
Before(a, b) == a[1] < b[1] \/ (a[1] = b[1] /\ a[2] < b[2])

Pairs(ww) == {<<ww.dirs[p[1]].name, <<ww.dirs[p[1]].cfgs[p[2]].c>>>> : p \in {pp \in (DOMAIN ww.dirs) \X (1..5) : pp[2] \in DOMAIN ww.dirs[pp[1]].cfgs}}
Load(qq) == qq.k = "load"
Holds(c, ww, qq, r) ==
    CASE c = "SpecSyntax" ->
            \* name:config:more is no plugin specification
            Load(qq) => \A i \in DOMAIN qq.specs : (FirstRefused(ww, qq) = i /\ qq.specs[i].colons >= 2) => (~r.ok /\ r.exc = "ValueError" /\ r.at = i)
      [] c = "Refusals" ->
            \* unknown configuration / unknown plugin / no config base at all: SystemSetupError naming the first such spec; nothing else is refused
            Load(qq) => LET f == FirstRefused(ww, qq) IN
                /\ r.ok <=> f = 0
                /\ (f # 0 /\ qq.specs[f].colons < 2) => (r.exc = "SystemSetupError" /\ r.at = f /\ r.msg = Refusal(ww, qq.specs[f]))
      [] c = "OrderKept" ->
            (Load(qq) /\ r.ok) => /\ Len(r.ds) = Len(qq.specs)
                                   /\ \A i \in DOMAIN qq.specs : r.ds[i].name = qq.specs[i].name /\ r.ds[i].config = Cfgs(qq.specs[i])
      [] c = "PlainLoads" ->
            \* a bare name always loads: core, configured or assumed to be a community plugin with a download URL
            (Load(qq) /\ r.ok) => \A i \in DOMAIN qq.specs : Len(Cfgs(qq.specs[i])) = 0 =>
                /\ r.ds[i].paths = <<>>
                /\ r.ds[i].root = IF HasDir(ww, qq.specs[i].name) THEN "own" ELSE "-"
      [] c = "CoreFlag" ->
            r.ok => \A i \in DOMAIN r.ds :
                /\ Load(qq) => (r.ds[i].core <=> IsCore(ww, r.ds[i].name))
                /\ r.ds[i].moved <=> (r.ds[i].name \in Moved /\ ~r.ds[i].core)
      [] c = "ParamsWin" ->
            \* merge order: configurations in the requested order, then the plugin params
            (Load(qq) /\ r.ok) => \A i \in DOMAIN qq.specs : Len(Cfgs(qq.specs[i])) > 0 =>
                \A k \in Keys : r.ds[i].vars[k] = IF qq.params[k] # "-" THEN qq.params[k] ELSE LastDef(ww, qq.specs[i], k)
      [] c = "PlainParams" ->
            \* (strong) without configuration the variables are the plugin params
            (Load(qq) /\ r.ok) => \A i \in DOMAIN qq.specs : Len(Cfgs(qq.specs[i])) = 0 => r.ds[i].vars = qq.params
      [] c = "PathsOrder" ->
            (Load(qq) /\ r.ok) => \A i \in DOMAIN qq.specs : Len(Cfgs(qq.specs[i])) > 0 =>
                LET s == qq.specs[i] p == r.ds[i].paths IN
                /\ r.ds[i].root = "own"
                /\ Range(p) = AllBases(ww, s) /\ Len(p) = Cardinality(AllBases(ww, s))
                /\ \A a, b \in DOMAIN p : a < b => Before(FirstMention(ww, s, p[a]), FirstMention(ww, s, p[b]))
      [] c = "ListComplete" ->
            \* the listing: every line of core-plugins.txt (no configuration), then one entry per (directory, ini)
            qq.k = "list" => /\ r.ok
                             /\ Len(r.ds) = Len(ww.core) + Len(Flat(ww.dirs, 1))
                             /\ \A i \in DOMAIN ww.core : r.ds[i].name = ww.core[i] /\ r.ds[i].core /\ r.ds[i].config = <<>>
                             /\ {<<r.ds[i].name, r.ds[i].config>> : i \in (Len(ww.core) + 1)..Len(r.ds)} = Pairs(ww)
                             /\ \A i \in (Len(ww.core) + 1)..Len(r.ds) : ~r.ds[i].core
      [] c = "ListSorted" ->
            \* (strong) sorted by name
            qq.k = "list" => r.srt

Weak == {"SpecSyntax", "Refusals", "OrderKept", "PlainLoads", "CoreFlag", "ParamsWin", "PathsOrder", "ListComplete"}
Strong == {"PlainParams", "ListSorted"}

Init == /\ w \in Worlds /\ q \in Requests /\ Scope(w, q)
        /\ res = None /\ done = FALSE
Eval == /\ ~done
        /\ res' = Code(w, q)
        /\ done' = TRUE
        /\ UNCHANGED <<w, q>>
Spec == Init /\ [][Eval]_vars

WeakHold == done => \A c \in Weak : Holds(c, w, q, res)
IPlainParams == done => Holds("PlainParams", w, q, res)
IListSorted == done => Holds("ListSorted", w, q, res)
StrongHold == IPlainParams /\ IListSorted
=============================================================================
