SPECIFICATION Spec
CONSTANTS
  IWorlds <- IWorldsQ
INVARIANT AllHold
INVARIANT RunAgrees
CHECK_DEADLOCK FALSE
