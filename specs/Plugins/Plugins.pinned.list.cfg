SPECIFICATION Spec
CONSTANTS
  Worlds <- WorldsPin
  Requests <- RequestsPinList
  Scope <- ScopeAll
  CoreKeepsParams = TRUE
  ListSorted = FALSE
INVARIANT IListSorted
CHECK_DEADLOCK FALSE
