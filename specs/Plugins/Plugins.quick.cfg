SPECIFICATION Spec
CONSTANTS
  Worlds <- WorldsQ
  Requests <- RequestsQ
  Scope <- ScopeAll
  CoreKeepsParams = FALSE
  ListSorted = FALSE
INVARIANT WeakHold
CHECK_DEADLOCK FALSE
