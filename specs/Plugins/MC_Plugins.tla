----------------------------- MODULE MC_Plugins -----------------------------
EXTENDS Plugins

V(x, y) == [x |-> x, y |-> y]
C(c, bases, vs) == [c |-> c, bases |-> bases, vars |-> vs]
D(n, cfgs) == [name |-> n, cfgs |-> cfgs]
W(core, dirs) == [core |-> core, dirs |-> dirs]
S(n, colons, cfgs) == [name |-> n, colons |-> colons, cfgs |-> cfgs]
Q(specs, params) == [k |-> "load", specs |-> specs, params |-> params]
ListQ == [k |-> "list", specs |-> <<>>, params |-> NoVars]

\* c1: one base, x; c2: two bases (b1 again), x and y; v: variables only; e: an empty base; t: "b2,b1"
CfgsFull == <<C("c1", <<"b1">>, V("c1x", "-")), C("c2", <<"b1", "b2">>, V("c2x", "c2y")), C("v", <<>>, V("-", "vy")),
              C("e", <<"">>, V("ex", "-")), C("t", <<"b2", "", "b1">>, V("-", "-"))>>
IcuHook == D("analysis-icu", <<>>)
IcuFull == D("analysis-icu", CfgsFull)
MyFull == D("my-plug", CfgsFull)
S3One == D("repository-s3", <<C("c1", <<"b1">>, V("-", "s3y"))>>)

CoresQ == {<<>>, <<"analysis-icu">>, <<"repository-s3", "analysis-icu">>}
DirsQ == {<<>>, <<IcuHook>>, <<IcuFull>>, <<MyFull>>, <<MyFull, IcuFull>>, <<S3One, IcuHook>>}
WorldsQ == {W(c, d) : c \in CoresQ, d \in DirsQ}

NamesQ == {"analysis-icu", "my-plug", "my_plug", "ghost", "repository-s3"}
CfgListsQ == {<<"c1">>, <<"c1", "c2">>, <<"c2", "c1">>, <<"v">>, <<"v", "c1">>, <<"c1", "v">>, <<"c1", "nope">>, <<"">>, <<"e">>, <<"e", "v">>, <<"t", "c2">>, <<"c2", "t">>}
SpecsQ == {S(n, 0, <<>>) : n \in NamesQ} \cup {S(n, 1, l) : n \in NamesQ, l \in CfgListsQ} \cup {S(n, 2, <<"c1">>) : n \in {"analysis-icu", "ghost"}}
PairSpecsQ == {S("analysis-icu", 0, <<>>), S("analysis-icu", 1, <<"c2", "c1">>), S("my-plug", 1, <<"c1">>), S("my-plug", 1, <<"nope">>),
               S("ghost", 0, <<>>), S("ghost", 2, <<"c1">>), S("repository-s3", 0, <<>>), S("analysis-icu", 1, <<"v">>)}
ParamsQ == {NoVars, V("px", "-"), V("px", "py")}
RequestsQ == {Q(<<s>>, p) : s \in SpecsQ, p \in ParamsQ} \cup {Q(<<s, t>>, p) : s \in PairSpecsQ, t \in PairSpecsQ, p \in {V("px", "-")}} \cup {ListQ}
ScopeAll(ww, qq) == TRUE

\* thorough: pairs from the whole pool
RequestsT == {Q(<<s>>, p) : s \in SpecsQ, p \in ParamsQ} \cup {Q(<<s, t>>, p) : s \in SpecsQ, t \in PairSpecsQ, p \in ParamsQ} \cup {ListQ}

\* self-tests of the pinned behaviour
WorldsPin == {W(<<"repository-s3", "analysis-icu">>, <<MyFull>>)}
RequestsPinParams == {Q(<<S("analysis-icu", 0, <<>>)>>, V("px", "-"))}
RequestsPinList == {ListQ}
=============================================================================
