--------------------------- MODULE MC_PluginInstall ---------------------------
EXTENDS PluginInstall

V(x, y) == [x |-> x, y |-> y]
Car(vs, hk, nb) == [vars |-> vs, hk |-> hk, nb |-> nb]
P(n, core, vs, paths, hk, rc, url) == [name |-> n, core |-> core, vars |-> vs, paths |-> paths, hk |-> hk, rc |-> rc, url |-> url]
IW(car, ps) == [car |-> car, ps |-> ps]

CarsQ == {Car(V("cx", "cy"), "one", 1), Car(V("-", "cy"), "none", 2), Car(V("cx", "-"), "two", 1), Car(V("-", "-"), "badphase", 1)}
PoolQ == {P("analysis-icu", TRUE, V("-", "-"), <<>>, "none", 0, FALSE),
          P("analysis-icu", TRUE, V("ix", "-"), <<"b1">>, "one", 0, FALSE),
          P("analysis-icu", TRUE, V("ix", "-"), <<"b1">>, "one", 64, FALSE),
          P("my-plug", FALSE, V("-", "my"), <<"b2", "b1">>, "two", 0, TRUE),
          P("my-plug", FALSE, V("mx", "my"), <<"b1">>, "empty", 74, TRUE),
          P("my-plug", FALSE, V("-", "-"), <<>>, "none", 1, TRUE),
          P("repository-s3", FALSE, V("sx", "-"), <<"b1">>, "one", 0, FALSE),
          P("repository-s3", TRUE, V("-", "sy"), <<>>, "none", 0, FALSE),
          P("x-pack", FALSE, V("-", "-"), <<"b1">>, "noreg", 0, FALSE),
          P("x-pack", FALSE, V("xx", "xy"), <<"b1", "b2">>, "one", 0, TRUE)}
Distinct(s) == \A a, b \in DOMAIN s : a # b => s[a].name # s[b].name
SeqsQ == {<<>>} \cup {<<a>> : a \in PoolQ} \cup {s \in {<<a, b>> : a \in PoolQ, b \in PoolQ} : Distinct(s)}
Triples == {s \in {<<a, b, c>> : a \in PoolQ, b \in PoolQ, c \in PoolQ} : Distinct(s)}
IWorldsQ == {IW(c, s) : c \in CarsQ, s \in SeqsQ} \cup {IW(Car(V("cx", "cy"), "one", 1), s) : s \in {t \in Triples : t[1].name = "analysis-icu" /\ t[3].name = "x-pack"}}
IWorldsT == {IW(c, s) : c \in CarsQ, s \in SeqsQ \cup Triples}
=============================================================================
