SPECIFICATION Spec
CONSTANTS
  IWorlds <- IWorldsT
INVARIANT AllHold
INVARIANT RunAgrees
CHECK_DEADLOCK FALSE
