SPECIFICATION Spec
CONSTANTS
  Worlds <- WorldsPin
  Requests <- RequestsPinParams
  Scope <- ScopeAll
  CoreKeepsParams = FALSE
  ListSorted = TRUE
INVARIANT IPlainParams
CHECK_DEADLOCK FALSE
