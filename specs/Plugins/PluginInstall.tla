---------------------------- MODULE PluginInstall ----------------------------
(***************************************************************************)
(* The order in which Rally installs Elasticsearch and its plugins          *)
(* (esrally/mechanic/provisioner.py: local -> ElasticsearchInstaller /      *)
(* PluginInstaller constructors (loading of the bootstrap hooks),           *)
(* BareProvisioner.prepare, PluginInstaller.install, invoke_install_hook,   *)
(* team.BootstrapHookHandler).                                              *)
(*                                                                          *)
(* world w = [car, ps]                                                      *)
(*   car = [vars, hk, nb]  variables of the car, its config.py (hk), number *)
(*                         of config bases                                  *)
(*   ps  = sequence of [name, core, vars, paths, hk, rc, url]: the plugin   *)
(*         descriptors in the requested order; rc = return code of          *)
(*         "elasticsearch-plugin install --batch", url = the binaries map   *)
(*         has a download URL for it                                        *)
(*   hk  = "none" (no plugin.py / config.py) | "empty" (register() adds     *)
(*         nothing) | "one" | "two" (hooks for post_install) | "badphase"   *)
(*         (registers for an unknown phase) | "noreg" (no register())       *)
(* log = sequence of events [k, i, b, v, m, n]                              *)
(*   k = "es" (Elasticsearch unpacked) | "carcfg" (templates of car base b  *)
(*   rendered) | "inst" (installer called for plugin i, b = "url"|"name")   *)
(*   | "cfg" (templates of base b of plugin i rendered) | "hook" (n-th      *)
(*   post_install hook of component i, 0 = car); v = the variables the      *)
(*   template / hook sees (Keys), m = cluster_settings["plugin.mandatory"]  *)
(***************************************************************************)
EXTENDS Integers, Sequences, FiniteSets, TLC

CONSTANTS IWorlds

VARIABLES w, pc, i, log, err
vars == <<w, pc, i, log, err>>

Keys == {"x", "y"}
NoVars == [k \in Keys |-> "-"]
Over(a, b) == [k \in Keys |-> IF b[k] # "-" THEN b[k] ELSE a[k]]
Moved == {"repository-s3", "repository-gcs", "repository-azure"}
CarBases == <<"cb1", "cb2">>

Ev(k, j, b, v, m, n) == [k |-> k, i |-> j, b |-> b, v |-> v, m |-> m, n |-> n]
N(ww) == Len(ww.ps)
Comp(ww, j) == IF j = 0 THEN ww.car ELSE ww.ps[j]
HookCount(hk) == CASE hk = "one" -> 1 [] hk = "two" -> 2 [] OTHER -> 0
BadHook(hk) == hk \in {"badphase", "noreg"}
AnyBad(ww) == \E j \in 0..N(ww) : BadHook(Comp(ww, j).hk)
ErrOf(rc) == IF rc = 64 THEN "SystemSetupError" ELSE IF rc = 74 THEN "SupplyError" ELSE "RallyError"

\* ONE namespace: the car's variables, overridden by every plugin's in the requested order
RECURSIVE MergeUpTo(_, _)
MergeUpTo(ww, n) == IF n = 0 THEN ww.car.vars ELSE Over(MergeUpTo(ww, n - 1), ww.ps[n].vars)
Merged(ww) == MergeUpTo(ww, N(ww))
RECURSIVE MandFrom(_, _)
MandFrom(ww, j) ==
    IF j > N(ww) THEN <<>>
    ELSE (IF ww.ps[j].name \in Moved /\ ~ww.ps[j].core THEN <<>> ELSE <<ww.ps[j].name>>) \o MandFrom(ww, j + 1)
Mand(ww) == MandFrom(ww, 1)

\* every component gets ONE copy of the variables for all its hooks: the hooks of the worlds set x after looking at it, which
\* the next hook of the SAME component sees and no other component
HookVars(ww, n) == IF n = 1 THEN Merged(ww) ELSE [Merged(ww) EXCEPT !["x"] = "changed-by-hook"]

(***************************************************************************)
(* The state machine: one step per critical section of the code            *)
(***************************************************************************)
St(p, j, l, e) == [pc |-> p, i |-> j, log |-> l, err |-> e]
Terminal(s) == s.pc \in {"done", "failed"}
Step(ww, s) ==
    CASE s.pc = "build" ->  \* provisioner.local: the constructors load the hook files
            IF AnyBad(ww) THEN St("failed", 0, s.log, "SystemSetupError") ELSE St("es", 0, s.log, "-")
      [] s.pc = "es" ->
            St("plugins", 1,
               <<Ev("es", 0, "-", NoVars, <<>>, 0)>> \o [b \in 1..ww.car.nb |-> Ev("carcfg", 0, CarBases[b], Merged(ww), Mand(ww), 0)], "-")
      [] s.pc = "plugins" /\ s.i <= N(ww) ->
            LET p == ww.ps[s.i]
                inst == Ev("inst", s.i, IF p.url THEN "url" ELSE "name", NoVars, <<>>, 0)
            IN IF p.rc = 0
               THEN St("plugins", s.i + 1, s.log \o <<inst>> \o [j \in 1..Len(p.paths) |-> Ev("cfg", s.i, p.paths[j], Merged(ww), Mand(ww), 0)], "-")
               ELSE St("failed", s.i, Append(s.log, inst), ErrOf(p.rc))
      [] s.pc = "plugins" /\ s.i > N(ww) -> St("hooks", 0, s.log, "-")
      [] s.pc = "hooks" /\ s.i <= N(ww) ->
            St("hooks", s.i + 1, s.log \o [n \in 1..HookCount(Comp(ww, s.i).hk) |-> Ev("hook", s.i, "-", HookVars(ww, n), Mand(ww), n)], "-")
      [] s.pc = "hooks" /\ s.i > N(ww) -> St("done", 0, s.log, "-")

RECURSIVE RunFrom(_, _)
RunFrom(ww, s) == IF Terminal(s) THEN s ELSE RunFrom(ww, Step(ww, s))
Run(ww) == RunFrom(ww, St("build", 0, <<>>, "-"))

Cur == St(pc, i, log, err)
Init == w \in IWorlds /\ pc = "build" /\ i = 0 /\ log = <<>> /\ err = "-"
Next == /\ ~Terminal(Cur)
        /\ LET s == Step(w, Cur) IN pc' = s.pc /\ i' = s.i /\ log' = s.log /\ err' = s.err
        /\ UNCHANGED w
Spec == Init /\ [][Next]_vars

(***************************************************************************)
(* Invariants, as predicates of (world, log so far, error, pc)             *)
(***************************************************************************)
Idx(lg, k) == {j \in DOMAIN lg : lg[j].k = k}
IsInst(e) == e.k = "inst"
IsHook(e) == e.k = "hook"
InstSeq(lg) == SelectSeq(lg, IsInst)
HookSeq(lg) == SelectSeq(lg, IsHook)
IsPrefix(a, b) == Len(a) <= Len(b) /\ \A j \in DOMAIN a : a[j] = b[j]
RECURSIVE HooksFrom(_, _)
HooksFrom(ww, j) ==
    IF j > N(ww) THEN <<>> ELSE [n \in 1..HookCount(Comp(ww, j).hk) |-> <<j, n>>] \o HooksFrom(ww, j + 1)
CfgOf(lg, j) == LET s == SelectSeq(lg, LAMBDA e : e.k = "cfg" /\ e.i = j) IN [t \in 1..Len(s) |-> s[t].b]
ValidIdx(ww, lg) == \A j \in DOMAIN lg : lg[j].i \in 0..N(ww) /\ (lg[j].k \in {"inst", "cfg"} => lg[j].i >= 1)

IHolds(c, ww, lg, er, p) ==
    CASE c = "ESFirst" ->
            \* Elasticsearch is unpacked first and once; the car's templates follow at once, in the order of the bases
            lg # <<>> => /\ lg[1].k = "es" /\ Cardinality(Idx(lg, "es")) = 1
                         /\ Idx(lg, "carcfg") = 2..(1 + ww.car.nb)
                         /\ \A b \in 1..ww.car.nb : lg[1 + b].b = CarBases[b]
      [] c = "InOrderOnce" ->
            \* plugins are installed in the requested order, each at most once, from the URL if one is given
            LET s == InstSeq(lg) IN /\ Len(s) <= N(ww)
                                    /\ \A j \in DOMAIN s : s[j].i = j /\ s[j].b = IF ww.ps[j].url THEN "url" ELSE "name"
      [] c = "CfgFollowsInstall" ->
            \* the templates of a plugin are rendered right after ITS successful installation, in the order of its config paths
            /\ \A j \in Idx(lg, "inst") : CfgOf(lg, lg[j].i) = IF ww.ps[lg[j].i].rc = 0 THEN ww.ps[lg[j].i].paths ELSE <<>>
            /\ \A j \in Idx(lg, "cfg") : j > 1 /\ lg[j - 1].i = lg[j].i /\ lg[j - 1].k \in {"inst", "cfg"}
      [] c = "AbortOnFailure" ->
            \* a failing installation is the last thing that happens, with the documented error class
            \A j \in Idx(lg, "inst") : ww.ps[lg[j].i].rc # 0 => (j = Len(lg) /\ p = "failed" /\ er = ErrOf(ww.ps[lg[j].i].rc))
      [] c = "FailureDocumented" ->
            \* provisioning fails only for a bad hook file (before anything is installed) or a failing installer; no hook has run then
            p = "failed" => /\ Idx(lg, "hook") = {}
                            /\ \/ AnyBad(ww) /\ lg = <<>> /\ er = "SystemSetupError"
                               \/ lg # <<>> /\ lg[Len(lg)].k = "inst" /\ ww.ps[lg[Len(lg)].i].rc # 0
      [] c = "BadHookEarly" ->
            AnyBad(ww) => lg = <<>> /\ p \in {"build", "failed"}
      [] c = "HooksAfterAllInstalls" ->
            Idx(lg, "hook") # {} => /\ Len(InstSeq(lg)) = N(ww)
                                    /\ \A h \in Idx(lg, "hook") : \A t \in DOMAIN lg : lg[t].k # "hook" => t < h
      [] c = "HookOrder" ->
            \* the car's hooks first, then the plugins' in the requested order, every registered hook once
            LET hs == HookSeq(lg) got == [t \in 1..Len(hs) |-> <<hs[t].i, hs[t].n>>] IN
            /\ IsPrefix(got, HooksFrom(ww, 0))
            /\ p = "done" => got = HooksFrom(ww, 0)
      [] c = "VarsMerged" ->
            \* every template (car's and plugins') and every hook sees the same variables: car, then all plugins in order;
            \* what a hook changes stays within its component
            \A j \in DOMAIN lg : lg[j].k \in {"carcfg", "cfg", "hook"} => (lg[j].m = Mand(ww) /\ lg[j].v = IF lg[j].k = "hook" THEN HookVars(ww, lg[j].n) ELSE Merged(ww))
      [] c = "OwnVarsVisible" ->
            \* a plugin's variable reaches its own templates unless a LATER plugin defines the same key
            \A j \in Idx(lg, "cfg") : \A k \in Keys :
                (ww.ps[lg[j].i].vars[k] # "-" /\ \A t \in (lg[j].i + 1)..N(ww) : ww.ps[t].vars[k] = "-") => lg[j].v[k] = ww.ps[lg[j].i].vars[k]
      [] c = "Complete" ->
            p = "done" => /\ er = "-" /\ Len(InstSeq(lg)) = N(ww) /\ \A j \in 1..N(ww) : ww.ps[j].rc = 0

IClauses == {"ESFirst", "InOrderOnce", "CfgFollowsInstall", "AbortOnFailure", "FailureDocumented", "BadHookEarly", "HooksAfterAllInstalls",
             "HookOrder", "VarsMerged", "OwnVarsVisible", "Complete"}
Failing(ww, lg, er, p) == IF ValidIdx(ww, lg) THEN {c \in IClauses : ~IHolds(c, ww, lg, er, p)} ELSE {"ValidIdx"}
AllHold == Failing(w, log, err, pc) = {}
\* the state machine and the function Run agree
RunAgrees == Terminal(Cur) => Run(w) = Cur
=============================================================================
