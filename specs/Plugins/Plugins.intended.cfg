SPECIFICATION Spec
CONSTANTS
  Worlds <- WorldsQ
  Requests <- RequestsQ
  Scope <- ScopeAll
  CoreKeepsParams = TRUE
  ListSorted = TRUE
INVARIANT WeakHold
INVARIANT StrongHold
CHECK_DEADLOCK FALSE
