SPECIFICATION TSpec
CONSTANTS
  Worlds = {}
  Requests = {}
  Scope <- TScope
  CoreKeepsParams = FALSE
  ListSorted = FALSE
CHECK_DEADLOCK FALSE
