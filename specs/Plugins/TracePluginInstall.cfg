SPECIFICATION TSpec
CONSTANTS
  IWorlds = {}
CHECK_DEADLOCK FALSE
