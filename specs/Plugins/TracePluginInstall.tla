-------------------------- MODULE TracePluginInstall --------------------------
(***************************************************************************)
(* Validates recorded provisioning runs of the REAL BareProvisioner.prepare *)
(* with real PluginInstallers / BootstrapHookHandlers.                      *)
(* Item = [id, w, pc, err, log] (final pc "done" | "failed").               *)
(* L1: every invariant clause of PluginInstall.tla on the recorded log and  *)
(*     outcome (the clauses about order are prefix-closed);                 *)
(* L2: the recorded log and outcome are those of Run(w).                    *)
(***************************************************************************)
EXTENDS PluginInstall, Json, IOUtils

Items == JsonDeserialize(IOEnv.VERIF_TRACES)

VARIABLES n

TInit == n = 1 /\ w = <<>> /\ pc = "build" /\ i = 0 /\ log = <<>> /\ err = "-"

Check(it) ==
    LET full == Failing(it.w, it.log, it.err, it.pc)
        l1 == full
        r == Run(it.w)
        l2 == r.pc = it.pc /\ r.err = it.err /\ r.log = it.log
    IN /\ IF l1 = {} THEN TRUE ELSE PrintT(<<"V", it.id, 1, "L1", l1>>)
       /\ IF l2 THEN TRUE ELSE PrintT(<<"V", it.id, 1, "L2", {}>>)

TNext == /\ n <= Len(Items)
         /\ Check(Items[n])
         /\ n' = n + 1
         /\ IF n < Len(Items) THEN TRUE ELSE PrintT(<<"DONE", Len(Items), Len(Items)>>)
         /\ UNCHANGED vars
TSpec == TInit /\ [][TNext]_<<vars, n>>
=============================================================================
