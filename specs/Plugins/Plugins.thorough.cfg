SPECIFICATION Spec
CONSTANTS
  Worlds <- WorldsQ
  Requests <- RequestsT
  Scope <- ScopeAll
  CoreKeepsParams = FALSE
  ListSorted = FALSE
INVARIANT WeakHold
CHECK_DEADLOCK FALSE
