----------------------------- MODULE TracePlugins -----------------------------
(***************************************************************************)
(* Validates recorded results of the REAL team.load_plugins / load_plugin / *)
(* PluginLoader.plugins.  Item = [id, w, q, r].                             *)
(* L1: every clause of Plugins.tla (weak and strong; the harness knows      *)
(*     which strong ones /repo does not meet) on the recorded result;       *)
(* L2: the recorded result is the one of the transcription Code under the   *)
(*     switches of the cfg (srt, which depends on os.listdir, is left out). *)
(***************************************************************************)
EXTENDS Plugins, Json, IOUtils

Items == JsonDeserialize(IOEnv.VERIF_TRACES)

VARIABLES n
TScope(a, b) == TRUE
TInit == n = 1 /\ w = <<>> /\ q = <<>> /\ res = None /\ done = FALSE

Same(a, c) == a.ok = c.ok /\ a.exc = c.exc /\ a.msg = c.msg /\ a.at = c.at /\ a.ds = c.ds

Check(it) ==
    LET l1 == {c \in Weak \cup Strong : ~Holds(c, it.w, it.q, it.r)}
        l2 == Same(it.r, Code(it.w, it.q))
    IN /\ IF l1 = {} THEN TRUE ELSE PrintT(<<"V", it.id, 1, "L1", l1>>)
       /\ IF l2 THEN TRUE ELSE PrintT(<<"V", it.id, 1, "L2", {}>>)

TNext == /\ n <= Len(Items)
         /\ Check(Items[n])
         /\ n' = n + 1
         /\ IF n < Len(Items) THEN TRUE ELSE PrintT(<<"DONE", Len(Items), Len(Items)>>)
         /\ UNCHANGED vars
TSpec == TInit /\ [][TNext]_<<vars, n>>
=============================================================================
