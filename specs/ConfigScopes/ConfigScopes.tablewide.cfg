\* thorough variant of the table: all five scopes for both keys
SPECIFICATION Spec
CONSTANTS
  Sections <- TableSecs
  Keys <- TableKeys
  CfgAdds = {}
  BaseAdds = {}
  Names <- Names1
  FileEdits = {}
  StoreChoices = {}
  AddlChoices = {}
  InitStores <- TableStoresWide
  InitFiles <- TableInitFiles
  MaxOps = 0
  PermBound = 4
VIEW view
INVARIANT LookupsOk
INVARIANT AllOptsOrderIndependent
INVARIANT ExistsImpliesMandatoryOk
INVARIANT ScopesWellFormed
CHECK_DEADLOCK FALSE
