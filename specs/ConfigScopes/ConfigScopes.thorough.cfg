SPECIFICATION Spec
CONSTANTS
  Sections <- Secs2
  Keys <- Keys2
  CfgAdds <- TCfgAdds
  BaseAdds <- TBaseAdds
  Names <- Names2
  FileEdits <- TFileEdits
  StoreChoices <- TStores
  AddlChoices <- QAddl
  InitStores <- JustBuiltin
  InitFiles <- QInitFiles
  MaxOps = 3
  PermBound = 4
VIEW view
INVARIANT LookupsOk
INVARIANT AllOptsOrderIndependent
INVARIANT ExistsImpliesMandatoryOk
INVARIANT ScopesWellFormed
INVARIANT FileValuesOk
INVARIANT StepEffects
INVARIANT StoreLoadRoundTrip
CHECK_DEADLOCK FALSE
