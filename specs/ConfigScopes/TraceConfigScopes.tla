-------------------------- MODULE TraceConfigScopes --------------------------
(***************************************************************************)
(* Validates recorded executions of the real esrally.config.Config /        *)
(* ConfigFile / auto_load_local_config against ConfigScopes.tla.            *)
(* Input (env VERIF_TRACES): JSON array of items                            *)
(*   [id, names, cfgName, baseName, events: << [op, chk, ...] >>]           *)
(* one event per call (op = the argument record of ConfigScopes!Step).  The *)
(* specification state follows the calls by Step; an event with chk = TRUE  *)
(* also carries what was observed on the real objects after the call:       *)
(*   res (ok / exception class), name, cpresent (config_present()),         *)
(*   store / bstore (projection of Config._opts of cfg / base),             *)
(*   present (which ini files exist), obs (opts / exists per probed key),   *)
(*   all (all_opts per probed section).                                     *)
(*   L1: the recorded lookups satisfy the documented lookup semantics on    *)
(*       the store that the call history defines; outcome and               *)
(*       config_present agree;                                              *)
(*   L2: everything recorded equals the transcription (stores, names,       *)
(*       files, exact exception classes and messages).                      *)
(* Prints <<"V", id, line, "L1"|"L2", clauses>> per failing event and       *)
(* <<"DONE", #items, #checked events>> at the end.                          *)
(***************************************************************************)
EXTENDS ConfigScopes, Json, IOUtils

Items == JsonDeserialize(IOEnv.VERIF_TRACES)

VARIABLES tid, l, nev
tvars == <<vars, tid, l, nev>>

StartOf(it) == [cfg |-> [name |-> it.cfgName, o |-> Builtin], base |-> [name |-> it.baseName, o |-> Builtin],
                files |-> [nm \in ToSet(it.names) |-> NoFile], res |-> "ok"]

StoreOf(arr) == LET S == ToSet(arr) IN [sl \in {<<x.sc, x.s, x.k>> : x \in S} |-> (CHOOSE x \in S : <<x.sc, x.s, x.k>> = sl).v]
KvOf(arr) == LET S == ToSet(arr) IN [k \in {x.k : x \in S} |-> (CHOOSE x \in S : x.k = k).v]
PresentOf(arr) == LET S == ToSet(arr) IN [nm \in {x.n : x \in S} |-> (CHOOSE x \in S : x.n = nm).p]

TInit == /\ tid = 1 /\ l = 1 /\ nev = 0
         /\ st = StartOf(Items[1])
         /\ act = [op |-> "init"]
         /\ n = 0

Verdict(id, line, e, nx) ==
    LET o == nx.cfg.o
        lk == {c \in LookupClauses : \E i \in 1..Len(e.obs) : ~Holds(c, o, e.obs[i])}
              \cup (IF \A i \in 1..Len(e.all) : AllOptsAgree(o, e.all[i].s, KvOf(e.all[i].kv)) THEN {} ELSE {"AllOptsAgree"})
              \cup (IF (e.res = "ok") <=> (nx.res = "ok") THEN {} ELSE {"Outcome"})
              \cup (IF e.cpresent <=> nx.files[nx.cfg.name].present THEN {} ELSE {"ConfigPresent"})
        l1 == IF lk = {} THEN {} ELSE lk \cup {"after-" \o e.op.op}
        l2 == /\ e.res = nx.res
              /\ e.name = nx.cfg.name
              /\ StoreOf(e.store) = o
              /\ StoreOf(e.bstore) = nx.base.o
              /\ PresentOf(e.present) = [nm \in DOMAIN nx.files |-> nx.files[nm].present]
              /\ \A i \in 1..Len(e.obs) : e.obs[i] = ObsCode(o, e.obs[i].s, e.obs[i].k)
              /\ \A i \in 1..Len(e.all) : KvOf(e.all[i].kv) = AllOptsCode(o, e.all[i].s)
    IN /\ IF l1 = {} THEN TRUE ELSE PrintT(<<"V", id, line, "L1", l1>>)
       /\ IF l1 # {} \/ l2 THEN TRUE ELSE PrintT(<<"V", id, line, "L2", {}>>)

Consume ==
    /\ tid <= Len(Items)
    /\ l <= Len(Items[tid].events)
    /\ LET e == Items[tid].events[l]
           nx == Step(st, e.op)
       IN /\ st' = nx
          /\ act' = e.op
          /\ IF e.chk THEN Verdict(Items[tid].id, l, e, nx) ELSE TRUE
          /\ nev' = IF e.chk THEN nev + 1 ELSE nev
    /\ l' = l + 1 /\ tid' = tid /\ n' = n

NextItem ==
    /\ tid <= Len(Items)
    /\ l > Len(Items[tid].events)
    /\ st' = IF tid < Len(Items) THEN StartOf(Items[tid + 1]) ELSE st
    /\ act' = [op |-> "init"]
    /\ tid' = tid + 1 /\ l' = 1 /\ nev' = nev /\ n' = n
    /\ IF tid < Len(Items) THEN TRUE ELSE PrintT(<<"DONE", Len(Items), nev>>)

TNext == Consume \/ NextItem
TSpec == TInit /\ [][TNext]_tvars
=============================================================================
