----------------------------- MODULE ConfigScopes -----------------------------
(***************************************************************************)
(* Rally's layered configuration (esrally/config.py).                      *)
(*                                                                         *)
(* A configuration is a STORE: a partial function                           *)
(*        <<scope, section, key>>  ->  value                                *)
(* with scope in 1..5 (application, applicationOverride, benchmark,         *)
(* challenge, invocation; a higher number is the narrower / more specific   *)
(* scope).  Config.add writes one slot, Config.opts / exists / all_opts     *)
(* read through the scopes, add_all copies the slots of one section from    *)
(* another configuration, load_config replaces the store by the built-in    *)
(* defaults + the ini file (application scope, strings), and                *)
(* auto_load_local_config builds the configuration of a driver / mechanic   *)
(* actor on a remote host from the local ini file and the coordinator's     *)
(* ("base") configuration.                                                  *)
(*                                                                         *)
(* The state is [cfg, base, files, res]:                                    *)
(*   cfg, base : [name, o]   configuration under test / coordinator config  *)
(*   files     : config name -> [present, ent]; ent : <<section,key>> -> raw*)
(*   res       : "ok" or the class name of the exception of the last call   *)
(* Step(st, op) is the transcription of the code for one call; the          *)
(* documented semantics are the declarative operators (Effective, Lookup,   *)
(* AllOptsSpec ...) and the *Effect predicates, which TLC proves of Step.   *)
(*                                                                         *)
(* A value is [t, v] = (Python type name, str(value)).  A raw ini value is  *)
(* a sequence of tokens: lit (verbatim text without $ and %), dir           *)
(* (${CONFIG_DIR}), esc ($$), pct (%%), unk (${other}).                     *)
(***************************************************************************)
EXTENDS Integers, Sequences, FiniteSets, TLC, SequencesExt, Functions

CONSTANTS Sections, Keys,   \* probe universe: every invariant is evaluated for every lookup in Sections x Keys
          CfgAdds,          \* add() calls on the configuration under test: records [sc, s, k, v]; sc = 0 is scope None
          BaseAdds,         \* add() calls on the base configuration
          Names,            \* configuration names ("" = rally.ini, "x" = rally-x.ini)
          FileEdits,        \* manual edits of an ini file: records [s, k, raw]
          StoreChoices,     \* contents written through ConfigFile.store: sequences of records [s, k, raw]
          AddlChoices,      \* additional_sections arguments of auto_load_local_config: sequences of section names
          InitStores,       \* initial stores of the configuration under test (each contains Builtin)
          InitFiles,        \* initial ini files: functions Names -> file
          MaxOps,           \* bound on the number of calls of a behaviour
          PermBound         \* all_opts is checked for every insertion order of sections with at most PermBound slots

-----------------------------------------------------------------------------
(* values, scopes, partial functions *)
App == 1
Override == 2
Bench == 3
Chal == 4
Invoc == 5
Scopes == App..Invoc
ScopeKey(sc) == IF sc = 0 \/ sc = App THEN App ELSE sc          \* Config._k: None and application share one slot

Str(s) == [t |-> "str", v |-> s]
IntV(s) == [t |-> "int", v |-> s]
NoneV == [t |-> "NoneType", v |-> "None"]
DefV == Str("<default>")                                          \* the default_value the lookups are probed with

Empty == <<>>                                                     \* the function with empty domain
Put(f, x, y) == [z \in DOMAIN f \cup {x} |-> IF z = x THEN y ELSE f[z]]
SetMax(S) == CHOOSE x \in S : \A y \in S : y <= x

Lit(s) == [t |-> "lit", s |-> s]
Dir == [t |-> "dir", s |-> ""]
Esc == [t |-> "esc", s |-> ""]
Pct == [t |-> "pct", s |-> ""]
Unk(s) == [t |-> "unk", s |-> s]

-----------------------------------------------------------------------------
(* facts of the code *)
CurrentVersion == 17                                              \* Config.CURRENT_CONFIG_VERSION
EarliestVersion == 17                                             \* Config.EARLIEST_SUPPORTED_VERSION
ConfigDir == "@DIR@"                                              \* paths.rally_confdir() ($RALLY_HOME/.rally), normalised by the harness
CopiedSections == <<"reporting", "tracks", "teams", "distributions", "defaults", "system">>   \* auto_load_local_config

Builtin ==                                                        \* Config._clear_config
    (<<App, "source", "distribution.dir">> :> Str("distributions")) @@
    (<<App, "benchmarks", "track.repository.dir">> :> Str("tracks")) @@
    (<<App, "benchmarks", "track.default.repository">> :> Str("default")) @@
    (<<App, "provisioning", "node.name.prefix">> :> Str("rally-node")) @@
    (<<App, "provisioning", "node.http.port">> :> IntV("39200")) @@
    (<<App, "mechanic", "team.repository.dir">> :> Str("teams")) @@
    (<<App, "mechanic", "team.default.repository">> :> Str("default"))

NoFile == [present |-> FALSE, ent |-> Empty]

DefaultIni ==                                                     \* esrally/resources/rally.ini (= docs/configuration.rst defaults)
    [present |-> TRUE,
     ent |-> (<<"meta", "config.version">> :> <<Lit("17")>>) @@
             (<<"system", "env.name">> :> <<Lit("local")>>) @@
             (<<"node", "root.dir">> :> <<Dir, Lit("/benchmarks")>>) @@
             (<<"node", "src.root.dir">> :> <<Dir, Lit("/benchmarks/src")>>) @@
             (<<"source", "remote.repo.url">> :> <<Lit("https://github.com/elastic/elasticsearch.git")>>) @@
             (<<"source", "elasticsearch.src.subdir">> :> <<Lit("elasticsearch")>>) @@
             (<<"benchmarks", "local.dataset.cache">> :> <<Dir, Lit("/benchmarks/data")>>) @@
             (<<"reporting", "datastore.type">> :> <<Lit("in-memory")>>) @@
             (<<"reporting", "datastore.host">> :> <<>>) @@
             (<<"reporting", "datastore.port">> :> <<>>) @@
             (<<"reporting", "datastore.secure">> :> <<Lit("False")>>) @@
             (<<"reporting", "datastore.user">> :> <<>>) @@
             (<<"reporting", "datastore.password">> :> <<>>) @@
             (<<"tracks", "default.url">> :> <<Lit("https://github.com/elastic/rally-tracks")>>) @@
             (<<"teams", "default.url">> :> <<Lit("https://github.com/elastic/rally-teams")>>) @@
             (<<"defaults", "preserve_benchmark_candidate">> :> <<Lit("false")>>) @@
             (<<"distributions", "release.cache">> :> <<Lit("true")>>)]

-----------------------------------------------------------------------------
(* DOCUMENTED SEMANTICS of the lookups: "the value on the most specific level is returned" *)
Defining(o, s, k) == {sc \in Scopes : <<sc, s, k>> \in DOMAIN o}
Defined(o, s, k) == Defining(o, s, k) # {}
Effective(o, s, k) == o[<<SetMax(Defining(o, s, k)), s, k>>]
Undef == [t |-> "<undefined>", v |-> ""]
Lookup(o, s, k) == IF Defined(o, s, k) THEN Effective(o, s, k) ELSE Undef
KeysOf(o, s) == {sl[3] : sl \in {x \in DOMAIN o : x[2] = s}}
AllOptsSpec(o, s) == [k \in KeysOf(o, s) |-> Effective(o, s, k)]

(***************************************************************************)
(* TRANSCRIPTION of Config.opts / _resolve_scope / exists / all_opts.      *)
(* A result is [exc, t, v]: a value (exc = FALSE) or a raised exception     *)
(* (exc = TRUE, t = class name, v = message).                               *)
(***************************************************************************)
Val(x) == [exc |-> FALSE, t |-> x.t, v |-> x.v]
Raised(cls, msg) == [exc |-> TRUE, t |-> cls, v |-> msg]
MissingMsg(s, k) == "No value for mandatory configuration: section='" \o s \o "', key='" \o k \o "'"

RECURSIVE ResolveScope(_, _, _, _)
ResolveScope(o, s, k, from) ==
    IF <<from, s, k>> \in DOMAIN o THEN from
    ELSE IF from = App THEN App
    ELSE ResolveScope(o, s, k, from - 1)

OptsCode(o, s, k, default, mandatory) ==
    LET sc == ResolveScope(o, s, k, Invoc)
    IN  IF <<sc, s, k>> \in DOMAIN o THEN Val(o[<<sc, s, k>>])
        ELSE IF ~mandatory THEN Val(default)
        ELSE Raised("ConfigError", MissingMsg(s, k))

ExistsCode(o, s, k) == OptsCode(o, s, k, NoneV, FALSE) # Val(NoneV)

(* all_opts iterates the dict in insertion order `order` (a sequence of slots) and keeps the value of the larger scope *)
AllOptsFold(o, s, order) ==
    LET step(acc, sl) ==
            IF sl[2] # s THEN acc
            ELSE IF sl[3] \notin DOMAIN acc.val \/ acc.sc[sl[3]] < sl[1]
                 THEN [val |-> Put(acc.val, sl[3], o[sl]), sc |-> Put(acc.sc, sl[3], sl[1])]
                 ELSE acc
    IN  FoldLeft(step, [val |-> Empty, sc |-> Empty], order).val
SlotsOf(o, s) == {sl \in DOMAIN o : sl[2] = s}
AllOptsCode(o, s) == AllOptsFold(o, s, SetToSeq(SlotsOf(o, s)))

(* what the harness observes for one (section, key) *)
ObsCode(o, s, k) ==
    [s |-> s, k |-> k,
     man |-> OptsCode(o, s, k, DefV, TRUE), named |-> TRUE,
     optd |-> OptsCode(o, s, k, DefV, FALSE),
     optn |-> OptsCode(o, s, k, NoneV, FALSE),
     ex |-> ExistsCode(o, s, k)]

(***************************************************************************)
(* The lookup properties as predicates over (store, observation) so that    *)
(* the trace specification evaluates them on recorded observations.         *)
(***************************************************************************)
MostSpecificWins(o, ob) ==
    Defined(o, ob.s, ob.k) => LET e == Val(Effective(o, ob.s, ob.k)) IN ob.man = e /\ ob.optd = e /\ ob.optn = e
MandatoryRaisesIffUndefined(o, ob) ==
    /\ ob.man.exc <=> ~Defined(o, ob.s, ob.k)
    /\ ob.man.exc => ob.man.t = "ConfigError" /\ ob.named         \* the message names section and key
DefaultIffUndefined(o, ob) ==
    ~Defined(o, ob.s, ob.k) => ob.optd = Val(DefV) /\ ob.optn = Val(NoneV)
ExistsAgreesWithOpts(o, ob) == ob.ex <=> (ob.optn # Val(NoneV))
ExistsIffValue(o, ob) == ob.ex <=> (Defined(o, ob.s, ob.k) /\ Effective(o, ob.s, ob.k) # NoneV)   \* None counts as "no value"

LookupClauses == {"MostSpecificWins", "MandatoryRaisesIffUndefined", "DefaultIffUndefined", "ExistsAgreesWithOpts", "ExistsIffValue"}
Holds(c, o, ob) ==
    CASE c = "MostSpecificWins" -> MostSpecificWins(o, ob)
      [] c = "MandatoryRaisesIffUndefined" -> MandatoryRaisesIffUndefined(o, ob)
      [] c = "DefaultIffUndefined" -> DefaultIffUndefined(o, ob)
      [] c = "ExistsAgreesWithOpts" -> ExistsAgreesWithOpts(o, ob)
      [] c = "ExistsIffValue" -> ExistsIffValue(o, ob)

AllOptsAgree(o, s, ao) == ao = AllOptsSpec(o, s)        \* exactly the keys of the section, each with the value opts returns

-----------------------------------------------------------------------------
(* ini files *)
TokenText(tk) ==                                            \* string.Template.substitute, then configparser BasicInterpolation
    CASE tk.t = "lit" -> tk.s
      [] tk.t = "dir" -> ConfigDir
      [] tk.t = "esc" -> "$"
      [] tk.t = "pct" -> "%"
      [] tk.t = "unk" -> "?"
Expand(raw) == FoldLeft(LAMBDA acc, tk : acc \o TokenText(tk), "", raw)
TokenSource(tk) ==                                          \* the characters in the file
    CASE tk.t = "lit" -> tk.s
      [] tk.t = "dir" -> "${CONFIG_DIR}"
      [] tk.t = "esc" -> "$$"
      [] tk.t = "pct" -> "%%"
      [] tk.t = "unk" -> "${" \o tk.s \o "}"
Source(raw) == FoldLeft(LAMBDA acc, tk : acc \o TokenSource(tk), "", raw)
IsPlain(raw) == \A i \in 1..Len(raw) : raw[i].t = "lit"
HasUnk(f) == \E e \in DOMAIN f.ent : \E i \in 1..Len(f.ent[e]) : f.ent[e][i].t = "unk"

EntOf(seq) == [e \in {<<x.s, x.k>> : x \in ToSet(seq)} |-> (CHOOSE x \in ToSet(seq) : x.s = e[1] /\ x.k = e[2]).raw]

(* _clear_config + _fill_from_config_file: built-in defaults, then every file entry as a string in application scope *)
FromFile(f) ==
    LET fs == {<<App, e[1], e[2]>> : e \in DOMAIN f.ent}
    IN  [sl \in DOMAIN Builtin \cup fs |-> IF sl \in fs THEN Str(Expand(f.ent[<<sl[2], sl[3]>>])) ELSE Builtin[sl]]

IsNum(x) == \E i \in 0..99 : ToString(i) = x.v
Num(x) == CHOOSE i \in 0..99 : ToString(i) = x.v
(* config_compatible / migrate with auto_upgrade *)
VersionCheck(o) ==
    LET x == OptsCode(o, "meta", "config.version", IntV("0"), FALSE)
    IN  IF ~IsNum(x) THEN "ValueError"                       \* int('abc')
        ELSE IF Num(x) = CurrentVersion THEN "ok"
        ELSE IF Num(x) < EarliestVersion THEN "ConfigError"  \* "too old"
        ELSE IF Num(x) >= CurrentVersion THEN "ConfigError"  \* "later version already"
        ELSE "migration-not-modelled"                        \* unreachable while EarliestVersion = CurrentVersion

LoadOp(o, f, autoUpgrade) ==
    IF ~f.present THEN [o |-> o, res |-> "FileNotFoundError"]
    ELSE IF HasUnk(f) THEN [o |-> o, res |-> "KeyError"]       \* Template.substitute fails before anything is cleared
    ELSE LET lo == FromFile(f)
         IN [o |-> lo, res |-> IF autoUpgrade THEN VersionCheck(lo) ELSE "ok"]   \* the store stays replaced when the check fails

AddAllOp(target, source, s) ==
    LET cp == {sl \in DOMAIN source : sl[2] = s}
    IN  [sl \in DOMAIN target \cup cp |-> IF sl \in cp THEN source[sl] ELSE target[sl]]

AutoLoadSections(addl) == CopiedSections \o addl

AutoLoadOp(b, fs, addl) ==
    LET nm == b.name
        f1 == IF fs[nm].present THEN fs[nm] ELSE DefaultIni     \* install_default_config
        ld == LoadOp(Builtin, f1, TRUE)
    IN  [files |-> [fs EXCEPT ![nm] = f1],
         res |-> ld.res,
         cfg |-> [name |-> nm, o |-> FoldLeft(LAMBDA acc, s : AddAllOp(acc, b.o, s), ld.o, AutoLoadSections(addl))]]

-----------------------------------------------------------------------------
(* one call *)
Slot(sc, s, k) == <<ScopeKey(sc), s, k>>

Step(st, op) ==
    CASE op.op = "add" ->
            IF op.tgt = "cfg" THEN [st EXCEPT !.cfg.o = Put(@, Slot(op.sc, op.s, op.k), op.v), !.res = "ok"]
            ELSE [st EXCEPT !.base.o = Put(@, Slot(op.sc, op.s, op.k), op.v), !.res = "ok"]
      [] op.op = "addall" -> [st EXCEPT !.cfg.o = AddAllOp(@, st.base.o, op.s), !.res = "ok"]
      [] op.op = "setfile" -> [st EXCEPT !.files[op.name] = [present |-> TRUE, ent |-> Put(@.ent, <<op.s, op.k>>, op.raw)], !.res = "ok"]
      [] op.op = "delfile" -> [st EXCEPT !.files[op.name] = NoFile, !.res = "ok"]
      [] op.op = "store" -> [st EXCEPT !.files[op.name] = [present |-> TRUE, ent |-> EntOf(op.ents)], !.res = "ok"]
      [] op.op = "load" ->
            LET r == LoadOp(st.cfg.o, st.files[st.cfg.name], op.au) IN [st EXCEPT !.cfg.o = r.o, !.res = r.res]
      [] op.op = "autoload" ->
            LET r == AutoLoadOp(st.base, st.files, op.addl)
            IN [st EXCEPT !.files = r.files, !.cfg = IF r.res = "ok" THEN r.cfg ELSE @, !.res = r.res]

-----------------------------------------------------------------------------
VARIABLES st, act, n
vars == <<st, act, n>>
view == <<st, n>>

Init == /\ \E o \in InitStores, f \in InitFiles, cn \in Names, bn \in Names :
              /\ st = [cfg |-> [name |-> cn, o |-> o], base |-> [name |-> bn, o |-> Builtin], files |-> f, res |-> "ok"]
              /\ act = [op |-> "init", cn |-> cn, bn |-> bn]
        /\ n = 0

Do(op) == /\ n < MaxOps
          /\ st' = Step(st, op)
          /\ act' = op
          /\ n' = n + 1

AddOps(tgt, adds) == {[op |-> "add", tgt |-> tgt, sc |-> a.sc, s |-> a.s, k |-> a.k, v |-> a.v] : a \in adds}
AddAllOps == {[op |-> "addall", s |-> s] : s \in Sections \cup {"nosuch"}}
SetFileOps == {[op |-> "setfile", name |-> nm, s |-> e.s, k |-> e.k, raw |-> e.raw] : nm \in Names, e \in FileEdits}
DelFileOps == {[op |-> "delfile", name |-> nm] : nm \in Names}
StoreOps == {[op |-> "store", name |-> nm, ents |-> c] : nm \in Names, c \in StoreChoices}
LoadOps == {[op |-> "load", au |-> b] : b \in BOOLEAN}
AutoLoadOps == {[op |-> "autoload", addl |-> a] : a \in AddlChoices}

Next == \/ \E op \in AddOps("cfg", CfgAdds) : Do(op)
        \/ \E op \in AddOps("base", BaseAdds) : Do(op)
        \/ \E op \in AddAllOps : Do(op)
        \/ \E op \in SetFileOps : Do(op)
        \/ \E op \in DelFileOps : Do(op)
        \/ \E op \in StoreOps : Do(op)
        \/ \E op \in LoadOps : Do(op)
        \/ \E op \in AutoLoadOps : Do(op)

Spec == Init /\ [][Next]_vars

-----------------------------------------------------------------------------
(* INVARIANTS of every reachable store: the transcription satisfies the documented lookups *)
Probes == Sections \X Keys
StoreOk(o) ==
    /\ \A p \in Probes : LET ob == ObsCode(o, p[1], p[2]) IN \A c \in LookupClauses : Holds(c, o, ob)
    /\ \A s \in Sections : AllOptsAgree(o, s, AllOptsCode(o, s))
LookupsOk == StoreOk(st.cfg.o) /\ StoreOk(st.base.o)

(* all_opts does not depend on the order in which the slots were inserted *)
AllOptsOrderIndependent ==
    \A s \in Sections :
        Cardinality(SlotsOf(st.cfg.o, s)) <= PermBound =>
            \A order \in SetToSeqs(SlotsOf(st.cfg.o, s)) : AllOptsFold(st.cfg.o, s, order) = AllOptsSpec(st.cfg.o, s)

(* consequences that callers rely on *)
ExistsImpliesMandatoryOk ==
    \A p \in Probes : ExistsCode(st.cfg.o, p[1], p[2]) => ~OptsCode(st.cfg.o, p[1], p[2], DefV, TRUE).exc
ScopesWellFormed == \A sl \in DOMAIN st.cfg.o \cup DOMAIN st.base.o : sl[1] \in Scopes     \* None never is a scope of its own

(* the ini files: whatever is loaded from a file is a string in application scope; plain values are taken verbatim; *)
(* a file value beats the built-in default of the same key                                                            *)
FileValuesOk ==
    \A nm \in Names :
        LET f == st.files[nm]
        IN  (f.present /\ ~HasUnk(f)) =>
                LET lo == FromFile(f)
                IN /\ \A sl \in DOMAIN lo : sl[1] = App
                   /\ \A e \in DOMAIN f.ent :
                        /\ Lookup(lo, e[1], e[2]).t = "str"
                        /\ IsPlain(f.ent[e]) => Lookup(lo, e[1], e[2]) = Str(Source(f.ent[e]))
                   /\ \A sl \in DOMAIN Builtin : <<sl[2], sl[3]>> \notin DOMAIN f.ent => lo[sl] = Builtin[sl]
                   /\ \A sl \in DOMAIN lo : sl \in DOMAIN Builtin \/ <<sl[2], sl[3]>> \in DOMAIN f.ent

-----------------------------------------------------------------------------
(* EFFECT of every call, proved of Step(st, op) for every op that the model can take in the current state.           *)
AllSK(a, b) == {<<sl[2], sl[3]>> : sl \in DOMAIN a \cup DOMAIN b} \cup Probes

(* add: a value added later in the same scope replaces the earlier one; it becomes the looked-up value iff no narrower *)
(* scope defines the key; no other lookup changes; nothing but the configuration is touched                           *)
AddEffect(s0, op, s1) ==
    LET tgt0 == IF op.tgt = "cfg" THEN s0.cfg.o ELSE s0.base.o
        tgt1 == IF op.tgt = "cfg" THEN s1.cfg.o ELSE s1.base.o
        sc == ScopeKey(op.sc)
    IN /\ tgt1[<<sc, op.s, op.k>>] = op.v
       /\ Lookup(tgt1, op.s, op.k) = IF \A x \in Defining(tgt0, op.s, op.k) : x <= sc THEN op.v ELSE Lookup(tgt0, op.s, op.k)
       /\ \A p \in AllSK(tgt0, tgt1) \ {<<op.s, op.k>>} : Lookup(tgt1, p[1], p[2]) = Lookup(tgt0, p[1], p[2])
       /\ s1.files = s0.files /\ s1.res = "ok"
       /\ IF op.tgt = "cfg" THEN s1.base = s0.base /\ s1.cfg.name = s0.cfg.name ELSE s1.cfg = s0.cfg /\ s1.base.name = s0.base.name

(* add_all: exactly one section is touched; every slot of that section of the source is copied with its scope, so the  *)
(* looked-up value becomes the source's unless the target itself defines the key in a narrower scope; keys of the     *)
(* section that the source does not define keep their values; the source is not modified                              *)
AddAllEffect(s0, op, s1) ==
    LET t0 == s0.cfg.o  t1 == s1.cfg.o  src == s0.base.o
    IN /\ \A p \in AllSK(t0, t1) : p[1] # op.s => Lookup(t1, p[1], p[2]) = Lookup(t0, p[1], p[2])
       /\ \A sl \in DOMAIN src : sl[2] = op.s => t1[sl] = src[sl]
       /\ \A p \in AllSK(t0, t1) : p[1] = op.s =>
             Lookup(t1, p[1], p[2]) =
                IF Defined(src, p[1], p[2]) /\ \A x \in Defining(t0, p[1], p[2]) : x <= SetMax(Defining(src, p[1], p[2]))
                THEN Lookup(src, p[1], p[2]) ELSE Lookup(t0, p[1], p[2])
       /\ s1.base = s0.base /\ s1.files = s0.files /\ s1.res = "ok" /\ s1.cfg.name = s0.cfg.name

(* load_config: on success the configuration is exactly the file (strings) over the built-in defaults, in application *)
(* scope - every earlier add is forgotten; with auto_upgrade an incompatible version is never accepted; the files and  *)
(* the base configuration are not modified                                                                            *)
LoadEffect(s0, op, s1) ==
    LET f == s0.files[s0.cfg.name]
    IN /\ s1.res = "ok" => f.present /\ s1.cfg.o = FromFile(f) /\ (op.au => VersionCheck(s1.cfg.o) = "ok")
       /\ s1.res = "ok" => \A sl \in DOMAIN s1.cfg.o : sl[1] = App
       /\ ~f.present => s1.res = "FileNotFoundError" /\ s1.cfg = s0.cfg
       /\ (f.present /\ ~HasUnk(f) /\ ~op.au) => s1.res = "ok"
       /\ (f.present /\ ~HasUnk(f) /\ op.au) => (s1.res = "ok" <=> Lookup(FromFile(f), "meta", "config.version") = Str(ToString(CurrentVersion)))
       /\ s1.files = s0.files /\ s1.base = s0.base /\ s1.cfg.name = s0.cfg.name

(* auto_load_local_config: the result carries the base configuration's name; a missing local file is created from the  *)
(* packaged default and nothing else is ever written; for the six fixed sections and the additional ones every key    *)
(* that the base configuration defines has the base's value, every other key of these sections and every key of any   *)
(* other section has the value of the local file / built-in default; nothing else leaks from the base configuration   *)
AlwaysCopied == {"reporting", "tracks", "teams", "distributions", "defaults", "system"}
AutoLoadEffect(s0, op, s1) ==
    LET nm == s0.base.name
        f1 == s1.files[nm]
        loc == FromFile(f1)
        secs == AlwaysCopied \cup ToSet(op.addl)
        b == s0.base.o
    IN /\ s1.files = [s0.files EXCEPT ![nm] = IF s0.files[nm].present THEN @ ELSE DefaultIni]
       /\ s1.base = s0.base
       /\ s1.res = "ok" =>
            /\ s1.cfg.name = nm
            /\ VersionCheck(loc) = "ok"
            /\ \A p \in AllSK(s1.cfg.o, b) \cup AllSK(loc, Empty) :
                 Lookup(s1.cfg.o, p[1], p[2]) =
                    IF p[1] \in secs /\ Defined(b, p[1], p[2]) THEN Lookup(b, p[1], p[2]) ELSE Lookup(loc, p[1], p[2])
       /\ s1.res # "ok" => s1.cfg = s0.cfg
       /\ (~HasUnk(f1) /\ VersionCheck(loc) = "ok") => s1.res = "ok"

(* editing / storing / deleting a file changes that file only *)
FileOpEffect(s0, op, s1) ==
    /\ s1.cfg = s0.cfg /\ s1.base = s0.base /\ s1.res = "ok"
    /\ \A nm \in DOMAIN s0.files : nm # op.name => s1.files[nm] = s0.files[nm]
    /\ op.op = "delfile" => ~s1.files[op.name].present
    /\ op.op = "store" => s1.files[op.name] = [present |-> TRUE, ent |-> EntOf(op.ents)]
    /\ op.op = "setfile" => s1.files[op.name].present /\ s1.files[op.name].ent[<<op.s, op.k>>] = op.raw

StepEffects ==
    n < MaxOps =>       \* (the calls that the model actually takes from this state)
    /\ \A op \in AddOps("cfg", CfgAdds) \cup AddOps("base", BaseAdds) : AddEffect(st, op, Step(st, op))
    /\ \A op \in AddAllOps : AddAllEffect(st, op, Step(st, op))
    /\ \A op \in LoadOps : LoadEffect(st, op, Step(st, op))
    /\ \A op \in AutoLoadOps : AutoLoadEffect(st, op, Step(st, op))
    /\ \A op \in SetFileOps \cup DelFileOps \cup StoreOps : FileOpEffect(st, op, Step(st, op))

(* store + load round trip: what ConfigFile.store wrote is what load_config reads back (plain values verbatim) *)
StoreLoadRoundTrip ==
    n = 0 =>            \* (does not depend on the state: the stored file replaces whatever was there)
    \A sop \in StoreOps :
        LET s1 == Step([st EXCEPT !.cfg.name = sop.name], sop)
            s2 == Step(s1, [op |-> "load", au |-> FALSE])
            ent == EntOf(sop.ents)
        IN  ~HasUnk(s1.files[sop.name]) =>
               /\ s2.res = "ok"
               /\ \A e \in DOMAIN ent : Lookup(s2.cfg.o, e[1], e[2]) = Str(Expand(ent[e]))
               /\ \A e \in DOMAIN ent : IsPlain(ent[e]) => Lookup(s2.cfg.o, e[1], e[2]) = Str(Source(ent[e]))

-----------------------------------------------------------------------------
(***************************************************************************)
(* NAMED DEVIATIONS: naive readings of the documentation that the code does *)
(* NOT satisfy.  MC_ConfigScopes ASSUMEs that TLC finds a witness for each. *)
(***************************************************************************)
(* "exists: True iff a value for the specified key exists" - a key whose most specific value is None does not exist, *)
(* although opts(mandatory=True) returns None for it without raising                                                 *)
NaiveExistsIffDefined(o, s, k) == ExistsCode(o, s, k) <=> Defined(o, s, k)
(* a None in a narrower scope hides a proper value of a broader scope *)
NaiveNoneNeverHides(o, s, k) == (\E sc \in Defining(o, s, k) : o[<<sc, s, k>>] # NoneV) => ExistsCode(o, s, k)
(* add_all gives the target the source's effective values - not if the target defines the key in a narrower scope *)
NaiveAddAllSourceValues(s0, op, s1) ==
    \A p \in AllSK(s0.base.o, Empty) : (p[1] = op.s /\ Defined(s0.base.o, p[1], p[2])) => Lookup(s1.cfg.o, p[1], p[2]) = Lookup(s0.base.o, p[1], p[2])
(* load_config keeps values of narrower scopes (command line overrides) - it clears everything *)
NaiveLoadKeepsOverrides(s0, op, s1) == s1.res = "ok" => \A sl \in DOMAIN s0.cfg.o : sl[1] > App => sl \in DOMAIN s1.cfg.o
(* a failed load leaves the configuration as it was - a failed version check leaves the file's content loaded *)
NaiveFailedLoadIsAtomic(s0, op, s1) == s1.res # "ok" => s1.cfg = s0.cfg
(* every load failure is a ConfigError - unknown $placeholders are KeyErrors, a non-numeric version a ValueError *)
NaiveLoadFailureIsConfigError(s0, op, s1) == s1.res \in {"ok", "ConfigError", "FileNotFoundError"}
(* load_config always checks the version - only with auto_upgrade *)
NaiveVersionAlwaysChecked(s0, op, s1) == s1.res = "ok" => VersionCheck(s1.cfg.o) = "ok"
(* file values are read verbatim - $$, %% and ${CONFIG_DIR} are rewritten *)
NaiveVerbatim(raw) == Expand(raw) = Source(raw)
=============================================================================
