---- MODULE MC_ConfigScopes ----
EXTENDS ConfigScopes

A == Str("a")
B == Str("b")
Adds(scs, secs, keys, vals) == {[sc |-> sc, s |-> s, k |-> k, v |-> v] : sc \in scs, s \in secs, k \in keys, v \in vals}
Edits(secs, keys, raws) == {[s |-> s, k |-> k, raw |-> r] : s \in secs, k \in keys, r \in raws}
File(ent) == [present |-> TRUE, ent |-> ent]
PartialFns(S, V) == UNION {[D -> V] : D \in SUBSET S}

\* "reporting" is one of the six sections that auto_load_local_config always copies, "mechanic" is copied only as an
\* additional section and has built-in defaults, "node" is never copied
Secs2 == {"reporting", "mechanic"}
Secs3 == {"reporting", "mechanic", "node"}
Keys2 == {"datastore.type", "team.repository.dir"}
Keys3 == {"datastore.type", "team.repository.dir", "root.dir"}
Names1 == {""}
Names2 == {"", "x"}
V17 == [s |-> "meta", k |-> "config.version", raw |-> <<Lit("17")>>]
VersionEdits == Edits({"meta"}, {"config.version"}, {<<Lit("17")>>, <<Lit("16")>>, <<Lit("18")>>, <<Lit("abc")>>})
GoodFile == File((<<"meta", "config.version">> :> <<Lit("17")>>) @@ (<<"reporting", "datastore.type">> :> <<Lit("a")>>))
OldFile == File((<<"meta", "config.version">> :> <<Lit("16")>>) @@ (<<"mechanic", "team.repository.dir">> :> <<Lit("a")>>))
NoFiles(names) == [nm \in names |-> NoFile]
StoreA == <<V17, [s |-> "reporting", k |-> "datastore.type", raw |-> <<Lit("b")>>], [s |-> "mechanic", k |-> "team.repository.dir", raw |-> <<Dir, Lit("/t")>>]>>
StoreB == <<[s |-> "node", k |-> "root.dir", raw |-> <<Lit("p"), Esc, Pct>>]>>
StoreC == <<V17, [s |-> "node", k |-> "root.dir", raw |-> <<Unk("HOME")>>]>>
JustBuiltin == {Builtin}

\* ---- quick: every kind of call, depth 3, narrow alphabets (the scopes are covered by the table)
QCfgAdds == Adds({0, 2, 5}, {"reporting"}, {"datastore.type"}, {A, NoneV}) \cup Adds({3}, {"mechanic"}, {"team.repository.dir"}, {A})
QBaseAdds == Adds({1, 3}, Secs2, {"datastore.type"}, {B}) \cup Adds({2}, {"mechanic"}, {"team.repository.dir"}, {B, NoneV})
QFileEdits == Edits({"reporting"}, {"datastore.type"}, {<<Dir, Lit("/d"), Esc>>, <<Unk("foo")>>})
              \cup Edits({"meta"}, {"config.version"}, {<<Lit("17")>>, <<Lit("16")>>})
QStores == {StoreA}
QAddl == {<<>>, <<"mechanic">>}
QInitFiles == {NoFiles(Names2), [NoFiles(Names2) EXCEPT !["x"] = GoodFile, ![""] = OldFile]}

\* ---- thorough: depth 3 over wider alphabets
TCfgAdds == Adds(0..5, Secs2, Keys2, {A, NoneV}) \cup Adds({1, 3}, Secs2, {"datastore.type"}, {B})
TBaseAdds == Adds({1, 3}, Secs2, {"datastore.type"}, {B}) \cup Adds({2}, {"mechanic"}, {"team.repository.dir"}, {B, NoneV})
TFileEdits == Edits(Secs2, {"datastore.type"}, {<<Lit("a")>>, <<Dir, Lit("/d"), Esc>>, <<Unk("foo")>>}) \cup VersionEdits
TStores == {StoreA, StoreB}

\* ---- table: every assignment of the five scopes of one key x three scopes of a second key of the same section
\* (function-like: each initial state is one store, no calls)
K1Slots == {<<sc, "mechanic", "team.repository.dir">> : sc \in Scopes}
K2Slots == {<<sc, "mechanic", "car.names">> : sc \in {1, 2, 5}}
K2SlotsWide == {<<sc, "mechanic", "car.names">> : sc \in Scopes}
TableStores == {(f1 @@ f2) @@ Builtin : f1 \in PartialFns(K1Slots, {A, NoneV}), f2 \in PartialFns(K2Slots, {B, NoneV})}
TableStoresWide == {(f1 @@ f2) @@ Builtin : f1 \in PartialFns(K1Slots, {A, NoneV}), f2 \in PartialFns(K2SlotsWide, {B, NoneV})}
TableInitFiles == {NoFiles(Names1)}
TableSecs == {"mechanic", "reporting"}
TableKeys == {"team.repository.dir", "car.names", "team.default.repository"}

\* ---- sim: wide alphabets for -simulate (behaviours executed on the real code)
SCfgAdds == Adds(0..5, Secs2, Keys2, {A, NoneV}) \cup Adds({2, 4}, {"node"}, {"root.dir"}, {IntV("7"), Str("")})
SBaseAdds == Adds({0, 2, 5}, {"reporting", "mechanic", "system"}, {"datastore.type"}, {B, NoneV})
             \cup Adds({1}, {"node", "tracks"}, {"root.dir"}, {[t |-> "bool", v |-> "True"]})
SFileEdits == Edits({"reporting", "node"}, {"datastore.type", "root.dir"}, {<<Lit("a")>>, <<>>, <<Dir, Lit("/d")>>, <<Lit("p"), Esc, Lit("q"), Pct>>})
              \cup Edits({"system"}, {"datastore.type"}, {<<Unk("foo")>>, <<Lit("39200")>>}) \cup VersionEdits
SStores == {StoreA, StoreB, StoreC}
SInitFiles == {NoFiles(Names2)}
SAddl == {<<>>, <<"mechanic">>, <<"node", "mechanic">>, <<"nosuch">>}

\* ---- the named deviations are real: TLC finds a witness for each of them in a tiny universe
DSlots == {<<1, "s", "k">>, <<3, "s", "k">>}
DStores == {f @@ Builtin : f \in PartialFns(DSlots, {A, NoneV})}
DFiles == {NoFile, File(<<"meta", "config.version">> :> <<Lit("17")>>), File(<<"meta", "config.version">> :> <<Lit("16")>>),
           File(<<"meta", "config.version">> :> <<Lit("abc")>>), File(<<"s", "k">> :> <<Unk("foo")>>)}
DStates == {[cfg |-> [name |-> "", o |-> o], base |-> [name |-> "", o |-> b], files |-> [nm \in {""} |-> f], res |-> "ok"] :
               o \in DStores, b \in DStores, f \in DFiles}
DLoads == {[op |-> "load", au |-> b] : b \in BOOLEAN}
DAddAll == [op |-> "addall", s |-> "s"]

ASSUME \E o \in DStores : ~NaiveExistsIffDefined(o, "s", "k")
ASSUME \E o \in DStores : ~NaiveNoneNeverHides(o, "s", "k")
ASSUME \E s0 \in DStates : ~NaiveAddAllSourceValues(s0, DAddAll, Step(s0, DAddAll))
ASSUME \E s0 \in DStates, op \in DLoads : ~NaiveLoadKeepsOverrides(s0, op, Step(s0, op))
ASSUME \E s0 \in DStates, op \in DLoads : ~NaiveFailedLoadIsAtomic(s0, op, Step(s0, op))
ASSUME \E s0 \in DStates, op \in DLoads : ~NaiveLoadFailureIsConfigError(s0, op, Step(s0, op))
ASSUME \E s0 \in DStates, op \in DLoads : ~NaiveVersionAlwaysChecked(s0, op, Step(s0, op))
ASSUME \A raw \in {<<Esc>>, <<Pct>>, <<Dir>>} : ~NaiveVerbatim(raw)
\* ... and the positive counterparts hold in the same universe
ASSUME \A o \in DStores : ExistsCode(o, "s", "k") => ~OptsCode(o, "s", "k", DefV, TRUE).exc
ASSUME EarliestVersion = CurrentVersion     \* no migration exists; VersionCheck does not model one
====
