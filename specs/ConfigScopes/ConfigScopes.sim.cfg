\* wide alphabets for -simulate: the behaviours are executed on the real code (leg S2C)
SPECIFICATION Spec
CONSTANTS
  Sections <- Secs3
  Keys <- Keys3
  CfgAdds <- SCfgAdds
  BaseAdds <- SBaseAdds
  Names <- Names2
  FileEdits <- SFileEdits
  StoreChoices <- SStores
  AddlChoices <- SAddl
  InitStores <- JustBuiltin
  InitFiles <- SInitFiles
  MaxOps = 14
  PermBound = 3
INVARIANT LookupsOk
INVARIANT AllOptsOrderIndependent
INVARIANT ScopesWellFormed
INVARIANT FileValuesOk
CHECK_DEADLOCK FALSE
