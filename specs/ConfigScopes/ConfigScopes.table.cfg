\* function-like: every initial state is one store (all scope assignments of two keys of one section); no calls
SPECIFICATION Spec
CONSTANTS
  Sections <- TableSecs
  Keys <- TableKeys
  CfgAdds = {}
  BaseAdds = {}
  Names <- Names1
  FileEdits = {}
  StoreChoices = {}
  AddlChoices = {}
  InitStores <- TableStores
  InitFiles <- TableInitFiles
  MaxOps = 0
  PermBound = 4
VIEW view
INVARIANT LookupsOk
INVARIANT AllOptsOrderIndependent
INVARIANT ExistsImpliesMandatoryOk
INVARIANT ScopesWellFormed
CHECK_DEADLOCK FALSE
