SPECIFICATION TSpec
CONSTANTS
  Sections = {}
  Keys = {}
  CfgAdds = {}
  BaseAdds = {}
  Names = {}
  FileEdits = {}
  StoreChoices = {}
  AddlChoices = {}
  InitStores = {}
  InitFiles = {}
  MaxOps = 0
  PermBound = 0
CHECK_DEADLOCK FALSE
