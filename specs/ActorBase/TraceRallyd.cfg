SPECIFICATION TSpec
CONSTANTS
  Scenarios = {}
  MaxPolls = 1000
  MaxWaits = 1000
CHECK_DEADLOCK FALSE
