SPECIFICATION Spec
CONSTANTS
  Inputs <- ProbeInputs
  CloseOnFailure = FALSE
INVARIANT StrongHold
CHECK_DEADLOCK FALSE
