SPECIFICATION TSpec
CONSTANTS
  Inputs = {}
  CloseOnFailure = FALSE
CHECK_DEADLOCK FALSE
