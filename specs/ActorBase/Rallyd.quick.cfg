SPECIFICATION Spec
CONSTANTS
  Scenarios <- AllScn
  MaxPolls = 3
  MaxWaits = 2
VIEW view
INVARIANT TypeOK
INVARIANT StartNeverOnRunning
INVARIANT ShutdownOnlyJoined
INVARIANT OkOnlyWhenGone
INVARIANT OneSecondPerPoll
INVARIANT StopNotRunningExits1
INVARIANT StopErrorsReported
INVARIANT RestartAlwaysAttemptsStart
INVARIANT StatusTruthful
INVARIANT DockerWaitsForChildren
INVARIANT StartOutcome
INVARIANT Finishes
CHECK_DEADLOCK FALSE
