SPECIFICATION Spec
CONSTANTS
  Scenarios <- ScnDup
  MaxAns = 2
  DistinctSenders = FALSE
  ResetOnBroadcast = TRUE
INVARIANT AllChildrenAnswered
CHECK_DEADLOCK FALSE
