SPECIFICATION TSpec
CONSTANTS
  Scenarios = {}
  MaxAns = 2
  DistinctSenders = FALSE
  ResetOnBroadcast = FALSE
CHECK_DEADLOCK FALSE
