SPECIFICATION Spec
CONSTANTS
  Inputs <- AllInputs
  CloseOnFailure = FALSE
INVARIANT WeakHold
CHECK_DEADLOCK FALSE
