SPECIFICATION Spec
CONSTANTS
  Scenarios <- ScnCarry
  MaxAns = 1
  DistinctSenders = TRUE
  ResetOnBroadcast = FALSE
INVARIANT CountedBelongToPhase
CHECK_DEADLOCK FALSE
