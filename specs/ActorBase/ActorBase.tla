----------------------------- MODULE ActorBase -----------------------------
(***************************************************************************)
(* esrally/actor.py: the protocol helpers of RallyActor that the mechanic  *)
(* and driver actors build on, and the no_retry decorator.                 *)
(*                                                                         *)
(* One parent actor (a RallyActor subclass, "coordinator") with            *)
(*   children = [None] * nnone + [c1 .. cn]                                *)
(* runs two phases p = 1, 2.  For every phase                              *)
(*   go(p)     the user sends Go(p); the handler is                        *)
(*             send_to_children_and_transition(sender, Work(p), GoExp(p),  *)
(*             "run<p>")                                                   *)
(*   ans(c,p)  child c answers Done(p); the handler is                     *)
(*             transition_when_all_children_responded(sender, msg,         *)
(*             "run<p>", "done<p>", callback(p)); the callback sends       *)
(*             AllDone(p) to the user or raises (scn.cb[p]; phase 1 an     *)
(*             Exception, phase 2 a KeyboardInterrupt: no_retry catches    *)
(*             BaseException)                                              *)
(*   cfail(c)  child c answers with a BenchmarkFailure instead (the        *)
(*             parent's undecorated failure handler forwards it)           *)
(*   wake      a WakeupMessage (sender = the actor itself) whose handler   *)
(*             raises                                                      *)
(* All handlers except the failure handler are wrapped in no_retry.        *)
(* The environment is free: answers arrive in any order, up to MaxAns      *)
(* times each (duplicates), at any later time (late answers of an earlier  *)
(* phase), Go(p) is sent once each in any order at any time.  An answer    *)
(* needs the broadcast of its phase to have reached the child (causality). *)
(*                                                                         *)
(* GoExp(1) = "idle"; GoExp(2) depends on scn.go2: "str" -> "done1",       *)
(* "list" -> ["idle", "done1"], "empty" -> [], "none" -> None (the last    *)
(* two: any status, like MechanicActor.receiveMsg_StopEngine).             *)
(*                                                                         *)
(* Switches (FALSE = the code as it is):                                   *)
(*  DistinctSenders   responses are counted per child: a second Done(p) of *)
(*      a child that is already counted is ignored (the code counts        *)
(*      MESSAGES: len(received_responses) == len(children)).               *)
(*  ResetOnBroadcast  send_to_children_and_transition clears               *)
(*      received_responses (the code keeps them: responses of an           *)
(*      unfinished phase are counted for the next one).                    *)
(***************************************************************************)
EXTENDS Integers, Sequences, FiniteSets, TLC

CONSTANTS Scenarios,          \* set of [n, nnone, go2, cb]
          MaxAns,             \* deliveries per (child, phase)
          DistinctSenders,
          ResetOnBroadcast

VARIABLES scn, s, prev, act
vars == <<scn, s, prev, act>>

Phases == 1..2
E(a, c, p) == [a |-> a, c |-> c, p |-> p]
O(to, k, p) == [to |-> to, k |-> k, p |-> p]
R(c, p) == [c |-> c, p |-> p]
Internal == {"bc", "gos", "used", "nfail", "nwake", "dup", "carried"}

Run(p) == IF p = 1 THEN "run1" ELSE "run2"
Done(p) == IF p = 1 THEN "done1" ELSE "done2"
Statuses == {"idle", "run1", "done1", "run2", "done2"}
Child(c) == IF c = 1 THEN "c1" ELSE IF c = 2 THEN "c2" ELSE "c3"

(* ---- is_current_status_expected ---- *)
\* x = [kind, vals]: kind none | emptystr | emptylist | emptytuple | str | list | tuple
IsExpected(status, x) ==
    CASE x.kind \in {"none", "emptystr", "emptylist", "emptytuple"} -> TRUE
      [] x.kind = "str" -> status = x.vals[1]
      [] x.kind = "list" -> \E i \in 1..Len(x.vals) : x.vals[i] = status
      [] x.kind = "tuple" -> FALSE      \* compared with ==, a status is never a tuple

GoExp(sc, p) ==
    IF p = 1 THEN [kind |-> "str", vals |-> <<"idle">>]
    ELSE CASE sc.go2 = "str" -> [kind |-> "str", vals |-> <<"done1">>]
           [] sc.go2 = "list" -> [kind |-> "list", vals |-> <<"idle", "done1">>]
           [] sc.go2 = "empty" -> [kind |-> "emptylist", vals |-> <<>>]
           [] sc.go2 = "none" -> [kind |-> "none", vals |-> <<>>]

Expected(sc) == sc.n + sc.nnone          \* len(self.children)

InitState(sc) ==
    [status |-> "idle", rr |-> <<>>, fired |-> <<0, 0>>, outs |-> <<>>, esc |-> FALSE,
     bc |-> <<FALSE, FALSE>>, gos |-> <<FALSE, FALSE>>, used |-> [c \in 1..sc.n |-> <<0, 0>>], nfail |-> 0, nwake |-> 0,
     dup |-> FALSE, carried |-> FALSE]

Init == \E sc \in Scenarios : scn = sc /\ s = InitState(sc) /\ prev = InitState(sc) /\ act = E("init", 0, 0)

Enabled(st) ==
    {E("go", 0, p) : p \in {q \in Phases : ~st.gos[q]}}
    \cup {E("ans", x[1], x[2]) : x \in {y \in (1..scn.n) \X Phases : st.bc[y[2]] /\ st.used[y[1]][y[2]] < MaxAns}}
    \cup (IF st.nfail = 0 /\ \E q \in Phases : st.bc[q] THEN {E("cfail", c, 0) : c \in 1..scn.n} ELSE {})
    \cup (IF st.nwake = 0 THEN {E("wake", 0, 0)} ELSE {})

Broadcast(sc, p) == [i \in 1..sc.n |-> O(Child(i), "work", p)]
Counted(rr, c, p) == \E i \in 1..Len(rr) : rr[i] = R(c, p)

Eff(st, ev) ==
    CASE ev.a = "go" ->
           LET st1 == [st EXCEPT !.gos[ev.p] = TRUE, !.esc = FALSE]
           IN IF IsExpected(st.status, GoExp(scn, ev.p))
              THEN [st1 EXCEPT !.status = Run(ev.p), !.outs = Broadcast(scn, ev.p), !.bc[ev.p] = TRUE,
                               !.rr = IF ResetOnBroadcast THEN <<>> ELSE @,
                               !.carried = @ \/ (~ResetOnBroadcast /\ st.rr # <<>>)]
              ELSE [st1 EXCEPT !.outs = <<O("user", "failure", 0)>>]
      [] ev.a = "ans" ->
           LET st1 == [st EXCEPT !.used[ev.c][ev.p] = @ + 1, !.dup = @ \/ st.used[ev.c][ev.p] >= 1, !.esc = FALSE]
               rr2 == Append(st.rr, R(ev.c, ev.p))
           IN IF st.status # Run(ev.p)
              THEN [st1 EXCEPT !.outs = <<O(Child(ev.c), "failure", 0)>>]
              ELSE IF DistinctSenders /\ Counted(st.rr, ev.c, ev.p)
              THEN [st1 EXCEPT !.outs = <<>>]
              ELSE IF Len(rr2) = Expected(scn)
              THEN [st1 EXCEPT !.status = Done(ev.p), !.rr = <<>>, !.fired[ev.p] = @ + 1,
                               !.outs = IF scn.cb[ev.p] THEN <<O(Child(ev.c), "failure", 0)>> ELSE <<O("user", "alldone", ev.p)>>]
              ELSE IF Len(rr2) > Expected(scn)
              THEN [st1 EXCEPT !.rr = rr2, !.outs = <<O(Child(ev.c), "failure", 0)>>]
              ELSE [st1 EXCEPT !.rr = rr2, !.outs = <<>>]
      [] ev.a = "cfail" -> [st EXCEPT !.nfail = @ + 1, !.outs = <<O("user", "failure", 0)>>, !.esc = FALSE]
      [] ev.a = "wake" -> [st EXCEPT !.nwake = @ + 1, !.outs = <<O("user", "failure", 0)>>, !.esc = FALSE]

Next == \E ev \in Enabled(s) : s' = Eff(s, ev) /\ prev' = s /\ act' = ev /\ UNCHANGED scn
Spec == Init /\ [][Next]_vars

(* ---------------- properties: predicates on (previous state, event, state) ---------------- *)
Fired(pr, st, p) == st.fired[p] > pr.fired[p]
FiredAny(pr, st) == \E p \in Phases : Fired(pr, st, p)
Same(pr, st) == st.status = pr.status /\ st.rr = pr.rr /\ st.fired = pr.fired
ChildrenOf(rr, p) == {rr[i].c : i \in {j \in 1..Len(rr) : rr[j].p = p}}

TypeOKS(sc, st) ==
    /\ st.status \in Statuses /\ st.esc \in BOOLEAN
    /\ \A i \in 1..Len(st.rr) : st.rr[i].c \in 1..sc.n /\ st.rr[i].p \in Phases
    /\ \A p \in Phases : st.fired[p] \in Nat
    /\ \A i \in 1..Len(st.outs) : st.outs[i].k \in {"work", "alldone", "failure"}

\* the callback of a phase runs at most once, and only for a phase that has been started
TransitionOncePerPhaseS(st) == \A p \in Phases : st.fired[p] <= 1 /\ (st.fired[p] = 1 => st.bc[p])
\* ... and it is triggered by an answer that completes len(children) counted responses
NeverBeforeCountA(sc, pr, ev, st) ==
    \A p \in Phases : Fired(pr, st, p) => ev.a = "ans" /\ Len(pr.rr) + 1 = Expected(sc) /\ st.rr = <<>> /\ st.status = Done(p)
\* ... by an answer of that very phase, received in the phase's running status
NeverOnWrongPhaseA(pr, ev, st) == \A p \in Phases : Fired(pr, st, p) => ev.a = "ans" /\ ev.p = p /\ pr.status = Run(p)
\* strong form (what "all children responded" means): every child has answered for THIS phase
AllChildrenAnsweredA(sc, pr, ev, st) ==
    \A p \in Phases : Fired(pr, st, p) => ChildrenOf(Append(pr.rr, R(ev.c, ev.p)), p) = 1..sc.n
\* the strong form holds in the code as long as no answer was delivered twice and no count was carried into a new phase
AllChildrenAnsweredIfWellBehavedA(sc, pr, ev, st) == ~st.dup /\ ~st.carried => AllChildrenAnsweredA(sc, pr, ev, st)
\* strong form: what is counted belongs to the running phase
CountedBelongToPhaseS(st) == \A i \in 1..Len(st.rr) : st.status = Run(st.rr[i].p)
\* an answer or a Go in a status the handler does not expect changes nothing and is reported to its sender
MismatchReportedA(sc, pr, ev, st) ==
    /\ ev.a = "ans" /\ pr.status # Run(ev.p) => Same(pr, st) /\ st.outs = <<O(Child(ev.c), "failure", 0)>>
    /\ ev.a = "go" /\ ~IsExpected(pr.status, GoExp(sc, ev.p)) => Same(pr, st) /\ st.outs = <<O("user", "failure", 0)>>
\* a Go in an expected status reaches every (non-None) child exactly once, in the new status
BroadcastReachesAllA(sc, pr, ev, st) ==
    ev.a = "go" /\ IsExpected(pr.status, GoExp(sc, ev.p)) => st.status = Run(ev.p) /\ st.outs = Broadcast(sc, ev.p) /\ st.fired = pr.fired
\* no_retry: nothing escapes a decorated handler (Thespian would retry it and then send a PoisonMessage)
NoEscapeS(st) == ~st.esc
\* a failure of a child is passed on and counts for nothing
FailureNotCountedA(pr, ev, st) == ev.a = "cfail" => Same(pr, st) /\ st.outs = <<O("user", "failure", 0)>>
\* a handler failing on a message from the actor itself: the failure is handled at once (not queued behind other messages)
SelfFailureInlineA(pr, ev, st) == ev.a = "wake" => Same(pr, st) /\ st.outs = <<O("user", "failure", 0)>>
\* the counter is reset by the transition, it never reaches len(children)
CountBelowExpectedS(sc, st) == Expected(sc) > 0 => Len(st.rr) < Expected(sc)
\* a failing callback is reported to the child whose answer triggered it; the transition itself is not undone
CallbackFailureReportedA(sc, pr, ev, st) ==
    \A p \in Phases : Fired(pr, st, p) => st.outs = IF sc.cb[p] THEN <<O(Child(ev.c), "failure", 0)>> ELSE <<O("user", "alldone", p)>>

TypeOK == TypeOKS(scn, s)
TransitionOncePerPhase == TransitionOncePerPhaseS(s)
NeverBeforeCount == NeverBeforeCountA(scn, prev, act, s)
NeverOnWrongPhase == NeverOnWrongPhaseA(prev, act, s)
AllChildrenAnswered == AllChildrenAnsweredA(scn, prev, act, s)
AllChildrenAnsweredIfWellBehaved == AllChildrenAnsweredIfWellBehavedA(scn, prev, act, s)
CountedBelongToPhase == CountedBelongToPhaseS(s)
MismatchReported == MismatchReportedA(scn, prev, act, s)
BroadcastReachesAll == BroadcastReachesAllA(scn, prev, act, s)
NoEscape == NoEscapeS(s)
FailureNotCounted == FailureNotCountedA(prev, act, s)
SelfFailureInline == SelfFailureInlineA(prev, act, s)
CountBelowExpected == CountBelowExpectedS(scn, s)
CallbackFailureReported == CallbackFailureReportedA(scn, prev, act, s)
=============================================================================
