----------------------------- MODULE TraceRallyd -----------------------------
(***************************************************************************)
(* Validates recorded runs of the REAL esrally.rallyd.main() (scripted     *)
(* fakes for rallyd.actor, rallyd.time, rallyd.process, the console        *)
(* functions, see harness/extras/actorbase.py) against Rallyd.tla.         *)
(* Items [id, scn: [cmd, docker], init: OBS, events: <<[a, r, x, st: OBS]>>], *)
(* OBS = state record of Rallyd.tla without pc, pend.  L1: the property    *)
(* formulas on the recorded state; L2: the event is enabled in the model   *)
(* and its effect equals the recorded state; at the end nothing is left.   *)
(***************************************************************************)
EXTENDS Rallyd, Json, IOUtils

Traces == JsonDeserialize(IOEnv.VERIF_TRACES)

VARIABLES tid, l, nev, dead
tvars == <<vars, tid, l, nev, dead>>
Item == Traces[tid]

ObsOf(st) == [k \in (DOMAIN st) \ Internal |-> st[k]]
WithInternal(o, m) == o @@ [k \in Internal |-> m[k]]
Dummy == [cmd |-> "status", docker |-> FALSE]

TInit == /\ tid = 1 /\ l = 0 /\ nev = 0 /\ dead = FALSE /\ scn = Dummy /\ s = InitState(Dummy) /\ act = E("init", "", "")

Begin ==
    /\ tid <= Len(Traces) /\ l = 0
    /\ LET m == InitState(Item.scn)
           l2 == ObsOf(m) = Item.init
       IN /\ scn' = Item.scn /\ s' = WithInternal(Item.init, m)
          /\ IF l2 THEN TRUE ELSE PrintT(<<"V", Item.id, 0, "L2", {"init"}>>)
          /\ dead' = ~l2
    /\ act' = act /\ l' = 1 /\ UNCHANGED <<tid, nev>>

L1Clauses == {"StartNeverOnRunning", "ShutdownOnlyJoined", "OkOnlyWhenGone", "OneSecondPerPoll", "StopNotRunningExits1", "StopErrorsReported",
              "RestartAlwaysAttemptsStart", "StatusTruthful", "DockerWaitsForChildren", "StartOutcome"}

Consume ==
    /\ tid <= Len(Traces) /\ l >= 1 /\ l <= Len(Item.events)
    /\ LET e == Item.events[l]
           ev == E(e.a, e.r, e.x)
           m == Eff(s, ev)
           l2 == ev \in Enabled(s) /\ ObsOf(m) = e.st
           n == WithInternal(e.st, m)
       IN /\ s' = n
          /\ act' = ev
          /\ LET holds == [c \in L1Clauses |->
                   CASE c = "StartNeverOnRunning" -> StartNeverOnRunningS(n)
                     [] c = "ShutdownOnlyJoined" -> ShutdownOnlyJoinedS(n)
                     [] c = "OkOnlyWhenGone" -> OkOnlyWhenGoneS(n)
                     [] c = "OneSecondPerPoll" -> OneSecondPerPollS(n)
                     [] c = "StopNotRunningExits1" -> StopNotRunningExits1S(scn, n)
                     [] c = "StopErrorsReported" -> StopErrorsReportedS(scn, n)
                     [] c = "RestartAlwaysAttemptsStart" -> RestartAlwaysAttemptsStartS(scn, n)
                     [] c = "StatusTruthful" -> StatusTruthfulS(scn, n)
                     [] c = "DockerWaitsForChildren" -> DockerWaitsForChildrenS(scn, n)
                     [] c = "StartOutcome" -> StartOutcomeS(scn, n)]
                 l1 == {c \in L1Clauses : ~holds[c]}
             IN /\ IF l1 = {} THEN TRUE ELSE PrintT(<<"V", Item.id, l, "L1", l1>>)
                /\ IF dead \/ l2 THEN TRUE ELSE PrintT(<<"V", Item.id, l, "L2", {e.a}>>)
          /\ dead' = (dead \/ ~l2)
    /\ l' = l + 1 /\ nev' = nev + 1
    /\ UNCHANGED <<scn, tid>>

EndOfRun ==
    /\ tid <= Len(Traces) /\ l = Len(Item.events) + 1
    /\ IF dead \/ s.pc = "done" THEN TRUE ELSE PrintT(<<"V", Item.id, l, "L2", {"end"}>>)
    /\ IF tid < Len(Traces) THEN TRUE ELSE PrintT(<<"DONE", Len(Traces), nev>>)
    /\ tid' = tid + 1 /\ l' = 0 /\ dead' = FALSE
    /\ UNCHANGED <<vars, nev>>

TNext == Begin \/ Consume \/ EndOfRun
TSpec == TInit /\ [][TNext]_tvars
=============================================================================
