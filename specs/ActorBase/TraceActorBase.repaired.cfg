SPECIFICATION TSpec
CONSTANTS
  Scenarios = {}
  MaxAns = 2
  DistinctSenders = TRUE
  ResetOnBroadcast = TRUE
CHECK_DEADLOCK FALSE
