------------------------------- MODULE Rallyd -------------------------------
(***************************************************************************)
(* esrally/rallyd.py: one invocation of the Rally daemon command           *)
(* `esrallyd start|stop|status|restart` as the sequence of calls main()    *)
(* makes against its environment (one event per call):                     *)
(*   probe(T|F)            actor.actor_system_already_running()            *)
(*   boot(ok|sse|exc|KI; x = join|net)  actor.bootstrap_actor_system(      *)
(*                         try_join=True) resp. (local_ip=--node-ip,       *)
(*                         coordinator_ip=--coordinator-ip)                *)
(*   shutdown(ok|exc|KI)   running_system.shutdown()                       *)
(*   sleep(ok|KI)          time.sleep(1)                                   *)
(*   wait(T|F)             process.wait_for_child_processes(...) (docker)  *)
(*   info(shutting|started|pid|allterm)  println(dot|ok|Running|Stopped)   *)
(*   error(couldnot|notrunning)          the console messages              *)
(*   end(ret | exit:1 | raise:RallyError | raise:sse | raise:exc | raise:KI) *)
(* stop(raise_errors): probe; if running: join, shutdown, "Shutting down", *)
(* then poll once per second until nothing answers (NO time-out), " [OK]"; *)
(* any BaseException in there -> error "Could not shut down" and re-raise  *)
(* iff raise_errors; not running -> error + exit 1 iff raise_errors.       *)
(* start: refuses when something is running, else bootstrap with the two   *)
(* IPs; in docker it then waits for the child processes.                   *)
(* restart = stop(raise_errors=False); start.  status prints Running |     *)
(* Stopped.                                                                *)
(***************************************************************************)
EXTENDS Integers, Sequences, TLC

CONSTANTS Scenarios,      \* set of [cmd, docker]
          MaxPolls, MaxWaits

VARIABLES scn, s, act
vars == <<scn, s, act>>
view == <<scn, s>>

E(a, r, x) == [a |-> a, r |-> r, x |-> x]
Internal == {"pc", "pend"}
Cmds == {"start", "stop", "status", "restart"}
Results == {"ret", "exit:1", "raise:RallyError", "raise:sse", "raise:exc", "raise:KI"}

InitState(sc) ==
    [pc |-> CASE sc.cmd = "start" -> "a.probe" [] sc.cmd = "status" -> "t.probe" [] OTHER -> "s.probe", pend |-> "none",
     nprobe |-> 0, firstprobe |-> "none", lastprobe |-> "none", njoin |-> 0, joinok |-> FALSE, nshut |-> 0, shutok |-> FALSE,
     nsleep |-> 0, ndots |-> 0, shutting |-> 0, okmsg |-> 0, okprobe |-> "none", couldnot |-> 0, notrunning |-> 0,
     startprobe |-> "none", nnet |-> 0, netok |-> FALSE, started |-> 0, pid |-> 0, allterm |-> 0, nwait |-> 0, lastwait |-> "none",
     printed |-> "none", result |-> "none"]

Init == \E sc \in Scenarios : scn = sc /\ s = InitState(sc) /\ act = E("init", "", "")

Re == scn.cmd = "stop"          \* raise_errors

Enabled(st) ==
    CASE st.pc \in {"s.probe", "a.probe", "t.probe"} -> {E("probe", r, "") : r \in {"T", "F"}}
      [] st.pc = "s.wait" -> {E("probe", r, "") : r \in (IF st.ndots < MaxPolls THEN {"T", "F"} ELSE {"F"})}
      [] st.pc = "s.boot" -> {E("boot", r, "join") : r \in {"ok", "exc", "KI"}}
      [] st.pc = "s.shut" -> {E("shutdown", r, "") : r \in {"ok", "exc", "KI"}}
      [] st.pc = "s.info" -> {E("info", "shutting", "")}
      [] st.pc = "s.dot" -> {E("println", "dot", "")}
      [] st.pc = "s.sleep" -> {E("sleep", r, "") : r \in {"ok", "KI"}}
      [] st.pc = "s.ok" -> {E("println", "ok", "")}
      [] st.pc = "s.err" -> {E("error", "couldnot", "")}
      [] st.pc = "s.errnr" -> {E("error", "notrunning", "")}
      [] st.pc = "a.boot" -> {E("boot", r, "net") : r \in {"ok", "sse", "exc", "KI"}}
      [] st.pc = "a.info" -> {E("info", "started", "")}
      [] st.pc = "a.pid" -> {E("info", "pid", "")}
      [] st.pc = "a.wait" -> {E("wait", r, "") : r \in (IF st.nwait < MaxWaits THEN {"T", "F"} ELSE {"F"})}
      [] st.pc = "a.allterm" -> {E("info", "allterm", "")}
      [] st.pc = "t.print" -> {E("println", IF st.lastprobe = "T" THEN "Running" ELSE "Stopped", "")}
      [] st.pc = "end" -> {E("end", st.pend, "")}
      [] OTHER -> {}

End(st, res) == [st EXCEPT !.pc = "end", !.pend = res]
AfterStop(st) == IF scn.cmd = "stop" THEN End(st, "ret") ELSE [st EXCEPT !.pc = "a.probe", !.pend = "none"]
Fail(st, r) == [st EXCEPT !.pc = "s.err", !.pend = IF r = "KI" THEN "raise:KI" ELSE "raise:exc"]
Probed(st, r) == [st EXCEPT !.nprobe = @ + 1, !.lastprobe = r, !.firstprobe = IF @ = "none" THEN r ELSE @]

Eff(st, ev) ==
    CASE st.pc = "s.probe" -> LET t == Probed(st, ev.r) IN
                              IF ev.r = "T" THEN [t EXCEPT !.pc = "s.boot"] ELSE IF Re THEN [t EXCEPT !.pc = "s.errnr"] ELSE AfterStop(t)
      [] st.pc = "s.errnr" -> End([st EXCEPT !.notrunning = @ + 1], "exit:1")
      [] st.pc = "s.boot" -> LET t == [st EXCEPT !.njoin = @ + 1] IN IF ev.r = "ok" THEN [t EXCEPT !.pc = "s.shut", !.joinok = TRUE] ELSE Fail(t, ev.r)
      [] st.pc = "s.shut" -> LET t == [st EXCEPT !.nshut = @ + 1] IN IF ev.r = "ok" THEN [t EXCEPT !.pc = "s.info", !.shutok = TRUE] ELSE Fail(t, ev.r)
      [] st.pc = "s.info" -> [st EXCEPT !.shutting = @ + 1, !.pc = "s.wait"]
      [] st.pc = "s.wait" -> LET t == Probed(st, ev.r) IN [t EXCEPT !.pc = IF ev.r = "T" THEN "s.dot" ELSE "s.ok"]
      [] st.pc = "s.dot" -> [st EXCEPT !.ndots = @ + 1, !.pc = "s.sleep"]
      [] st.pc = "s.sleep" -> LET t == [st EXCEPT !.nsleep = @ + 1] IN IF ev.r = "ok" THEN [t EXCEPT !.pc = "s.wait"] ELSE Fail(t, ev.r)
      [] st.pc = "s.ok" -> AfterStop([st EXCEPT !.okmsg = @ + 1, !.okprobe = st.lastprobe])
      [] st.pc = "s.err" -> LET t == [st EXCEPT !.couldnot = @ + 1] IN IF Re THEN [t EXCEPT !.pc = "end"] ELSE AfterStop(t)
      [] st.pc = "a.probe" -> LET t == [Probed(st, ev.r) EXCEPT !.startprobe = ev.r] IN
                              IF ev.r = "T" THEN End(t, "raise:RallyError") ELSE [t EXCEPT !.pc = "a.boot"]
      [] st.pc = "a.boot" -> LET t == [st EXCEPT !.nnet = @ + 1] IN
                             IF ev.r = "ok" THEN [t EXCEPT !.pc = "a.info", !.netok = TRUE]
                             ELSE End(t, CASE ev.r = "sse" -> "raise:sse" [] ev.r = "KI" -> "raise:KI" [] OTHER -> "raise:exc")
      [] st.pc = "a.info" -> LET t == [st EXCEPT !.started = @ + 1] IN IF scn.docker THEN [t EXCEPT !.pc = "a.pid"] ELSE End(t, "ret")
      [] st.pc = "a.pid" -> [st EXCEPT !.pid = @ + 1, !.pc = "a.wait"]
      [] st.pc = "a.wait" -> [st EXCEPT !.nwait = @ + 1, !.lastwait = ev.r, !.pc = IF ev.r = "T" THEN "a.wait" ELSE "a.allterm"]
      [] st.pc = "a.allterm" -> End([st EXCEPT !.allterm = @ + 1], "ret")
      [] st.pc = "t.probe" -> [Probed(st, ev.r) EXCEPT !.pc = "t.print"]
      [] st.pc = "t.print" -> End([st EXCEPT !.printed = ev.r], "ret")
      [] st.pc = "end" -> [st EXCEPT !.result = st.pend, !.pc = "done"]

Next == \E ev \in Enabled(s) : s' = Eff(s, ev) /\ act' = ev /\ UNCHANGED scn
Spec == Init /\ [][Next]_vars

(* ---------------- properties (state predicates; sc = scenario) ---------------- *)
Ended(st) == st.result # "none"
TypeOKS(st) == st.result \in Results \cup {"none"} /\ st.nprobe \in Nat /\ st.printed \in {"none", "Running", "Stopped"}
\* an actor system is only started when the probe just before said that none is running
StartNeverOnRunningS(st) == st.nnet >= 1 => st.startprobe = "F" /\ st.nnet = 1
\* only a system that answered the probe and could be joined is shut down, once
ShutdownOnlyJoinedS(st) == st.nshut >= 1 => st.firstprobe = "T" /\ st.joinok /\ st.njoin = 1 /\ st.nshut = 1
\* " [OK]" is only printed after shutdown() returned and a later probe found nothing listening
OkOnlyWhenGoneS(st) == st.okmsg >= 1 => st.okmsg = 1 /\ st.shutok /\ st.okprobe = "F" /\ st.shutting = 1
\* one dot and one second of sleep per poll that still found the system
OneSecondPerPollS(st) == st.nsleep <= st.ndots /\ st.ndots <= st.nsleep + 1 /\ (st.ndots >= 1 => st.shutok)
\* `stop` on a stopped daemon: error message and exit status 1, nothing else
StopNotRunningExits1S(sc, st) == sc.cmd = "stop" /\ Ended(st) /\ st.firstprobe = "F" => st.result = "exit:1" /\ st.notrunning = 1 /\ st.njoin = 0 /\ st.nprobe = 1
\* a failure while stopping is reported once; `stop` passes it on
StopErrorsReportedS(sc, st) ==
    /\ st.couldnot <= 1 /\ (st.couldnot = 1 => st.firstprobe = "T" /\ st.okmsg = 0)
    /\ sc.cmd = "stop" /\ Ended(st) => (st.couldnot = 1) = (st.result \in {"raise:exc", "raise:KI"})
    /\ sc.cmd = "stop" /\ Ended(st) /\ st.result = "ret" => st.okmsg = 1
\* `restart` goes on to start whatever happened while stopping (raise_errors = False swallows even a KeyboardInterrupt)
RestartAlwaysAttemptsStartS(sc, st) == sc.cmd = "restart" /\ Ended(st) => st.startprobe # "none" /\ st.notrunning = 0 /\ st.result # "exit:1"
\* `status` only probes, and says what the probe said
StatusTruthfulS(sc, st) ==
    sc.cmd = "status" /\ Ended(st) => st.nprobe = 1 /\ st.njoin + st.nnet + st.nshut = 0 /\ st.result = "ret" /\ st.printed = (IF st.firstprobe = "T" THEN "Running" ELSE "Stopped")
\* in docker `start` stays in the foreground until no child process is left; elsewhere it returns at once
DockerWaitsForChildrenS(sc, st) ==
    /\ ~sc.docker => st.nwait = 0 /\ st.pid = 0 /\ st.allterm = 0
    /\ sc.docker /\ Ended(st) /\ st.netok /\ st.result = "ret" => st.allterm = 1 /\ st.lastwait = "F" /\ st.pid = 1
\* start succeeded <=> the bootstrap returned (and was announced)
StartOutcomeS(sc, st) ==
    sc.cmd \in {"start", "restart"} /\ Ended(st) => /\ (st.result = "ret") = st.netok
                                                    /\ st.started = (IF st.netok THEN 1 ELSE 0)
                                                    /\ (st.startprobe = "T" => st.result = "raise:RallyError" /\ st.nnet = 0)
Finishes == s.pc # "done" => Enabled(s) # {}

TypeOK == TypeOKS(s)
StartNeverOnRunning == StartNeverOnRunningS(s)
ShutdownOnlyJoined == ShutdownOnlyJoinedS(s)
OkOnlyWhenGone == OkOnlyWhenGoneS(s)
OneSecondPerPoll == OneSecondPerPollS(s)
StopNotRunningExits1 == StopNotRunningExits1S(scn, s)
StopErrorsReported == StopErrorsReportedS(scn, s)
RestartAlwaysAttemptsStart == RestartAlwaysAttemptsStartS(scn, s)
StatusTruthful == StatusTruthfulS(scn, s)
DockerWaitsForChildren == DockerWaitsForChildrenS(scn, s)
StartOutcome == StartOutcomeS(scn, s)
=============================================================================
