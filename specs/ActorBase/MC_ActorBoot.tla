---- MODULE MC_ActorBoot ----
EXTENDS ActorBoot
BootInputs == [kind : {"boot"}, tj : BOOLEAN, plo : BOOLEAN, lip : Ips, cip : Ips, running : BOOLEAN, base : Bases, ase : BOOLEAN]
ProbeInputs == [kind : {"probe"}, ip : {"default", "A"}, conn : Conns]
AllInputs == BootInputs \cup ProbeInputs
====
