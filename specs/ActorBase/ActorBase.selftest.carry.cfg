SPECIFICATION Spec
CONSTANTS
  Scenarios <- ScnCarry
  MaxAns = 1
  DistinctSenders = TRUE
  ResetOnBroadcast = FALSE
INVARIANT AllChildrenAnswered
CHECK_DEADLOCK FALSE
