SPECIFICATION Spec
CONSTANTS
  Scenarios <- ScnQuick
  MaxAns = 2
  DistinctSenders = FALSE
  ResetOnBroadcast = FALSE
INVARIANT TypeOK
INVARIANT TransitionOncePerPhase
INVARIANT NeverBeforeCount
INVARIANT NeverOnWrongPhase
INVARIANT AllChildrenAnsweredIfWellBehaved
INVARIANT MismatchReported
INVARIANT BroadcastReachesAll
INVARIANT NoEscape
INVARIANT FailureNotCounted
INVARIANT SelfFailureInline
INVARIANT CountBelowExpected
INVARIANT CallbackFailureReported
CHECK_DEADLOCK FALSE
