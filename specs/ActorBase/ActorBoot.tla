----------------------------- MODULE ActorBoot -----------------------------
(***************************************************************************)
(* esrally/actor.py: bootstrap_actor_system / use_offline_actor_system /   *)
(* actor_system_already_running as decision tables.                        *)
(*                                                                         *)
(* boot input  [kind = "boot", tj, plo, lip, cip, running, base, ase]      *)
(*   tj, plo   try_join, prefer_local_only                                 *)
(*   lip, cip  local_ip, coordinator_ip: none (None) | empty ("") | A | B  *)
(*             (two IPv4 addresses) | nameA (a DNS name of A)              *)
(*   running   what actor_system_already_running() answers                 *)
(*   base      tcp (default) | queue (after use_offline_actor_system()) |  *)
(*             udp | simple (module variable set otherwise)                *)
(*   ase       thespian's ActorSystem(...) raises ActorSystemException     *)
(* boot result [out, probed, resolved, ctor, logged]                       *)
(*   out       system | err:base | err:coordinator | err:local | ase       *)
(*   probed    actor_system_already_running() was called                   *)
(*   resolved  arguments of net.resolve in call order                      *)
(*   ctor      [called, base, logdefs, coord, ip, conv]: the ActorSystem   *)
(*             call: system base, logDefs given, capabilities              *)
(*             "coordinator" (T | F | absent), "ip" and "Convention        *)
(*             Address.IPv4" (without ":1900"; A | B | loop = 127.0.0.1 |  *)
(*             absent)                                                     *)
(* probe input [kind = "probe", ip, conn]: conn = outcome of               *)
(*   socket.connect: ok | refused | timeout | exc | KI; result [r, ip,     *)
(*   port, closed].                                                        *)
(* Switch CloseOnFailure (FALSE = the code as it is): the probing socket   *)
(*   is closed when connect fails, too.                                    *)
(***************************************************************************)
EXTENDS Integers, Sequences, TLC

CONSTANTS Inputs, CloseOnFailure

VARIABLES in, res, done
vars == <<in, res, done>>

Ips == {"none", "empty", "A", "B", "nameA"}
Bases == {"tcp", "queue", "udp", "simple"}
Conns == {"ok", "refused", "timeout", "exc", "KI"}
Falsy(x) == x \in {"none", "empty"}
Resolve(x) == IF x = "nameA" THEN "A" ELSE x

NoCtor == [called |-> FALSE, base |-> "", logdefs |-> FALSE, coord |-> "absent", ip |-> "absent", conv |-> "absent"]
Ctor(base, logdefs, coord, ip, conv) == [called |-> TRUE, base |-> base, logdefs |-> logdefs, coord |-> coord, ip |-> ip, conv |-> conv]
Res(out, probed, resolved, ctor, logged) == [out |-> out, probed |-> probed, resolved |-> resolved, ctor |-> ctor, logged |-> logged]
Made(i, probed, resolved, ctor) == Res(IF i.ase THEN "ase" ELSE "system", probed, resolved, ctor, i.ase)

BootCode(i) ==
    IF i.tj THEN
        IF i.running THEN Made(i, TRUE, <<>>, Ctor(i.base, FALSE, "absent", "absent", "absent"))
        ELSE Made(i, TRUE, <<>>, Ctor(i.base, TRUE, "T", "absent", "absent"))
    ELSE IF i.plo THEN
        LET a == IF i.base # "queue" THEN "loop" ELSE "absent"
        IN Made(i, FALSE, <<>>, Ctor(i.base, TRUE, "T", a, a))
    ELSE IF i.base \notin {"tcp", "udp"} THEN Res("err:base", FALSE, <<>>, NoCtor, FALSE)
    ELSE IF Falsy(i.cip) THEN Res("err:coordinator", FALSE, <<>>, NoCtor, FALSE)
    ELSE IF Falsy(i.lip) THEN Res("err:local", FALSE, <<>>, NoCtor, FALSE)
    ELSE Made(i, FALSE, <<i.lip, i.cip>>,
              Ctor(i.base, TRUE, IF Resolve(i.lip) = Resolve(i.cip) THEN "T" ELSE "F", Resolve(i.lip), Resolve(i.cip)))

ProbeCode(i) ==
    [r |-> IF i.conn = "ok" THEN "T" ELSE IF i.conn = "KI" THEN "KI" ELSE "F",
     ip |-> IF i.ip = "default" THEN "loop" ELSE i.ip, port |-> 1900,
     closed |-> i.conn = "ok" \/ CloseOnFailure]

Code(i) == IF i.kind = "boot" THEN BootCode(i) ELSE ProbeCode(i)
NoRes == [out |-> "none"]

Init == in \in Inputs /\ res = NoRes /\ done = FALSE
Eval == ~done /\ res' = Code(in) /\ done' = TRUE /\ UNCHANGED in
Next == Eval
Spec == Init /\ [][Next]_vars

(* ---------------- properties of the decision (i = input, r = result) ---------------- *)
Errors == {"err:base", "err:coordinator", "err:local"}
BootClauses == {"ProbeOnlyWhenJoining", "JoinRunningPassesNothing", "JoinCreatesCoordinator", "LocalOnlyIsLoopbackCoordinator",
                "MissingIpIsError", "NetworkBaseRequired", "CoordinatorIffSameAddress", "SystemBaseHonoured", "ActorSystemErrorPropagates",
                "ErrorsBeforeAnyEffect"}
ProbeClauses == {"ProbeTrueIffConnected", "ProbePort1900", "ProbeSocketClosed", "ProbeInterruptible"}
Strong == {"ProbeSocketClosed"}

Holds(c, i, r) ==
    CASE c = "ProbeOnlyWhenJoining" -> r.probed = i.tj
      [] c = "JoinRunningPassesNothing" -> i.tj /\ i.running => r.ctor.called /\ ~r.ctor.logdefs /\ r.ctor.coord = "absent" /\ r.ctor.ip = "absent" /\ r.ctor.conv = "absent"
      [] c = "JoinCreatesCoordinator" -> i.tj /\ ~i.running => r.ctor.called /\ r.ctor.logdefs /\ r.ctor.coord = "T" /\ r.ctor.ip = "absent" /\ r.ctor.conv = "absent"
      [] c = "LocalOnlyIsLoopbackCoordinator" ->
             ~i.tj /\ i.plo => /\ r.ctor.called /\ r.ctor.coord = "T" /\ r.ctor.logdefs
                               /\ r.ctor.ip = (IF i.base = "queue" THEN "absent" ELSE "loop") /\ r.ctor.conv = r.ctor.ip
      [] c = "MissingIpIsError" -> ~i.tj /\ ~i.plo /\ (Falsy(i.lip) \/ Falsy(i.cip)) => r.out \in Errors /\ ~r.ctor.called
      [] c = "NetworkBaseRequired" -> ~i.tj /\ ~i.plo /\ i.base \notin {"tcp", "udp"} => r.out = "err:base" /\ ~r.ctor.called
      [] c = "CoordinatorIffSameAddress" ->
             ~i.tj /\ ~i.plo /\ r.ctor.called => /\ r.ctor.ip = Resolve(i.lip) /\ r.ctor.conv = Resolve(i.cip)
                                                  /\ (r.ctor.coord = "T") = (Resolve(i.lip) = Resolve(i.cip)) /\ r.ctor.coord \in {"T", "F"}
      [] c = "SystemBaseHonoured" -> r.ctor.called => r.ctor.base = i.base
      [] c = "ActorSystemErrorPropagates" -> r.ctor.called => (r.out = IF i.ase THEN "ase" ELSE "system") /\ r.logged = i.ase
      [] c = "ErrorsBeforeAnyEffect" -> r.out \in Errors => ~r.ctor.called /\ r.resolved = <<>> /\ ~r.logged
      [] c = "ProbeTrueIffConnected" -> (r.r = "T") = (i.conn = "ok")
      [] c = "ProbePort1900" -> r.port = 1900 /\ r.ip = (IF i.ip = "default" THEN "loop" ELSE i.ip)
      [] c = "ProbeSocketClosed" -> r.closed
      [] c = "ProbeInterruptible" -> (r.r = "KI") = (i.conn = "KI")

ClausesOf(i) == IF i.kind = "boot" THEN BootClauses ELSE ProbeClauses
WeakHold == done => \A c \in ClausesOf(in) \ Strong : Holds(c, in, res)
StrongHold == done => \A c \in ClausesOf(in) : Holds(c, in, res)
=============================================================================
