---- MODULE MC_Rallyd ----
EXTENDS Rallyd
AllScn == [cmd : Cmds, docker : BOOLEAN]
====
