---- MODULE MC_ActorBase ----
EXTENDS ActorBase
Sc(n, nnone, go2, cb) == [n |-> n, nnone |-> nnone, go2 |-> go2, cb |-> cb]
Go2 == {"str", "list", "empty", "none"}
ScnQuick == {Sc(n, k, g, <<b1, b2>>) : n \in 1..2, k \in 0..1, g \in Go2, b1 \in BOOLEAN, b2 \in BOOLEAN}
ScnThorough == {Sc(n, k, g, <<b1, b2>>) : n \in 1..3, k \in 0..1, g \in Go2, b1 \in BOOLEAN, b2 \in BOOLEAN}
ScnDup == {Sc(2, 0, "str", <<FALSE, FALSE>>)}
ScnCarry == {Sc(2, 0, "empty", <<FALSE, FALSE>>)}
view == <<scn, s, prev, act>>
====
