SPECIFICATION Spec
CONSTANTS
  Inputs <- AllInputs
  CloseOnFailure = TRUE
INVARIANT StrongHold
CHECK_DEADLOCK FALSE
