--------------------------- MODULE TraceActorBoot ---------------------------
(***************************************************************************)
(* Validates recorded results of the REAL bootstrap_actor_system (with     *)
(* thespian.actors.ActorSystem, actor_system_already_running, net.resolve, *)
(* log.load_configuration faked) and actor_system_already_running (fake    *)
(* socket): items [id, a: input, r: result].  L1: the clauses of           *)
(* ActorBoot.tla on the recorded result; L2: the result is Code(a).        *)
(***************************************************************************)
EXTENDS ActorBoot, Json, IOUtils

Items == JsonDeserialize(IOEnv.VERIF_TRACES)
VARIABLES i

TInit == i = 1 /\ in = [kind |-> "none"] /\ res = NoRes /\ done = FALSE

Check(it) ==
    LET l1 == {c \in ClausesOf(it.a) : ~Holds(c, it.a, it.r)}
        l2 == it.r = Code(it.a)
    IN /\ IF l1 = {} THEN TRUE ELSE PrintT(<<"V", it.id, 1, "L1", l1>>)
       /\ IF l2 THEN TRUE ELSE PrintT(<<"V", it.id, 1, "L2", {}>>)

TNext == /\ i <= Len(Items)
         /\ Check(Items[i])
         /\ i' = i + 1
         /\ IF i < Len(Items) THEN TRUE ELSE PrintT(<<"DONE", Len(Items), Len(Items)>>)
         /\ UNCHANGED vars

TSpec == TInit /\ [][TNext]_<<vars, i>>
=============================================================================
