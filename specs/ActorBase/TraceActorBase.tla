--------------------------- MODULE TraceActorBase ---------------------------
(***************************************************************************)
(* Validates recorded executions of a REAL esrally.actor.RallyActor        *)
(* subclass (harness/extras/actorbase.py: handlers wrapped in the real     *)
(* no_retry, calling the real send_to_children_and_transition /            *)
(* transition_when_all_children_responded; fake _myRef) against            *)
(* ActorBase.tla.  Input (env VERIF_TRACES): JSON array of items           *)
(*   [id, kind = "proto", scn, init: OBS, events: <<[a, c, p, st: OBS]>>]  *)
(*   [id, kind = "ise", status, x: [kind, vals], r]   is_current_status_expected *)
(* OBS = [status, rr, fired, outs, esc].  L1: the property formulas on the *)
(* recorded step; L2: the event is enabled in the model and its effect is  *)
(* the recorded state (code as it is).                                     *)
(***************************************************************************)
EXTENDS ActorBase, Json, IOUtils

Traces == JsonDeserialize(IOEnv.VERIF_TRACES)

VARIABLES tid, l, nev, dead
tvars == <<vars, tid, l, nev, dead>>
Item == Traces[tid]

ObsOf(st) == [k \in (DOMAIN st) \ Internal |-> st[k]]
WithInternal(o, m) == o @@ [k \in Internal |-> m[k]]
Dummy == [n |-> 1, nnone |-> 0, go2 |-> "str", cb |-> <<FALSE, FALSE>>]

TInit == /\ tid = 1 /\ l = 0 /\ nev = 0 /\ dead = FALSE /\ scn = Dummy /\ s = InitState(Dummy) /\ prev = InitState(Dummy) /\ act = E("init", 0, 0)

Ise ==
    /\ tid <= Len(Traces) /\ l = 0 /\ Item.kind = "ise"
    /\ IF IsExpected(Item.status, Item.x) = Item.r THEN TRUE ELSE PrintT(<<"V", Item.id, 1, "L2", {"ise"}>>)
    /\ IF tid < Len(Traces) THEN TRUE ELSE PrintT(<<"DONE", Len(Traces), nev + 1>>)
    /\ tid' = tid + 1 /\ nev' = nev + 1 /\ UNCHANGED <<vars, l, dead>>

Begin ==
    /\ tid <= Len(Traces) /\ l = 0 /\ Item.kind = "proto"
    /\ LET m == InitState(Item.scn)
           l2 == ObsOf(m) = Item.init
       IN /\ scn' = Item.scn /\ s' = WithInternal(Item.init, m) /\ prev' = WithInternal(Item.init, m)
          /\ IF l2 THEN TRUE ELSE PrintT(<<"V", Item.id, 0, "L2", {"init"}>>)
          /\ dead' = ~l2
    /\ act' = E("init", 0, 0) /\ l' = 1 /\ UNCHANGED <<tid, nev>>

L1Clauses == {"TransitionOncePerPhase", "NeverBeforeCount", "NeverOnWrongPhase", "AllChildrenAnswered", "CountedBelongToPhase",
              "MismatchReported", "BroadcastReachesAll", "NoEscape", "FailureNotCounted", "SelfFailureInline", "CountBelowExpected"}

Consume ==
    /\ tid <= Len(Traces) /\ l >= 1 /\ Item.kind = "proto" /\ l <= Len(Item.events)
    /\ LET e == Item.events[l]
           ev == E(e.a, e.c, e.p)
           m == Eff(s, ev)
           l2 == ev \in Enabled(s) /\ ObsOf(m) = e.st
           n == WithInternal(e.st, m)
       IN /\ s' = n /\ prev' = s /\ act' = ev
          /\ LET holds == [c \in L1Clauses |->
                   CASE c = "TransitionOncePerPhase" -> TransitionOncePerPhaseS(n)
                     [] c = "NeverBeforeCount" -> NeverBeforeCountA(scn, s, ev, n)
                     [] c = "NeverOnWrongPhase" -> NeverOnWrongPhaseA(s, ev, n)
                     [] c = "AllChildrenAnswered" -> AllChildrenAnsweredA(scn, s, ev, n)
                     [] c = "CountedBelongToPhase" -> CountedBelongToPhaseS(n)
                     [] c = "MismatchReported" -> MismatchReportedA(scn, s, ev, n)
                     [] c = "BroadcastReachesAll" -> BroadcastReachesAllA(scn, s, ev, n)
                     [] c = "NoEscape" -> NoEscapeS(n)
                     [] c = "FailureNotCounted" -> FailureNotCountedA(s, ev, n)
                     [] c = "SelfFailureInline" -> SelfFailureInlineA(s, ev, n)
                     [] c = "CountBelowExpected" -> CountBelowExpectedS(scn, n)]
                 l1 == {c \in L1Clauses : ~holds[c]}
             IN /\ IF l1 = {} THEN TRUE ELSE PrintT(<<"V", Item.id, l, "L1", l1>>)
                /\ IF dead \/ l2 THEN TRUE ELSE PrintT(<<"V", Item.id, l, "L2", {e.a}>>)
          /\ dead' = (dead \/ ~l2)
    /\ l' = l + 1 /\ nev' = nev + 1
    /\ UNCHANGED <<scn, tid>>

EndOfRun ==
    /\ tid <= Len(Traces) /\ Item.kind = "proto" /\ l = Len(Item.events) + 1
    /\ IF tid < Len(Traces) THEN TRUE ELSE PrintT(<<"DONE", Len(Traces), nev>>)
    /\ tid' = tid + 1 /\ l' = 0 /\ dead' = FALSE
    /\ UNCHANGED <<vars, nev>>

TNext == Ise \/ Begin \/ Consume \/ EndOfRun
TSpec == TInit /\ [][TNext]_tvars
=============================================================================
