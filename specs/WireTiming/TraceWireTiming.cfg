SPECIFICATION TSpec
CHECK_DEADLOCK FALSE
