-------------------------- MODULE TraceWireTiming --------------------------
(* Judges the items recorded by harness/wireleg.py (env VERIF_TRACES: JSON array, each item with a unique id) with the     *)
(* clauses of WireTiming.tla.  Output: <<"V", id, 1, "L1", clauses>> per failing item, <<"DONE", #items, #items>>.          *)
EXTENDS WireTiming, Json, IOUtils, TLC

Items == JsonDeserialize(IOEnv.VERIF_TRACES)

VARIABLES i

TInit == i = 1

TNext == /\ i <= Len(Items)
         /\ LET bad == Failing(Items[i])
            IN IF bad = {} THEN TRUE ELSE PrintT(<<"V", Items[i].id, 1, "L1", bad>>)
         /\ i' = i + 1
         /\ IF i < Len(Items) THEN TRUE ELSE PrintT(<<"DONE", Len(Items), Len(Items)>>)

TSpec == TInit /\ [][TNext]_i
=============================================================================
