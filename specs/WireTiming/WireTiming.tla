----------------------------- MODULE WireTiming -----------------------------
(***************************************************************************)
(* What the request context reports for a logical request, compared with   *)
(* what a scripted HTTP server on the loopback interface observed (wire    *)
(* leg of C04 and C18; harness/wireleg.py).  The client is the REAL        *)
(* EsClientFactory(...).create_async() client: request_start / request_end  *)
(* are set by the aiohttp trace hooks wired in esrally/client/factory.py.   *)
(*                                                                         *)
(* One item per request context (top-level or nested):                      *)
(*   rs, re   request_start / request_end as the context manager reports    *)
(*            them after its with block has been left (NoneT: None)          *)
(*   enter, exit   instants just before the with block was entered / just   *)
(*            after it was left (client side)                               *)
(*   tol      tolerance                                                     *)
(*   wires    <<[seen, last, fail]>> one entry per wire request issued on   *)
(*            its behalf (inside the block, in any task):                   *)
(*            seen   the server had received the complete request            *)
(*            hdr    the server had written the response headers (Never:     *)
(*                   it never answered)                                      *)
(*            last   the server had written the last byte of the response    *)
(*                   body (Never: no complete response)                      *)
(*            fail   the failure of the request became observable for the    *)
(*                   client: client-side timeout elapsed (instant the        *)
(*                   request was issued + timeout) or the server had closed  *)
(*                   the socket (Never: request did not fail)                *)
(* All instants in microseconds of ONE clock (time.perf_counter of the one  *)
(* process / one event loop in which server and client run), so every       *)
(* clause below holds by causality for a correct client, whatever the load. *)
(***************************************************************************)
EXTENDS Naturals, Integers, Sequences, FiniteSets

NoneT == -2
Never == -1

Max(S) == CHOOSE x \in S : \A y \in S : x >= y
Min(S) == CHOOSE x \in S : \A y \in S : x <= y

Seen(it)   == {it.wires[i].seen : i \in {j \in 1..Len(it.wires) : it.wires[j].seen # Never}}
Hdrs(it)   == {it.wires[i].hdr : i \in {j \in 1..Len(it.wires) : it.wires[j].hdr # Never}}
Ends(it)   == {it.wires[i].last : i \in {j \in 1..Len(it.wires) : it.wires[j].last # Never}}
Fails(it)  == {it.wires[i].fail : i \in {j \in 1..Len(it.wires) : it.wires[j].fail # Never}}

(* the start and end recorded for a request are those of the HTTP requests issued on its behalf *)
Recorded(it) == (Seen(it) # {} => it.rs # NoneT) /\ (Ends(it) \cup Fails(it) # {} => it.re # NoneT)

(* "sending the request": the recorded start is not after the server had the request *)
StartNotAfterRequestSeen(it) == (it.rs # NoneT /\ Seen(it) # {}) => it.rs <= Min(Seen(it)) + it.tol

(* "receiving its response": the recorded end is not before the last byte of the body of the latest response was written *)
EndNotBeforeResponseWritten(it) == (it.re # NoneT /\ Ends(it) # {}) => it.re >= Max(Ends(it)) - it.tol

(* a request that failed has been issued, too: the end is not before its failure was observable *)
EndNotBeforeFailure(it) == (it.re # NoneT /\ Fails(it) # {}) => it.re >= Max(Fails(it)) - it.tol

(* a request that was answered at all has an end, whatever happened to the rest of the response (body never sent, client    *)
(* timeout while the body is read): the end is not before the response headers of the latest answer were written           *)
EndNotBeforeHeadersWritten(it) == Hdrs(it) # {} => (it.re # NoneT /\ it.re >= Max(Hdrs(it)) - it.tol)

(* service time spans what the server observed *)
ServiceTimeSpans(it) ==
    (it.rs # NoneT /\ it.re # NoneT /\ Seen(it) # {} /\ Ends(it) \cup Fails(it) # {})
        => it.re - it.rs >= Max(Ends(it) \cup Fails(it)) - Min(Seen(it)) - it.tol

(* ... and nothing else: the timing lies within the with block *)
WithinContext(it) == /\ it.rs # NoneT => it.rs >= it.enter - it.tol
                     /\ it.re # NoneT => it.re <= it.exit + it.tol
                     /\ (it.rs # NoneT /\ it.re # NoneT) => it.re >= it.rs

Clauses == {"Recorded", "StartNotAfterRequestSeen", "EndNotBeforeHeadersWritten", "EndNotBeforeResponseWritten", "EndNotBeforeFailure", "ServiceTimeSpans", "WithinContext"}

Holds(c, it) ==
    CASE c = "Recorded" -> Recorded(it)
      [] c = "StartNotAfterRequestSeen" -> StartNotAfterRequestSeen(it)
      [] c = "EndNotBeforeHeadersWritten" -> EndNotBeforeHeadersWritten(it)
      [] c = "EndNotBeforeResponseWritten" -> EndNotBeforeResponseWritten(it)
      [] c = "EndNotBeforeFailure" -> EndNotBeforeFailure(it)
      [] c = "ServiceTimeSpans" -> ServiceTimeSpans(it)
      [] c = "WithinContext" -> WithinContext(it)

Failing(it) == {c \in Clauses : ~Holds(c, it)}
=============================================================================
