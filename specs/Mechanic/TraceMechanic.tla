--------------------------- MODULE TraceMechanic ---------------------------
(***************************************************************************)
(* Validates executions of the REAL MechanicActor / Dispatcher /           *)
(* NodeMechanicActor / Mechanic recorded by harness/mechtrace.py under     *)
(* SimActorSystem against Mechanic.tla.                                    *)
(* Input: JSON array of traces [id, scn, init, events]; every event is one *)
(* scheduling decision (a message delivery, a wake-up, an action of race   *)
(* control or of a remote daemon) with the projected state of all actors   *)
(* and of the recording stubs AFTER the handler returned (st).             *)
(* For each event TLC evaluates                                            *)
(*   L1: the property formulas of Mechanic.tla on the recorded state,      *)
(*   L2: the recorded step is the corresponding action of Mechanic.tla     *)
(*       (for the `not remoteAdded` branch either variant of LeaveFix).    *)
(***************************************************************************)
EXTENDS Mechanic, Json, IOUtils

Traces == JsonDeserialize(IOEnv.VERIF_TRACES)

VARIABLES tid, l, nev
tvars == <<vars, tid, l, nev>>

Bind(s, st) ==
    /\ scn' = s /\ plan' = st.plan
    /\ rc2m' = st.rc2m /\ m2d' = st.m2d /\ d2m' = st.d2m /\ sys2d' = st.sys2d
    /\ d2n' = st.d2n /\ n2m' = st.n2m /\ m2n' = st.m2n /\ n2d' = st.n2d
    /\ rcbox' = st.rcbox /\ mtimers' = st.mtimers
    /\ mech' = st.mech
    /\ disp' = [st.disp EXCEPT !.remotes = [ip \in RIps |-> st.disp.remotes[ip]]]
    /\ na' = st.na
    /\ nd' = [n \in NodeIds(s) |-> st.nd[n + 1]]
    /\ ho' = st.ho
    /\ env' = [st.env EXCEPT !.up = ToSet(@), !.left = ToSet(@)]

EmptyScn == [targets |-> <<>>, ext |-> FALSE, preserve |-> FALSE]
TInit == /\ tid = 0 /\ l = 0 /\ nev = 0
         /\ InitFor(EmptyScn, {}) /\ plan = <<>>

H(e) == e.a \in Hosts(scn)
StepOf(e) == CASE e.ev = "MRecvStartEngine" -> MRecvStartEngine
               [] e.ev \in {"MRecvNodesStarted", "MRecvFailureN", "MRecvNodesStopped", "DRecvChildExited", "NRecvStartNodes",
                            "NRecvStopNodes", "NRecvReset", "NRecvFailure", "NRecvExit", "NWakeup"} /\ ~H(e) -> FALSE
               [] e.ev = "MRecvNodesStarted" -> MRecvNodesStarted(e.a)
               [] e.ev = "MRecvReset" -> MRecvReset
               [] e.ev = "MWakeup" -> MWakeup
               [] e.ev = "MRecvFailureN" -> MRecvFailureN(e.a)
               [] e.ev = "MRecvFailureD" -> MRecvFailureD
               [] e.ev = "MRecvStopEngine" -> MRecvStopEngine
               [] e.ev = "MRecvNodesStopped" -> MRecvNodesStopped(e.a)
               [] e.ev = "MRecvExit" -> MRecvExit
               [] e.ev = "DRecvStartEngine" -> DRecvStartEngine
               [] e.ev = "DRecvConv" -> IF DRecvConv(TRUE) THEN TRUE ELSE DRecvConv(FALSE)
               [] e.ev = "DRecvChildExited" -> DRecvChildExited(e.a)
               [] e.ev = "DRecvExit" -> DRecvExit
               [] e.ev = "NRecvStartNodes" -> NRecvStartNodes(e.a, e.b)
               [] e.ev = "NRecvStopNodes" -> NRecvStopNodes(e.a, e.b)
               [] e.ev = "NRecvReset" -> NRecvReset(e.a)
               [] e.ev = "NRecvFailure" -> NRecvFailure(e.a)
               [] e.ev = "NRecvExit" -> \E src \in {"M", "D"} : \E r \in {"known", "unknown", ""} :
                                           ExitTag(src, r) = e.b /\ NRecvExit(e.a, src, r)
               [] e.ev = "NWakeup" -> NWakeup(e.a)
               [] e.ev = "RcStop" -> RcStop
               [] e.ev = "RcReset" -> RcReset(e.a)
               [] e.ev = "RcTeardown" -> RcTeardown
               [] e.ev = "RcRestart" -> RcRestart
               [] e.ev = "RemoteJoins" -> RemoteJoins(e.a)
               [] e.ev = "RemoteLeaves" -> RemoteLeaves(e.a)
               [] e.ev = "NodeProcess" -> NodeProcess(e.a, e.b)
               [] OTHER -> FALSE

L1Clauses == {"StartedOnlyWhenAll", "StopAtMostOnce", "StoppedOnlyWhenAll", "ExternalUntouched", "NoStall", "FaultReported",
              "TeardownStopsAll", "ExternalAnswered", "ShutdownMetricsStored", "AckedOnlyWhenDone", "StopNeverRaises",
              "StopHandlesAll"}

(* action-level: a host that handles a stop request (StopNodes, or the ActorExitRequest at teardown) while it still has its  *)
(* mechanic leaves none of the nodes it started behind: every one of them is done afterwards (handled by the stop exactly   *)
(* once, terminated / killed as its process requires, system metrics stored, the host's store flushed, results stored where *)
(* the race is known, installation removed unless preserve) - whatever has become of the processes of the nodes listed      *)
(* before it.  Unprimed = the recorded state before the handler ran.                                                        *)
StopHandlesAll(e) ==
    (e.ev \in {"NRecvStopNodes", "NRecvExit"} /\ H(e) /\ na[e.a].eng = "set") =>
        \A n \in NodeIds(scn) : (HostOf(scn, n) = e.a /\ nd[n].starts >= 1) => NodeDone(n)'

Holds(c, e) ==
    CASE c = "StartedOnlyWhenAll" -> StartedOnlyWhenAll'
      [] c = "StopAtMostOnce" -> StopAtMostOnce'
      [] c = "StoppedOnlyWhenAll" -> StoppedOnlyWhenAll'
      [] c = "ExternalUntouched" -> ExternalUntouched'
      [] c = "NoStall" -> NoStall' /\ (e.ev = "Livelock" => (Started' \/ Failed'))
      [] c = "FaultReported" -> FaultReported'
      [] c = "TeardownStopsAll" -> TeardownStopsAll'
      [] c = "ExternalAnswered" -> ExternalAnswered'
      [] c = "ShutdownMetricsStored" -> ShutdownMetricsStored'
      [] c = "AckedOnlyWhenDone" -> AckedOnlyWhenDone'
      [] c = "StopNeverRaises" -> StopNeverRaises'
      [] c = "StopHandlesAll" -> StopHandlesAll(e)

StartTrace ==
    /\ tid < Len(Traces) /\ (IF tid = 0 THEN TRUE ELSE l > Len(Traces[tid].events))
    /\ LET tr == Traces[tid + 1] IN
         /\ Bind(tr.scn, tr.init)
         /\ act' = A("Init", 0, "")
         /\ LET initOk == /\ rc2m' = <<Msg("StartEngine")>> /\ m2d' = <<>> /\ d2m' = <<>> /\ sys2d' = <<>>
                          /\ d2n' = NoChan(tr.scn) /\ n2m' = NoChan(tr.scn) /\ m2n' = NoChan(tr.scn) /\ n2d' = NoChan(tr.scn)
                          /\ rcbox' = <<>> /\ mtimers' = 0 /\ mech' = InitMech /\ disp' = InitDisp
                          /\ na' = [h \in Hosts(tr.scn) |-> InitNa]
                          /\ nd' = [n \in NodeIds(tr.scn) |-> InitNd]
                          /\ ho' = [h \in Hosts(tr.scn) |-> 0]
                          /\ env'.up \subseteq RemoteTargets(tr.scn)
                          /\ env' = [up |-> env'.up, left |-> {}, fault |-> "none", stopSent |-> FALSE, resets |-> 0, torn |-> FALSE, procs |-> 0, cyc |-> 1, stale |-> 0, esc |-> 0]
                          /\ plan' = tr.plan
                          /\ tr.init.other = 0
            IN IF initOk THEN TRUE ELSE PrintT(<<"V", tr.id, 0, "L2", {}>>)
    /\ tid' = tid + 1 /\ l' = 1 /\ nev' = nev

Consume ==
    /\ tid >= 1 /\ tid <= Len(Traces)
    /\ l <= Len(Traces[tid].events)
    /\ LET e == Traces[tid].events[l] IN
         /\ Bind(IF e.ev = "RcRestart" THEN e.scn ELSE scn, e.st)
         /\ act' = A(e.ev, e.a, e.b)
         /\ LET l1 == {c \in L1Clauses : ~Holds(c, e)}
                l2 == StepOf(e) /\ e.st.other = 0
            IN /\ IF l1 = {} THEN TRUE ELSE PrintT(<<"V", Traces[tid].id, l, "L1", l1>>)
               /\ IF l2 THEN TRUE ELSE PrintT(<<"V", Traces[tid].id, l, "L2", {e.ev}>>)
    /\ l' = l + 1 /\ nev' = nev + 1 /\ tid' = tid

Finish ==
    /\ tid = Len(Traces) /\ tid >= 1 /\ l = Len(Traces[tid].events) + 1
    /\ PrintT(<<"DONE", Len(Traces), nev>>)
    /\ l' = l + 1
    /\ UNCHANGED <<vars, tid, nev>>

TNext == StartTrace \/ Consume \/ Finish
TSpec == TInit /\ [][TNext]_tvars
=============================================================================
