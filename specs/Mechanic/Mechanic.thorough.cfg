SPECIFICATION Spec
CONSTANTS
  Scenarios <- ThoroughScenarios
  LeaveFix = TRUE
  MaxResets = 2
  Faults = TRUE
  StaleAcks = FALSE
  MaxProcs = 1
VIEW view
INVARIANT TypeOK
INVARIANT StartedOnlyWhenAll
INVARIANT StopAtMostOnce
INVARIANT StoppedOnlyWhenAll
INVARIANT AckedOnlyWhenDone
INVARIANT StopNeverRaises
INVARIANT ExternalUntouched
INVARIANT NoStall
INVARIANT FaultReported
INVARIANT FaultNeverStarted
INVARIANT TeardownStopsAll
INVARIANT ExternalAnswered
INVARIANT ShutdownMetricsStored
INVARIANT StopAcked
CHECK_DEADLOCK FALSE
