SPECIFICATION Spec
CONSTANTS
  Scenarios <- StaleScenarios
  LeaveFix = TRUE
  MaxResets = 1
  Faults = TRUE
  StaleAcks = TRUE
  MaxProcs = 0
VIEW view
INVARIANT TypeOK
INVARIANT StartedOnlyWhenAll
INVARIANT StopAtMostOnce
INVARIANT StoppedOnlyWhenAll
INVARIANT AckedOnlyWhenDone
INVARIANT StopNeverRaises
INVARIANT ExternalUntouched
INVARIANT NoStall
INVARIANT FaultReported
INVARIANT FaultNeverStarted
INVARIANT TeardownStopsAll
INVARIANT ExternalAnswered
INVARIANT ShutdownMetricsStored
INVARIANT StopAcked
CHECK_DEADLOCK FALSE
