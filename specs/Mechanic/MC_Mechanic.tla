---- MODULE MC_Mechanic ----
EXTENDS Mechanic
T(ip, port) == [ip |-> ip, port |-> port]
S(targets, ext, preserve) == [targets |-> targets, ext |-> ext, preserve |-> preserve]

\* target-host lists: L = coordinator host, R1/R2 = remote hosts, second letter-digit = port
L1 == T(0, 1)
L2 == T(0, 2)
R11 == T(1, 1)
R12 == T(1, 2)
R21 == T(2, 1)

OneLocal == <<L1>>
TwoLocalPorts == <<L1, L2>>             \* two entries on the coordinator host
TwoNodesOneEntry == <<L1, L1>>          \* one entry with two nodes
LocalRemote == <<L1, R11>>
Interleaved == <<L1, R11, L1>>          \* node ids 0 and 2 on the first entry
TwoRemotes == <<R11, R21>>
RemoteTwoPorts == <<R11, R12>>          \* two entries on the same remote daemon
RemotesLocal == <<R11, R21, L1>>
RemoteDupOther == <<R11, R21, R11>>
NoTargets == <<>>

QuickLists == {OneLocal, TwoLocalPorts, TwoNodesOneEntry, LocalRemote, Interleaved, TwoRemotes, RemoteTwoPorts, NoTargets}
ThoroughLists == QuickLists \cup {RemotesLocal, RemoteDupOther, <<R11, R12, R21>>, <<L1, L2, R11>>, <<R21, L1, R11>>}

Provisioned(lists) == {S(l, FALSE, p) : l \in lists, p \in BOOLEAN}
External(lists) == {S(l, TRUE, FALSE) : l \in lists}

\* histories of lifecycles on one MechanicActor
One(scns) == {<<s>> : s \in scns}
Two(a, b) == {<<s, t>> : s \in a, t \in b}
Three(a, b, c) == {<<s, t, u>> : s \in a, t \in b, u \in c}
Ext1 == S(OneLocal, TRUE, FALSE)
ExtLR == S(LocalRemote, TRUE, FALSE)
P(l) == S(l, FALSE, FALSE)
ReuseSmall == {Ext1, P(OneLocal), P(TwoLocalPorts), P(LocalRemote)}
ReuseMore == ReuseSmall \cup {ExtLR, P(TwoRemotes), P(Interleaved), P(RemoteTwoPorts), S(TwoNodesOneEntry, FALSE, TRUE), P(NoTargets)}

QuickScenarios == One({P(l) : l \in QuickLists} \cup {S(l, FALSE, TRUE) : l \in {TwoNodesOneEntry, LocalRemote}}
                      \cup External({OneLocal, LocalRemote, NoTargets}))
                  \cup Two(ReuseSmall, ReuseSmall) \cup Two({Ext1, P(TwoRemotes)}, {P(TwoRemotes), P(RemoteTwoPorts)})
                  \cup Three({Ext1}, {P(OneLocal), Ext1}, {P(LocalRemote)})
ThoroughScenarios == One(Provisioned(ThoroughLists) \cup External(ThoroughLists))
                     \cup Two(ReuseMore, ReuseMore) \cup Three(ReuseSmall, ReuseSmall, ReuseSmall)
LiveScenarios == One(Provisioned({OneLocal, TwoLocalPorts, LocalRemote, TwoRemotes, NoTargets}) \cup External({OneLocal}))
                 \cup Two({Ext1, P(LocalRemote)}, {Ext1, P(LocalRemote), P(TwoRemotes)})
StaleScenarios == Two({P(TwoLocalPorts)}, {P(TwoLocalPorts)})
LeaveScenarios == One(Provisioned({TwoRemotes, RemotesLocal})) \cup Two({Ext1}, {P(TwoRemotes)})
\* every list of up to 3 targets over 3 hosts x 2 ports
AllTargets == {T(ip, port) : ip \in 0..2, port \in 1..2}
AllLists == {<<>>} \cup {<<a>> : a \in AllTargets} \cup {<<a, b>> : a, b \in AllTargets}
AllLists3 == AllLists \cup {<<a, b, c>> : a, b, c \in AllTargets}
\* exhaustive family: every list of up to 3 targets (preserve only matters for the clean-up, checked on the smaller family)
ExhaustiveScenarios == One({S(l, FALSE, FALSE) : l \in AllLists3} \cup Provisioned(ThoroughLists) \cup External(ThoroughLists))
SimSingles == Provisioned(AllLists \cup ThoroughLists) \cup External({OneLocal, LocalRemote, TwoRemotes})
SimReuse == ReuseMore \cup Provisioned({<<a, b>> : a, b \in {L1, L2, R11, R21}}) \cup External({TwoRemotes})
SimScenarios == One(SimSingles) \cup Two(SimReuse, SimReuse) \cup Three(ReuseMore, ReuseMore, ReuseMore)
====
