SPECIFICATION TSpec
CONSTANTS
  Scenarios = {}
  LeaveFix = TRUE
  MaxResets = 100
  Faults = TRUE
  MaxProcs = 100
CHECK_DEADLOCK FALSE
