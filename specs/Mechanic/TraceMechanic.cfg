SPECIFICATION TSpec
CONSTANTS
  Scenarios = {}
  LeaveFix = TRUE
  MaxResets = 100
  Faults = TRUE
  StaleAcks = FALSE
  MaxProcs = 100
CHECK_DEADLOCK FALSE
