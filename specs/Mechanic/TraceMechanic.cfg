SPECIFICATION TSpec
CONSTANTS
  Scenarios = {}
  LeaveFix = TRUE
  MaxResets = 100
  Faults = TRUE
CHECK_DEADLOCK FALSE
