------------------------------- MODULE Mechanic -------------------------------
(***************************************************************************)
(* Cluster start / stop protocol of Rally (esrally/mechanic/mechanic.py):  *)
(* race control (an endpoint), MechanicActor "M", Dispatcher "D", one      *)
(* NodeMechanicActor per target (ip, port) entry h, and the actor system's *)
(* convention notifier "sys".  One action per message handler as written;  *)
(* actor messages travel through FIFO channels per (sender, receiver)      *)
(* pair; messages to dead or not yet existing actors are dropped.          *)
(*                                                                         *)
(* One MechanicActor serves a HISTORY of engine lifecycles (StartEngine … *)
(* EngineStopped, then StartEngine again on the same actor: "the mechanic  *)
(* might get reused later").  scn is the configuration of the current      *)
(* lifecycle, plan the configurations still to come; observations (nd, ho, *)
(* rcbox) and everything belonging to the Dispatcher / node actors of a    *)
(* lifecycle start afresh with each lifecycle, the MechanicActor's own     *)
(* fields (status, children, received_responses, externally_provisioned)   *)
(* and the set of remote daemons in the convention are carried over.       *)
(* A lifecycle configuration scn = [targets, ext, preserve]:               *)
(*   targets   the --target-hosts list, <<[ip, port], ...>>; ip 0 is the   *)
(*             coordinator's own host (127.0.0.1), ip 1..MaxIp are remote  *)
(*             hosts with their own Rally daemon; position i-1 = node id   *)
(*   ext       externally provisioned cluster (StartEngine.external)       *)
(*   preserve  mechanic/preserve.install                                   *)
(***************************************************************************)
EXTENDS Integers, Sequences, FiniteSets, TLC

CONSTANTS Scenarios,   \* set of histories (non-empty sequences of lifecycle configurations) Init chooses from
          LeaveFix,    \* TRUE: repaired `not remoteAdded` branch of Dispatcher.receiveMsg_ActorSystemConventionUpdate
                       \*       (self.send(self.start_sender, BenchmarkFailure)); FALSE: as written (self.start_sender(...)
                       \*       raises TypeError twice, the update is poisoned, nobody is told)
          MaxResets,   \* number of ResetRelativeTime messages race control may send between EngineStarted and StopEngine
          Faults,      \* TRUE: the environment may inject one fault (start failure on a host, remote daemon leaving)
          StaleAcks,   \* FALSE: after a failed start the environment asks the same MechanicActor to start again only once
                       \*        nothing of the failed attempt can reach it any more (what the checks assume);
                       \* TRUE:  the next StartEngine may come right after the failure: NodesStarted of the failed attempt that
                       \*        are still under way are then counted for the new attempt (the code as written has no way to
                       \*        tell them apart) - pinned variant, violates StartedOnlyWhenAll
          MaxProcs     \* number of started node processes the environment may put into a condition other than alive before
                       \* they are stopped (already gone, dying while terminated, ignoring SIGTERM, ignoring SIGTERM and
                       \* gone when SIGKILL is sent)

MaxIp == 2
RIps == 1..MaxIp

VARIABLES scn,                      \* configuration of the current lifecycle
          plan,                     \* configurations of the lifecycles still to come on the same MechanicActor
          rc2m, m2d, d2m, sys2d,   \* channels race control -> M, M -> D, D -> M, convention notifier -> D
          d2n, n2m, m2n, n2d,      \* per entry h: D -> N[h], N[h] -> M, M -> N[h], N[h] -> D
          rcbox,                   \* message kinds received by race control, in order
          mtimers,                 \* pending wake-ups of M (delayed relative-time reset)
          mech,                    \* MechanicActor: alive, status, children (entry index, 0 = None placeholder), resp, ext
          disp,                    \* Dispatcher: exists, alive, pending (entries whose actor exists, StartNodes not yet sent),
                                   \*             remotes[ip] (entries waiting for the daemon on ip), listening
          na,                      \* na[h]: NodeMechanicActor of entry h: exists, alive, eng (self.mechanic none/set),
                                   \*        running (Mechanic.nodes non-empty), cfgs (Mechanic.node_configs non-empty)
          nd,                      \* nd[n]: observations per node id: starts, stops (look-ups of its process by
                                   \*        ProcessLauncher.stop = the node was handled by a stop), term (terminate() calls),
                                   \*        kills (kill() calls),
                                   \*        sysm (system metrics stored by its telemetry), stored (results stored by
                                   \*        Mechanic._add_results), shut (metrics produced while the node was shut down that are part of
                                   \*        the stored results), inst (install dir absent/present/removed),
                                   \*        proc (its OS process: alive | early | late | stubborn | vanish, set by the environment)
          ho,                      \* ho[h]: number of flush(refresh=True) of the host's system metrics store
          env,                     \* environment: up (remote daemons in the convention), left, fault, stopSent, resets, torn, procs,
                                   \*              esc (number of exceptions that escaped ProcessLauncher.stop; the model never raises one)
          act                      \* last action (hidden by VIEW)

chans == <<rc2m, m2d, d2m, sys2d, d2n, n2m, m2n, n2d>>
vars == <<scn, plan, rc2m, m2d, d2m, sys2d, d2n, n2m, m2n, n2d, rcbox, mtimers, mech, disp, na, nd, ho, env, act>>
view == <<scn, plan, rc2m, m2d, d2m, sys2d, d2n, n2m, m2n, n2d, rcbox, mtimers, mech, disp, na, nd, ho, env>>

-----------------------------------------------------------------------------
ToSet(q) == {q[i] : i \in 1..Len(q)}
Has(q, x) == \E i \in 1..Len(q) : q[i] = x

(* nodes_by_host(to_ip_port(hosts)): distinct (ip, port) pairs in order of first appearance (dict insertion order) *)
RECURSIVE EntriesOf(_)
EntriesOf(ts) == IF ts = <<>> THEN <<>>
                 ELSE LET r == EntriesOf(SubSeq(ts, 1, Len(ts) - 1))
                          x == ts[Len(ts)]
                      IN IF Has(r, x) THEN r ELSE Append(r, x)
Entries(s) == EntriesOf(s.targets)
NE(s) == Len(Entries(s))
Hosts(s) == 1..NE(s)
NN(s) == Len(s.targets)
NodeIds(s) == 0..(NN(s) - 1)
Positions(s) == [i \in 1..NN(s) |-> i]
(* node ids of entry h: node_id = position in the target list, ascending *)
IdsOf(s, h) == LET ps == SelectSeq(Positions(s), LAMBDA i : s.targets[i] = Entries(s)[h]) IN [k \in 1..Len(ps) |-> ps[k] - 1]
HostOf(s, n) == CHOOSE h \in Hosts(s) : Entries(s)[h] = s.targets[n + 1]
IpOf(s, h) == Entries(s)[h].ip
AllIps(s) == {s.targets[i].ip : i \in 1..NN(s)}                     \* extract_all_node_ips
RemoteTargets(s) == AllIps(s) \ {0}
HostSeq(s) == [h \in 1..NE(s) |-> h]
OnIp(s, ip) == SelectSeq(HostSeq(s), LAMBDA h : IpOf(s, h) = ip)    \* entries on ip, in nodes_by_host order

RECURSIVE SortedFrom(_, _, _)
SortedFrom(S, i, max) == IF i > max THEN <<>> ELSE (IF i \in S THEN <<i>> ELSE <<>>) \o SortedFrom(S, i + 1, max)
Sorted(S, min, max) == SortedFrom(S, min, max)

Msg(k) == [k |-> k, a |-> 0, b |-> FALSE, ids |-> <<>>, aips |-> <<>>, aids |-> <<>>]
(* StartEngine.for_nodes(all_node_ips, all_node_ids, ip, port, node_ids) with reply_to = the requester (M) *)
StartNodesMsg(h) == [k |-> "StartNodes", a |-> h, b |-> TRUE, ids |-> IdsOf(scn, h),
                     aips |-> Sorted(AllIps(scn), 0, MaxIp), aids |-> Sorted(NodeIds(scn), 0, NN(scn) - 1)]
Conv(ip, added) == [Msg("Conv") EXCEPT !.a = ip, !.b = added]
Reset(k) == [Msg("ResetRelativeTime") EXCEPT !.a = k]

A(name, a, b) == [name |-> name, a |-> a, b |-> b]

InitNa == [exists |-> FALSE, alive |-> FALSE, eng |-> "none", running |-> FALSE, cfgs |-> FALSE]
InitNd == [starts |-> 0, stops |-> 0, term |-> 0, kills |-> 0, sysm |-> 0, stored |-> 0, shut |-> 0, inst |-> "absent", proc |-> "alive",
           race |-> "none"]
InitMech == [alive |-> TRUE, status |-> "none", children |-> <<>>, resp |-> 0, ext |-> FALSE]
InitDisp == [exists |-> FALSE, alive |-> FALSE, pending |-> <<>>, remotes |-> [ip \in RIps |-> <<>>], listening |-> FALSE]
NoChan(s) == [h \in Hosts(s) |-> <<>>]

InitFor(s, up) ==
    /\ scn = s
    /\ rc2m = <<Msg("StartEngine")>> /\ m2d = <<>> /\ d2m = <<>> /\ sys2d = <<>>
    /\ d2n = NoChan(s) /\ n2m = NoChan(s) /\ m2n = NoChan(s) /\ n2d = NoChan(s)
    /\ rcbox = <<>> /\ mtimers = 0
    /\ mech = InitMech /\ disp = InitDisp
    /\ na = [h \in Hosts(s) |-> InitNa]
    /\ nd = [n \in NodeIds(s) |-> InitNd]
    /\ ho = [h \in Hosts(s) |-> 0]
    /\ env = [up |-> up, left |-> {}, fault |-> "none", stopSent |-> FALSE, resets |-> 0, torn |-> FALSE, procs |-> 0, cyc |-> 1, stale |-> 0, esc |-> 0]
    /\ act = A("Init", 0, "")

Init == \E hist \in Scenarios : \E up \in SUBSET RemoteTargets(hist[1]) : InitFor(hist[1], up) /\ plan = Tail(hist)

-----------------------------------------------------------------------------
Started == Has(rcbox, "EngineStarted")
Stopped == Has(rcbox, "EngineStopped")
Failed == Has(rcbox, "BenchmarkFailure")

NAlive(h) == na[h].exists /\ na[h].alive
DAlive == disp.exists /\ disp.alive
(* self.send(target, msg): dropped when the target is dead *)
ToM(q, m) == IF mech.alive THEN Append(q, m) ELSE q
ToD(q, m) == IF DAlive THEN Append(q, m) ELSE q

(* Mechanic.stop_engine() on entry h: launcher.stop(nodes), flush_metrics(refresh=True), store results per node,        *)
(* provisioner.cleanup per node configuration.  ProcessLauncher.stop looks every node's process up, terminates it       *)
(* unless it is already gone, kills it when it is still there after the grace period (whether or not it is gone by      *)
(* then), and stores the node's system metrics in any case - whatever happened to the nodes before it in the list.     *)
(* r = "known" | "unknown": whether the race store of that host knows the race (Mechanic._current_race()); with the   *)
(* file race store it never does on a remote host, and not on the coordinator's host before the race was stored.      *)
(* Unknown: exceptions.NotFound is caught and logged, no results are added to the race, everything else goes on.       *)
(* conditions the environment may put a started node's OS process into; Survivors are still there after SIGTERM + grace period *)
ProcConds == {"early", "late", "stubborn", "vanish"}
Survivors == {"stubborn", "vanish"}
RaceChoice(h, r) == /\ r \in {"known", "unknown"} /\ (IpOf(scn, h) # 0 => r = "unknown")
StopNd(h, r) == [n \in NodeIds(scn) |->
                IF HostOf(scn, n) = h
                THEN [nd[n] EXCEPT !.stops = IF na[h].running THEN @ + 1 ELSE @,
                                   !.race = IF na[h].running THEN r ELSE @,
                                   !.term = IF na[h].running /\ nd[n].proc # "early" THEN @ + 1 ELSE @,
                                   !.kills = IF na[h].running /\ nd[n].proc \in Survivors THEN @ + 1 ELSE @,
                                   !.sysm = IF na[h].running THEN @ + 1 ELSE @,
                                   !.shut = IF na[h].running /\ r = "known" THEN @ + 1 ELSE @,
                                   !.stored = IF na[h].running /\ r = "known" THEN @ + 1 ELSE @,
                                   !.inst = IF na[h].cfgs /\ ~scn.preserve THEN "removed" ELSE @]
                ELSE nd[n]]
StoppedNa(h) == [na[h] EXCEPT !.eng = "none", !.running = FALSE, !.cfgs = FALSE]

-----------------------------------------------------------------------------
(* MechanicActor *)

(* receiveMsg_StartEngine *)
MRecvStartEngine ==
    /\ mech.alive /\ rc2m # <<>> /\ Head(rc2m).k = "StartEngine"
    /\ rc2m' = Tail(rc2m)
    /\ IF NN(scn) = 0
       THEN \* LaunchError("No target hosts are configured.") -> no_retry -> BenchmarkFailure to the sender
            /\ rcbox' = Append(rcbox, "BenchmarkFailure")
            /\ UNCHANGED <<mech, disp, m2d>>
       ELSE IF scn.ext
       THEN /\ mech' = [mech EXCEPT !.ext = TRUE, !.status = "cluster_started", !.resp = 0]
            /\ rcbox' = Append(rcbox, "EngineStarted")
            /\ UNCHANGED <<disp, m2d>>
       ELSE /\ mech' = [mech EXCEPT !.ext = FALSE, !.children = [i \in 1..NE(scn) |-> 0], !.status = "starting", !.resp = 0]
            /\ disp' = [disp EXCEPT !.exists = TRUE, !.alive = TRUE]
            /\ m2d' = Append(m2d, Msg("StartEngine"))
            /\ rcbox' = rcbox
    /\ UNCHANGED <<scn, plan, d2m, sys2d, d2n, n2m, m2n, n2d, mtimers, na, nd, ho, env>>
    /\ act' = A("MRecvStartEngine", 0, "")

(* children as a length-limited FIFO: insert(0, sender); pop() *)
Known(h) == IF Has(mech.children, h) THEN mech.children
            ELSE SubSeq(<<h>> \o mech.children, 1, Len(mech.children))

(* receiveMsg_NodesStarted -> transition_when_all_children_responded(…, "starting", "cluster_started", on_all_nodes_started) *)
MRecvNodesStarted(h) ==
    /\ mech.alive /\ n2m[h] # <<>> /\ Head(n2m[h]).k = "NodesStarted"
    /\ n2m' = [n2m EXCEPT ![h] = Tail(@)]
    /\ LET ch == Known(h) IN
       IF mech.status = "starting"
       THEN IF mech.resp + 1 = Len(ch)
            THEN /\ mech' = [mech EXCEPT !.children = ch, !.status = "cluster_started", !.resp = 0]
                 /\ rcbox' = Append(rcbox, "EngineStarted")
                 /\ m2n' = m2n
            ELSE /\ mech' = [mech EXCEPT !.children = ch, !.resp = @ + 1]
                 /\ rcbox' = rcbox
                 /\ m2n' = IF mech.resp + 1 > Len(ch) /\ NAlive(h) THEN [m2n EXCEPT ![h] = Append(@, Msg("BenchmarkFailure"))] ELSE m2n
       ELSE \* RallyAssertionError -> no_retry -> BenchmarkFailure to the sender
            /\ mech' = [mech EXCEPT !.children = ch]
            /\ rcbox' = rcbox
            /\ m2n' = IF NAlive(h) THEN [m2n EXCEPT ![h] = Append(@, Msg("BenchmarkFailure"))] ELSE m2n
    /\ UNCHANGED <<scn, plan, rc2m, m2d, d2m, sys2d, d2n, n2d, mtimers, disp, na, nd, ho, env>>
    /\ act' = A("MRecvNodesStarted", h, "")

(* reset_relative_time(): ResetRelativeTime(0) to all children *)
ResetAll == [h \in Hosts(scn) |-> IF Has(mech.children, h) /\ NAlive(h) THEN Append(m2n[h], Reset(0)) ELSE m2n[h]]

(* receiveMsg_ResetRelativeTime *)
MRecvReset ==
    /\ mech.alive /\ rc2m # <<>> /\ Head(rc2m).k = "ResetRelativeTime"
    /\ rc2m' = Tail(rc2m)
    /\ IF Head(rc2m).a > 0 THEN mtimers' = mtimers + 1 /\ m2n' = m2n
                           ELSE mtimers' = mtimers /\ m2n' = ResetAll
    /\ UNCHANGED <<scn, plan, m2d, d2m, sys2d, d2n, n2m, n2d, rcbox, mech, disp, na, nd, ho, env>>
    /\ act' = A("MRecvReset", Head(rc2m).a, "")

(* receiveMsg_WakeupMessage *)
MWakeup ==
    /\ mech.alive /\ mtimers > 0
    /\ mtimers' = mtimers - 1
    /\ m2n' = ResetAll
    /\ UNCHANGED <<scn, plan, rc2m, m2d, d2m, sys2d, d2n, n2m, n2d, rcbox, mech, disp, na, nd, ho, env>>
    /\ act' = A("MWakeup", 0, "")

(* receiveMsg_BenchmarkFailure: forwarded to race control *)
MRecvFailureN(h) ==
    /\ mech.alive /\ n2m[h] # <<>> /\ Head(n2m[h]).k = "BenchmarkFailure"
    /\ n2m' = [n2m EXCEPT ![h] = Tail(@)]
    /\ rcbox' = Append(rcbox, "BenchmarkFailure")
    /\ UNCHANGED <<scn, plan, rc2m, m2d, d2m, sys2d, d2n, m2n, n2d, mtimers, mech, disp, na, nd, ho, env>>
    /\ act' = A("MRecvFailureN", h, "")

MRecvFailureD ==
    /\ mech.alive /\ d2m # <<>> /\ Head(d2m).k = "BenchmarkFailure"
    /\ d2m' = Tail(d2m)
    /\ rcbox' = Append(rcbox, "BenchmarkFailure")
    /\ UNCHANGED <<scn, plan, rc2m, m2d, sys2d, d2n, n2m, m2n, n2d, mtimers, mech, disp, na, nd, ho, env>>
    /\ act' = A("MRecvFailureD", 0, "")

(* on_all_nodes_stopped(): EngineStopped, ActorExitRequest to every child, children = [] *)
ExitAll == [h \in Hosts(scn) |-> IF Has(mech.children, h) /\ NAlive(h) THEN Append(m2n[h], Msg("Exit")) ELSE m2n[h]]

(* receiveMsg_StopEngine *)
MRecvStopEngine ==
    /\ mech.alive /\ rc2m # <<>> /\ Head(rc2m).k = "StopEngine"
    /\ rc2m' = Tail(rc2m)
    /\ IF mech.ext
       THEN /\ rcbox' = Append(rcbox, "EngineStopped")
            /\ m2n' = ExitAll
            /\ mech' = [mech EXCEPT !.children = <<>>]
       ELSE \* send_to_children_and_transition(sender, StopNodes(), [], "cluster_stopping"): None placeholders are skipped
            /\ rcbox' = rcbox
            /\ m2n' = [h \in Hosts(scn) |-> IF Has(mech.children, h) /\ NAlive(h) THEN Append(m2n[h], Msg("StopNodes")) ELSE m2n[h]]
            /\ mech' = [mech EXCEPT !.status = "cluster_stopping"]
    /\ UNCHANGED <<scn, plan, m2d, d2m, sys2d, d2n, n2m, n2d, mtimers, disp, na, nd, ho, env>>
    /\ act' = A("MRecvStopEngine", 0, "")

(* receiveMsg_NodesStopped -> transition_when_all_children_responded(…, "cluster_stopping", "cluster_stopped", on_all_nodes_stopped) *)
MRecvNodesStopped(h) ==
    /\ mech.alive /\ n2m[h] # <<>> /\ Head(n2m[h]).k = "NodesStopped"
    /\ n2m' = [n2m EXCEPT ![h] = Tail(@)]
    /\ IF mech.status = "cluster_stopping"
       THEN IF mech.resp + 1 = Len(mech.children)
            THEN /\ mech' = [mech EXCEPT !.status = "cluster_stopped", !.resp = 0, !.children = <<>>]
                 /\ rcbox' = Append(rcbox, "EngineStopped")
                 /\ m2n' = ExitAll
            ELSE /\ mech' = [mech EXCEPT !.resp = @ + 1]
                 /\ rcbox' = rcbox
                 /\ m2n' = IF mech.resp + 1 > Len(mech.children) /\ NAlive(h) THEN [m2n EXCEPT ![h] = Append(@, Msg("BenchmarkFailure"))] ELSE m2n
       ELSE /\ mech' = mech
            /\ rcbox' = rcbox
            /\ m2n' = IF NAlive(h) THEN [m2n EXCEPT ![h] = Append(@, Msg("BenchmarkFailure"))] ELSE m2n
    /\ UNCHANGED <<scn, plan, rc2m, m2d, d2m, sys2d, d2n, n2d, mtimers, disp, na, nd, ho, env>>
    /\ act' = A("MRecvNodesStopped", h, "")

(* ActorExitRequest: M dies, its child D is asked to exit, everything still addressed to M is lost *)
MRecvExit ==
    /\ mech.alive /\ rc2m # <<>> /\ Head(rc2m).k = "Exit"
    /\ mech' = [mech EXCEPT !.alive = FALSE]
    /\ rc2m' = <<>> /\ d2m' = <<>> /\ n2m' = NoChan(scn) /\ mtimers' = 0
    /\ m2d' = ToD(m2d, Msg("Exit"))
    /\ UNCHANGED <<scn, plan, sys2d, d2n, m2n, n2d, rcbox, disp, na, nd, ho, env>>
    /\ act' = A("MRecvExit", 0, "")

-----------------------------------------------------------------------------
(* Dispatcher *)

AllJoined(rem) == \A ip \in RIps : rem[ip] = <<>>

(* send_all_pending() for the pending list pend, given the node actor table nat *)
SendPending(pend, nat) == [h \in Hosts(scn) |-> IF Has(pend, h) /\ nat[h].exists /\ nat[h].alive
                                                THEN Append(d2n[h], StartNodesMsg(h)) ELSE d2n[h]]
Created(nat, hs) == [h \in Hosts(scn) |-> IF Has(hs, h) THEN [nat[h] EXCEPT !.exists = TRUE, !.alive = TRUE] ELSE nat[h]]

(* receiveMsg_StartEngine *)
DRecvStartEngine ==
    /\ DAlive /\ m2d # <<>> /\ Head(m2d).k = "StartEngine"
    /\ m2d' = Tail(m2d)
    /\ LET locals == OnIp(scn, 0)
           rem == [ip \in RIps |-> OnIp(scn, ip)]
           nat == Created(na, locals)
       IN /\ na' = nat
          /\ IF ~AllJoined(rem)
             THEN \* notifyOnSystemRegistrationChanges(True): thespian reports the current members at once
                  /\ disp' = [disp EXCEPT !.pending = locals, !.remotes = rem, !.listening = TRUE]
                  /\ sys2d' = sys2d \o [i \in 1..Cardinality(env.up) |-> Conv(Sorted(env.up, 1, MaxIp)[i], TRUE)]
                  /\ d2n' = d2n
             ELSE /\ disp' = [disp EXCEPT !.pending = <<>>, !.remotes = rem]
                  /\ sys2d' = sys2d
                  /\ d2n' = SendPending(locals, nat)
    /\ UNCHANGED <<scn, plan, rc2m, d2m, n2m, m2n, n2d, rcbox, mtimers, mech, nd, ho, env>>
    /\ act' = A("DRecvStartEngine", 0, "")

(* receiveMsg_ActorSystemConventionUpdate *)
DRecvConv(fix) ==
    /\ DAlive /\ sys2d # <<>> /\ Head(sys2d).k = "Conv"
    /\ sys2d' = Tail(sys2d)
    /\ LET ip == Head(sys2d).a IN
       IF Head(sys2d).b
       THEN LET new == disp.remotes[ip]
                pend == disp.pending \o new
                rem == [disp.remotes EXCEPT ![ip] = <<>>]
                nat == Created(na, new)
            IN /\ na' = nat
               /\ d2m' = d2m
               /\ IF AllJoined(rem)
                  THEN /\ disp' = [disp EXCEPT !.pending = <<>>, !.remotes = rem, !.listening = FALSE]
                       /\ d2n' = SendPending(pend, nat)
                  ELSE /\ disp' = [disp EXCEPT !.pending = pend, !.remotes = rem]
                       /\ d2n' = d2n
       ELSE /\ d2m' = IF fix THEN ToM(d2m, Msg("BenchmarkFailure")) ELSE d2m     \* as written: TypeError, retried, poisoned
            /\ UNCHANGED <<na, disp, d2n>>
    /\ UNCHANGED <<scn, plan, rc2m, m2d, n2m, m2n, n2d, rcbox, mtimers, mech, nd, ho, env>>
    /\ act' = A("DRecvConv", Head(sys2d).a, IF Head(sys2d).b THEN "T" ELSE "F")

(* ChildActorExited: receiveUnrecognizedMessage only logs *)
DRecvChildExited(h) ==
    /\ DAlive /\ n2d[h] # <<>> /\ Head(n2d[h]).k = "ChildActorExited"
    /\ n2d' = [n2d EXCEPT ![h] = Tail(@)]
    /\ UNCHANGED <<scn, plan, rc2m, m2d, d2m, sys2d, d2n, n2m, m2n, rcbox, mtimers, mech, disp, na, nd, ho, env>>
    /\ act' = A("DRecvChildExited", h, "")

(* ActorExitRequest: D dies, its children (the node actors) are asked to exit *)
DRecvExit ==
    /\ DAlive /\ m2d # <<>> /\ Head(m2d).k = "Exit"
    /\ disp' = [disp EXCEPT !.alive = FALSE]
    /\ m2d' = <<>> /\ sys2d' = <<>> /\ n2d' = NoChan(scn)
    /\ d2n' = [h \in Hosts(scn) |-> IF NAlive(h) THEN Append(d2n[h], Msg("Exit")) ELSE d2n[h]]
    /\ UNCHANGED <<scn, plan, rc2m, d2m, n2m, m2n, rcbox, mtimers, mech, na, nd, ho, env>>
    /\ act' = A("DRecvExit", 0, "")

-----------------------------------------------------------------------------
(* NodeMechanicActor of entry h *)

(* receiveMsg_StartNodes; o = "ok" | "create" (mechanic.create raises) | "launch" (launcher.start raises) *)
NRecvStartNodes(h, o) ==
    /\ NAlive(h) /\ d2n[h] # <<>> /\ Head(d2n[h]).k = "StartNodes"
    /\ o \in {"ok", "create", "launch"}
    /\ o # "ok" => Faults /\ env.fault = "none"
    /\ d2n' = [d2n EXCEPT ![h] = Tail(@)]
    /\ env' = IF o = "ok" THEN env ELSE [env EXCEPT !.fault = o]
    /\ n2m' = [n2m EXCEPT ![h] = ToM(@, Msg(IF o = "ok" THEN "NodesStarted" ELSE "BenchmarkFailure"))]
    /\ na' = [na EXCEPT ![h] = IF o = "create" THEN @ ELSE [@ EXCEPT !.eng = "set", !.running = (o = "ok"), !.cfgs = TRUE]]
    /\ nd' = [n \in NodeIds(scn) |->
                IF HostOf(scn, n) = h /\ o # "create"
                THEN [nd[n] EXCEPT !.starts = IF o = "ok" THEN @ + 1 ELSE @, !.inst = "present"]
                ELSE nd[n]]
    /\ UNCHANGED <<scn, plan, rc2m, m2d, d2m, sys2d, m2n, n2d, rcbox, mtimers, mech, disp, ho>>
    /\ act' = A("NRecvStartNodes", h, o)

(* receiveUnrecognizedMessage, StopNodes *)
NRecvStopNodes(h, r) ==
    /\ NAlive(h) /\ m2n[h] # <<>> /\ Head(m2n[h]).k = "StopNodes"
    /\ IF na[h].eng = "set" THEN RaceChoice(h, r) ELSE r = ""
    /\ m2n' = [m2n EXCEPT ![h] = Tail(@)]
    /\ IF na[h].eng = "set"
       THEN /\ nd' = StopNd(h, r)
            /\ ho' = [ho EXCEPT ![h] = @ + 1]
            /\ na' = [na EXCEPT ![h] = StoppedNa(h)]
            /\ n2m' = [n2m EXCEPT ![h] = ToM(@, Msg("NodesStopped"))]
       ELSE \* self.mechanic is None: AttributeError -> BenchmarkFailure to the sender
            /\ n2m' = [n2m EXCEPT ![h] = ToM(@, Msg("BenchmarkFailure"))]
            /\ UNCHANGED <<nd, ho, na>>
    /\ UNCHANGED <<scn, plan, rc2m, m2d, d2m, sys2d, d2n, n2d, rcbox, mtimers, mech, disp, env>>
    /\ act' = A("NRecvStopNodes", h, r)

(* receiveUnrecognizedMessage, ResetRelativeTime: resets the metrics store's clock, nothing the protocol depends on *)
NRecvReset(h) ==
    /\ NAlive(h) /\ m2n[h] # <<>> /\ Head(m2n[h]).k = "ResetRelativeTime"
    /\ m2n' = [m2n EXCEPT ![h] = Tail(@)]
    /\ UNCHANGED <<scn, plan, rc2m, m2d, d2m, sys2d, d2n, n2m, n2d, rcbox, mtimers, mech, disp, na, nd, ho, env>>
    /\ act' = A("NRecvReset", h, "")

(* receiveMsg_BenchmarkFailure: sent back to the sender *)
NRecvFailure(h) ==
    /\ NAlive(h) /\ m2n[h] # <<>> /\ Head(m2n[h]).k = "BenchmarkFailure"
    /\ m2n' = [m2n EXCEPT ![h] = Tail(@)]
    /\ n2m' = [n2m EXCEPT ![h] = ToM(@, Msg("BenchmarkFailure"))]
    /\ UNCHANGED <<scn, plan, rc2m, m2d, d2m, sys2d, d2n, n2d, rcbox, mtimers, mech, disp, na, nd, ho, env>>
    /\ act' = A("NRecvFailure", h, "")

(* ActorExitRequest (from M after EngineStopped, or from the dying parent D): stop the engine if still there, die *)
ExitTag(src, r) == CASE r = "" -> src
                     [] src = "M" /\ r = "known" -> "M+known"
                     [] src = "M" /\ r = "unknown" -> "M+unknown"
                     [] src = "D" /\ r = "known" -> "D+known"
                     [] src = "D" /\ r = "unknown" -> "D+unknown"
NRecvExit(h, src, r) ==
    /\ NAlive(h)
    /\ \/ src = "M" /\ m2n[h] # <<>> /\ Head(m2n[h]).k = "Exit"
       \/ src = "D" /\ d2n[h] # <<>> /\ Head(d2n[h]).k = "Exit"
    /\ IF na[h].eng = "set" THEN RaceChoice(h, r) ELSE r = ""
    /\ IF na[h].eng = "set"
       THEN nd' = StopNd(h, r) /\ ho' = [ho EXCEPT ![h] = @ + 1]
       ELSE UNCHANGED <<nd, ho>>
    /\ na' = [na EXCEPT ![h] = [StoppedNa(h) EXCEPT !.alive = FALSE]]
    /\ m2n' = [m2n EXCEPT ![h] = <<>>] /\ d2n' = [d2n EXCEPT ![h] = <<>>]
    /\ n2d' = [n2d EXCEPT ![h] = ToD(@, Msg("ChildActorExited"))]
    /\ UNCHANGED <<scn, plan, rc2m, m2d, d2m, sys2d, n2m, rcbox, mtimers, mech, disp, env>>
    /\ act' = A("NRecvExit", h, ExitTag(src, r))

(* WakeupMessage: periodic flush of the metrics store (not refresh), re-armed; no effect on anything modelled. *)
(* Only used by trace validation, not part of Next.                                                           *)
NWakeup(h) ==
    /\ NAlive(h)
    /\ UNCHANGED <<scn, plan, rc2m, m2d, d2m, sys2d, d2n, n2m, m2n, n2d, rcbox, mtimers, mech, disp, na, nd, ho, env>>
    /\ act' = A("NWakeup", h, "")

-----------------------------------------------------------------------------
(* Environment: race control (what BenchmarkActor / racecontrol.race do), remote Rally daemons *)

(* BenchmarkComplete -> StopEngine; only after EngineStarted *)
RcStop ==
    /\ Started /\ ~Failed /\ ~env.stopSent /\ ~env.torn
    /\ rc2m' = ToM(rc2m, Msg("StopEngine"))
    /\ env' = [env EXCEPT !.stopSent = TRUE]
    /\ UNCHANGED <<scn, plan, m2d, d2m, sys2d, d2n, n2m, m2n, n2d, rcbox, mtimers, mech, disp, na, nd, ho>>
    /\ act' = A("RcStop", 0, "")

(* TaskFinished -> ResetRelativeTime(next_task_scheduled_in); k = 0: at once, k = 1: after a delay *)
RcReset(k) ==
    /\ Started /\ ~Failed /\ ~env.stopSent /\ ~env.torn /\ env.resets < MaxResets
    /\ k \in {0, 1}
    /\ rc2m' = ToM(rc2m, Reset(k))
    /\ env' = [env EXCEPT !.resets = @ + 1]
    /\ UNCHANGED <<scn, plan, m2d, d2m, sys2d, d2n, n2m, m2n, n2d, rcbox, mtimers, mech, disp, na, nd, ho>>
    /\ act' = A("RcReset", k, "")

(* after a failure or after EngineStopped the benchmark actor exits; thespian forwards the exit request to its child M *)
(* (after EngineStopped only when no further lifecycle is planned: otherwise the mechanic is reused, RcRestart)          *)
RcTeardown ==
    /\ ~env.torn /\ (Failed \/ (Stopped /\ plan = <<>>))
    /\ rc2m' = ToM(rc2m, Msg("Exit"))
    /\ env' = [env EXCEPT !.torn = TRUE]
    /\ UNCHANGED <<scn, plan, m2d, d2m, sys2d, d2n, n2m, m2n, n2d, rcbox, mtimers, mech, disp, na, nd, ho>>
    /\ act' = A("RcTeardown", 0, "")

(* everything that belongs to the current lifecycle is over: no message in flight, no wake-up of M pending, the node *)
(* actors gone (old Dispatchers stay alive, idle, as children of M until M exits)                                    *)
Drained == /\ rc2m = <<>> /\ m2d = <<>> /\ d2m = <<>> /\ sys2d = <<>> /\ mtimers = 0
           /\ \A h \in Hosts(scn) : d2n[h] = <<>> /\ n2m[h] = <<>> /\ m2n[h] = <<>> /\ n2d[h] = <<>> /\ ~NAlive(h)

(* the same MechanicActor is asked to start the next engine: a new StartEngine with the next configuration; whatever  *)
(* M keeps in its fields is carried over, a new Dispatcher will be created, the observations start afresh             *)
(* After a FAILED START (BenchmarkFailure before EngineStarted) the MechanicActor stays in status "starting" with the  *)
(* children and confirmations collected so far; a new StartEngine is accepted in any status.  The environment sends   *)
(* one (for a Rally-provisioned cluster) only when nothing of the failed attempt can reach M any more: no message in  *)
(* flight, no wake-up pending, its Dispatcher no longer subscribed.  The failed attempt's Dispatcher and node actors    *)
(* (possibly with running nodes) live on, forgotten by M, until M exits; the model drops them here.                    *)
FailedStartDrained == /\ rc2m = <<>> /\ m2d = <<>> /\ d2m = <<>> /\ sys2d = <<>> /\ mtimers = 0
                      /\ \A h \in Hosts(scn) : d2n[h] = <<>> /\ n2m[h] = <<>> /\ m2n[h] = <<>> /\ n2d[h] = <<>>
                      /\ ~(DAlive /\ disp.listening)
MayRestart == /\ plan # <<>> /\ ~env.torn /\ mech.alive
              /\ \/ Stopped /\ ~Failed /\ Drained
                 \/ Failed /\ ~Started /\ ~Head(plan).ext /\ (StaleAcks \/ FailedStartDrained)
(* confirmations of the current attempt that are still under way (sent, or to be sent by a host that has not started yet) *)
UnderWay == Cardinality({h \in Hosts(scn) : \/ \E i \in 1..Len(n2m[h]) : n2m[h][i].k = "NodesStarted"
                                            \/ NAlive(h) /\ \E i \in 1..Len(d2n[h]) : d2n[h][i].k = "StartNodes"})

RcRestart ==
    /\ MayRestart
    /\ LET s == Head(plan) IN
         /\ scn' = s /\ plan' = Tail(plan)
         /\ rc2m' = <<Msg("StartEngine")>> /\ m2d' = <<>> /\ d2m' = <<>> /\ sys2d' = <<>>
         /\ d2n' = NoChan(s) /\ n2m' = NoChan(s) /\ m2n' = NoChan(s) /\ n2d' = NoChan(s)
         /\ rcbox' = <<>> /\ mtimers' = 0
         \* M keeps its fields; children it still holds are actors of the finished / failed attempt (-1), no hosts of the new one
         /\ mech' = [mech EXCEPT !.children = [i \in 1..Len(@) |-> IF @[i] = 0 THEN 0 ELSE -1]]
         /\ disp' = InitDisp
         /\ na' = [h \in Hosts(s) |-> InitNa]
         /\ nd' = [n \in NodeIds(s) |-> InitNd]
         /\ ho' = [h \in Hosts(s) |-> 0]
         /\ env' = [env EXCEPT !.left = {}, !.fault = "none", !.stopSent = FALSE, !.resets = 0, !.procs = 0, !.cyc = @ + 1,
                                 !.stale = IF StaleAcks /\ Failed THEN UnderWay ELSE 0]
    /\ act' = A("RcRestart", 0, "")

(* (StaleAcks only) receiveMsg_NodesStarted for a confirmation of the failed attempt: its sender is unknown, so it takes a   *)
(* place in `children`, and it is counted                                                                                  *)
MRecvStaleAck ==
    /\ mech.alive /\ env.stale > 0
    /\ env' = [env EXCEPT !.stale = @ - 1]
    /\ LET ch == SubSeq(<<-1>> \o mech.children, 1, Len(mech.children)) IN
       IF mech.status = "starting" /\ mech.resp + 1 = Len(ch)
       THEN /\ mech' = [mech EXCEPT !.children = ch, !.status = "cluster_started", !.resp = 0]
            /\ rcbox' = Append(rcbox, "EngineStarted")
       ELSE /\ mech' = [mech EXCEPT !.children = ch, !.resp = IF mech.status = "starting" THEN @ + 1 ELSE @]
            /\ rcbox' = rcbox
    /\ UNCHANGED <<scn, plan, rc2m, m2d, d2m, sys2d, d2n, n2m, m2n, n2d, mtimers, disp, na, nd, ho>>
    /\ act' = A("MRecvStaleAck", 0, "")

Listening == DAlive /\ disp.listening

(* the Rally daemon on a remote target host joins the convention *)
RemoteJoins(ip) ==
    /\ ip \in RemoteTargets(scn) /\ ip \notin env.up /\ ip \notin env.left
    /\ env' = [env EXCEPT !.up = @ \cup {ip}]
    /\ sys2d' = IF Listening THEN Append(sys2d, Conv(ip, TRUE)) ELSE sys2d
    /\ UNCHANGED <<scn, plan, rc2m, m2d, d2m, d2n, n2m, m2n, n2d, rcbox, mtimers, mech, disp, na, nd, ho>>
    /\ act' = A("RemoteJoins", ip, "")

(* a remote daemon whose node actors already exist leaves while the Dispatcher still waits for other daemons: its actors *)
(* die (their parent D is told), registered handlers get ActorSystemConventionUpdate(remoteAdded = False)              *)
RemoteLeaves(ip) ==
    /\ Faults /\ env.fault = "none"
    /\ Listening /\ ip \in env.up /\ ip \in RemoteTargets(scn) /\ disp.remotes[ip] = <<>>
    /\ env' = [env EXCEPT !.up = @ \ {ip}, !.left = @ \cup {ip}, !.fault = "leave"]
    /\ sys2d' = Append(sys2d, Conv(ip, FALSE))
    /\ na' = [h \in Hosts(scn) |-> IF IpOf(scn, h) = ip /\ NAlive(h) THEN [na[h] EXCEPT !.alive = FALSE] ELSE na[h]]
    /\ d2n' = [h \in Hosts(scn) |-> IF IpOf(scn, h) = ip THEN <<>> ELSE d2n[h]]
    /\ m2n' = [h \in Hosts(scn) |-> IF IpOf(scn, h) = ip THEN <<>> ELSE m2n[h]]
    /\ n2d' = [h \in Hosts(scn) |-> IF IpOf(scn, h) = ip /\ NAlive(h) THEN Append(n2d[h], Msg("ChildActorExited")) ELSE n2d[h]]
    /\ UNCHANGED <<scn, plan, rc2m, m2d, d2m, n2m, rcbox, mtimers, mech, disp, nd, ho>>
    /\ act' = A("RemoteLeaves", ip, "")

(* the OS process of a started, not yet stopped node gets into condition c: "early" = it is gone before the engine is *)
(* stopped (crash, OOM kill), "late" = it dies while being terminated, "stubborn" = it ignores SIGTERM and dies on      *)
(* SIGKILL, "vanish" = it is still there after the grace period but gone when SIGKILL is sent.  Nobody is told.        *)
NodeProcess(n, c) ==
    /\ env.procs < MaxProcs
    /\ n \in NodeIds(scn) /\ c \in ProcConds
    /\ NAlive(HostOf(scn, n)) /\ na[HostOf(scn, n)].running /\ nd[n].proc = "alive"
    /\ nd' = [nd EXCEPT ![n].proc = c]
    /\ env' = [env EXCEPT !.procs = @ + 1]
    /\ UNCHANGED <<scn, plan, rc2m, m2d, d2m, sys2d, d2n, n2m, m2n, n2d, rcbox, mtimers, mech, disp, na, ho>>
    /\ act' = A("NodeProcess", n, c)

-----------------------------------------------------------------------------
MaxHosts == 3
ActorStep == \/ MRecvStartEngine \/ MRecvReset \/ MWakeup \/ MRecvFailureD \/ MRecvStopEngine \/ MRecvExit
             \/ DRecvStartEngine \/ DRecvConv(LeaveFix) \/ DRecvExit
             \/ \E h \in Hosts(scn) : \/ MRecvNodesStarted(h) \/ MRecvFailureN(h) \/ MRecvNodesStopped(h) \/ DRecvChildExited(h)
                                      \/ NRecvStartNodes(h, "ok") \/ NRecvReset(h) \/ NRecvFailure(h)
                                      \/ \E r \in {"known", "unknown", ""} : \/ NRecvStopNodes(h, r)
                                                                           \/ NRecvExit(h, "M", r) \/ NRecvExit(h, "D", r)
(* what the environment is assumed to do eventually: race control goes on, awaited daemons join *)
EnvProgress == RcStop \/ RcTeardown \/ RcRestart \/ \E ip \in RIps : RemoteJoins(ip)
Progress == ActorStep \/ EnvProgress
FaultStep == \/ \E h \in Hosts(scn) : NRecvStartNodes(h, "create") \/ NRecvStartNodes(h, "launch")
             \/ \E ip \in RIps : RemoteLeaves(ip)

(* flat, so that TLC's coverage names every handler *)
Next == \/ MRecvStartEngine \/ MRecvReset \/ MWakeup \/ MRecvFailureD \/ MRecvStopEngine \/ MRecvExit
        \/ DRecvStartEngine \/ DRecvConv(LeaveFix) \/ DRecvExit
        \/ \E h \in Hosts(scn) : MRecvNodesStarted(h)
        \/ \E h \in Hosts(scn) : MRecvFailureN(h)
        \/ \E h \in Hosts(scn) : MRecvNodesStopped(h)
        \/ \E h \in Hosts(scn) : DRecvChildExited(h)
        \/ \E h \in Hosts(scn) : \E o \in {"ok", "create", "launch"} : NRecvStartNodes(h, o)
        \/ \E h \in Hosts(scn) : \E r \in {"known", "unknown", ""} : NRecvStopNodes(h, r)
        \/ \E h \in Hosts(scn) : NRecvReset(h)
        \/ \E h \in Hosts(scn) : NRecvFailure(h)
        \/ \E h \in Hosts(scn) : \E src \in {"M", "D"} : \E r \in {"known", "unknown", ""} : NRecvExit(h, src, r)
        \/ RcStop \/ RcTeardown \/ RcRestart \/ \E k \in {0, 1} : RcReset(k)
        \/ MRecvStaleAck
        \/ \E ip \in RIps : RemoteJoins(ip)
        \/ \E ip \in RIps : RemoteLeaves(ip)
        \/ \E n \in NodeIds(scn) : \E c \in ProcConds : NodeProcess(n, c)

Spec == Init /\ [][Next]_vars
FairSpec == Spec /\ WF_view(Progress)

-----------------------------------------------------------------------------
(* PROPERTY C12 *)

(* race control is told the engine has started only after every target host has started all of its nodes *)
StartedOnlyWhenAll == (Started /\ ~scn.ext) => \A n \in NodeIds(scn) : nd[n].starts >= 1

(* no node is ever stopped twice *)
StopAtMostOnce == \A n \in NodeIds(scn) : nd[n].stops <= 1

(* EngineStopped only after every started node was stopped exactly once (handled by one stop; terminated unless its   *)
(* process was already gone), its system metrics were stored and its host's metrics store flushed, its results       *)
(* stored, and its installation removed unless preserve is set                                                       *)
(* (the results are added to the race only where the host's race store knows the race; otherwise that is logged)       *)
NodeDone(n) == /\ nd[n].stops = 1 /\ (nd[n].proc # "early" => nd[n].term = 1) /\ (nd[n].proc \in Survivors => nd[n].kills = 1)
               /\ nd[n].sysm >= 1 /\ (nd[n].race = "known" => nd[n].stored >= 1) /\ ho[HostOf(scn, n)] >= 1
               /\ nd[n].inst = IF scn.preserve THEN "present" ELSE "removed"
StoppedOnlyWhenAll == (Stopped /\ ~scn.ext) => \A n \in NodeIds(scn) : nd[n].starts >= 1 => NodeDone(n)

(* a host confirms (NodesStopped under way to the MechanicActor) only after every node it started is done *)
AckedOnlyWhenDone == \A h \in Hosts(scn) : (\E i \in 1..Len(n2m[h]) : n2m[h][i].k = "NodesStopped") =>
                        \A n \in NodeIds(scn) : (HostOf(scn, n) = h /\ nd[n].starts >= 1) => NodeDone(n)

(* stopping the nodes of a host never fails because of what has become of a node's process *)
StopNeverRaises == env.esc = 0

(* stop, THEN flush, THEN store: whatever a node's telemetry produces while the node is shut down (final index size, *)
(* bytes written, ...) is part of the system results stored for that node (the metrics store buffers: only flushed    *)
(* and refreshed records are found when the results are calculated)                                                  *)
ShutdownMetricsStored == \A n \in NodeIds(scn) : nd[n].stored >= 1 => nd[n].shut = nd[n].sysm

(* an externally provisioned cluster is never started or stopped *)
ExternalUntouched == scn.ext => \A n \in NodeIds(scn) : nd[n].starts = 0 /\ nd[n].stops = 0 /\ nd[n].inst = "absent"

(* a state in which nothing can happen any more unless a new fault occurs *)
ChansEmpty == /\ rc2m = <<>> /\ m2d = <<>> /\ d2m = <<>> /\ sys2d = <<>> /\ mtimers = 0
              /\ \A h \in Hosts(scn) : d2n[h] = <<>> /\ n2m[h] = <<>> /\ m2n[h] = <<>> /\ n2d[h] = <<>>
Awaited == {ip \in RemoteTargets(scn) : ip \notin env.up /\ ip \notin env.left}
RcIdle == /\ ~(Started /\ ~Failed /\ ~env.stopSent /\ ~env.torn)
          /\ ~(~env.torn /\ (Failed \/ (Stopped /\ plan = <<>>)))
          /\ ~MayRestart
Quiescent == ChansEmpty /\ RcIdle /\ (Listening => Awaited = {})

(* start-up never hangs: race control gets EngineStarted or BenchmarkFailure; after a fault it is BenchmarkFailure *)
NoStall == Quiescent => (Started \/ Failed)
FaultReported == (Quiescent /\ env.fault # "none") => Failed
FaultNeverStarted == env.fault # "none" => ~Started

(* all-or-nothing: once the actors are gone (teardown after a failure or after the stop), no started node is left running *)
(* (nodes on a host whose daemon has left are out of reach)                                                                *)
TeardownStopsAll == (Quiescent /\ ~mech.alive) =>
                        \A n \in NodeIds(scn) : (nd[n].starts >= 1 /\ IpOf(scn, HostOf(scn, n)) \notin env.left) => nd[n].stops = 1

(* ... while EngineStarted (NoStall) and EngineStopped are still answered for an external cluster *)
ExternalAnswered == (scn.ext /\ Quiescent) => /\ NN(scn) > 0 => Started
                                              /\ env.stopSent => Stopped

(* a requested stop is acknowledged (not part of the property statement; sanity of the model) *)
StopAcked == (Quiescent /\ env.stopSent) => (Stopped \/ Failed)

TypeOK == /\ mech.resp \in 0..MaxHosts /\ Len(mech.children) <= MaxHosts /\ mtimers \in 0..MaxResets
          /\ \A n \in NodeIds(scn) : nd[n].starts \in 0..1 /\ nd[n].stops \in 0..1 /\ nd[n].stored \in 0..1 /\ nd[n].term \in 0..1 /\ nd[n].kills \in 0..1 /\ nd[n].sysm \in 0..1 /\ nd[n].shut \in 0..1
          /\ \A h \in Hosts(scn) : ho[h] \in 0..1

(* liveness under weak fairness of the actors and the cooperating environment *)
MaxCycles == 3
Answered == \A c \in 1..MaxCycles : <>(env.cyc = c) => <>(env.cyc = c /\ (Started \/ Failed))
FaultLeadsToFailure == [](env.fault # "none" => <>Failed)
StopLeadsToStopped == [](env.stopSent => <>(Stopped \/ Failed))
=============================================================================
