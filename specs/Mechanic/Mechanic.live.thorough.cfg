SPECIFICATION FairSpec
CONSTANTS
  Scenarios <- ThoroughScenarios
  LeaveFix = TRUE
  MaxResets = 1
  Faults = TRUE
  StaleAcks = FALSE
  MaxProcs = 0
PROPERTY Answered
PROPERTY FaultLeadsToFailure
PROPERTY StopLeadsToStopped
CHECK_DEADLOCK FALSE
