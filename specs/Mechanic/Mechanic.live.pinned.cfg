SPECIFICATION FairSpec
CONSTANTS
  Scenarios <- LeaveScenarios
  LeaveFix = FALSE
  MaxResets = 1
  Faults = TRUE
  MaxProcs = 0
PROPERTY Answered
PROPERTY FaultLeadsToFailure
PROPERTY StopLeadsToStopped
CHECK_DEADLOCK FALSE
