SPECIFICATION FairSpec
CONSTANTS
  Scenarios <- LeaveScenarios
  LeaveFix = FALSE
  MaxResets = 1
  Faults = TRUE
  StaleAcks = FALSE
  MaxProcs = 0
PROPERTY Answered
PROPERTY FaultLeadsToFailure
PROPERTY StopLeadsToStopped
CHECK_DEADLOCK FALSE
