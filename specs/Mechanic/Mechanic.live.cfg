SPECIFICATION FairSpec
CONSTANTS
  Scenarios <- LiveScenarios
  LeaveFix = TRUE
  MaxResets = 1
  Faults = TRUE
  MaxProcs = 0
PROPERTY Answered
PROPERTY FaultLeadsToFailure
PROPERTY StopLeadsToStopped
CHECK_DEADLOCK FALSE
