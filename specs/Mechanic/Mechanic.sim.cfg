SPECIFICATION Spec
CONSTANTS
  Scenarios <- SimScenarios
  LeaveFix = TRUE
  MaxResets = 1
  Faults = TRUE
  MaxProcs = 2
INVARIANT TypeOK
CHECK_DEADLOCK FALSE
