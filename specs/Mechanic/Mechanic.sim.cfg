SPECIFICATION Spec
CONSTANTS
  Scenarios <- SimScenarios
  LeaveFix = TRUE
  MaxResets = 1
  Faults = TRUE
INVARIANT TypeOK
CHECK_DEADLOCK FALSE
