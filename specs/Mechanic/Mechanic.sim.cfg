SPECIFICATION Spec
CONSTANTS
  Scenarios <- SimScenarios
  LeaveFix = TRUE
  MaxResets = 1
  Faults = TRUE
  StaleAcks = FALSE
  MaxProcs = 2
INVARIANT TypeOK
CHECK_DEADLOCK FALSE
