\* switches = the variant the implementation exhibits (probed by the driver, which rewrites this file per run); L1 does not depend on them
SPECIFICATION TSpec
CONSTANTS
  Values = {}
  D = 1000000
  Variants = {}
  AbsBaseline = FALSE
  ZeroBaselineSigned = FALSE
CHECK_DEADLOCK FALSE
