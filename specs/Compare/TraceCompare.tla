---------------------------- MODULE TraceCompare ----------------------------
(***************************************************************************)
(* Validates recorded runs of the real ComparisonReporter (env              *)
(* VERIF_TRACES: JSON array).  One item = one pair of race results that was *)
(* stored with FileRaceStore, read back and compared:                       *)
(*   [id, proc, B: [E, nm, v], C: [E, nm, v], pairing,                      *)
(*    names ("ascii" | "unicode": alphabet of the task / job / transform /  *)
(*    index / field names), env ("inproc" | "non-utf8-locale": the run was   *)
(*    made by a child interpreter under LC_ALL=C) - optional, inputs only:   *)
(*    no clause depends on them,                                            *)
(*    fwd, swp: rows of _metrics_table(plain=False) for (B, C) and (C, B),  *)
(*    plain: rows of _metrics_table(plain=True) for (B, C),                 *)
(*    selfb, selfc: rows for (B, B) and (C, C),                             *)
(*    md, csv: [eq, esc, frows, crows, ccols] report() file / console]      *)
(* row = [s slot index (0 = label unknown to the model), m, t, u, b, c      *)
(*        (integers over D, BAD if not representable), d, p: [sg, ip, fp,  *)
(*        nd = number of decimals printed, -1 unparsed],                    *)
(*        dc, pc colour ("green" | "red" | "neutral" | "none" | "other"),   *)
(*        dt, pt printed text without colour codes].                        *)
(* L1: the clauses of property C20 (Compare.tla) on the recorded rows.      *)
(* L2: the recorded rows are the rows of the transcription (CodeRow).       *)
(* Output: <<"V", id, line, "L1"|"L2", clauses>>, line = 10 * slot + table  *)
(* (1 fwd, 2 swp, 3 selfb, 4 selfc, 5 plain, 6 md, 7 csv); <<"DONE", n, n>>. *)
(***************************************************************************)
EXTENDS Compare, Json, IOUtils

Items == JsonDeserialize(IOEnv.VERIF_TRACES)
ToSet(s) == {s[j] : j \in 1..Len(s)}

MkOf(colour) == CASE colour = "green" -> "improve" [] colour = "red" -> "regress" [] colour = "neutral" -> "neutral" [] OTHER -> colour
Obs(r) == [s |-> r.s, b |-> r.b, c |-> r.c, u |-> r.u,
           d |-> [sg |-> r.d.sg, ip |-> r.d.ip, fp |-> r.d.fp, mk |-> MkOf(r.dc)],
           p |-> [sg |-> r.p.sg, ip |-> r.p.ip, fp |-> r.p.fp, mk |-> MkOf(r.pc)]]
Struct(x) == [E |-> ToSet(x.E), nm |-> x.nm, v |-> x.v]

Known(rows) == {j \in 1..Len(rows) : rows[j].s # 0}
Dom(rows) == {rows[j].s : j \in Known(rows)}
NoDuplicates(rows) == Cardinality(Dom(rows)) = Cardinality(Known(rows))

(* clauses about printed values are evaluated in the unit and with the number of decimals the model assumes *)
(* for the row kind (cell field nd); another unit / precision is drift (L2), not a violation                 *)
Applies(cl, r) ==
    CASE cl = "ValuesShown" -> r.u = SlotSeq[r.s].unit
      [] cl \in {"DiffIsContenderMinusBaseline", "ChangeIsMarked:diff"} -> r.u = SlotSeq[r.s].unit /\ r.d.nd = 5
      [] cl \in {"RelativeDifference", "ChangeIsMarked:pct"} -> r.p.nd = 2
      [] OTHER -> TRUE
(* a row for a metric that is absent on one side has no values to judge: RowPerCommonMetric reports it *)
Both(X, Y, s) == IsDisk(s) \/ (Recorded(X, s) /\ Recorded(Y, s))
RowL1(r, X, Y) == IF Both(X, Y, r.s) THEN {cl \in RowFails(Obs(r), X, Y) : Applies(cl, r)} ELSE {}

(* all L1 results are sets of <<line, clause>> *)
TableL1(rows, X, Y, proc, tbl) ==
    UNION {{<<10 * rows[j].s + tbl, cl>> : cl \in RowL1(rows[j], X, Y)} : j \in Known(rows)}
    \cup (IF RowPerCommonMetric(Dom(rows), X, Y, proc) /\ NoDuplicates(rows) THEN {} ELSE {<<tbl, "RowPerCommonMetric">>})

(* pairing[j] = index in swp of the row for the same metric as fwd[j] (0: none); computed by the harness, checked here *)
SwapL1(fwd, swp, pairing, X, Y) ==
    LET ok(j) == pairing[j] \in 1..Len(swp) /\ fwd[j].s # 0 /\ swp[pairing[j]].s = fwd[j].s
        J == {j \in 1..Len(fwd) : ok(j) /\ Both(X, Y, fwd[j].s)}
    IN {<<10 * fwd[j].s + 1, "SwapFlips:diff">> : j \in {k \in J : ~SwapFlipsDiff(Obs(fwd[k]), Obs(swp[pairing[k]]))}}
       \cup {<<10 * fwd[j].s + 1, "SwapFlips:pct">> :
                j \in {k \in J : ~SwapFlipsPct(Obs(fwd[k]), Obs(swp[pairing[k]]), Val(X, fwd[k].s), Val(Y, fwd[k].s),
                                                fwd[k].p.nd = 2 /\ swp[pairing[k]].p.nd = 2)}}
       \cup (IF Len(pairing) = Len(fwd) /\ \A j \in 1..Len(fwd) : ok(j) \/ (fwd[j].s \notin Dom(swp)) THEN {} ELSE {<<1, "Pairing">>})

SelfL1(rows, tbl) ==
    {<<10 * rows[j].s + tbl, "SelfCompareNoDifference">> : j \in {k \in Known(rows) : ~NoDifference(Obs(rows[k]))}}

PlainL1(fwd, plain) ==
    IF /\ Len(plain) = Len(fwd)
       /\ \A j \in 1..Len(fwd) : plain[j] = [fwd[j] EXCEPT !.dc = "none", !.pc = "none"]
    THEN {} ELSE {<<5, "PlainIsRichWithoutColour">>}

FileL1(f, tbl, name) ==
    IF f.eq /\ f.esc = 0 /\ f.frows = f.crows THEN {} ELSE {<<tbl, "FileEqualsConsole:" \o name>>}

(* ---- L2: the transcription ---- *)
CellEq(oc, ec, maxf) ==
    /\ MagOk(oc, ec, maxf)
    /\ IF ec.edge THEN /\ oc.mk \in {ec.mk, "neutral"}
                       /\ oc.sg \in {ec.sg, IF ec.sg = "+" THEN "" ELSE ec.sg}
                       /\ (oc.sg = "+") = (oc.mk # "neutral" /\ ec.sg = "+")
       ELSE /\ oc.mk = ec.mk
            /\ IF Zero(oc) THEN oc.sg \in {"", "-"} ELSE oc.sg = ec.sg
RowEq(r, o, e) == /\ r.d.nd = 5 /\ r.p.nd = 2
               /\ o.b = e.b /\ o.c = e.c /\ o.u = e.u
               /\ CellEq(o.d, e.d, 99999) /\ CellEq(o.p, e.p, 99)
TableL2(rows, X, Y, proc, tbl) ==     \* set of lines that differ from the transcription
    (IF Known(rows) = 1..Len(rows) /\ NoDuplicates(rows) /\ Dom(rows) = RowSlots(X, Y, proc) THEN {} ELSE {tbl})
    \cup {10 * rows[j].s + tbl : j \in {k \in Known(rows) : ~Both(X, Y, rows[k].s) \/ ~RowEq(rows[k], Obs(rows[k]), CodeRow(X, Y, rows[k].s))}}
ReportL2(f, fwd, csv) ==
    /\ Len(f.crows) = Len(fwd) /\ Len(f.ccols) = Len(fwd)
    /\ \A j \in 1..Len(fwd) : /\ f.crows[j][1] = fwd[j].m /\ f.crows[j][2] = fwd[j].t
                              /\ f.crows[j][6] = fwd[j].u /\ f.crows[j][7] = fwd[j].pt
                              /\ f.ccols[j] = <<fwd[j].dc, fwd[j].pc>>
                              /\ csv => f.crows[j][5] = fwd[j].dt

\* NB: the cursor must not share its name with any bound identifier of Compare.tla (TLC then stops caching SlotSeq)
VARIABLES cur
TInit == /\ cur = 1 /\ pair = <<0, 0>> /\ variant = 0 /\ B = 0 /\ C = 0 /\ out = NoOut /\ done = FALSE

Check(it) ==
    LET X == Struct(it.B)
        Y == Struct(it.C)
        l1 == TableL1(it.fwd, X, Y, it.proc, 1) \cup TableL1(it.swp, Y, X, it.proc, 2)
              \cup SwapL1(it.fwd, it.swp, it.pairing, X, Y)
              \cup SelfL1(it.selfb, 3) \cup SelfL1(it.selfc, 4)
              \cup PlainL1(it.fwd, it.plain)
              \cup FileL1(it.md, 6, "markdown") \cup FileL1(it.csv, 7, "csv")
        l2 == TableL2(it.fwd, X, Y, it.proc, 1) \cup TableL2(it.swp, Y, X, it.proc, 2)
              \cup TableL2(it.selfb, X, X, it.proc, 3) \cup TableL2(it.selfc, Y, Y, it.proc, 4)
              \cup (IF ReportL2(it.md, it.fwd, FALSE) THEN {} ELSE {6}) \cup (IF ReportL2(it.csv, it.fwd, TRUE) THEN {} ELSE {7})
    IN /\ \A x \in l1 : PrintT(<<"V", it.id, x[1], "L1", {x[2]}>>)
       /\ \A x \in l2 : PrintT(<<"V", it.id, x, "L2", {}>>)

TNext == /\ cur <= Len(Items)
         /\ Check(Items[cur])
         /\ cur' = cur + 1
         /\ IF cur < Len(Items) THEN TRUE ELSE PrintT(<<"DONE", Len(Items), Len(Items)>>)
         /\ UNCHANGED vars

TSpec == TInit /\ [][TNext]_<<vars, cur>>
=============================================================================
