------------------------------ MODULE Compare ------------------------------
(***************************************************************************)
(* `esrally compare`: the table ComparisonReporter._metrics_table builds    *)
(* from two stored race results (property C20).  Function-like: Init       *)
(* chooses a pair of small result structures, Eval computes the rows.      *)
(*                                                                         *)
(* A result structure is R = [E, v]: E = the entities (1, 2) that exist in  *)
(* the race (task t<e>, ML job j<e>, transform x<e>), v[i] = the value of   *)
(* metric slot i in the unit the report displays (min, s, GB, MB, ms, %,    *)
(* ...) as an integer over the common denominator D, or NA (= absent /      *)
(* None).  Constants give values as rationals <<num, den>> (den divides D). *)
(* All arithmetic stays below 2^31: |v[i]| <= 10^7.                         *)
(***************************************************************************)
EXTENDS Integers, Sequences, FiniteSets, TLC

CONSTANTS Values,              \* set of <<num, den>>: the values a metric may take
          D,                   \* common denominator; a divisor or a multiple of 10^5
          Variants,            \* set of [eb, ec, nb, nc, shift, proc]: structure of the two races (entities, naming modes)
          AbsBaseline,         \* TRUE: repaired (relative difference divides by |baseline|); FALSE: current code (divides by baseline)
          ZeroBaselineSigned   \* TRUE: repaired (change from a zero baseline is a signed, coloured "inf%"); FALSE: current code ("0.00%" neutral)

NA == -2000000000
Abs(x) == IF x < 0 THEN -x ELSE x
Sgn(x) == IF x > 0 THEN 1 ELSE IF x < 0 THEN -1 ELSE 0
Scale(q) == q[1] * (D \div q[2])

(***************************************************************************)
(* The metric slots: every row kind the reporter has.                      *)
(* g group, e entity (0 = global), k key, s stat, dir "hi" = higher is      *)
(* better / "lo" = lower is better (the property's Dir), unit as displayed. *)
(***************************************************************************)
S(g, e, k, s, dir, unit) == [g |-> g, e |-> e, k |-> k, s |-> s, dir |-> dir, unit |-> unit]

TimeKinds == <<"indexing", "indexing throttle", "merge", "merge throttle", "refresh", "flush">>
CountKinds == <<"merge", "refresh", "flush">>
ShardStats == <<"min", "median", "max">>
SummaryStats == <<"min", "mean", "median", "max">>
GcKinds == <<"young", "old", "zgc_cycles", "zgc_pauses">>
SizeKinds == <<"dataset", "store", "translog">>
MemKinds == <<"segments", "doc_values", "terms", "norms", "points", "stored_fields">>
TransformStats == <<"processing", "index", "search", "throughput">>
IngestStats == <<"count", "time", "failed">>
DiskFields == <<"f1", "f2">>
DiskStats == <<"inverted index", "stored fields", "doc values", "points", "norms", "term vectors", "total">>
Percentiles == <<"50", "90", "99", "99.9", "99.99", "100">>
LatencyGroups == <<"latency", "service_time", "processing_time">>

Idx(i, n) == ((i - 1) % n) + 1            \* inner index of a flattened product
Odx(i, n) == ((i - 1) \div n) + 1         \* outer index

GlobalSlots ==
       [i \in 1..6 |-> S("cum", 0, TimeKinds[i], "time", "lo", "min")]
    \o [i \in 1..3 |-> S("cum", 0, CountKinds[i], "count", "lo", "")]
    \o [i \in 1..18 |-> S("shard", 0, TimeKinds[Odx(i, 3)], ShardStats[Idx(i, 3)], "lo", "min")]
    \o [i \in 1..4 |-> S("gc", 0, GcKinds[i], "time", "lo", "s")]
    \o [i \in 1..4 |-> S("gc", 0, GcKinds[i], "count", "lo", "")]
    \o [i \in 1..3 |-> S("size", 0, SizeKinds[i], "bytes", "lo", "GB")]
    \o [i \in 1..6 |-> S("mem", 0, MemKinds[i], "bytes", "lo", "MB")]
    \o <<S("segments", 0, "", "count", "lo", "")>>
    \o [i \in 1..3 |-> S("ingest", 0, "", IngestStats[i], "lo", IF IngestStats[i] = "time" THEN "ms" ELSE "")]
    \o [i \in 1..14 |-> S("disk", 0, DiskFields[Odx(i, 7)], DiskStats[Idx(i, 7)], "lo", "bytes")]

EntitySlots(e) ==
       [i \in 1..4 |-> S("ml", e, "", SummaryStats[i], "lo", "ms")]
    \o [i \in 1..4 |-> S("transform", e, "", TransformStats[i],
                         IF TransformStats[i] = "throughput" THEN "hi" ELSE "lo",
                         IF TransformStats[i] = "throughput" THEN "docs/s" ELSE "ms")]
    \o [i \in 1..4 |-> S("throughput", e, "", SummaryStats[i], "hi", "docs/s")]
    \o [i \in 1..18 |-> S(LatencyGroups[Odx(i, 6)], e, "", Percentiles[Idx(i, 6)], "lo", "ms")]
    \o <<S("error_rate", e, "", "", "lo", "%")>>

SlotSeq == GlobalSlots \o EntitySlots(1) \o EntitySlots(2)
N == Len(SlotSeq)
Slots == 1..N
Entities == {1, 2}

(* The property's Dir(metric), from the statement: higher throughput is better; latency, service and      *)
(* processing time, error rate, times, counts and sizes: lower is better.                                   *)
Dir(i) == IF SlotSeq[i].g = "throughput" \/ (SlotSeq[i].g = "transform" /\ SlotSeq[i].s = "throughput") THEN "hi" ELSE "lo"

IsDisk(i) == SlotSeq[i].g = "disk"
DiskTotal(i) == CHOOSE j \in Slots : SlotSeq[j].g = "disk" /\ SlotSeq[j].k = SlotSeq[i].k /\ SlotSeq[j].s = "total"
(***************************************************************************)
(* Names.  Entity e is task t<e> in every race; ML job j<e>, transform x<e>.*)
(* R.nm selects how the op_metrics records of a race name task and          *)
(* operation and in which order they are stored (NamingSeq[R.nm + 1]):      *)
(* the per-task rows of task t<e> show the values stored for THAT record,   *)
(* whatever the operation names are - also when a task's name is the        *)
(* operation name of another, differently named task (a track that runs     *)
(* one operation twice and names only one of the tasks), in either order,   *)
(* and for records without a task name (before Rally 0.8.0: task = the      *)
(* operation name).  t<e> = "" means: the record has no "task" key.         *)
(* The spelling of the names (ASCII or not) and the locale of the process   *)
(* that compares are inputs of the harness only: nothing here depends on    *)
(* them ("any tasks").                                                      *)
(***************************************************************************)
Nm(t1, o1, t2, o2, rev) == [t1 |-> t1, o1 |-> o1, t2 |-> t2, o2 |-> o2, rev |-> rev]
NamingSeq == << Nm("t1", "op1", "t2", "op2", FALSE),    \* 0 plain
                Nm("t1", "t2", "t2", "t2", FALSE),      \* 1 task t2 is named like the operation of the EARLIER task t1
                Nm("t1", "t1", "t2", "t1", FALSE),      \* 2 task t1 is named like the operation of the LATER task t2
                Nm("t1", "t2", "t2", "t2", TRUE),       \* 3 as 1, records stored in the order t2, t1
                Nm("t1", "t1", "t2", "t1", TRUE),       \* 4 as 2, records stored in the order t2, t1
                Nm("", "t1", "", "t2", FALSE) >>        \* 5 records without task name
NamingModes == 0..(Len(NamingSeq) - 1)
(* the task a per-task row belongs to is identified by the task name alone *)
TaskNameOf(nm, e) == LET r == NamingSeq[nm + 1]
                         t == IF e = 1 THEN r.t1 ELSE r.t2
                         o == IF e = 1 THEN r.o1 ELSE r.o2
                     IN IF t = "" THEN o ELSE t
NamesIdentifyEntities == \A nm \in NamingModes : TaskNameOf(nm, 1) = "t1" /\ TaskNameOf(nm, 2) = "t2"

Exists(R, i) == SlotSeq[i].e = 0 \/ SlotSeq[i].e \in R.E
Recorded(R, i) == Exists(R, i) /\ R.v[i] # NA
(* per-field disk usage: the reporter's convention is "not recorded = 0 bytes" *)
Val(R, i) == IF IsDisk(i) /\ R.v[i] = NA THEN 0 ELSE R.v[i]

(***************************************************************************)
(* Which metrics get a row.                                                *)
(*  Need: the property's reading ("each metric present in both"):          *)
(*   "must" / "no"; "may" where the statement leaves it open (processing    *)
(*   time when the option is off; per-field disk usage that is irregular:   *)
(*   one side not recorded = 0 bytes, 0 on both sides, no total recorded).  *)
(*  CodeHasRow: transcription of the reporter.                             *)
(***************************************************************************)
Need(B, C, proc, i) ==
    IF IsDisk(i) THEN
        IF ~Recorded(B, i) /\ ~Recorded(C, i) THEN "no"
        ELSE IF /\ Recorded(B, i) /\ Recorded(C, i) /\ ~(B.v[i] = 0 /\ C.v[i] = 0)
                /\ Recorded(B, DiskTotal(i)) /\ Recorded(C, DiskTotal(i)) THEN "must"
        ELSE "may"
    ELSE IF Recorded(B, i) /\ Recorded(C, i) THEN
        IF SlotSeq[i].g = "processing_time" /\ ~proc THEN "may" ELSE "must"
    ELSE "no"

AnyDiskTotal(R) == \E j \in Slots : IsDisk(j) /\ SlotSeq[j].s = "total" /\ R.v[j] # NA

CodeHasRow(B, C, proc, i) ==
    IF IsDisk(i) THEN
        /\ AnyDiskTotal(B) /\ AnyDiskTotal(C)                               \* "skip if disk_usage_total does not exist"
        /\ (B.v[DiskTotal(i)] # NA \/ (C.v[DiskTotal(i)] # NA /\ C.v[DiskTotal(i)] > 0))   \* fields are enumerated from the totals ("best" total, initially 0)
        /\ ~(Val(B, i) = 0 /\ Val(C, i) = 0)
    ELSE /\ Recorded(B, i) /\ Recorded(C, i)
         /\ (SlotSeq[i].g = "processing_time" => proc)

(***************************************************************************)
(* Printed numbers.  A cell is [sg, ip, fp, mk]: sign character, integer    *)
(* part, fraction digits (5 for Diff, 2 for Diff %), mark.  ip = -1: "inf". *)
(* Model cells carry tie (exact value is a rounding tie) and edge (exact    *)
(* value sits on the neutral threshold): floating point decides those.      *)
(***************************************************************************)
Mark(sign, dir) == IF sign = 0 THEN "neutral" ELSE IF (sign > 0) = (dir = "hi") THEN "improve" ELSE "regress"
Flip(mk) == IF mk = "improve" THEN "regress" ELSE IF mk = "regress" THEN "improve" ELSE mk

K == D \div 100000
(* a = |contender - baseline| over D  ->  a / D rounded to 5 decimals *)
DiffMag(a) ==
    LET ip0 == a \div D
        rem == a % D
    IN IF D <= 100000 THEN [ip |-> ip0, fp |-> rem * (100000 \div D), tie |-> FALSE]
       ELSE LET q == rem \div K
                rr == rem % K
                f == IF 2 * rr >= K THEN q + 1 ELSE q
            IN [ip |-> IF f = 100000 THEN ip0 + 1 ELSE ip0, fp |-> IF f = 100000 THEN 0 ELSE f, tie |-> 2 * rr = K]
DiffClear(a) == IF D <= 100000 THEN a >= 1 ELSE a >= K                      \* |x| >= 10^-5: the code's threshold
DiffEdge(a) == IF D < 100000 THEN FALSE ELSE a = K

(* the code's relative-difference definition: (contender - baseline) / baseline * 100, 0 for a zero baseline; *)
(* a = |contender - baseline|, m = |baseline| > 0  ->  100 a / m rounded to 2 decimals                        *)
PctMag(a, m) ==
    LET q0 == a \div m
        h1 == 100 * (a % m)
        i1 == h1 \div m
        h2 == 100 * (h1 % m)
        f0 == h2 \div m
        r2 == h2 % m
        f == IF 2 * r2 >= m THEN f0 + 1 ELSE f0
        ipp == 100 * q0 + i1
    IN [ip |-> IF f = 100 THEN ipp + 1 ELSE ipp, fp |-> IF f = 100 THEN 0 ELSE f, tie |-> 2 * r2 = m]
PctClear(a, m) == a >= (m + 9999) \div 10000                                \* 100 a / m >= 10^-2
PctEdge(a, m) == m % 10000 = 0 /\ a = m \div 10000

CodeDiffCell(b, c, dir) ==
    LET d == c - b
        a == Abs(d)
        m == DiffMag(a)
        clear == DiffClear(a)
    IN [sg |-> IF clear /\ d > 0 THEN "+" ELSE IF d < 0 THEN "-" ELSE "",
        ip |-> m.ip, fp |-> m.fp,
        mk |-> IF clear THEN Mark(Sgn(d), dir) ELSE "neutral",
        tie |-> m.tie, edge |-> DiffEdge(a)]

(* CodePctCell: the code's relative difference (Diff %): 100 (c - b) / b with the sign of the quotient, and its       *)
(* zero-baseline behaviour (_safe_divide: 0, printed 0.00% neutral); the switches select the repaired variants       *)
CodePctCell(b, c, dir) ==
    LET d == c - b
        a == Abs(d)
    IN IF b = 0 THEN
           IF ZeroBaselineSigned /\ d # 0
           THEN [sg |-> IF d > 0 THEN "+" ELSE "-", ip |-> -1, fp |-> 0, mk |-> Mark(Sgn(d), dir), tie |-> FALSE, edge |-> FALSE]
           ELSE [sg |-> "", ip |-> 0, fp |-> 0, mk |-> "neutral", tie |-> FALSE, edge |-> FALSE]      \* _safe_divide
       ELSE LET sx == IF AbsBaseline THEN Sgn(d) ELSE Sgn(d) * Sgn(b)
                m == PctMag(a, Abs(b))
                clear == PctClear(a, Abs(b))
            IN [sg |-> IF clear /\ sx > 0 THEN "+" ELSE IF sx < 0 THEN "-" ELSE "",
                ip |-> m.ip, fp |-> m.fp,
                mk |-> IF clear THEN Mark(sx, dir) ELSE "neutral",
                tie |-> m.tie, edge |-> PctEdge(a, Abs(b))]

(* direction flag per row kind as the code passes it (treat_increase_as_improvement) *)
CodeDir(i) == SlotSeq[i].dir

CodeRow(B, C, i) ==
    [s |-> i, b |-> Val(B, i), c |-> Val(C, i), u |-> SlotSeq[i].unit,
     d |-> CodeDiffCell(Val(B, i), Val(C, i), CodeDir(i)),
     p |-> CodePctCell(Val(B, i), Val(C, i), CodeDir(i))]

RowSlots(B, C, proc) == {i \in Slots : CodeHasRow(B, C, proc, i)}     \* one row per slot in this set: CodeRow(B, C, i)

(***************************************************************************)
(* Property C20 as predicates over an observed row o = [s, b, c, d, p]      *)
(* (cells [sg, ip, fp, mk]) and the inputs, so that the trace specification *)
(* evaluates the same formulas on rows recorded from the implementation.   *)
(***************************************************************************)
Zero(cell) == cell.ip = 0 /\ cell.fp = 0
Neg(cell) == cell.sg = "-"
MagOk(cell, m, maxf) ==
    \/ cell.ip = m.ip /\ cell.fp = m.fp
    \/ m.tie /\ (IF m.fp > 0 THEN cell.ip = m.ip /\ cell.fp = m.fp - 1 ELSE cell.ip = m.ip - 1 /\ cell.fp = maxf)

ValuesShown(o, b, c) == o.b = b /\ o.c = c

DiffIsContenderMinusBaseline(o, b, c) ==
    /\ MagOk(o.d, DiffMag(Abs(c - b)), 99999)
    /\ ~Zero(o.d) => (Neg(o.d) <=> c < b)
    /\ o.d.sg = "+" => c > b

(* relative difference: |c - b| / |b| in percent; nothing is demanded for a zero baseline *)
RelativeDifference(o, b, c) == b # 0 => MagOk(o.p, PctMag(Abs(c - b), Abs(b)), 99)

DiffStrictlyClear(b, c) == DiffClear(Abs(c - b)) /\ ~DiffEdge(Abs(c - b))
PctStrictlyClear(b, c) == b # 0 /\ PctClear(Abs(c - b), Abs(b)) /\ ~PctEdge(Abs(c - b), Abs(b))

(* an improvement / regression mark agrees with the metric's direction and the sign of contender - baseline *)
MarkMatchesDirectionDiff(o, b, c, dir) == o.d.mk # "neutral" => o.d.mk = Mark(Sgn(c - b), dir)
MarkMatchesDirectionPct(o, b, c, dir) == o.p.mk # "neutral" => o.p.mk = Mark(Sgn(c - b), dir)
(* a change that is clearly above the printing resolution is marked *)
ChangeIsMarkedDiff(o, b, c) == DiffStrictlyClear(b, c) => o.d.mk # "neutral"
ChangeIsMarkedPct(o, b, c) == PctStrictlyClear(b, c) => o.p.mk # "neutral"

ZeroPrintsNeutral(o) == /\ Zero(o.d) => (o.d.mk = "neutral" /\ o.d.sg # "+")
                        /\ Zero(o.p) => (o.p.mk = "neutral" /\ o.p.sg # "+")

NoDifference(o) == Zero(o.d) /\ Zero(o.p) /\ o.d.mk = "neutral" /\ o.p.mk = "neutral"

(* o: row of compare(baseline = b, contender = c); q: row of the same metric in compare(baseline = c, contender = b) *)
SwapFlipsDiff(o, q) ==
    /\ o.d.ip = q.d.ip /\ o.d.fp = q.d.fp
    /\ q.d.mk = Flip(o.d.mk)
    /\ ~Zero(o.d) => (Neg(o.d) # Neg(q.d))
(* strict: the Diff % cells are printed with 2 decimals (the resolution PctStrictlyClear assumes) *)
SwapFlipsPct(o, q, b, c, strict) ==
    IF b = c THEN TRUE
    ELSE IF strict /\ (b = 0 \/ PctStrictlyClear(b, c)) /\ (c = 0 \/ PctStrictlyClear(c, b))
         THEN /\ o.p.mk # "neutral" /\ q.p.mk = Flip(o.p.mk)
              /\ ~Zero(o.p) /\ ~Zero(q.p) /\ (Neg(o.p) # Neg(q.p))
         ELSE ~(o.p.mk # "neutral" /\ o.p.mk = q.p.mk)

RowClauses == {"ValuesShown", "DiffIsContenderMinusBaseline", "RelativeDifference",
               "MarkMatchesDirection:diff", "MarkMatchesDirection:pct",
               "ChangeIsMarked:diff", "ChangeIsMarked:pct", "ZeroPrintsNeutral"}
RowHolds(cl, o, b, c, dir) ==
    CASE cl = "ValuesShown" -> ValuesShown(o, b, c)
      [] cl = "DiffIsContenderMinusBaseline" -> DiffIsContenderMinusBaseline(o, b, c)
      [] cl = "RelativeDifference" -> RelativeDifference(o, b, c)
      [] cl = "MarkMatchesDirection:diff" -> MarkMatchesDirectionDiff(o, b, c, dir)
      [] cl = "MarkMatchesDirection:pct" -> MarkMatchesDirectionPct(o, b, c, dir)
      [] cl = "ChangeIsMarked:diff" -> ChangeIsMarkedDiff(o, b, c)
      [] cl = "ChangeIsMarked:pct" -> ChangeIsMarkedPct(o, b, c)
      [] cl = "ZeroPrintsNeutral" -> ZeroPrintsNeutral(o)
RowFails(o, B, C) == {cl \in RowClauses : ~RowHolds(cl, o, Val(B, o.s), Val(C, o.s), Dir(o.s))}

(* rows: function slot -> row ("one row per metric"); table-level clause *)
RowPerCommonMetric(dom, B, C, proc) ==
    /\ \A i \in Slots : Need(B, C, proc, i) = "must" => i \in dom
    /\ \A i \in dom : Need(B, C, proc, i) # "no"

(***************************************************************************)
VARIABLES pair, variant, B, C, out, done
vars == <<pair, variant, B, C, out, done>>

ValuesNA == {Scale(q) : q \in Values} \cup {NA}

(* every slot gets the pair (pair[1], pair[2]); every other slot gets it the other way round *)
Build(E, nm, x, y, shift) == [E |-> E, nm |-> nm, v |-> [i \in Slots |-> IF (i + shift) % 2 = 0 THEN x ELSE y]]

NoOut == [rows |-> 0, improve |-> 0, regress |-> 0, neutral |-> 0]

Init == /\ pair \in ValuesNA \X ValuesNA
        /\ variant \in Variants
        /\ B = Build(variant.eb, variant.nb, pair[1], pair[2], variant.shift)
        /\ C = Build(variant.ec, variant.nc, pair[2], pair[1], variant.shift)
        /\ out = NoOut
        /\ done = FALSE

CountMk(X, Y, dom, mk) == Cardinality({i \in dom : CodeRow(X, Y, i).d.mk = mk}) + Cardinality({i \in dom : CodeRow(X, Y, i).p.mk = mk})

Eval == /\ ~done
        /\ LET dom == RowSlots(B, C, variant.proc)
           IN out' = [rows |-> Cardinality(dom),
                      improve |-> CountMk(B, C, dom, "improve"),
                      regress |-> CountMk(B, C, dom, "regress"),
                      neutral |-> CountMk(B, C, dom, "neutral")]
        /\ done' = TRUE
        /\ UNCHANGED <<pair, variant, B, C>>

Spec == Init /\ [][Eval]_vars

(***************************************************************************)
(* The property on the model's own tables                                  *)
(***************************************************************************)
TableHolds(X, Y, proc) ==
    LET dom == RowSlots(X, Y, proc)
    IN /\ RowPerCommonMetric(dom, X, Y, proc)
       /\ RowPerCommonMetric(RowSlots(Y, X, proc), Y, X, proc)
       /\ \A i \in dom : RowFails(CodeRow(X, Y, i), X, Y) = {}
       /\ \A i \in dom \cap RowSlots(Y, X, proc) :
               /\ SwapFlipsDiff(CodeRow(X, Y, i), CodeRow(Y, X, i))
               /\ SwapFlipsPct(CodeRow(X, Y, i), CodeRow(Y, X, i), Val(X, i), Val(Y, i), TRUE)

SelfHolds(X, proc) == \A i \in RowSlots(X, X, proc) : NoDifference(CodeRow(X, X, i))

(* plain = rich without colour codes: in the model both are the same rows, the plain ones carry no mark *)
PropertyHolds == done => /\ TableHolds(B, C, variant.proc)
                         /\ SelfHolds(B, variant.proc) /\ SelfHolds(C, variant.proc)

(* the code's direction flags are the statement's directions *)
DirectionsAgree == \A i \in Slots : CodeDir(i) = Dir(i)
=============================================================================
