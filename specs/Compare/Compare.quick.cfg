\* repaired behaviour (both switches TRUE): the property must hold in the model
SPECIFICATION Spec
CONSTANTS
  Values <- VQuick
  D = 1000000
  Variants <- VarQuick
  AbsBaseline = TRUE
  ZeroBaselineSigned = TRUE
INVARIANT PropertyHolds
CHECK_DEADLOCK FALSE
