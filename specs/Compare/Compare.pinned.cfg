\* the reporter as it is (relative difference divides by the signed baseline; zero baseline prints 0.00% neutral). Self-test only.
SPECIFICATION Spec
CONSTANTS
  Values <- VQuick
  D = 1000000
  Variants <- VarQuick
  AbsBaseline = FALSE
  ZeroBaselineSigned = FALSE
INVARIANT PropertyHolds
CHECK_DEADLOCK FALSE
