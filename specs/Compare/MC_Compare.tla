---- MODULE MC_Compare ----
EXTENDS Compare
\* 0, a value below the printing resolution (4*10^-6), 1/2, 1, 3, a negative value
VQuick == {<<0, 1>>, <<1, 250000>>, <<1, 2>>, <<1, 1>>, <<3, 1>>, <<-2, 1>>}
\* + values whose differences fall between "prints as zero" and the colouring threshold (7*10^-6, 7*10^-5 relative),
\*   a second negative value and a large one
VThorough == VQuick \cup {<<1000007, 1000000>>, <<100007, 100000>>, <<-1, 2>>, <<10, 1>>}
Var(eb, ec, shift, proc) == [eb |-> eb, ec |-> ec, shift |-> shift, proc |-> proc]
VarQuick == {Var({1, 2}, {1, 2}, 0, TRUE), Var({1, 2}, {1, 2}, 1, FALSE),
             Var({1, 2}, {2}, 1, TRUE), Var({1}, {1, 2}, 0, FALSE),
             Var({1}, {2}, 0, TRUE), Var({}, {1}, 1, TRUE)}
\* all ordered pairs are enumerated, so shift = 1 adds nothing once every entity combination is there
VarThorough == {Var(eb, ec, 0, Cardinality(eb) + Cardinality(ec) # 3) : eb \in SUBSET {1, 2}, ec \in SUBSET {1, 2}}
\* the slot table, printed once for the harness (binding of slots to race.json fields and row labels)
ASSUME PrintT(<<"SLOTS", SlotSeq>>)
\* the direction flag the transcription passes for every row kind is the statement's direction
ASSUME DirectionsAgree
====
