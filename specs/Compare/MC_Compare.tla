---- MODULE MC_Compare ----
EXTENDS Compare
\* 0, a value below the printing resolution (4*10^-6), 1/2, 1, 3, a negative value
VQuick == {<<0, 1>>, <<1, 250000>>, <<1, 2>>, <<1, 1>>, <<3, 1>>, <<-2, 1>>}
\* + values whose differences fall between "prints as zero" and the colouring threshold (7*10^-6, 7*10^-5 relative),
\*   a second negative value and a large one
VThorough == VQuick \cup {<<1000007, 1000000>>, <<100007, 100000>>, <<-1, 2>>, <<10, 1>>}
VarN(eb, ec, nb, nc, shift, proc) == [eb |-> eb, ec |-> ec, nb |-> nb, nc |-> nc, shift |-> shift, proc |-> proc]
Var(eb, ec, shift, proc) == VarN(eb, ec, 0, 0, shift, proc)
\* naming modes (NamingSeq): 1 = a task named like the operation of an earlier task, 4 / 2 = of a later task (both storage orders)
\* (quick: the two variants with both tasks on both sides carry the colliding names; plain names with both tasks: thorough + random pairs)
VarQuick == {VarN({1, 2}, {1, 2}, 4, 2, 0, TRUE), VarN({1, 2}, {1, 2}, 1, 1, 1, FALSE),
             Var({1, 2}, {2}, 1, TRUE), Var({1}, {1, 2}, 0, FALSE),
             Var({1}, {2}, 0, TRUE), Var({}, {1}, 1, TRUE)}
\* all ordered pairs are enumerated, so shift = 1 adds nothing once every entity combination is there
VarThorough == {Var(eb, ec, 0, Cardinality(eb) + Cardinality(ec) # 3) : eb \in SUBSET {1, 2}, ec \in SUBSET {1, 2}}
               \cup {VarN({1, 2}, {1, 2}, k, k, 0, TRUE) : k \in 1..5}
               \cup {VarN({1, 2}, {1, 2}, 1, 0, 0, TRUE), VarN({1, 2}, {1, 2}, 0, 1, 0, FALSE), VarN({1, 2}, {1, 2}, 4, 2, 0, TRUE), VarN({1, 2}, {1, 2}, 3, 5, 0, TRUE)}
\* the slot table, printed once for the harness (binding of slots to race.json fields and row labels)
ASSUME PrintT(<<"SLOTS", SlotSeq>>)
\* the naming modes, printed for the harness; in every mode task name t<e> identifies entity e
ASSUME PrintT(<<"NAMING", NamingSeq>>)
ASSUME NamesIdentifyEntities
\* the direction flag the transcription passes for every row kind is the statement's direction
ASSUME DirectionsAgree
====
