\* repaired behaviour (both switches TRUE): the property must hold in the model
SPECIFICATION Spec
CONSTANTS
  Values <- VThorough
  D = 1000000
  Variants <- VarThorough
  AbsBaseline = TRUE
  ZeroBaselineSigned = TRUE
INVARIANT PropertyHolds
CHECK_DEADLOCK FALSE
