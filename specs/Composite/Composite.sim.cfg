SPECIFICATION Spec
CONSTANTS
  Trees <- SimTrees
  MaxConns <- MC123
  MayFail = TRUE
  CancelTail = TRUE
  AwaitCancelled = TRUE
  ValidateUpFront = FALSE

INVARIANT ConnLimit
INVARIANT Sequential
INVARIANT SuccessComplete
INVARIANT TimingsComplete
INVARIANT NoSuccessOnFailure
INVARIANT FailFast
INVARIANT QuiescentAfterRaise
CHECK_DEADLOCK FALSE
