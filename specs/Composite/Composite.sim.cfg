SPECIFICATION Spec
CONSTANTS
  Trees <- SimTrees
  MaxConns <- MC123
  MayFail = TRUE
  CancelTail = FALSE
  ValidateUpFront = FALSE
INVARIANT ConnLimit
INVARIANT Sequential
INVARIANT SuccessComplete
INVARIANT TimingsComplete
INVARIANT NoSuccessOnFailure
INVARIANT FailFast
INVARIANT OrphansOnlyBehindTail
CHECK_DEADLOCK FALSE
