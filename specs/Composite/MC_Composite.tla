---------------------------- MODULE MC_Composite ----------------------------
EXTENDS Composite

Node(p, k) == [par |-> p, kind |-> k]

RECURSIVE UpT(_, _)
UpT(t, x) == IF x = 0 THEN {0} ELSE {x} \cup UpT(t, t[x].par)

(* all one-node extensions of t that keep document order; bounds: levels of streams, number of streams,
   items per list, number of unsupported / malformed items *)
Ext(t, kinds, maxLevels, maxStreams, maxItems, maxBad) ==
    LET n == Len(t)
        pars == IF n = 0 THEN {0} ELSE {p \in UpT(t, n) : p = 0 \/ t[p].kind = "stream"}
        nStreams == Cardinality({i \in 1..n : t[i].kind = "stream"})
        nBad == Cardinality({i \in 1..n : t[i].kind \in {"unsup", "bad"}})
        ok(p, k) == /\ Cardinality({i \in 1..n : t[i].par = p}) < maxItems
                    /\ (k = "stream" => nStreams < maxStreams /\ Cardinality(UpT(t, p)) <= maxLevels)
                    /\ (k \in {"unsup", "bad"} => nBad < maxBad)
    IN {Append(t, Node(p, k)) : <<p, k>> \in {pk \in pars \X kinds : ok(pk[1], pk[2])}}

RECURSIVE Grow(_, _, _, _, _, _)
Grow(n, kinds, maxLevels, maxStreams, maxItems, maxBad) ==
    IF n = 0 THEN {<<>>}
    ELSE LET prev == Grow(n - 1, kinds, maxLevels, maxStreams, maxItems, maxBad)
         IN prev \cup UNION {Ext(t, kinds, maxLevels, maxStreams, maxItems, maxBad) : t \in prev}

NoEmptyStream(t) == \A i \in 1..Len(t) : t[i].kind = "stream" => \E j \in 1..Len(t) : t[j].par = i
HasOp(t) == \E i \in 1..Len(t) : t[i].kind = "op"

AllKinds == {"op", "stream", "unsup", "bad"}
GoodKinds == {"op", "stream"}

(* quick: <= 2 levels of streams, <= 3 streams, <= 3 items per list *)
QuickTrees == {t \in Grow(6, GoodKinds, 2, 3, 3, 0) : NoEmptyStream(t)}
              \cup {t \in Grow(5, AllKinds, 2, 3, 3, 1) : NoEmptyStream(t)}
ThoroughTrees == Grow(7, GoodKinds, 2, 3, 3, 0) \cup Grow(6, AllKinds, 2, 3, 3, 1)
SimTrees == {t \in Grow(8, GoodKinds, 3, 4, 3, 0) : NoEmptyStream(t) /\ HasOp(t)}
            \cup {t \in Grow(6, AllKinds, 2, 3, 3, 1) : NoEmptyStream(t) /\ HasOp(t)}
SimTreesOk == {t \in Grow(8, GoodKinds, 3, 4, 3, 0) : NoEmptyStream(t) /\ HasOp(t) /\ Len(t) >= 5}
SelfTestTrees == {t \in Grow(4, AllKinds, 1, 2, 2, 1) : NoEmptyStream(t)}

MC123 == {0, 1, 2, 3}
MC12 == {0, 1, 2}
=============================================================================
