-------------------------- MODULE TraceComposite --------------------------
(***************************************************************************)
(* Validates recorded executions of the REAL runner.Composite (virtual-time *)
(* asyncio loop, scripted fake Elasticsearch client, see                    *)
(* harness/extras/composite.py) against Composite.tla.                      *)
(* Input (env VERIF_TRACES): JSON array of items                            *)
(*   [id, tree: <<[par, kind]>>, maxc, hung, events: << ev >>]              *)
(*   ev = [a, n, t, err, tm]                                                *)
(*     a: "fork" (task created for stream n)   "S"/"E"/"F"/"X" (sub-request  *)
(*        n sent / answered / raised / aborted by cancellation)             *)
(*        "cancel" (Task.cancel called on stream n)                         *)
(*        "finok"/"findead" (task of stream n ended; err = item whose       *)
(*        exception it raised, 0 = CancelledError)                          *)
(*        "retok"/"retraised" (the composite returned to its caller; tm =   *)
(*        the returned dependent timings <<[n, ty, rs, re, svc, abs]>>)     *)
(*     t: virtual instant in ticks                                          *)
(* For every event TLC binds the recorded post-state and evaluates          *)
(*   L1: the property formulas of Composite.tla that talk about what is on  *)
(*       the wire and what is returned,                                     *)
(*   L2: the event is the specification's action (its guard holds in the    *)
(*       state before, time only advances when no eager action is enabled). *)
(* <<"V", id, line, "L1"|"L2", clauses>> per failing event (line = #events *)
(* + 1: end of run), <<"DONE", #items, #events>> at the end.                *)
(***************************************************************************)
EXTENDS Composite, Json, IOUtils

Traces == JsonDeserialize(IOEnv.VERIF_TRACES)

VARIABLES tid, l, nev, cnt, dead

tvars == <<vars, tid, l, nev, cnt, dead>>

Item == Traces[tid]

TInit == /\ tid = 1 /\ l = 0 /\ nev = 0 /\ cnt = <<>> /\ dead = FALSE
         /\ tree = <<>> /\ maxc = 0 /\ now = 0 /\ ost = <<>> /\ sst = [i \in {0} |-> "live"] /\ creq = [i \in {0} |-> FALSE]
         /\ st = <<>> /\ en = <<>> /\ err = [i \in {0} |-> 0] /\ tm = [i \in {0} |-> <<>>] /\ ret = NoRet
         /\ act = [name |-> "Init", n |-> 0, t |-> 0]

Begin ==
    /\ tid <= Len(Traces) /\ l = 0
    /\ LET t == Item.tree
           n == Len(t)
       IN /\ tree' = t /\ maxc' = Item.maxc /\ now' = 0
          /\ ost' = [i \in 1..n |-> IF t[i].kind = "op" THEN "new" ELSE "na"]
          /\ sst' = [i \in 0..n |-> IF i = 0 THEN "live" ELSE IF t[i].kind = "stream" THEN "new" ELSE "na"]
          /\ creq' = [i \in 0..n |-> FALSE]
          /\ st' = [i \in 1..n |-> -1] /\ en' = [i \in 1..n |-> -1]
          /\ err' = [i \in 0..n |-> 0] /\ tm' = [i \in 0..n |-> <<>>]
          /\ cnt' = [i \in 1..n |-> 0]
    /\ ret' = NoRet /\ dead' = FALSE /\ l' = 1
    /\ UNCHANGED <<tid, nev, act>>

(* ---- L2: the guard of the specification's action for the recorded event ---- *)
Guard(e) ==
    CASE e.a = "fork" -> ForkG(e.n)
      [] e.a = "S" -> StartG(e.n)
      [] e.a = "E" -> EndG(e.n)
      [] e.a = "F" -> EndG(e.n)
      [] e.a = "X" -> AbortG(e.n)
      [] e.a = "cancel" -> CancelKidG(e.n) \/ (IsStream(e.n) /\ sst[e.n] = "live" /\ creq[e.n])
      [] e.a = "finok" -> e.n # 0 /\ FinishOkG(e.n)
      [] e.a = "findead" -> e.n # 0 /\ ((sst[e.n] = "failed" /\ err[e.n] = e.err /\ e.err # 0) \/ e.err \in DeadCause(e.n))
      [] e.a = "retok" -> FinishOkG(0)
      [] e.a = "retraised" -> (ret.st = "raised" /\ ret.err = e.err) \/ e.err \in DeadCause(0) \/ (RejectAllG /\ e.err = FirstMalformed)
      [] OTHER -> FALSE
TimeOK(e) == IF e.t = now THEN TRUE ELSE e.t > now /\ e.a \in {"E", "F"} /\ Quiescent

(* ---- binding of the recorded post-state (no guards) ---- *)
Apply(e) ==
    \/ e.a = "fork" /\ ForkE(e.n)
    \/ e.a = "S" /\ StartE(e.n)
    \/ e.a = "E" /\ EndE(e.n, e.t)
    \/ e.a = "F" /\ FailE(e.n, e.t)
    \/ e.a = "X" /\ AbortE(e.n)
    \/ e.a = "cancel" /\ CancelKidE(e.n)
    \/ e.a = "finok" /\ FinishOkE(e.n)
    \/ e.a = "findead" /\ (IF sst[e.n] = "failed" THEN UNCHANGED vars ELSE FinishDeadE(e.n, e.err))
    \/ e.a = "retok" /\ FinishOkE(0)
    \/ e.a = "retraised" /\ (IF ret.st = "raised" THEN UNCHANGED vars ELSE FinishDeadE(0, e.err))

(* ---- L1 ---- *)
(* the returned timings: one per executed operation, each with its own type and its own instants *)
TimingsOwn(rtm, o_, s_, e_) ==
    /\ \A o \in Ops : o_[o] = "done" => Cardinality({i \in 1..Len(rtm) : rtm[i].n = o}) = 1
    /\ \A i \in 1..Len(rtm) :
         LET x == rtm[i]
         IN /\ x.n \in Ops /\ x.ty = 1
            /\ x.rs = s_[x.n] /\ x.re = e_[x.n] /\ x.svc = e_[x.n] - s_[x.n] /\ x.abs = s_[x.n]
TimingsInDocOrder(e) == [i \in 1..Len(e.tm) |-> e.tm[i].n] = DocOrder
(* streams execute concurrently: when time passes, no operation whose predecessors are all answered is held
   back although a connection is free (judged on runs without failure / rejection only) *)
Undisturbed == ret.st = "none" /\ ~Malformed /\ \A o \in Ops : ost[o] \in {"new", "flight", "done"}
NoIdleWaiting == Undisturbed => \A o \in Ops : (ost[o] = "new" /\ \A q \in Pred(o) : ost[q] = "done") => ~SlotFree

L1Clauses == {"ConnLimit", "Sequential", "AtMostOnce", "SuccessComplete", "NoSuccessOnFailure", "RejectedNeverRuns",
              "QuiescentAfterRaise", "TimingsOwn", "NoIdleWaiting", "NothingAfterSuccess"}

Consume ==
    /\ tid <= Len(Traces) /\ l >= 1 /\ l <= Len(Item.events)
    /\ LET e == Item.events[l]
           l2 == Guard(e) /\ TimeOK(e) /\ (e.a = "retok" => TimingsInDocOrder(e))
           idle == IF e.t > now THEN NoIdleWaiting ELSE TRUE
       IN /\ Apply(e)
          /\ cnt' = IF e.a = "S" THEN [cnt EXCEPT ![e.n] = @ + 1] ELSE cnt
          /\ LET holds == [c \in L1Clauses |->
                   CASE c = "ConnLimit" -> ConnLimit'
                     [] c = "Sequential" -> Sequential'
                     [] c = "AtMostOnce" -> \A o \in N : cnt'[o] <= 1
                     [] c = "SuccessComplete" -> SuccessCompleteOps' /\ (e.a = "retok" => \A o \in Ops : cnt'[o] = 1)
                     [] c = "NoSuccessOnFailure" -> NoSuccessOnFailureOps'
                     [] c = "RejectedNeverRuns" -> RejectedNeverRuns'
                     [] c = "QuiescentAfterRaise" -> QuiescentAfterRaise'
                     [] c = "TimingsOwn" -> (e.a = "retok" => TimingsOwn(e.tm, ost', st', en'))
                     [] c = "NoIdleWaiting" -> idle
                     [] c = "NothingAfterSuccess" -> (ret'.st = "ok" => Late' = {})]
                 l1 == {c \in L1Clauses : ~holds[c]}
             IN /\ IF l1 = {} THEN TRUE ELSE PrintT(<<"V", Item.id, l, "L1", l1>>)
                /\ IF dead \/ l2 THEN TRUE ELSE PrintT(<<"V", Item.id, l, "L2", {e.a}>>)
          /\ dead' = (dead \/ ~l2)
    /\ act' = act /\ l' = l + 1 /\ nev' = nev + 1
    /\ UNCHANGED tid

EndOfRun ==
    /\ tid <= Len(Traces) /\ l = Len(Item.events) + 1
    /\ LET l1 == {c \in {"Terminates"} : Item.hung \/ ret.st = "none"}
           l2 == Terminated
       IN /\ IF l1 = {} THEN TRUE ELSE PrintT(<<"V", Item.id, l, "L1", l1>>)
          /\ IF dead \/ l1 # {} \/ l2 THEN TRUE ELSE PrintT(<<"V", Item.id, l, "L2", {"end"}>>)
    /\ nev' = nev + 1
    /\ IF tid < Len(Traces) THEN TRUE ELSE PrintT(<<"DONE", Len(Traces), nev'>>)
    /\ tid' = tid + 1 /\ l' = 0
    /\ UNCHANGED <<vars, cnt, dead>>

TNext == Begin \/ Consume \/ EndOfRun
TSpec == TInit /\ [][TNext]_tvars
=============================================================================
