SPECIFICATION SpecD
CONSTANTS
  Trees <- QuickTrees
  MaxConns <- MC12
  MayFail = TRUE
  CancelTail = TRUE
  AwaitCancelled = TRUE
  ValidateUpFront = TRUE
VIEW view
INVARIANT TypeOK
INVARIANT ConnLimit
INVARIANT Sequential
INVARIANT Timeline
INVARIANT SuccessComplete
INVARIANT TimingsComplete
INVARIANT NoSuccessOnFailure
INVARIANT FailFast
INVARIANT RejectedNeverRuns
INVARIANT OrphansOnlyBehindTail
INVARIANT NoRunawayAfterSuccess
INVARIANT QuiescentAfterRaise
INVARIANT NothingSentIfMalformed
CHECK_DEADLOCK TRUE
