SPECIFICATION Spec
CONSTANTS
  Trees <- SimTreesOk
  MaxConns <- MC123
  MayFail = FALSE
  CancelTail = TRUE
  AwaitCancelled = TRUE
  ValidateUpFront = FALSE

INVARIANT ConnLimit
INVARIANT Sequential
INVARIANT SuccessComplete
INVARIANT TimingsComplete
CHECK_DEADLOCK FALSE
