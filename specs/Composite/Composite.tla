----------------------------- MODULE Composite -----------------------------
(***************************************************************************)
(* Scheduling of the sub-requests of Rally's `composite` operation          *)
(* (esrally/driver/runner.py: Composite.__call__ / run_stream,              *)
(* RequestTiming; docs/track.rst "composite").                              *)
(*                                                                         *)
(* A composite is a tree: `requests` is a list of items, an item is either  *)
(* {"stream": [items]} or an operation ({"operation-type": ...}).           *)
(*   tree = sequence of nodes in DOCUMENT ORDER (pre-order), node 0 = the   *)
(*   top-level list;  tree[i] = [par |-> list the item belongs to,          *)
(*                               kind |-> "op" | "stream" | "unsup" | "bad"]*)
(*   "unsup": operation-type not in supported_op_types, "bad": neither      *)
(*   `stream` nor `operation-type`.                                         *)
(*                                                                         *)
(* run_stream(list) is one asyncio task per stream (the top-level list      *)
(* runs inside the caller).  It scans its items in order: a stream item is  *)
(* forked (create_task) and remembered; an operation item first awaits     *)
(* (gather) all remembered streams, then checks the type, then takes a     *)
(* slot of the BoundedSemaphore(max-connections) and runs the timed        *)
(* runner; at the end the remembered streams are awaited.                  *)
(* One action below = one step of the code that is visible from outside    *)
(* (task created, request sent / answered / aborted, Task.cancel called,   *)
(* task finished, composite returned).  All actions except the arrival of  *)
(* a response are EAGER: virtual time only advances when none of them is   *)
(* enabled (the asyncio loop runs everything that is ready first).         *)
(*                                                                         *)
(* Switches (TRUE = repaired / ideal behaviour, FALSE = the code as it is): *)
(*   CancelTail       FALSE: the gather at the END of run_stream is outside  *)
(*                    the try/except that cancels the sibling streams, so a  *)
(*                    failure below a tail group leaves the siblings         *)
(*                    running after the composite has raised (orphans).      *)
(*                    TRUE (since the fix in /repo): it is inside.           *)
(*   AwaitCancelled   TRUE (since the fix): the except clause awaits the     *)
(*                    streams it has cancelled before it re-raises; FALSE:   *)
(*                    it re-raises at once.                                  *)
(*   ValidateUpFront  unsupported / malformed items are only detected when  *)
(*                    the scan reaches them, i.e. after earlier requests    *)
(*                    have been sent                                        *)
(***************************************************************************)
EXTENDS Naturals, Integers, Sequences, FiniteSets, TLC

CONSTANTS Trees,            \* set of trees
          MaxConns,         \* set of values of max-connections; 0 = not given (sys.maxsize)
          MayFail,          \* BOOLEAN: sub-requests may raise
          CancelTail,
          AwaitCancelled,
          ValidateUpFront

VARIABLES tree, maxc,
          now,              \* virtual instant
          ost,              \* operation item: "new" | "flight" | "done" | "failed" | "aborted"  ("na" for other nodes)
          sst,              \* list 0..n: "new" | "live" | "done" | "failed" | "cancelled"       ("na" for other nodes)
          creq,             \* Task.cancel() has been called on the stream's task
          st, en,           \* instants at which the sub-request was sent / ended (-1: not yet)
          err,              \* failed list: the item whose exception it raises (0: CancelledError)
          tm,               \* finished list: the timings it returns (operation items)
          ret,              \* what the composite gave to its caller
          act               \* history: last action (hidden by VIEW)

vars == <<tree, maxc, now, ost, sst, creq, st, en, err, tm, ret, act>>
view == <<tree, maxc, now, ost, sst, creq, st, en, err, tm, ret>>

NoRet == [st |-> "none", at |-> -1, err |-> 0]

(* ------------------------------ structure ------------------------------ *)
N == 1..Len(tree)
Kind(i) == tree[i].kind
Par(i) == tree[i].par
IsStream(i) == i \in N /\ Kind(i) = "stream"
IsOp(i) == i \in N /\ Kind(i) = "op"
OpType(i) == i \in N /\ Kind(i) \in {"op", "unsup"}           \* has an `operation-type` key
Lists == {0} \cup {i \in N : Kind(i) = "stream"}
Ops == {i \in N : Kind(i) = "op"}
Items(p) == {i \in N : Par(i) = p}
Malformed == \E i \in N : Kind(i) \in {"unsup", "bad"}

RECURSIVE AncSelf(_)
AncSelf(x) == IF x = 0 THEN {0} ELSE {x} \cup AncSelf(Par(x))

WellFormedTree(t) ==
    /\ \A i \in 1..Len(t) : /\ t[i].par \in 0..(i - 1)
                            /\ t[i].kind \in {"op", "stream", "unsup", "bad"}
                            /\ (t[i].par # 0 => t[t[i].par].kind = "stream")
    \* pre-order: the list of item i is the previous node (if a stream) or one of its ancestors
    /\ \A i \in 2..Len(t) :
         LET RECURSIVE Up(_)
             Up(x) == IF x = 0 THEN {0} ELSE {x} \cup Up(t[x].par)
         IN t[i].par \in Up(i - 1)

(* --------------------------- scan of one list --------------------------- *)
(* item i (before j in the same list) does not hold up item j any more *)
Passed(i, j) ==
    CASE Kind(i) = "op" -> ost[i] = "done"
      [] Kind(i) = "stream" -> /\ sst[i] # "new"
                               /\ ((\E k \in Items(Par(i)) : i < k /\ k <= j /\ OpType(k)) => sst[i] = "done")
      [] OTHER -> FALSE
Reached(j) == \A i \in Items(Par(j)) : i < j => Passed(i, j)

Alive(p) == sst[p] = "live" /\ ~creq[p]
InFlight == {o \in N : ost[o] = "flight"}
SlotFree == maxc = 0 \/ Cardinality(InFlight) < maxc
Blocked == ValidateUpFront /\ Malformed

(* the first item of p at which the scan stops for good or has to wait for its streams *)
Stops(p) == {j \in Items(p) : Kind(j) # "stream" /\ ~(Kind(j) = "op" /\ ost[j] = "done")}
HasStop(p) == Stops(p) # {}
NextStop(p) == CHOOSE j \in Stops(p) : \A k \in Stops(p) : j <= k
(* p has forked everything it forks before it waits *)
AtAwait(p) == \A i \in Items(p) : (IsStream(i) /\ (HasStop(p) => i < NextStop(p))) => sst[i] # "new"
Mid(p) == HasStop(p) /\ OpType(NextStop(p))          \* the gather in front of an operation (inside try)
Kids(p) == {k \in Items(p) : IsStream(k)}
LiveKids(p) == {k \in Kids(p) : sst[k] = "live"}
DeadKids(p) == {k \in Kids(p) : sst[k] = "failed"}      \* a cancelled stream has been cancelled by p itself
PendingFailure(p) == DeadKids(p) # {}
OpInFlight(p) == \E o \in Items(p) : ost[o] = "flight"

GatherRaises(p) == sst[p] = "live" /\ AtAwait(p) /\ PendingFailure(p)
Rejects(p) == /\ sst[p] = "live" /\ HasStop(p) /\ Kind(NextStop(p)) \in {"unsup", "bad"} /\ Reached(NextStop(p))
(* p calls cancel() on its unfinished streams: except-clause of run_stream, or gather.cancel() *)
ExceptClause(p) == Mid(p) \/ CancelTail             \* the gather p waits in is inside the try block
MustCancelKids(p) == /\ sst[p] = "live"
                     /\ \/ (~creq[p] /\ Rejects(p))
                        \/ (~creq[p] /\ GatherRaises(p) /\ ExceptClause(p))
                        \/ (creq[p] /\ ~PendingFailure(p))
                        \/ (creq[p] /\ PendingFailure(p) /\ ExceptClause(p))
(* cancelled while the failure of a stream is being delivered at a gather outside the try block: gather.cancel()
   cancels the streams, a CancelledError thrown into the already woken task does not - either happens in asyncio *)
MayCancelKids(p) == MustCancelKids(p) \/ (sst[p] = "live" /\ creq[p] /\ PendingFailure(p))
(* what p needs of its unfinished streams before it ends with an exception raised at / thrown into its gather *)
KidsSettled(p) == IF AwaitCancelled THEN LiveKids(p) = {} ELSE \A k \in LiveKids(p) : creq[k]

(* ------------------------------- guards -------------------------------- *)
ForkG(c) == /\ IsStream(c) /\ sst[c] = "new" /\ ~Blocked /\ Alive(Par(c)) /\ Reached(c)
StartG(o) == /\ IsOp(o) /\ ost[o] = "new" /\ ~Blocked /\ Alive(Par(o)) /\ Reached(o) /\ SlotFree
EndG(o) == IsOp(o) /\ ost[o] = "flight" /\ ~creq[Par(o)]
AbortG(o) == IsOp(o) /\ ost[o] = "flight" /\ creq[Par(o)]
CancelKidG(k) == IsStream(k) /\ sst[k] = "live" /\ ~creq[k] /\ MayCancelKids(Par(k))
CancelKidEager(k) == IsStream(k) /\ sst[k] = "live" /\ ~creq[k] /\ MustCancelKids(Par(k))
FinishOkG(s) == /\ s \in Lists /\ Alive(s) /\ ~Blocked
                /\ \A i \in Items(s) : (Kind(i) = "op" /\ ost[i] = "done") \/ (Kind(i) = "stream" /\ sst[i] = "done")
(* the ways a list ends abnormally; the value is the set of items whose exception it may raise ({} = not enabled) *)
DeadCause(s) ==
    IF ~(s \in Lists /\ sst[s] = "live" /\ ~OpInFlight(s)) THEN {}
    ELSE IF creq[s] /\ ~PendingFailure(s) THEN (IF LiveKids(s) = {} THEN {0} ELSE {})
    ELSE IF creq[s] THEN
         (IF ExceptClause(s) => KidsSettled(s) THEN {0} \cup {err[k] : k \in DeadKids(s)} ELSE {})
    ELSE IF Rejects(s) THEN (IF KidsSettled(s) THEN {NextStop(s)} ELSE {})
    ELSE IF GatherRaises(s) THEN
         (IF ExceptClause(s) => KidsSettled(s) THEN {err[k] : k \in DeadKids(s)} ELSE {})
    ELSE {}
FinishDeadG(s) == DeadCause(s) # {}
RejectAllG == Blocked /\ sst[0] = "live"

Eager == \/ \E i \in N : ForkG(i) \/ StartG(i) \/ AbortG(i) \/ CancelKidEager(i)
         \/ \E s \in Lists : FinishOkG(s) \/ FinishDeadG(s)
         \/ RejectAllG
Quiescent == ~Eager

(* ------------------------------- effects ------------------------------- *)
RECURSIVE Collect(_, _)
(* timings returned by list s: operations in item order, a stream contributes what it returned *)
Collect(s, from) ==
    LET rest == {i \in Items(s) : i >= from}
    IN IF rest = {} THEN <<>>
       ELSE LET i == CHOOSE x \in rest : \A y \in rest : x <= y
            IN (IF Kind(i) = "stream" THEN tm[i] ELSE <<i>>) \o Collect(s, i + 1)

ForkE(c) == /\ sst' = [sst EXCEPT ![c] = "live"]
            /\ UNCHANGED <<tree, maxc, now, ost, creq, st, en, err, tm, ret>>
StartE(o) == /\ ost' = [ost EXCEPT ![o] = "flight"] /\ st' = [st EXCEPT ![o] = now]
             /\ UNCHANGED <<tree, maxc, now, sst, creq, en, err, tm, ret>>
EndE(o, t) == /\ now' = t /\ ost' = [ost EXCEPT ![o] = "done"] /\ en' = [en EXCEPT ![o] = t]
              /\ UNCHANGED <<tree, maxc, sst, creq, st, err, tm, ret>>
(* the runner raises: nothing is pending in its stream, the stream's task ends with that exception *)
FailE(o, t) == /\ now' = t /\ ost' = [ost EXCEPT ![o] = "failed"] /\ en' = [en EXCEPT ![o] = t]
               /\ sst' = [sst EXCEPT ![Par(o)] = "failed"] /\ err' = [err EXCEPT ![Par(o)] = o]
               /\ ret' = IF Par(o) = 0 THEN [st |-> "raised", at |-> t, err |-> o] ELSE ret
               /\ UNCHANGED <<tree, maxc, creq, st, tm>>
AbortE(o) == /\ ost' = [ost EXCEPT ![o] = "aborted"] /\ en' = [en EXCEPT ![o] = now]
             /\ UNCHANGED <<tree, maxc, now, sst, creq, st, err, tm, ret>>
CancelKidE(k) == /\ creq' = [creq EXCEPT ![k] = TRUE]
                 /\ UNCHANGED <<tree, maxc, now, ost, sst, st, en, err, tm, ret>>
FinishOkE(s) == /\ sst' = [sst EXCEPT ![s] = "done"] /\ tm' = [tm EXCEPT ![s] = Collect(s, 1)]
                /\ ret' = IF s = 0 THEN [st |-> "ok", at |-> now, err |-> 0] ELSE ret
                /\ UNCHANGED <<tree, maxc, now, ost, creq, st, en, err>>
FinishDeadE(s, x) == /\ sst' = [sst EXCEPT ![s] = IF x = 0 THEN "cancelled" ELSE "failed"]
                     /\ err' = [err EXCEPT ![s] = x]
                     /\ ret' = IF s = 0 THEN [st |-> "raised", at |-> now, err |-> x] ELSE ret
                     /\ UNCHANGED <<tree, maxc, now, ost, creq, st, en, tm>>
FirstMalformed == CHOOSE i \in N : Kind(i) \in {"unsup", "bad"} /\ \A k \in N : Kind(k) \in {"unsup", "bad"} => i <= k

(* ------------------------------- actions ------------------------------- *)
Init == /\ tree \in Trees /\ maxc \in MaxConns /\ now = 0
        /\ ost = [i \in N |-> IF Kind(i) = "op" THEN "new" ELSE "na"]
        /\ sst = [i \in 0..Len(tree) |-> IF i = 0 THEN "live" ELSE IF Kind(i) = "stream" THEN "new" ELSE "na"]
        /\ creq = [i \in 0..Len(tree) |-> FALSE]
        /\ st = [i \in N |-> -1] /\ en = [i \in N |-> -1]
        /\ err = [i \in 0..Len(tree) |-> 0] /\ tm = [i \in 0..Len(tree) |-> <<>>]
        /\ ret = NoRet /\ act = [name |-> "Init", n |-> 0, t |-> 0]

Fork(c) == ForkG(c) /\ ForkE(c) /\ act' = [name |-> "fork", n |-> c, t |-> now]
Start(o) == StartG(o) /\ StartE(o) /\ act' = [name |-> "S", n |-> o, t |-> now]
(* dt = 0: the response arrives at the current instant; dt = 1: time passes, which needs an idle loop *)
End(o, dt) == EndG(o) /\ (dt = 1 => Quiescent) /\ EndE(o, now + dt) /\ act' = [name |-> "E", n |-> o, t |-> now + dt]
Fail(o, dt) == MayFail /\ EndG(o) /\ (dt = 1 => Quiescent) /\ FailE(o, now + dt) /\ act' = [name |-> "F", n |-> o, t |-> now + dt]
Abort(o) == AbortG(o) /\ AbortE(o) /\ act' = [name |-> "X", n |-> o, t |-> now]
CancelKid(k) == CancelKidG(k) /\ CancelKidE(k) /\ act' = [name |-> "cancel", n |-> k, t |-> now]
FinishOk(s) == FinishOkG(s) /\ FinishOkE(s) /\ act' = [name |-> "finok", n |-> s, t |-> now]
FinishDead(s) == \E x \in DeadCause(s) : FinishDeadE(s, x) /\ act' = [name |-> "findead", n |-> s, t |-> now]
RejectAll == RejectAllG /\ FinishDeadE(0, FirstMalformed) /\ act' = [name |-> "findead", n |-> 0, t |-> now]

Next == \/ \E i \in N : Fork(i) \/ Start(i) \/ Abort(i) \/ CancelKid(i)
        \/ \E i \in N, dt \in {0, 1} : End(i, dt) \/ Fail(i, dt)
        \/ \E s \in Lists : FinishOk(s) \/ FinishDead(s)
        \/ RejectAll

Terminated == ret.st # "none" /\ InFlight = {} /\ Quiescent
Spec == Init /\ [][Next]_vars
(* with deadlock checking on: every state without a successor is a proper end *)
SpecD == Init /\ [][Next \/ (Terminated /\ UNCHANGED vars)]_vars

(* ------------------------------ properties ----------------------------- *)
TypeOK == /\ WellFormedTree(tree) /\ maxc \in Nat /\ now \in Nat
          /\ \A i \in N : /\ ost[i] \in (IF Kind(i) = "op" THEN {"new", "flight", "done", "failed", "aborted"} ELSE {"na"})
                          /\ sst[i] \in (IF Kind(i) = "stream" THEN {"new", "live", "done", "failed", "cancelled"} ELSE {"na"})
          /\ sst[0] \in {"live", "done", "failed"} /\ ~creq[0]
          /\ ret.st \in {"none", "ok", "raised"}

(* at no instant more than max-connections sub-requests are in flight *)
ConnLimit == maxc > 0 => Cardinality(InFlight) <= maxc

(* document order: q is before o and the two are not in concurrent streams *)
Before(q, o) ==
    \E a \in AncSelf(q) \ {0}, b \in AncSelf(o) \ {0} :
        /\ Par(a) = Par(b) /\ a < b
        /\ \E k \in Items(Par(a)) : a <= k /\ k <= b /\ OpType(k)
Pred(o) == {q \in Ops : Before(q, o)}
(* an operation is sent only after everything before it (in its stream, and in the streams that had to be
   awaited first) has been answered: items of one stream run strictly in the written order *)
Sequential == \A o \in Ops : st[o] >= 0 => \A q \in Pred(o) : ost[q] = "done" /\ en[q] <= st[o]
(* sent at most once, answered only if sent *)
Timeline == \A o \in Ops : /\ (ost[o] = "new") = (st[o] < 0)
                           /\ (ost[o] \in {"done", "failed", "aborted"}) = (en[o] >= 0)
                           /\ (en[o] >= 0 => st[o] <= en[o])
(* success = every item of every stream executed (exactly once), the tree is well-formed, nothing is running *)
SuccessCompleteOps == ret.st = "ok" => /\ \A o \in Ops : ost[o] = "done" /\ en[o] <= ret.at
                                       /\ ~Malformed /\ InFlight = {}
SuccessComplete == SuccessCompleteOps /\ (ret.st = "ok" => \A s \in Lists : sst[s] = "done")
(* one timing per executed operation, in document order whatever the completion order was *)
DocOrder == LET RECURSIVE OpSeq(_)
                OpSeq(from) == LET rest == {o \in Ops : o >= from}
                             IN IF rest = {} THEN <<>>
                                ELSE LET o == CHOOSE x \in rest : \A y \in rest : x <= y IN <<o>> \o OpSeq(o + 1)
            IN OpSeq(1)
TimingsComplete == ret.st = "ok" => tm[0] = DocOrder
(* a raising sub-request or a rejected item: the composite raises, at that very instant, that exception *)
NoSuccessOnFailureOps == (\E o \in Ops : ost[o] \in {"failed", "aborted"}) => ret.st # "ok"
NoSuccessOnFailure == NoSuccessOnFailureOps /\ ((\E s \in Lists : sst[s] \in {"failed", "cancelled"}) => ret.st # "ok")
FailFast == ret.st = "raised" =>
              /\ ret.err \in N
              /\ IF Kind(ret.err) = "op" THEN ost[ret.err] = "failed" /\ en[ret.err] = ret.at
                 ELSE Kind(ret.err) \in {"unsup", "bad"}
(* an unsupported / malformed item is never executed *)
RejectedNeverRuns == \A i \in N : Kind(i) # "op" => ost[i] = "na"
(* only with ValidateUpFront: nothing at all is sent for a malformed composite *)
NothingSentIfMalformed == Malformed => \A o \in Ops : ost[o] = "new"
(* only with CancelTail: once the composite has raised nothing of it is on the wire at any later instant *)
Late == {o \in Ops : (ost[o] = "flight" /\ now > ret.at) \/ en[o] > ret.at}      \* on the wire after the composite ended
QuiescentAfterRaise == ret.st = "raised" => Late = {}
(* what the code as it is guarantees instead: whatever survives the failure sits behind a group of streams
   at the END of a list (the gather outside the try block) *)
TailGroup(x) == IsStream(x) /\ ~\E k \in Items(Par(x)) : k > x /\ OpType(k)
OrphansOnlyBehindTail == ret.st = "raised" => \A o \in Late : \E x \in AncSelf(o) : TailGroup(x)
(* after a return nothing runs (success), and a live stream is never left behind a cancelled/failed parent
   other than as such an orphan *)
NoRunawayAfterSuccess == ret.st = "ok" => \A s \in Lists : sst[s] = "done"
=============================================================================
