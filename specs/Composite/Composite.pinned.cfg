SPECIFICATION SpecD
CONSTANTS
  Trees <- QuickTrees
  MaxConns <- MC12
  MayFail = TRUE
  CancelTail = FALSE
  AwaitCancelled = FALSE
  ValidateUpFront = FALSE
VIEW view
INVARIANT TypeOK
INVARIANT ConnLimit
INVARIANT Sequential
INVARIANT Timeline
INVARIANT SuccessComplete
INVARIANT TimingsComplete
INVARIANT NoSuccessOnFailure
INVARIANT FailFast
INVARIANT RejectedNeverRuns
INVARIANT OrphansOnlyBehindTail
INVARIANT NoRunawayAfterSuccess
CHECK_DEADLOCK TRUE
