SPECIFICATION SpecD
CONSTANTS
  Trees <- ThoroughTrees
  MaxConns <- MC123
  MayFail = TRUE
  CancelTail = TRUE
  AwaitCancelled = TRUE
  ValidateUpFront = FALSE
VIEW view
INVARIANT TypeOK
INVARIANT ConnLimit
INVARIANT Sequential
INVARIANT Timeline
INVARIANT SuccessComplete
INVARIANT TimingsComplete
INVARIANT NoSuccessOnFailure
INVARIANT FailFast
INVARIANT RejectedNeverRuns
INVARIANT OrphansOnlyBehindTail
INVARIANT NoRunawayAfterSuccess
INVARIANT QuiescentAfterRaise
CHECK_DEADLOCK TRUE
