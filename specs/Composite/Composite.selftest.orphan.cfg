SPECIFICATION SpecD
CONSTANTS
  Trees <- SelfTestTrees
  MaxConns <- MC12
  MayFail = TRUE
  CancelTail = FALSE
  AwaitCancelled = FALSE
  ValidateUpFront = FALSE
VIEW view
INVARIANT QuiescentAfterRaise
CHECK_DEADLOCK TRUE
