SPECIFICATION SpecD
CONSTANTS
  Trees <- SelfTestTrees
  MaxConns <- MC12
  MayFail = TRUE
  CancelTail = TRUE
  AwaitCancelled = TRUE
  ValidateUpFront = FALSE
VIEW view
INVARIANT NothingSentIfMalformed
CHECK_DEADLOCK TRUE
