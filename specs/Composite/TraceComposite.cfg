SPECIFICATION TSpec
CONSTANTS
  Trees = {}
  MaxConns = {}
  MayFail = TRUE
  CancelTail = FALSE
  ValidateUpFront = FALSE
CHECK_DEADLOCK FALSE
