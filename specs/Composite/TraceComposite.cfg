SPECIFICATION TSpec
CONSTANTS
  Trees = {}
  MaxConns = {}
  MayFail = TRUE
  CancelTail = TRUE
  AwaitCancelled = TRUE
  ValidateUpFront = FALSE
CHECK_DEADLOCK FALSE
