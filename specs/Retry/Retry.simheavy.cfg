SPECIFICATION Spec
CONSTANTS
  RetriesSet <- R_sim
  UntilSet <- BOOLEAN
  WaitSet <- W_sim
  DurSet <- D_sim
  OutcomeSet <- Heavy
  MaxDepth = 8
  OtherTransportPropagates = TRUE
INVARIANT PropertyHolds
CHECK_DEADLOCK FALSE
