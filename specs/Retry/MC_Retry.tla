---- MODULE MC_Retry ----
EXTENDS Retry
R_quick == {-1, 0, 1, 2, 3}
R_thorough == {-1, 0, 1, 2, 3, 4}
R_sim == {-1, 0, 1, 2, 3, 4, 5}
W_quick == {0, 2}
W_thorough == {0, 1, 2, 3}
W_sim == {0, 1, 2, 3, 5}
D0 == {0}
D01 == {0, 1}
D_sim == {0, 1, 2}
(* alphabet that keeps the loop going more often (simulation only) *)
Heavy == {"failDict", "connTimeout", "connError", "sockTimeout", "api408", "transportOther", "okDict", "apiOther"}
(* under retry-until-success the value of "retries" is irrelevant: explore it for the two extreme values only *)
SetMin(S) == CHOOSE x \in S : \A y \in S : x <= y
SetMax(S) == CHOOSE x \in S : \A y \in S : y <= x
MCInit == Init /\ (cfg.until => cfg.retries \in {SetMin(RetriesSet), SetMax(RetriesSet)})
MCSpec == MCInit /\ [][Next]_vars
====
