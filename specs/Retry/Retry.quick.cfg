SPECIFICATION MCSpec
CONSTANTS
  RetriesSet <- R_quick
  UntilSet <- BOOLEAN
  WaitSet <- W_quick
  DurSet <- D0
  OutcomeSet <- AllOutcomes
  MaxDepth = 4
  OtherTransportPropagates = TRUE
INVARIANT TypeOK
INVARIANT PropertyHolds
INVARIANT ReactionAsDocumented
CHECK_DEADLOCK FALSE
