\* pinned behaviour of /repo: an "other" TransportError is swallowed and the next attempt starts at once. Self-test only.
SPECIFICATION MCSpec
CONSTANTS
  RetriesSet <- R_quick
  UntilSet <- BOOLEAN
  WaitSet <- W_quick
  DurSet <- D0
  OutcomeSet <- AllOutcomes
  MaxDepth = 4
  OtherTransportPropagates = FALSE
INVARIANT TypeOK
INVARIANT PropertyHolds
CHECK_DEADLOCK FALSE
