SPECIFICATION MCSpec
CONSTANTS
  RetriesSet <- R_thorough
  UntilSet <- BOOLEAN
  WaitSet <- W_thorough
  DurSet <- D0
  OutcomeSet <- AllOutcomes
  MaxDepth = 6
  OtherTransportPropagates = TRUE
INVARIANT TypeOK
INVARIANT PropertyHolds
INVARIANT ReactionAsDocumented
CHECK_DEADLOCK FALSE
