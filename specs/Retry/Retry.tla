------------------------------- MODULE Retry -------------------------------
(***************************************************************************)
(* esrally.driver.runner.Retry.__call__: the retry loop around a runner    *)
(* (property C16).  The environment chooses, for every invocation of the   *)
(* delegate, an outcome class o and a duration d; the loop reacts.         *)
(*                                                                         *)
(* Time is counted in ticks (the harness uses 1 tick = 1/4 s).             *)
(*                                                                         *)
(* Outcome classes (checked against elasticsearch-py 8.6.1 / elastic-      *)
(* transport 8.4.1: ConnectionTimeout is a TransportError but NOT a        *)
(* ConnectionError; ApiError is not a TransportError; socket.timeout is    *)
(* TimeoutError; TlsError is a ConnectionError):                            *)
(*   okDict         dict without "success": False                          *)
(*   okOther        anything that is not a dict (tuple, None, int, ...)    *)
(*   failDict       dict with "success": False  (unsuccessful result)      *)
(*   connTimeout    elasticsearch.ConnectionTimeout                        *)
(*   connError      elasticsearch.ConnectionError (incl. TlsError)         *)
(*   sockTimeout    socket.timeout                                         *)
(*   api408         elasticsearch.ApiError with status 408                 *)
(*   apiOther       any other elasticsearch.ApiError (404, 400, 500, ...)  *)
(*   transportOther any other TransportError (SerializationError, ...)     *)
(*   otherExc       an exception outside these hierarchies                 *)
(***************************************************************************)
EXTENDS Integers, Sequences, FiniteSets, TLC

CONSTANTS RetriesSet,     \* values of "retries" (-1 = degenerate: no attempt at all)
          UntilSet,       \* values of the effective retry-until-success
          WaitSet,        \* values of retry-wait-period (ticks)
          DurSet,         \* durations of one delegate invocation (ticks)
          OutcomeSet,     \* outcome classes the environment may choose
          MaxDepth,       \* bound on the number of invocations explored (retry-until-success is unbounded)
          OtherTransportPropagates  \* TRUE: repaired code (an "other" TransportError is raised at once);
                                    \* FALSE: pinned behaviour (swallowed, next attempt at once without waiting)

Values     == {"okDict", "okOther", "failDict"}
Successes  == {"okDict", "okOther"}
Timeouts   == {"connTimeout", "sockTimeout", "api408"}
ConnErrors == {"connError"}
Fatal      == {"apiOther", "transportOther", "otherExc"}
AllOutcomes == Values \cup Timeouts \cup ConnErrors \cup Fatal

VARIABLES cfg,     \* [retries, until, onTimeout, onError, wait]: effective parameters of this call of Retry
          calls,   \* history: <<[o, s, e]>> outcome class, start and end time of every delegate invocation
          status,  \* [k |-> "running" | "returned" | "raised", of |-> index of the invocation whose product is delivered]
          now      \* current time; when status is terminal: the time at which Retry.__call__ finished

vars == <<cfg, calls, status, now>>

Running == [k |-> "running", of |-> 0]
Kind(o) == IF o \in Values THEN "returned" ELSE "raised"

-----------------------------------------------------------------------------
(* Transcription of Retry.__call__, clause by clause.                       *)
EffOnError(c)  == c.until \/ c.onError                 \* retry_until_success forces retry_on_error
MaxAttempts(c) == c.retries + 1                        \* sys.maxsize when c.until
IsLast(c, n)   == ~c.until /\ n = MaxAttempts(c)       \* last_attempt = attempt + 1 == max_attempts

Stop     == [k |-> "stop", w |-> 0]                     \* return the value / re-raise the exception of this attempt
Again(w) == [k |-> "again", w |-> w]                    \* await asyncio.sleep(w) (w = 0: no sleep at all), next iteration

CodeReact(c, n, o) ==
    LET last == IsLast(c, n) IN
    CASE o \in {"okDict", "okOther"} -> Stop                  \* success dict / non-dict: "we have to assume it was fine"
      [] o = "failDict" ->
            IF last \/ ~EffOnError(c) THEN Stop ELSE Again(c.wait)
      [] o \in {"sockTimeout", "connError"} ->               \* except (socket.timeout, ConnectionError)
            IF last \/ ~c.onTimeout THEN Stop ELSE Again(c.wait)
      [] o = "api408" ->                                      \* except ApiError, status 408
            IF last \/ ~c.onTimeout THEN Stop ELSE Again(c.wait)
      [] o = "apiOther" -> Stop                               \* except ApiError, other status: raise e
      [] o = "connTimeout" ->                                 \* except ConnectionTimeout
            IF last \/ ~c.onTimeout THEN Stop ELSE Again(c.wait)
      [] o = "transportOther" ->                              \* except TransportError: only `raise e` if last / not retry_on_timeout
            IF last \/ ~c.onTimeout THEN Stop
            ELSE IF OtherTransportPropagates THEN Stop ELSE Again(0)
      [] o = "otherExc" -> Stop                               \* not caught

(* one delegate invocation starting at time t with outcome o lasting d *)
Step(c, cs, t, o, d) ==
    LET n   == Len(cs) + 1
        cs2 == Append(cs, [o |-> o, s |-> t, e |-> t + d])
        r   == CodeReact(c, n, o)
    IN IF r.k = "again"
       THEN [calls |-> cs2, status |-> Running, now |-> t + d + r.w]
       ELSE [calls |-> cs2, status |-> [k |-> Kind(o), of |-> n], now |-> t + d]

Start(c) == [calls |-> <<>>, status |-> Running, now |-> 0]

(* range(max_attempts) is empty: the loop body never runs and the function returns None *)
Degenerate(c) == ~c.until /\ MaxAttempts(c) <= 0
NoAttemptResult(s) == [calls |-> s.calls, status |-> [k |-> "returned", of |-> 0], now |-> s.now]

-----------------------------------------------------------------------------
Init == /\ cfg \in [retries : RetriesSet, until : UntilSet, onTimeout : BOOLEAN, onError : BOOLEAN, wait : WaitSet]
        /\ calls = <<>>
        /\ status = Running
        /\ now = 0

Attempt(o, d) ==
    /\ status.k = "running"
    /\ ~Degenerate(cfg)
    /\ Len(calls) < MaxDepth
    /\ LET r == Step(cfg, calls, now, o, d)
       IN calls' = r.calls /\ status' = r.status /\ now' = r.now
    /\ UNCHANGED cfg

NoAttempt ==
    /\ status.k = "running"
    /\ Degenerate(cfg)
    /\ LET r == NoAttemptResult([calls |-> calls, now |-> now])
       IN calls' = r.calls /\ status' = r.status /\ now' = r.now
    /\ UNCHANGED cfg

Next == (\E o \in OutcomeSet, d \in DurSet : Attempt(o, d)) \/ NoAttempt

Spec == Init /\ [][Next]_vars

-----------------------------------------------------------------------------
(* PROPERTY C16, clause by clause, as predicates over (parameters, history of invocations, status,  *)
(* finishing time) so that the trace specification evaluates the same formulas on recorded runs of  *)
(* the real runner.Retry.  All clauses are prefix-closed: they also hold while the loop is running. *)

(* the documented reaction: what may be retried *)
DocRetryable(c, o) == \/ o \in (Timeouts \cup ConnErrors) /\ c.onTimeout
                      \/ o = "failDict" /\ EffOnError(c)
DocLast(c, n) == ~c.until /\ n >= c.retries + 1
Terminal(st) == st.k # "running"

(* "is attempted at most retries + 1 times (without bound under retry-until-success)" *)
AtMost(c, cs, st, t) == ~c.until => Len(cs) <= (IF c.retries + 1 > 0 THEN c.retries + 1 ELSE 0)

(* "waiting retry-wait-period between attempts" *)
Spacing(c, cs, st, t) == \A i \in 1..(Len(cs) - 1) : cs[i+1].s - cs[i].e = c.wait

(* "retried only after timeouts or connection errors when retry-on-timeout is on and after unsuccessful results when retry-on-error is on" *)
RetryOnlyWhenAllowed(c, cs, st, t) == \A i \in 1..(Len(cs) - 1) : DocRetryable(c, cs[i].o)

(* "stops at the first successful attempt ..." *)
StopsAtFirstSuccess(c, cs, st, t) ==
    /\ \A i \in 1..(Len(cs) - 1) : cs[i].o \notin Successes
    /\ (Len(cs) >= 1 /\ cs[Len(cs)].o \in Successes) => Terminal(st)

(* "... and returns that attempt's result" *)
ReturnsThatAttempt(c, cs, st, t) ==
    (Len(cs) >= 1 /\ cs[Len(cs)].o \in Successes) => st = [k |-> "returned", of |-> Len(cs)]

(* "propagates non-retryable API errors immediately" (no further attempt, no pause) *)
NonRetryableImmediately(c, cs, st, t) ==
    (Len(cs) >= 1 /\ cs[Len(cs)].o \notin Values /\ ~DocRetryable(c, cs[Len(cs)].o))
        => (st = [k |-> "raised", of |-> Len(cs)] /\ t = cs[Len(cs)].e)

(* "after the last attempt returns or raises exactly what that attempt produced" *)
LastAttemptVerbatim(c, cs, st, t) ==
    /\ (Len(cs) >= 1 /\ DocLast(c, Len(cs))) => Terminal(st)
    /\ (Len(cs) >= 1 /\ Terminal(st)) => st = [k |-> Kind(cs[Len(cs)].o), of |-> Len(cs)]

(* "retry exactly as configured": it does not give up while a retry is configured, and it does not *)
(* finish without any attempt unless retries + 1 <= 0                                               *)
ExactlyAsConfigured(c, cs, st, t) ==
    /\ (Terminal(st) /\ Len(cs) >= 1 /\ DocRetryable(c, cs[Len(cs)].o)) => DocLast(c, Len(cs))
    /\ (Terminal(st) /\ Len(cs) = 0) => (~c.until /\ c.retries + 1 <= 0 /\ st = [k |-> "returned", of |-> 0])

NoRunaway(c, cs, st, t) == st.k \in {"running", "returned", "raised"}

(* "as configured": the caller's parameters are the configuration of the TASK, not of one invocation - the load     *)
(* generator hands the same parameter object to every invocation of the task (ParamSource.params()).  A call must *)
(* therefore leave the retry parameters it was given as they are; pu = "the caller's retry parameters are the same *)
(* after the call as before".  (The transcription only reads them: params.get.)                                    *)
ParamsUntouched(pu) == pu

Clauses == {"AtMost", "Spacing", "RetryOnlyWhenAllowed", "StopsAtFirstSuccess", "ReturnsThatAttempt",
            "NonRetryableImmediately", "LastAttemptVerbatim", "ExactlyAsConfigured", "NoRunaway", "ParamsUntouched"}

Holds(name, c, cs, st, t, pu) ==
    CASE name = "AtMost" -> AtMost(c, cs, st, t)
      [] name = "Spacing" -> Spacing(c, cs, st, t)
      [] name = "RetryOnlyWhenAllowed" -> RetryOnlyWhenAllowed(c, cs, st, t)
      [] name = "StopsAtFirstSuccess" -> StopsAtFirstSuccess(c, cs, st, t)
      [] name = "ReturnsThatAttempt" -> ReturnsThatAttempt(c, cs, st, t)
      [] name = "NonRetryableImmediately" -> NonRetryableImmediately(c, cs, st, t)
      [] name = "LastAttemptVerbatim" -> LastAttemptVerbatim(c, cs, st, t)
      [] name = "ExactlyAsConfigured" -> ExactlyAsConfigured(c, cs, st, t)
      [] name = "NoRunaway" -> NoRunaway(c, cs, st, t)
      [] name = "ParamsUntouched" -> ParamsUntouched(pu)

Failing(c, cs, st, t, pu) == {name \in Clauses : ~Holds(name, c, cs, st, t, pu)}

PropertyHolds == Failing(cfg, calls, status, now, TRUE) = {}     \* the transcription never writes to the parameters

(* the transcription of the code reacts to every outcome as documented: retry (after the wait period) *)
(* exactly when the documentation allows a retry and this is not the last attempt                      *)
DocReact(c, n, o) == IF DocRetryable(c, o) /\ ~DocLast(c, n) THEN Again(c.wait) ELSE Stop
ReactionAsDocumented ==
    \A o \in OutcomeSet : \A n \in 1..(Len(calls) + 1) :
        (cfg.until \/ n <= MaxAttempts(cfg)) => CodeReact(cfg, n, o) = DocReact(cfg, n, o)

TypeOK == /\ status.k \in {"running", "returned", "raised"}
          /\ status.of \in 0..Len(calls)
          /\ \A i \in 1..Len(calls) : calls[i].o \in AllOutcomes /\ calls[i].s <= calls[i].e
=============================================================================
