\* simulation of the pinned variant (code as it is): source of S2C paths only, no invariants
SPECIFICATION Spec
CONSTANTS
  RetriesSet <- R_sim
  UntilSet <- BOOLEAN
  WaitSet <- W_sim
  DurSet <- D_sim
  OutcomeSet <- Heavy
  MaxDepth = 8
  OtherTransportPropagates = FALSE
CHECK_DEADLOCK FALSE
