----------------------------- MODULE TraceRetry -----------------------------
(***************************************************************************)
(* Validates recorded executions of the real esrally.driver.runner.Retry   *)
(* (env VERIF_TRACES: JSON array of items).                                *)
(*                                                                         *)
(* kind = "run":  [id, kind, c, calls, st, t, same]                        *)
(*    c     effective parameters [retries, until, onTimeout, onError, wait]*)
(*    calls <<[o, s, e]>> outcome class, start, end (ticks) of every        *)
(*          invocation of the scripted delegate, observed on a virtual-time *)
(*          event loop                                                      *)
(*    st    [k, of]: how Retry.__call__ finished and which invocation's     *)
(*          product (compared with ==) it delivered (-1: none of them)      *)
(*    t     finishing time, same: the delivered object IS that product      *)
(*    pu    the caller's retry parameters are unchanged by the call (the    *)
(*          parameter object may be shared with earlier invocations of the  *)
(*          same task on the same Retry instance, as in the load generator; *)
(*          c is always what the task configured)                           *)
(*  L1: the clauses of property C16 (Retry!Failing) on the recorded run     *)
(*  L2: the run is the behaviour of the transcription for these outcomes    *)
(*                                                                         *)
(* kind = "table": [id, kind, op, wrapped, until, documented]: one row of   *)
(*  the runner registry vs. docs/track.rst ("This operation is retryable"). *)
(*  documented /\ ~wrapped is reported as L2 (drift), wrapped /\ ~documented*)
(*  as a note <<"N", id, "wrapped-but-not-documented">>.                    *)
(***************************************************************************)
EXTENDS Retry, Json, IOUtils

Items == JsonDeserialize(IOEnv.VERIF_TRACES)

VARIABLES i

RECURSIVE Replay(_, _, _)
Replay(c, s, rec) ==
    IF rec = <<>> \/ s.status.k # "running" THEN s
    ELSE Replay(c, Step(c, s.calls, s.now, Head(rec).o, Head(rec).e - Head(rec).s), Tail(rec))

Expected(c, rec) == IF Degenerate(c) THEN NoAttemptResult(Start(c)) ELSE Replay(c, Start(c), rec)

WellFormed(it) == /\ \A j \in 1..Len(it.calls) : it.calls[j].o \in AllOutcomes
                  /\ it.st.k \in {"returned", "raised", "aborted"}

Check(it) ==
    IF it.kind = "run" THEN
        LET l1  == IF WellFormed(it) THEN Failing(it.c, it.calls, it.st, it.t, it.pu) ELSE {"Malformed"}
            exp == Expected(it.c, it.calls)
            l2  == /\ exp.calls = it.calls
                   /\ exp.status = it.st
                   /\ exp.now = it.t
                   /\ (it.st.of >= 1 => it.same)
        IN /\ IF l1 = {} THEN TRUE ELSE PrintT(<<"V", it.id, 1, "L1", l1>>)
           /\ IF l1 # {} \/ l2 THEN TRUE ELSE PrintT(<<"V", it.id, 1, "L2", {}>>)
    ELSE
        /\ IF it.documented => it.wrapped THEN TRUE ELSE PrintT(<<"V", it.id, 1, "L2", {}>>)
        /\ IF it.wrapped => it.documented THEN TRUE ELSE PrintT(<<"N", it.id, "wrapped-but-not-documented">>)

TInit == i = 1 /\ cfg = [retries |-> 0, until |-> FALSE, onTimeout |-> FALSE, onError |-> FALSE, wait |-> 0]
               /\ calls = <<>> /\ status = Running /\ now = 0

TNext == /\ i <= Len(Items)
         /\ Check(Items[i])
         /\ i' = i + 1
         /\ IF i < Len(Items) THEN TRUE ELSE PrintT(<<"DONE", Len(Items), Len(Items)>>)
         /\ UNCHANGED vars

TSpec == TInit /\ [][TNext]_<<vars, i>>
=============================================================================
