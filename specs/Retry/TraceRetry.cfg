SPECIFICATION TSpec
CONSTANTS
  RetriesSet = {}
  UntilSet = {}
  WaitSet = {}
  DurSet = {}
  OutcomeSet = {}
  MaxDepth = 0
  OtherTransportPropagates = TRUE
CHECK_DEADLOCK FALSE
