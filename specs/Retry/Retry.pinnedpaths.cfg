\* the code as it is (pinned), without invariants: only used to enumerate its paths for the S2C leg
SPECIFICATION MCSpec
CONSTANTS
  RetriesSet <- R_quick
  UntilSet <- BOOLEAN
  WaitSet <- W_quick
  DurSet <- D0
  OutcomeSet <- AllOutcomes
  MaxDepth = 4
  OtherTransportPropagates = FALSE
INVARIANT TypeOK
CHECK_DEADLOCK FALSE
