SPECIFICATION Spec
CONSTANTS
  RejectAllMixing = TRUE
  MacroIncludesSeen = TRUE
  Seeds <- SeedsAll
  CNames = {"c1", "c2", "c3"}
  TNames = {"n1", "n2", "n3", "n4"}
  TaskOps <- TaskOpsS
  ChalOps <- TaskOpsS
  OpDefs <- OpDefsS
  KNames = {"k1", "k2"}
  DocFiles <- DocFilesS
  INames = {"i1", "i2"}
  SNames = {"d1", "d2"}
  Alpha <- AlphaS
  ParamSites <- AllFields
  XUses <- XUsesS
  XParams = {"x1", "x2"}
  XVals <- XValsS
  TplKinds = {"composable", "component", "templates"}
  BUrls = {"u1", "u2"}
  NumParams = {"p1", "p2"}
  StrParams = {"q1", "q2"}
  SupVals = {0, 2, 300}
  ReservedCand = {"now", "glob", "build_flavor", "serverless_operator"}
  Units = {"docs", "ops", "pages"}
  TagSeqs <- TagSeqsS
  PartKinds = {"ops", "chals", "corpora", "opsN", "sched", "docs"}
  DefectKinds <- DefectsAll
  MaxOps = 3
  MaxChals = 3
  MaxEls = 4
  MaxParTasks = 3
  MaxCorpora = 2
  MaxDocs = 2
  MaxSup = 3
  MaxSize = 14
  MinBreakSize = 5
INVARIANT PropertyHolds
INVARIANT ModelSane
CHECK_DEADLOCK FALSE
