------------------------------ MODULE TrackModel ------------------------------
(***************************************************************************)
(* C10 - a loaded track is exactly what the file says; invalid tracks are  *)
(* rejected (esrally/track/loader.py: TrackFileReader.read,                 *)
(* TrackSpecificationReader, render_template, CompleteTrackParams;          *)
(* esrally/resources/track-schema.json; docs/track.rst).                    *)
(*                                                                         *)
(* The state is an ABSTRACT TRACK FILE `f` (what an author writes) built by *)
(* a builder state machine, plus `violated` (which documented rule the last *)
(* builder step broke, "none" while the file is valid).  Three operators    *)
(* over a file F carry the semantics:                                       *)
(*   Viol(F)     the set of documented rules F violates (docs/track.rst,    *)
(*               track-schema.json, the loader's messages) - declarative;   *)
(*   Expected(F) the track object that loading a valid F must yield         *)
(*               (defaults applied, parallel defaults inherited, track      *)
(*               parameters substituted, order preserved) - declarative;    *)
(*   Code(F)     a transcription of the loader as written (checks in the    *)
(*               loader's order and with the loader's conditions).          *)
(* Property (L1): Fidelity / ValidLoads / Rejection / TargetAsWritten below, *)
(* stated on any                                                            *)
(* outcome `o`; leg M checks them on Code(f) for every reachable f, the     *)
(* trace module checks them on the outcome of the REAL loader.              *)
(*                                                                         *)
(* FILE FORMAT  (Abs = -1 "not written"; "" = string not written)           *)
(*   Val  = [v: Int, p: Str]   p = "" literal v;  p # ""  written as the    *)
(*                             Jinja expression {{ p | default(v) }}        *)
(*   SVal = [v: Str, p: Str]   same for strings                             *)
(*   X    = [p: Str, d: Int, comma: BOOLEAN]  use of the helper macro           *)
(*          {{ rally.exists_set_param("my-setting", p, default_value=d,     *)
(*          comma=..) }} in an operation (p = "" not used, d = Abs no       *)
(*          default_value); comma=TRUE: directly in the operation object,   *)
(*          comma=FALSE: as the only entry of the operation's "body" object *)
(*          a supplied value v of such a parameter may be falsy:            *)
(*          0, -2 = false, -3 = "" (-4 = true)                              *)
(*   T    = [name: SVal, opk: "str"|"inl", op, type: Str, bulk: Val, xp: X, *)
(*           clients, wi, it, wtp, tp, ru, tput: Val, unit: Str,            *)
(*           tags: Seq(Str)]                                                *)
(*          opk="str": "operation": "<op>" (name of an entry of the         *)
(*          operations section, else an operation type); opk="inl":         *)
(*          inline object {operation-type: type, name: op (if # ""),        *)
(*          bulk-size: bulk}                                                *)
(*   El   = [par: BOOLEAN, cap, wi, it, wtp, tp, ru: Val, cb: Str,          *)
(*           tasks: Seq(T)]    par=FALSE: a plain task (tasks = <<t>>)      *)
(*   Chal = [name: Str, dflt: "abs"|"true"|"false", sched: Seq(El)]         *)
(*   F    = [form: "schedule"|"challenge"|"challenges", chals: Seq(Chal),   *)
(*           ops: Seq([name, type: Str, bulk: Val, xp: X]),                 *)
(*           corpora: Seq([name, tidx, tds, iaamd: Str,                     *)
(*                    docs: Seq([base, ext: Str, count: Val,                *)
(*                               tidx, tds, iaamd: Str])]),                 *)
(*             tidx / tds = "target-index" / "target-data-stream" written   *)
(*             on the document set resp. as corpus-level default ("" = not  *)
(*             written); iaamd = "includes-action-and-meta-data":           *)
(*             "abs" | "true" | "false",                                    *)
(*           indices, streams: Seq(Str),                                    *)
(*           squote: BOOLEAN the includes are written with single quotes,   *)
(*           {{ rally.collect(parts='..') }}: not pre-expanded textually    *)
(*           but included by the Jinja macro,                               *)
(*           mac: Val  the first operation of the operations section has    *)
(*           "macro-setting": {{ m.val() }} where m is a macro file pulled  *)
(*           in with {% import "macros.j2" as m %} whose macro val() says   *)
(*           {{ p | default(v) }} (NoVal: no such file),                    *)
(*           corpora and document sets also have burl: "base-url" ("" = not *)
(*           written; the set's own, else the corpus default, else none),   *)
(*           ibody: Val  "index.number_of_shards" in the BODY FILE of the   *)
(*           first index (NoVal: the index has no body file),               *)
(*           tkind: "" | "composable" | "component" | "templates", tbody:   *)
(*           Val  a template of that section whose FILE sets                *)
(*           number_of_replicas; parameters in these files are registered   *)
(*           only while the track object is built,                          *)
(*           supN: {[p: Str, v: Int]}, supS: {[p: Str, v: Str]}  supplied   *)
(*           track parameters (--track-params),                             *)
(*           refs: SUBSET Reserved  names of Rally's own template variables *)
(*           that the file references (in its description text),            *)
(*           parts: SUBSET {"ops","chals","corpora","opsN","sched","docs"}  *)
(*           fragments that live in included files (rally.collect): the     *)
(*           operations / challenges / corpora list in a part in a          *)
(*           sub-directory of the track; "opsN" / "sched" / "docs" = a      *)
(*           fragment OF THAT PART (all operations / each schedule / each   *)
(*           documents list) in a second-level part, included from the      *)
(*           first-level part with a pattern relative to ITS directory,     *)
(*           tight: BOOLEAN the include is                                  *)
(*           written {{rally.collect(parts="..")}} without blanks,          *)
(*           defect: [k: Str, c, e, t: Int] a schema-level defect that the  *)
(*           typed fields cannot express (wrong JSON type / missing         *)
(*           mandatory element) at position c/e/t]                          *)
(***************************************************************************)
EXTENDS Integers, Sequences, FiniteSets

CONSTANTS
    RejectAllMixing,  \* TRUE = repaired loader: every mix of iterations with time periods is rejected;
                      \* FALSE = the loader as written (iterations + time-period and
                      \*         warmup-iterations + warmup-time-period slip through)
    MacroIncludesSeen,\* TRUE = repaired loader: parameters referenced in parts that are included through the Jinja
                      \*         macro rally.collect count as used; FALSE = the loader as written: only includes that its
                      \*         textual pre-pass recognises ("{{ rally.collect(parts="..") }}" with blanks inside the
                      \*         braces) are scanned for parameters
    \* ---- alphabets of the builder (irrelevant for Viol / Expected / Code) ----
    Seeds,            \* the files the builder starts from
    ChalOps, CNames, TNames, TaskOps, OpDefs, KNames, DocFiles, INames, SNames,
    Alpha,            \* record: field name -> set of literal values
    ParamSites,       \* fields that may be written as {{ p | default(v) }}
    XUses, XParams, XVals,   \* macro uses for inline operations, macro parameters and the values supplied for them
    TplKinds,         \* template sections the builder may add
    BUrls,            \* base-url values
    NumParams, StrParams, SupVals, ReservedCand, Units, TagSeqs, PartKinds, DefectKinds,
    MaxOps, MaxChals, MaxEls, MaxParTasks, MaxCorpora, MaxDocs, MaxSup,
    MaxSize,          \* bound on the number of builder steps (things written beyond the seed)
    MinBreakSize      \* a step may break a rule only after that many steps (0 in exhaustive runs; > 0 makes
                      \* simulated behaviours build a big valid file first)

VARIABLES f, violated, lim     \* lim = Size(seed) + MaxSize, constant along a behaviour
vars == <<f, violated, lim>>

Abs == -1
L(n) == [v |-> n, p |-> ""]
P(q, d) == [v |-> d, p |-> q]
NoVal == L(Abs)
NoStr == [v |-> "", p |-> ""]
NoX == [p |-> "", d |-> Abs, comma |-> TRUE]
NoDefect == [k |-> "none", c |-> 0, e |-> 0, t |-> 0]
Reserved == {"now", "glob", "build_flavor", "serverless_operator"}

TaskNumFields == {"clients", "wi", "it", "wtp", "tp", "ru", "tput", "bulk"}
ElNumFields == {"cap", "wi", "it", "wtp", "tp", "ru"}

\* built-in operation types that are administrative (track.OperationType, AdminStatus.Yes): not reported by default
AdminTypes == {"force-merge", "cluster-health", "put-pipeline", "refresh", "create-index", "delete-index",
    "create-index-template", "delete-index-template", "shrink-index", "create-ml-datafeed", "delete-ml-datafeed",
    "start-ml-datafeed", "stop-ml-datafeed", "create-ml-job", "delete-ml-job", "open-ml-job", "close-ml-job", "sleep",
    "delete-snapshot-repository", "create-snapshot-repository", "create-snapshot", "restore-snapshot", "put-settings",
    "create-transform", "start-transform", "wait-for-transform", "delete-transform", "create-data-stream",
    "delete-data-stream", "create-composable-template", "delete-composable-template", "create-component-template",
    "delete-component-template", "transform-stats", "create-ilm-policy", "delete-ilm-policy"}
NonAdminTypes == {"index-stats", "node-stats", "search", "bulk", "raw-request", "wait-for-recovery",
    "wait-for-snapshot-create", "composite", "submit-async-search", "get-async-search", "delete-async-search",
    "paginated-search", "scroll-search", "open-point-in-time", "close-point-in-time", "sql", "field-caps",
    "composite-agg", "wait-for-current-snapshots-create", "downsample", "esql"}

-----------------------------------------------------------------------------
(* Parameter substitution: the file with every Val replaced by its value.  *)
ResN(F, x) == IF x.p # "" /\ \E s \in F.supN : s.p = x.p THEN (CHOOSE s \in F.supN : s.p = x.p).v ELSE x.v
ResS(F, x) == IF x.p # "" /\ \E s \in F.supS : s.p = x.p THEN (CHOOSE s \in F.supS : s.p = x.p).v ELSE x.v

(* rally.exists_set_param(setting, p, default_value=d) (docs/advanced.rst): the setting is emitted with the user's value  *)
(* whenever the parameter is defined - whatever the value, 0 / false / "" included -, with the default when it is not  *)
(* defined and a default exists, and not at all otherwise (Abs).                                                        *)
XVal(F, x) == IF x.p = "" THEN Abs
              ELSE IF \E s \in F.supN : s.p = x.p THEN (CHOOSE s \in F.supN : s.p = x.p).v
              ELSE x.d
RTask(F, t) == [name |-> ResS(F, t.name), opk |-> t.opk, op |-> t.op, type |-> t.type, bulk |-> ResN(F, t.bulk),
                xv |-> XVal(F, t.xp), xc |-> t.xp.comma,
                clients |-> ResN(F, t.clients), wi |-> ResN(F, t.wi), it |-> ResN(F, t.it), wtp |-> ResN(F, t.wtp),
                tp |-> ResN(F, t.tp), ru |-> ResN(F, t.ru), tput |-> ResN(F, t.tput), unit |-> t.unit, tags |-> t.tags]
REl(F, el) == [par |-> el.par, cap |-> ResN(F, el.cap), wi |-> ResN(F, el.wi), it |-> ResN(F, el.it),
               wtp |-> ResN(F, el.wtp), tp |-> ResN(F, el.tp), ru |-> ResN(F, el.ru), cb |-> el.cb,
               tasks |-> [i \in 1..Len(el.tasks) |-> RTask(F, el.tasks[i])]]
RChal(F, ch) == [name |-> ch.name, dflt |-> ch.dflt, sched |-> [e \in 1..Len(ch.sched) |-> REl(F, ch.sched[e])]]
Resolve(F) == [form |-> F.form,
               chals |-> [c \in 1..Len(F.chals) |-> RChal(F, F.chals[c])],
               ops |-> [i \in 1..Len(F.ops) |-> [name |-> F.ops[i].name, type |-> F.ops[i].type, bulk |-> ResN(F, F.ops[i].bulk),
                                                 xv |-> XVal(F, F.ops[i].xp), xc |-> F.ops[i].xp.comma,
                                                 xm |-> IF i = 1 THEN ResN(F, F.mac) ELSE Abs]],
               corpora |-> [k \in 1..Len(F.corpora) |->
                              [name |-> F.corpora[k].name, burl |-> F.corpora[k].burl,
                               tidx |-> F.corpora[k].tidx, tds |-> F.corpora[k].tds,
                               iaamd |-> F.corpora[k].iaamd,
                               docs |-> [d \in 1..Len(F.corpora[k].docs) |->
                                           [base |-> F.corpora[k].docs[d].base, ext |-> F.corpora[k].docs[d].ext,
                                            count |-> ResN(F, F.corpora[k].docs[d].count), tidx |-> F.corpora[k].docs[d].tidx,
                                            tds |-> F.corpora[k].docs[d].tds, iaamd |-> F.corpora[k].docs[d].iaamd,
                                            burl |-> F.corpora[k].docs[d].burl]]]],
               indices |-> F.indices, streams |-> F.streams, defect |-> F.defect,
               ibody |-> IF Len(F.indices) >= 1 THEN ResN(F, F.ibody) ELSE Abs,
               tkind |-> F.tkind, tbody |-> IF F.tkind = "" THEN Abs ELSE ResN(F, F.tbody)]

(* Track parameters referenced anywhere in the file, included parts too.   *)
\* parameters referenced in the index body file / the template file (never part of an included part)
SideParams(F) == (IF Len(F.indices) >= 1 THEN {F.ibody.p} ELSE {}) \cup (IF F.tkind # "" THEN {F.tbody.p} ELSE {})
TaskParams(t) == {t[k].p : k \in TaskNumFields} \cup {t.name.p, t.xp.p}
ElParams(el) == {el[k].p : k \in ElNumFields} \cup UNION {TaskParams(el.tasks[i]) : i \in 1..Len(el.tasks)}
ChalParams(ch) == UNION {ElParams(ch.sched[e]) : e \in 1..Len(ch.sched)}
\* the parameter of the imported macro file (imports are never scanned for parameters by the loader)
MacParams(F) == IF Len(F.ops) >= 1 THEN {F.mac.p} \ {""} ELSE {}
UsesHelpers(F) == \/ F.mac # NoVal
                  \/ \E i \in 1..Len(F.ops) : F.ops[i].xp # NoX
                  \/ \E c \in 1..Len(F.chals) : \E e \in 1..Len(F.chals[c].sched) :
                        \E i \in 1..Len(F.chals[c].sched[e].tasks) : F.chals[c].sched[e].tasks[i].xp # NoX
UsedDirect(F) == (UNION {ChalParams(F.chals[c]) : c \in 1..Len(F.chals)}
            \cup {F.ops[i].bulk.p : i \in 1..Len(F.ops)} \cup {F.ops[i].xp.p : i \in 1..Len(F.ops)}
            \cup UNION {{F.corpora[k].docs[d].count.p : d \in 1..Len(F.corpora[k].docs)} : k \in 1..Len(F.corpora)}
            \cup SideParams(F) \cup F.refs) \ {""}
Used(F) == UsedDirect(F) \cup MacParams(F)
\* ... and those outside of included parts
UsedOutsideParts(F) ==
    ((IF "chals" \in F.parts THEN {} ELSE UNION {ChalParams(F.chals[c]) : c \in 1..Len(F.chals)})
     \cup (IF "ops" \in F.parts THEN {} ELSE {F.ops[i].bulk.p : i \in 1..Len(F.ops)} \cup {F.ops[i].xp.p : i \in 1..Len(F.ops)})
     \cup (IF "corpora" \in F.parts THEN {}
           ELSE UNION {{F.corpora[k].docs[d].count.p : d \in 1..Len(F.corpora[k].docs)} : k \in 1..Len(F.corpora)})
     \cup SideParams(F) \cup F.refs) \ {""}
\* what the loader's scan for parameters sees by design: everything written in track.json, the textually expanded parts,
\* index body / template files; NOT imported macro files and NOT parts that only the Jinja macro includes (single quotes)
Scanned(F) == IF F.squote THEN UsedOutsideParts(F) ELSE UsedDirect(F)
Supplied(F) == {s.p : s \in F.supN} \cup {s.p : s \in F.supS}

-----------------------------------------------------------------------------
(* Shared vocabulary on a RESOLVED file R.                                  *)
(* The operation a task refers to: a string names an entry of the           *)
(* operations section, otherwise it is an operation type used directly;     *)
(* an inline operation is named after its type unless it has a name.        *)
OpOf(R, t) == IF t.opk = "str"
              THEN IF \E i \in 1..Len(R.ops) : R.ops[i].name = t.op
                   THEN R.ops[CHOOSE i \in 1..Len(R.ops) : R.ops[i].name = t.op]
                   ELSE [name |-> t.op, type |-> t.op, bulk |-> Abs, xv |-> Abs, xc |-> TRUE, xm |-> Abs]
              ELSE [name |-> IF t.op = "" THEN t.type ELSE t.op, type |-> t.type, bulk |-> t.bulk, xv |-> t.xv, xc |-> t.xc,
                    xm |-> Abs]
TName(R, t) == IF t.name = "" THEN OpOf(R, t).name ELSE t.name
Eff(own, inherited) == IF own # Abs THEN own ELSE inherited
IsSet(x) == x # Abs
AllPos(ch) == UNION {{<<e, i>> : i \in 1..Len(ch.sched[e].tasks)} : e \in 1..Len(ch.sched)}
ChalName(R, c) == IF R.form = "schedule" THEN "default" ELSE R.chals[c].name

(* Target of a document set x of corpus k (docs/track.rst, "corpora"): its own target-index / target-data-stream, else  *)
(* the corpus-level default, else the name of the ONLY index / data stream of the track; none at all when the file says *)
(* that the documents carry their own action-and-meta-data lines.                                                       *)
EffIaamd(k, x) == IF x.iaamd # "abs" THEN x.iaamd = "true" ELSE k.iaamd = "true"
DetIdx(R, k, x) == IF x.tidx # "" THEN x.tidx ELSE IF k.tidx # "" THEN k.tidx ELSE IF Len(R.indices) = 1 THEN R.indices[1] ELSE ""
DetDs(R, k, x) == IF x.tds # "" THEN x.tds ELSE IF k.tds # "" THEN k.tds ELSE IF Len(R.streams) = 1 THEN R.streams[1] ELSE ""
SomeDoc(R, Q(_, _)) == \E k \in 1..Len(R.corpora) : \E d \in 1..Len(R.corpora[k].docs) : Q(R.corpora[k], R.corpora[k].docs[d])

RECURSIVE SumClients(_, _)
SumClients(ts, n) == IF n = 0 THEN 0 ELSE SumClients(ts, n - 1) + (IF ts[n].clients = Abs THEN 1 ELSE ts[n].clients)

-----------------------------------------------------------------------------
(* DOCUMENTED RULES  (declarative; docs/track.rst + track-schema.json)      *)
(* timing fields of a task as they apply: its own, else its parallel's      *)
Timing(el, t) == [wi |-> Eff(t.wi, el.wi), it |-> Eff(t.it, el.it), wtp |-> Eff(t.wtp, el.wtp),
                  tp |-> Eff(t.tp, el.tp), ru |-> Eff(t.ru, el.ru)]
Mixing(x) == (IsSet(x.wi) \/ IsSet(x.it)) /\ (IsSet(x.wtp) \/ IsSet(x.tp))
TypeDefects == {"clientsStr", "defaultStr", "nameNum", "countStr", "cbNum", "capStr"}
MissingDefects == {"chalNoName", "chalNoSched", "opNoName", "opNoType", "corpusNoDocs", "docNoFile", "docNoCount",
                   "parNoTasks", "taskNoOp", "inlNoType", "emptySched", "noChallenges"}

SomeTask(R, Q(_, _)) == \E c \in 1..Len(R.chals) : \E ps \in AllPos(R.chals[c]) :
                            Q(R.chals[c].sched[ps[1]], R.chals[c].sched[ps[1]].tasks[ps[2]])
OutOfRange(R) ==
    \/ SomeTask(R, LAMBDA el, t : t.clients = 0 \/ t.it = 0 \/ t.tp = 0)
    \/ \E c \in 1..Len(R.chals) : \E e \in 1..Len(R.chals[c].sched) :
          LET el == R.chals[c].sched[e] IN el.cap = 0 \/ el.it = 0 \/ el.tp = 0
    \/ \E k \in 1..Len(R.corpora) : \E d \in 1..Len(R.corpora[k].docs) : R.corpora[k].docs[d].count = 0
    \/ \E i \in 1..Len(R.ops) : R.ops[i].bulk = 0
NotUnique(R) ==   \* uniqueItems of the schema: identical array items
    \/ \E i, j \in 1..Len(R.indices) : i # j /\ R.indices[i] = R.indices[j]
                                       /\ (R.ibody = Abs \/ (i # 1 /\ j # 1))   \* the body file makes the first index object different
    \/ \E i, j \in 1..Len(R.streams) : i # j /\ R.streams[i] = R.streams[j]
    \/ \E k \in 1..Len(R.corpora) : \E i, j \in 1..Len(R.corpora[k].docs) : i # j /\ R.corpora[k].docs[i] = R.corpora[k].docs[j]

Rule(r, F, R) ==
    CASE r = "dupTask" -> \E c \in 1..Len(R.chals) : \E ps, qs \in AllPos(R.chals[c]) :
                              /\ ps # qs
                              /\ TName(R, R.chals[c].sched[ps[1]].tasks[ps[2]]) = TName(R, R.chals[c].sched[qs[1]].tasks[qs[2]])
      [] r = "dupChallenge" -> \E c, d \in 1..Len(R.chals) : c # d /\ ChalName(R, c) = ChalName(R, d)
      [] r = "dupCorpus" -> \E k, j \in 1..Len(R.corpora) : k # j /\ R.corpora[k].name = R.corpora[j].name
      [] r = "dupOperation" -> \E i, j \in 1..Len(R.ops) : i # j /\ R.ops[i].name = R.ops[j].name
      [] r = "noDefault" -> Len(R.chals) >= 2 /\ \A c \in 1..Len(R.chals) : R.chals[c].dflt # "true"
      [] r = "twoDefaults" -> \E c, d \in 1..Len(R.chals) : c # d /\ R.chals[c].dflt = "true" /\ R.chals[d].dflt = "true"
      [] r = "mixing" -> SomeTask(R, LAMBDA el, t : Mixing(Timing(el, t)))
      [] r = "rampUpWithoutWarmup" -> SomeTask(R, LAMBDA el, t : IsSet(Timing(el, t).ru) /\ ~IsSet(Timing(el, t).wtp))
      [] r = "rampUpGtWarmup" -> SomeTask(R, LAMBDA el, t : LET x == Timing(el, t) IN IsSet(x.ru) /\ IsSet(x.wtp) /\ x.ru > x.wtp)
      [] r = "unknownCompletedBy" -> \E c \in 1..Len(R.chals) : \E e \in 1..Len(R.chals[c].sched) :
                              LET el == R.chals[c].sched[e] IN
                              el.par /\ el.cb # "" /\ el.cb # "any" /\ \A i \in 1..Len(el.tasks) : TName(R, el.tasks[i]) # el.cb
      [] r = "indicesAndDataStreams" -> Len(R.indices) > 0 /\ Len(R.streams) > 0
      [] r = "unusedParam" -> (Supplied(F) \ Reserved) \ Used(F) # {}
      [] r = "reservedParam" -> Supplied(F) \cap Reserved # {}
      [] r = "schemaType" -> R.defect.k \in TypeDefects \/ OutOfRange(R) \/ NotUnique(R)
      [] r = "schemaMissing" -> R.defect.k \in MissingDefects
      \* a document set (without action-and-meta-data lines) whose target the file does not determine: no target on the set,
      \* none on the corpus, and not exactly one index / data stream ("Rally will automatically derive this value if you
      \* have defined exactly one index")
      [] r = "targetUndetermined" -> SomeDoc(R, LAMBDA k, x : ~EffIaamd(k, x) /\ DetIdx(R, k, x) = "" /\ DetDs(R, k, x) = "")
      \* ---- enforced by the loader, documented, but not named by the property statement (L2 only) ----
      [] r = "rampUpOnTaskOnly" -> SomeTask(R, LAMBDA el, t : el.par /\ ~IsSet(el.ru) /\ IsSet(t.ru))
      [] r = "rampUpDiffers" -> SomeTask(R, LAMBDA el, t : el.par /\ IsSet(el.ru) /\ IsSet(t.ru) /\ t.ru # el.ru)
      \* a task called "any" inside a parallel element completed by "any": ambiguous, the loader's answer depends on the
      \* position of that task (accepted if it is the first task)
      [] r = "taskNamedAny" -> \E c \in 1..Len(R.chals) : \E e \in 1..Len(R.chals[c].sched) :
                              LET el == R.chals[c].sched[e] IN
                              el.par /\ el.cb = "any" /\ \E i \in 1..Len(el.tasks) : TName(R, el.tasks[i]) = "any"
      \* where the loader's treatment of targets is its own business (L1 says nothing about these files): an index target in
      \* a track that declares data streams or vice versa (rejected), a corpus-level target without the corresponding section
      \* (ignored unless the document set repeats it)
      \* a supplied parameter that the file uses, but only where the loader does not look for parameters (imported macro
      \* file, part collected with single quotes): the loader reports it as unused
      [] r = "paramOnlyInUnscanned" -> ((Supplied(F) \ Reserved) \cap Used(F)) \ Scanned(F) # {}
      [] r = "corpusTarget" -> SomeDoc(R, LAMBDA k, x : /\ ~EffIaamd(k, x)
                                                        /\ \/ DetIdx(R, k, x) # "" /\ Len(R.streams) > 0
                                                           \/ DetDs(R, k, x) # "" /\ Len(R.indices) > 0
                                                           \/ x.tidx = "" /\ k.tidx # "" /\ Len(R.indices) = 0
                                                           \/ x.tds = "" /\ k.tds # "" /\ Len(R.streams) = 0)

L1Rules == {"dupTask", "dupChallenge", "dupCorpus", "dupOperation", "noDefault", "twoDefaults", "mixing",
            "rampUpWithoutWarmup", "rampUpGtWarmup", "unknownCompletedBy", "indicesAndDataStreams", "unusedParam",
            "reservedParam", "schemaType", "schemaMissing", "targetUndetermined"}
L2Rules == {"rampUpOnTaskOnly", "rampUpDiffers", "corpusTarget", "taskNamedAny", "paramOnlyInUnscanned"}
Rules == L1Rules \cup L2Rules
ViolR(F, R) == {r \in Rules : Rule(r, F, R)}
Viol(F) == ViolR(F, Resolve(F))

-----------------------------------------------------------------------------
(* EXPECTED TRACK of a valid file (declarative).                            *)
(* core  = what the property statement names; extra = further attributes    *)
(* of the loaded objects that the transcription also predicts (L2 only).    *)
ExpTask(R, el, t) ==
    LET o == OpOf(R, t)  x == Timing(el, t)  n == TName(R, t) IN
    [name |-> n, op |-> [name |-> o.name, type |-> o.type, bulk |-> o.bulk,
                         xs |-> IF o.xc THEN o.xv ELSE Abs, xb |-> IF o.xc THEN Abs ELSE o.xv, xm |-> o.xm],
     clients |-> IF IsSet(t.clients) THEN t.clients ELSE 1,
     wi |-> x.wi, it |-> x.it, wtp |-> x.wtp, tp |-> x.tp, ru |-> x.ru,
     cp |-> el.par /\ el.cb # "" /\ el.cb = n, acp |-> el.par /\ el.cb = "any",
     tput |-> t.tput, unit |-> IF ~IsSet(t.tput) THEN "" ELSE IF t.unit = "" THEN "ops" ELSE t.unit,
     tags |-> t.tags]
ExpEl(R, el) == [par |-> el.par,
                 clients |-> IF el.par /\ IsSet(el.cap) THEN el.cap ELSE SumClients(el.tasks, Len(el.tasks)),
                 tasks |-> [i \in 1..Len(el.tasks) |-> ExpTask(R, el, el.tasks[i])]]
ExpChal(R, c) == [name |-> ChalName(R, c),
                  dflt |-> Len(R.chals) = 1 \/ R.chals[c].dflt = "true",
                  sched |-> [e \in 1..Len(R.chals[c].sched) |-> ExpEl(R, R.chals[c].sched[e])]]
\* targets as the loader computes them (_create_corpora), used by the transcription only
CodeCorpusIdx(R, k) == IF Len(R.indices) = 1 THEN (IF k.tidx # "" THEN k.tidx ELSE R.indices[1])
                       ELSE IF Len(R.indices) > 1 THEN k.tidx ELSE ""
CodeCorpusDs(R, k) == IF Len(R.streams) = 1 THEN (IF k.tds # "" THEN k.tds ELSE R.streams[1])
                      ELSE IF Len(R.streams) > 1 THEN k.tds ELSE ""
CodeIdx(R, k, x) == IF x.tidx # "" THEN x.tidx ELSE CodeCorpusIdx(R, k)
CodeDs(R, k, x) == IF x.tds # "" THEN x.tds ELSE CodeCorpusDs(R, k)
ExpDoc(R, k, x, asCode) ==
    [file |-> x.base, arch |-> x.ext, count |-> x.count, iaamd |-> EffIaamd(k, x),
     burl |-> IF x.burl # "" THEN x.burl ELSE k.burl,
     tidx |-> IF EffIaamd(k, x) THEN "" ELSE IF asCode THEN CodeIdx(R, k, x) ELSE DetIdx(R, k, x),
     tds |-> IF EffIaamd(k, x) THEN "" ELSE IF asCode THEN CodeDs(R, k, x) ELSE DetDs(R, k, x)]
CoreR(R, asCode) == [chals |-> [c \in 1..Len(R.chals) |-> ExpChal(R, c)],
                     corpora |-> [k \in 1..Len(R.corpora) |->
                                    [name |-> R.corpora[k].name,
                                     docs |-> [d \in 1..Len(R.corpora[k].docs) |->
                                                 ExpDoc(R, R.corpora[k], R.corpora[k].docs[d], asCode)]]],
                     indices |-> R.indices, streams |-> R.streams,
                     \* what the index body file / the template file say after parameter substitution
                     ishards |-> R.ibody, tkind |-> R.tkind, treplicas |-> R.tbody]
ExpectedR(R) == CoreR(R, FALSE)
Expected(F) == ExpectedR(Resolve(F))

InclDefault(type) == type \notin AdminTypes   \* include-in-reporting unless an administrative built-in type
ExtraR(R, sel) == [c \in 1..Len(R.chals) |->
                     [auto |-> R.form = "schedule",
                      sel |-> Len(R.chals) = 1 \/ (sel # "" /\ sel = ChalName(R, c)),
                      incl |-> [e \in 1..Len(R.chals[c].sched) |->
                                  [i \in 1..Len(R.chals[c].sched[e].tasks) |->
                                      InclDefault(OpOf(R, R.chals[c].sched[e].tasks[i]).type)]]]]

-----------------------------------------------------------------------------
(* CODE: transcription of the loader as written.  Outcome record:           *)
(*   [ok: BOOLEAN, kind: "" | "syntax" | "config", core, extra]             *)
Rejected(kind) == [ok |-> FALSE, kind |-> kind, core |-> <<>>, extra |-> <<>>]

\* parse_task: the checks after the Task object has been built (x = its timing attributes)
CodeTaskError(x) ==
    \/ IsSet(x.wi) /\ IsSet(x.tp)
    \/ IsSet(x.wtp) /\ IsSet(x.it)
    \/ (IsSet(x.wi) \/ IsSet(x.it)) /\ IsSet(x.ru)
    \/ IsSet(x.ru) /\ (~IsSet(x.wtp) \/ x.wtp < x.ru)
    \/ RejectAllMixing /\ (IsSet(x.wi) \/ IsSet(x.it)) /\ (IsSet(x.wtp) \/ IsSet(x.tp))
\* parse_parallel: tasks parsed with the element's defaults, then ramp-up agreement, then completed-by
CodeParallelError(R, el) ==
    \/ \E i \in 1..Len(el.tasks) : CodeTaskError(Timing(el, el.tasks[i]))
    \/ \E i \in 1..Len(el.tasks) : Eff(el.tasks[i].ru, el.ru) # el.ru
    \/ /\ el.cb # ""      \* one pass with the flag has_completion_task
       /\ LET cp(i) == TName(R, el.tasks[i]) = el.cb
              acp == el.cb = "any"
          IN \/ \E i, j \in 1..Len(el.tasks) : j < i /\ cp(i) /\ (cp(j) \/ acp)
             \/ ~acp /\ \A i \in 1..Len(el.tasks) : ~cp(i)
CodeElError(R, el) == IF el.par THEN CodeParallelError(R, el) ELSE CodeTaskError(Timing(el, el.tasks[1]))
\* _create_challenges: one pass over the challenge specs
RECURSIVE CodeChallengesError(_, _, _, _)
CodeChallengesError(R, c, seenDefault, seenNames) ==
    IF c > Len(R.chals) THEN Len(R.chals) > 0 /\ ~seenDefault
    ELSE LET ch == R.chals[c]
             name == ChalName(R, c)
             default == Len(R.chals) = 1 \/ ch.dflt = "true"
             names == {TName(R, ch.sched[ps[1]].tasks[ps[2]]) : ps \in AllPos(ch)}
         IN \/ default /\ seenDefault
            \/ name \in seenNames
            \/ \E e \in 1..Len(ch.sched) : CodeElError(R, ch.sched[e])
            \/ Cardinality(names) < Cardinality(AllPos(ch))
            \/ CodeChallengesError(R, c + 1, seenDefault \/ default, seenNames \cup {name})
\* _create_corpora
CodeCorporaError(R) ==
    \/ \E k, j \in 1..Len(R.corpora) : k < j /\ R.corpora[k].name = R.corpora[j].name
    \/ SomeDoc(R, LAMBDA k, x :
          LET tds == CodeDs(R, k, x)
              tix == CodeIdx(R, k, x)
          IN /\ ~EffIaamd(k, x)
             /\ \/ x.tds = "" /\ Len(R.streams) > 0 /\ CodeCorpusDs(R, k) = ""     \* mandatory target-data-stream missing
                \/ tds # "" /\ Len(R.indices) > 0
                \/ x.tidx = "" /\ Len(R.indices) > 0 /\ CodeCorpusIdx(R, k) = ""   \* mandatory target-index missing
                \/ tix # "" /\ Len(R.streams) > 0
                \/ tix = "" /\ tds = "")
CodeSchemaError(R) == R.defect.k # "none" \/ OutOfRange(R) \/ NotUnique(R)
CodeR(F, R, sel) ==
    IF CodeSchemaError(R) THEN Rejected("syntax")                                  \* jsonschema / mandatory elements
    ELSE IF Len(R.indices) > 0 /\ Len(R.streams) > 0 THEN Rejected("syntax")
    ELSE IF CodeCorporaError(R) THEN Rejected("syntax")
    ELSE IF \E i, j \in 1..Len(R.ops) : i < j /\ R.ops[i].name = R.ops[j].name THEN Rejected("syntax")
    ELSE IF CodeChallengesError(R, 1, FALSE, {}) THEN Rejected("syntax")
    ELSE IF Supplied(F) \cap Reserved # {} THEN Rejected("config")
    ELSE IF Supplied(F) \ (IF F.tight /\ ~MacroIncludesSeen THEN UsedOutsideParts(F) ELSE Scanned(F)) # {} THEN Rejected("config")
    ELSE [ok |-> TRUE, kind |-> "", core |-> CoreR(R, TRUE), extra |-> ExtraR(R, sel)]
Code(F, sel) == CodeR(F, Resolve(F), sel)

-----------------------------------------------------------------------------
(* THE PROPERTY on an outcome o of loading F.                               *)
(* V = Viol(F), R = Resolve(F) are passed in so that they are evaluated once. *)
Fidelity(V, R, o) == (V = {} /\ o.ok) => o.core = ExpectedR(R)
ValidLoads(V, o) == V = {} => o.ok
Rejection(V, o) == V \cap L1Rules # {} => ~o.ok /\ o.kind \in {"syntax", "config"}
\* Whatever else the file contains: a track that LOADED has exactly the corpora / document sets written, and every
\* document set targets what the file determines (its own target, else the corpus-level one, else the only index / data
\* stream; nothing if the documents carry action-and-meta-data lines). A file that determines no target cannot load.
\* Files in the loader-specific zone "corpusTarget" are left to L2.
TargetAsWritten(V, R, o) ==
    (o.ok /\ "corpusTarget" \notin V) =>
        /\ Len(o.core.corpora) = Len(R.corpora)
        /\ \A k \in 1..Len(R.corpora) :
              /\ Len(o.core.corpora[k].docs) = Len(R.corpora[k].docs)
              /\ \A d \in 1..Len(R.corpora[k].docs) :
                    LET x == R.corpora[k].docs[d]
                        y == o.core.corpora[k].docs[d]
                    IN IF EffIaamd(R.corpora[k], x) THEN y.tidx = "" /\ y.tds = ""
                       ELSE /\ y.tidx = DetIdx(R, R.corpora[k], x)
                            /\ y.tds = DetDs(R, R.corpora[k], x)
                            /\ (y.tidx # "" \/ y.tds # "")
\* TEXT written as an operation parameter (a regexp query, a Windows path, a script: characters that are special to re
\* replacement templates, Jinja or JSON) is opaque to every rule above, so it travels next to the file:
\*   T = [ops: Seq([i, w]), tasks: Seq([c, e, i, w])]   w = what the file says (the JSON string literal decoded), as the
\*       sequence of its UTF-8 bytes, written in the i-th entry of the operations section / in the inline operation of
\*       task i of element e of challenge c - wherever that text lives (track.json, a first- or second-level included part);
\*   o.txt = Seq([c, e, i, w])  for every task of the LOADED track whose operation carries the parameter: its bytes.
\* "operations ... are exactly those written in the file (... with included parts)": the operation a task executes carries
\* exactly the text written for it, byte for byte, and no other task carries any.
SeqElems(s) == {s[j] : j \in 1..Len(s)}
TaskText(R, T, c, e, i) ==
    LET t == R.chals[c].sched[e].tasks[i] IN
    IF t.opk = "str"
    THEN IF \E k \in 1..Len(R.ops) : R.ops[k].name = t.op
         THEN LET n == CHOOSE k \in 1..Len(R.ops) : R.ops[k].name = t.op IN {x.w : x \in {x \in SeqElems(T.ops) : x.i = n}}
         ELSE {}
    ELSE {x.w : x \in {x \in SeqElems(T.tasks) : x.c = c /\ x.e = e /\ x.i = i}}
ExpText(R, T) == UNION {UNION {{[c |-> c, e |-> ps[1], i |-> ps[2], w |-> w] : w \in TaskText(R, T, c, ps[1], ps[2])} :
                                  ps \in AllPos(R.chals[c])} : c \in 1..Len(R.chals)}
IncludedTextVerbatim(V, R, T, o) == (V = {} /\ o.ok) => SeqElems(o.txt) = ExpText(R, T)
\* (leg M has no text: Code passes operation parameters through untouched; the clause is evaluated on recorded loads)

Clauses == {"Fidelity", "ValidLoads", "Rejection", "TargetAsWritten"}
Holds(cl, V, R, o) == CASE cl = "Fidelity" -> Fidelity(V, R, o)
                        [] cl = "ValidLoads" -> ValidLoads(V, o)
                        [] cl = "Rejection" -> Rejection(V, o)
                        [] cl = "TargetAsWritten" -> TargetAsWritten(V, R, o)

\* leg M: the transcription of the loader satisfies the property on every reachable file; moreover it rejects
\* whatever violates a loader-only rule (model-level L2 sanity) and the bookkeeping variable agrees with the rules
PropertyHolds == LET R == Resolve(f)
                     V == ViolR(f, R)
                     o == CodeR(f, R, "")
                 IN \A cl \in Clauses : Holds(cl, V, R, o)
ModelSane == LET R == Resolve(f)
                 V == ViolR(f, R)
             IN /\ (violated = "none") <=> (V = {})
                /\ violated \in L1Rules => V \cap L1Rules = {violated}
                /\ violated = "l2only" => V # {} /\ V \cap L1Rules = {}
                /\ (V \ {"taskNamedAny", "corpusTarget"} # {} /\ RejectAllMixing) => ~CodeR(f, R, "").ok

-----------------------------------------------------------------------------
(* BUILDER                                                                 *)
BareTask(ref) == [name |-> NoStr, opk |-> ref.opk, op |-> ref.op, type |-> ref.type, bulk |-> NoVal, xp |-> NoX, clients |-> NoVal,
                  wi |-> NoVal, it |-> NoVal, wtp |-> NoVal, tp |-> NoVal, ru |-> NoVal, tput |-> NoVal, unit |-> "",
                  tags |-> <<>>]
PlainEl(t) == [par |-> FALSE, cap |-> NoVal, wi |-> NoVal, it |-> NoVal, wtp |-> NoVal, tp |-> NoVal, ru |-> NoVal,
               cb |-> "", tasks |-> <<t>>]
ParEl(t) == [PlainEl(t) EXCEPT !.par = TRUE]
EmptyFile(form, cname, ref) ==
    [form |-> form, chals |-> <<[name |-> cname, dflt |-> "abs", sched |-> <<PlainEl(BareTask(ref))>>]>>,
     ops |-> <<>>, corpora |-> <<>>, indices |-> <<>>, streams |-> <<>>, supN |-> {}, supS |-> {}, parts |-> {},
     refs |-> {}, tight |-> FALSE, squote |-> FALSE, mac |-> NoVal, defect |-> NoDefect, ibody |-> NoVal, tkind |-> "", tbody |-> NoVal]

Vals(field) == {L(n) : n \in Alpha[field]}
               \cup (IF field \in ParamSites THEN {P(q, n) : q \in NumParams, n \in Alpha[field] \ {0}} ELSE {})

\* number of optional attributes written in the file (bounds the exhaustive exploration)
SetCountT(t) == Cardinality({k \in TaskNumFields : t[k] # NoVal}) + (IF t.name # NoStr THEN 1 ELSE 0) + (IF t.xp # NoX THEN 1 ELSE 0)
                + (IF t.tags # <<>> THEN 1 ELSE 0)
RECURSIVE SumT(_, _)
SumT(ts, n) == IF n = 0 THEN 0 ELSE SumT(ts, n - 1) + SetCountT(ts[n])
SetCountEl(el) == Cardinality({k \in ElNumFields : el[k] # NoVal}) + (IF el.cb # "" THEN 1 ELSE 0) + SumT(el.tasks, Len(el.tasks))
RECURSIVE SumEl(_, _)
SumEl(s, n) == IF n = 0 THEN 0 ELSE SumEl(s, n - 1) + SetCountEl(s[n])
RECURSIVE SumCh(_, _)
SumCh(cs, n) == IF n = 0 THEN 0 ELSE SumCh(cs, n - 1) + SumEl(cs[n].sched, Len(cs[n].sched)) + (IF cs[n].dflt # "abs" THEN 1 ELSE 0)
SetCount(F) == SumCh(F.chals, Len(F.chals))
RECURSIVE SumTasks(_, _)
SumTasks(s, n) == IF n = 0 THEN 0 ELSE SumTasks(s, n - 1) + Len(s[n].tasks)
RECURSIVE SumChTasks(_, _)
SumChTasks(cs, n) == IF n = 0 THEN 0 ELSE SumChTasks(cs, n - 1) + SumTasks(cs[n].sched, Len(cs[n].sched))
RECURSIVE SumDocs(_, _)
DocSet(x) == (IF x.tds # "" THEN 1 ELSE 0) + (IF x.iaamd # "abs" THEN 1 ELSE 0) + (IF x.burl # "" THEN 1 ELSE 0)
RECURSIVE SumDocSet(_, _)
SumDocSet(ds, n) == IF n = 0 THEN 0 ELSE SumDocSet(ds, n - 1) + DocSet(ds[n])
SumDocs(ks, n) == IF n = 0 THEN 0
                  ELSE SumDocs(ks, n - 1) + Len(ks[n].docs) + SumDocSet(ks[n].docs, Len(ks[n].docs))
                       + (IF ks[n].tidx # "" THEN 1 ELSE 0) + DocSet(ks[n])
\* number of builder steps that lead to F = number of things written beyond the minimal file
Size(F) == SetCount(F) + (SumChTasks(F.chals, Len(F.chals)) - 1) + Len(F.ops) + SumDocs(F.corpora, Len(F.corpora))
           + Len(F.indices) + Len(F.streams) + Cardinality(F.supN) + Cardinality(F.supS) + Cardinality(F.parts)
           + Cardinality(F.refs) + (IF F.mac # NoVal THEN 1 ELSE 0) + (IF F.ibody # NoVal THEN 1 ELSE 0) + (IF F.tkind # "" THEN 1 ELSE 0)
           + (IF F.defect = NoDefect THEN 0 ELSE 1)

ChalIdx == 1..Len(f.chals)
ElIdx(c) == 1..Len(f.chals[c].sched)
TaskIdx(c, e) == 1..Len(f.chals[c].sched[e].tasks)

CandAddOperation == IF Len(f.ops) < MaxOps
                    THEN {[f EXCEPT !.ops = Append(@, o)] : o \in {o \in OpDefs : f.squote => o.xp = NoX}} ELSE {}
CandAddChallenge == IF f.form = "challenges" /\ Len(f.chals) < MaxChals
                    THEN {[f EXCEPT !.chals = Append(@, [name |-> n, dflt |-> d, sched |-> <<PlainEl(BareTask(ref))>>])] :
                              n \in CNames, d \in {"abs", "true", "false"}, ref \in ChalOps}
                    ELSE {}
CandSetDefault == IF f.form = "schedule" THEN {}
                  ELSE {[f EXCEPT !.chals[c].dflt = d] : c \in ChalIdx, d \in {"true", "false"}}
CandAddTask == UNION {IF Len(f.chals[c].sched) < MaxEls
                      THEN {[f EXCEPT !.chals[c].sched = Append(@, PlainEl(BareTask(ref)))] : ref \in TaskOps}
                      ELSE {} : c \in ChalIdx}
CandAddParallel == UNION {IF Len(f.chals[c].sched) < MaxEls
                          THEN {[f EXCEPT !.chals[c].sched = Append(@, ParEl(BareTask(ref)))] : ref \in TaskOps}
                          ELSE {} : c \in ChalIdx}
CandAddParallelTask == UNION {UNION {IF f.chals[c].sched[e].par /\ Len(f.chals[c].sched[e].tasks) < MaxParTasks
                                     THEN {[f EXCEPT !.chals[c].sched[e].tasks = Append(@, BareTask(ref))] : ref \in TaskOps}
                                     ELSE {} : e \in ElIdx(c)} : c \in ChalIdx}
CandSetTaskField ==
    UNION {UNION {UNION {
        LET t == f.chals[c].sched[e].tasks[i] IN
        UNION {IF t[k] = NoVal /\ (k = "bulk" => t.opk = "inl")
               THEN {[f EXCEPT !.chals[c].sched[e].tasks[i][k] = x] : x \in Vals(k)} ELSE {} : k \in TaskNumFields}
        \cup (IF t.name = NoStr
              THEN {[f EXCEPT !.chals[c].sched[e].tasks[i].name = [v |-> n, p |-> ""]] : n \in TNames}
                   \cup {[f EXCEPT !.chals[c].sched[e].tasks[i].name = [v |-> n, p |-> q]] : n \in TNames, q \in StrParams}
              ELSE {})
        \cup (IF t.opk = "inl" /\ t.xp = NoX /\ ~f.squote THEN {[f EXCEPT !.chals[c].sched[e].tasks[i].xp = x] : x \in XUses} ELSE {})
        \cup (IF t.tags = <<>> THEN {[f EXCEPT !.chals[c].sched[e].tasks[i].tags = g] : g \in TagSeqs} ELSE {})
        \cup (IF t.tput # NoVal /\ t.unit = "" THEN {[f EXCEPT !.chals[c].sched[e].tasks[i].unit = u] : u \in Units} ELSE {})
      : i \in TaskIdx(c, e)} : e \in ElIdx(c)} : c \in ChalIdx}
CandSetParallelField ==
    UNION {UNION {
        LET el == f.chals[c].sched[e] IN
        IF ~el.par THEN {}
        ELSE UNION {IF el[k] = NoVal THEN {[f EXCEPT !.chals[c].sched[e][k] = x] : x \in Vals(k)} ELSE {} : k \in ElNumFields}
             \cup (IF el.cb = "" THEN {[f EXCEPT !.chals[c].sched[e].cb = n] : n \in (TNames \cup {"any"} \cup {r.op : r \in TaskOps}) \ {""}}
                   ELSE {})
      : e \in ElIdx(c)} : c \in ChalIdx}
CandAddCorpus == IF Len(f.corpora) < MaxCorpora
                 THEN {[f EXCEPT !.corpora = Append(@, [name |-> n, burl |-> "", tidx |-> "", tds |-> "", iaamd |-> "abs", docs |-> <<d>>])] :
                          n \in KNames, d \in DocFiles}
                 ELSE {}
CandAddDocs == UNION {IF Len(f.corpora[k].docs) < MaxDocs
                      THEN {[f EXCEPT !.corpora[k].docs = Append(@, d)] : d \in DocFiles}
                      ELSE {} : k \in 1..Len(f.corpora)}
\* target / action-and-meta-data attributes on the corpus (defaults) and on a document set
CandSetCorpusField ==
    UNION {(IF f.corpora[k].tidx = "" THEN {[f EXCEPT !.corpora[k].tidx = n] : n \in INames} ELSE {})
           \cup (IF f.corpora[k].tds = "" THEN {[f EXCEPT !.corpora[k].tds = n] : n \in SNames} ELSE {})
           \cup (IF f.corpora[k].iaamd = "abs" THEN {[f EXCEPT !.corpora[k].iaamd = b] : b \in {"true", "false"}} ELSE {})
           \cup (IF f.corpora[k].burl = "" THEN {[f EXCEPT !.corpora[k].burl = u] : u \in BUrls} ELSE {})
           \cup UNION {(IF f.corpora[k].docs[d].burl = "" THEN {[f EXCEPT !.corpora[k].docs[d].burl = u] : u \in BUrls} ELSE {}) \cup
                       (IF f.corpora[k].docs[d].tds = "" THEN {[f EXCEPT !.corpora[k].docs[d].tds = n] : n \in SNames} ELSE {})
                       \cup (IF f.corpora[k].docs[d].iaamd = "abs"
                             THEN {[f EXCEPT !.corpora[k].docs[d].iaamd = b] : b \in {"true", "false"}} ELSE {})
                       : d \in 1..Len(f.corpora[k].docs)}
           : k \in 1..Len(f.corpora)}
\* a body file for the first index / a template section with a template file
CandSetSideFile ==
    (IF Len(f.indices) >= 1 /\ f.ibody = NoVal THEN {[f EXCEPT !.ibody = x] : x \in Vals("ibody")} ELSE {})
    \cup (IF f.tkind = "" THEN {[f EXCEPT !.tkind = k, !.tbody = x] : k \in TplKinds, x \in Vals("tbody")} ELSE {})
CandAddIndex == IF Len(f.indices) < 2 THEN {[f EXCEPT !.indices = Append(@, n)] : n \in INames} ELSE {}
CandAddStream == IF Len(f.streams) < 2 THEN {[f EXCEPT !.streams = Append(@, n)] : n \in SNames} ELSE {}
CandSupplyParam ==
    IF Cardinality(f.supN) + Cardinality(f.supS) >= MaxSup THEN {}
    ELSE {[f EXCEPT !.supN = @ \cup {[p |-> q, v |-> x]}] : q \in NumParams \ Supplied(f), x \in SupVals}
         \cup {[f EXCEPT !.supN = @ \cup {[p |-> q, v |-> 1]}] : q \in ReservedCand \ Supplied(f)}
         \* values (falsy ones included) for the parameters of exists_set_param uses
         \cup {[f EXCEPT !.supN = @ \cup {[p |-> q, v |-> x]}] : q \in (XParams \cap Used(f)) \ Supplied(f), x \in XVals}
         \cup {[f EXCEPT !.supS = @ \cup {[p |-> q, v |-> x]}] : q \in StrParams \ Supplied(f), x \in TNames}
CandUseReserved == {[f EXCEPT !.refs = @ \cup {q}] : q \in ReservedCand \ f.refs}
\* how the includes are written is chosen with the first part: with blanks, tight, or with single quotes (then the Jinja
\* macro includes the part: no second-level parts, and no helper macros, which are not visible inside such a part)
CandSplitIntoPart ==
    {[f EXCEPT !.parts = @ \cup {k}, !.tight = st[1], !.squote = st[2]] :
        st \in (IF f.parts = {} THEN {<<FALSE, FALSE>>, <<TRUE, FALSE>>} \cup (IF UsesHelpers(f) THEN {} ELSE {<<FALSE, TRUE>>})
                ELSE {<<f.tight, f.squote>>}),
        k \in {k \in PartKinds \ f.parts :
        CASE k = "ops" -> Len(f.ops) > 0 [] k = "chals" -> f.form = "challenges" [] k = "corpora" -> Len(f.corpora) > 0
          \* a fragment of a part moves into a second-level part (nested include)
          [] k = "opsN" -> "ops" \in f.parts /\ ~f.squote [] k = "sched" -> "chals" \in f.parts /\ ~f.squote
          [] k = "docs" -> "corpora" \in f.parts /\ ~f.squote
          [] OTHER -> FALSE}}
\* the imported macro file
CandSetMacro == IF Len(f.ops) >= 1 /\ f.mac = NoVal /\ ~f.squote THEN {[f EXCEPT !.mac = x] : x \in Vals("mac")} ELSE {}
\* schema-level defects, at every position where the kind of defect can occur
DefectAt(k) ==
    CASE k \in {"clientsStr", "nameNum", "taskNoOp"} ->
            UNION {UNION {{[k |-> k, c |-> c, e |-> e, t |-> i] : i \in TaskIdx(c, e)} : e \in ElIdx(c)} : c \in ChalIdx}
      [] k = "inlNoType" ->
            UNION {UNION {{[k |-> k, c |-> c, e |-> e, t |-> i] : i \in {i \in TaskIdx(c, e) : f.chals[c].sched[e].tasks[i].opk = "inl"}} : e \in ElIdx(c)} : c \in ChalIdx}
      [] k \in {"cbNum", "capStr", "parNoTasks"} ->
            UNION {{[k |-> k, c |-> c, e |-> e, t |-> 0] : e \in {e \in ElIdx(c) : f.chals[c].sched[e].par}} : c \in ChalIdx}
      [] k \in {"defaultStr", "chalNoName", "chalNoSched"} ->
            IF f.form = "schedule" THEN {} ELSE {[k |-> k, c |-> c, e |-> 0, t |-> 0] : c \in ChalIdx}
      [] k = "emptySched" -> {[k |-> k, c |-> c, e |-> 0, t |-> 0] : c \in ChalIdx}
      [] k \in {"opNoName", "opNoType"} -> {[k |-> k, c |-> i, e |-> 0, t |-> 0] : i \in 1..Len(f.ops)}
      [] k = "corpusNoDocs" -> {[k |-> k, c |-> i, e |-> 0, t |-> 0] : i \in 1..Len(f.corpora)}
      [] k \in {"docNoFile", "docNoCount", "countStr"} ->
            UNION {{[k |-> k, c |-> i, e |-> d, t |-> 0] : d \in 1..Len(f.corpora[i].docs)} : i \in 1..Len(f.corpora)}
      [] k = "noChallenges" -> {[k |-> k, c |-> 0, e |-> 0, t |-> 0]}
      [] OTHER -> {}
CandDefect == IF f.defect # NoDefect THEN {} ELSE {[f EXCEPT !.defect = d] : d \in UNION {DefectAt(k) : k \in DefectKinds}}

Verdict(F) == LET V == Viol(F) IN
              IF V = {} THEN "none"
              ELSE IF V \cap L1Rules = {} THEN "l2only"
              ELSE IF Cardinality(V \cap L1Rules) = 1 THEN CHOOSE r \in V \cap L1Rules : TRUE
              ELSE "multi"
\* a builder step keeps the file valid or breaks exactly one documented rule (then the behaviour ends)
Take(F2) == LET v == Verdict(F2) IN
            /\ violated = "none"
            /\ Size(F2) <= lim
            /\ v # "multi"
            /\ (v # "none") => (Size(f) >= lim - MaxSize + MinBreakSize)
            /\ violated' = v
            /\ f' = F2
            /\ lim' = lim

AddOperation == \E F2 \in CandAddOperation : Take(F2)
AddChallenge == \E F2 \in CandAddChallenge : Take(F2)
SetDefault == \E F2 \in CandSetDefault : Take(F2)
AddTask == \E F2 \in CandAddTask : Take(F2)
AddParallel == \E F2 \in CandAddParallel : Take(F2)
AddParallelTask == \E F2 \in CandAddParallelTask : Take(F2)
SetTaskField == \E F2 \in CandSetTaskField : Take(F2)
SetParallelField == \E F2 \in CandSetParallelField : Take(F2)
AddCorpus == \E F2 \in CandAddCorpus : Take(F2)
AddDocs == \E F2 \in CandAddDocs : Take(F2)
SetCorpusField == \E F2 \in CandSetCorpusField : Take(F2)
SetSideFile == \E F2 \in CandSetSideFile : Take(F2)
AddIndex == \E F2 \in CandAddIndex : Take(F2)
AddStream == \E F2 \in CandAddStream : Take(F2)
SupplyParam == \E F2 \in CandSupplyParam : Take(F2)
SplitIntoPart == \E F2 \in CandSplitIntoPart : Take(F2)
SetMacro == \E F2 \in CandSetMacro : Take(F2)
UseReserved == \E F2 \in CandUseReserved : Take(F2)
BreakSchema == \E F2 \in CandDefect : Take(F2)

Init == /\ f \in Seeds
        /\ violated = "none"
        /\ lim = Size(f) + MaxSize
Next == \/ AddOperation \/ AddChallenge \/ SetDefault \/ AddTask \/ AddParallel \/ AddParallelTask
        \/ SetTaskField \/ SetParallelField \/ AddCorpus \/ AddDocs \/ SetCorpusField \/ SetSideFile \/ AddIndex \/ AddStream
        \/ SupplyParam \/ UseReserved \/ SplitIntoPart \/ SetMacro \/ BreakSchema
Spec == Init /\ [][Next]_vars
=============================================================================
