SPECIFICATION TSpec
CONSTANTS
  RejectAllMixing = TRUE
  MacroIncludesSeen = TRUE
  Seeds = {}
  ChalOps = {}
  CNames = {}
  TNames = {}
  TaskOps = {}
  OpDefs = {}
  KNames = {}
  DocFiles = {}
  INames = {}
  SNames = {}
  Alpha = {}
  ParamSites = {}
  XUses = {}
  XParams = {}
  XVals = {}
  TplKinds = {}
  BUrls = {}
  NumParams = {}
  StrParams = {}
  SupVals = {}
  ReservedCand = {}
  Units = {}
  TagSeqs = {}
  PartKinds = {}
  DefectKinds = {}
  MaxOps = 0
  MaxChals = 0
  MaxEls = 0
  MaxParTasks = 0
  MaxCorpora = 0
  MaxDocs = 0
  MaxSup = 0
  MaxSize = 0
  MinBreakSize = 0
CHECK_DEADLOCK FALSE
