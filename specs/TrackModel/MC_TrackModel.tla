---------------------------- MODULE MC_TrackModel ----------------------------
EXTENDS TrackModel
Str(o) == [opk |-> "str", op |-> o, type |-> ""]
Inl(n, ty) == [opk |-> "inl", op |-> n, type |-> ty]
Op(n, ty, b) == [name |-> n, type |-> ty, bulk |-> b, xp |-> NoX]
X(q, dflt, cm) == [p |-> q, d |-> dflt, comma |-> cm]
OpX(n, ty, x) == [name |-> n, type |-> ty, bulk |-> NoVal, xp |-> x]
Doc(b, x, cnt, ti) == [base |-> b, ext |-> x, count |-> cnt, tidx |-> ti, tds |-> "", iaamd |-> "abs", burl |-> ""]

\* ---- quick: exhaustive over small alphabets ----
FormsAll == {"schedule", "challenge", "challenges"}
\* ---- seeds: typical shapes; the exhaustive runs explore everything within MaxSize builder steps of each ----
Seed0(form) == EmptyFile(form, IF form = "schedule" THEN "" ELSE "c1", Str("bulk"))
SeedTwo == [Seed0("challenges") EXCEPT !.chals = <<[@[1] EXCEPT !.dflt = "true"],
                                                   [name |-> "c2", dflt |-> "abs", sched |-> <<PlainEl(BareTask(Str("bulk")))>>]>>]
SeedOps == [EmptyFile("schedule", "", Str("n1")) EXCEPT !.ops = <<Op("n1", "bulk", P("p1", 50))>>]
SeedPar == [Seed0("challenge") EXCEPT !.chals[1].sched =
               <<[ParEl(BareTask(Str("bulk"))) EXCEPT !.wtp = L(5), !.tasks = Append(@, BareTask(Inl("", "force-merge")))]>>]
SeedCorpus == [Seed0("schedule") EXCEPT !.indices = <<"i1">>, !.corpora = <<[name |-> "k1", burl |-> "", tidx |-> "", tds |-> "", iaamd |-> "abs", docs |-> <<Doc("docs1", "bz2", L(10), "")>>]>>]
\* two indices, the corpus names the default target; the document set has none of its own
SeedCorpus2 == [SeedCorpus EXCEPT !.indices = <<"i1", "i2">>, !.corpora[1].tidx = "i2"]
SeedsOps == {SeedOps}
\* the parameter of the operation is also used by the task (so it is registered whatever happens to the operations part)
SeedOps2 == [SeedOps EXCEPT !.chals[1].sched[1].tasks[1].clients = P("p1", 2)]
\* (the single-challenge form "challenge" is covered by SeedPar)
SeedsAll == {Seed0(form) : form \in {"schedule", "challenges"}} \cup {SeedTwo, SeedOps, SeedOps2, SeedPar, SeedCorpus, SeedCorpus2}
TaskOpsQ == {Str("bulk"), Str("n1"), Inl("", "force-merge")}
OpDefsQ == {Op("n1", "search", L(50)), Op("n1", "bulk", P("p1", 50)), Op("n2", "force-merge", NoVal),
            OpX("n2", "search", X("x1", 5, TRUE)), OpX("n1", "search", X("x1", Abs, FALSE))}
XValsQ == {0, -2, -3, 7}
XValsS == {0, -2, -3, -4, 7}
XUsesQ == {X("x1", 5, FALSE), X("x1", Abs, TRUE)}
XUsesS == {X(q, dflt, cm) : q \in {"x1", "x2"}, dflt \in {Abs, 0, 5}, cm \in BOOLEAN}
DocFilesQ == {Doc("docs1", "bz2", L(10), ""), Doc("docs2", "", P("p1", 10), "i1"), Doc("docs1", "", L(0), ""),
              [Doc("docs3", "", L(10), "") EXCEPT !.iaamd = "true"]}
AlphaQ == [mac |-> {7}, ibody |-> {3}, tbody |-> {1}, clients |-> {0, 2}, wi |-> {0}, it |-> {0, 3}, wtp |-> {5}, tp |-> {7}, ru |-> {5, 9}, tput |-> {4}, bulk |-> {50},
           cap |-> {1}]
\* ---- thorough: one more thing written, wider alphabets ----
TaskOpsT == {Str("bulk"), Str("n1"), Inl("", "force-merge"), Inl("n2", "my-op")}
AlphaT == [mac |-> {7}, ibody |-> {3}, tbody |-> {1}, clients |-> {0, 2}, wi |-> {0, 4}, it |-> {0, 3}, wtp |-> {0, 5}, tp |-> {0, 7}, ru |-> {5, 9}, tput |-> {4}, bulk |-> {50},
           cap |-> {0, 1}]
ChalOpsQ == {Str("bulk")}
TagSeqsQ == {<<"a", "b">>}
DefectsAll == TypeDefects \cup MissingDefects
DefectsQ == {"clientsStr", "nameNum", "defaultStr", "taskNoOp", "chalNoSched", "opNoType", "docNoCount", "parNoTasks", "noChallenges"}

\* ---- simulation: wide alphabets, deep behaviours ----
TaskOpsS == {Str("bulk"), Str("search"), Str("n1"), Str("n2"), Str("n3"), Inl("", "force-merge"), Inl("", "bulk"), Inl("n1", "my-op"),
             Inl("n3", "search"), Inl("n4", "create-index")}
OpDefsS == {Op("n1", "search", L(50)), Op("n1", "bulk", P("p1", 50)), Op("n2", "force-merge", NoVal), Op("n2", "bulk", P("p2", 1000)),
            Op("n3", "my-op", NoVal), Op("search", "raw-request", NoVal)}
           \cup {OpX("n3", "search", x) : x \in XUsesS}
DocFilesS == {Doc("docs1", "bz2", L(10), ""), Doc("docs2", "", P("p1", 10), "i1"), Doc("docs1", "", L(0), ""), Doc("docs3", "gz", P("p2", 500), ""),
              Doc("docs4", "", L(1000000), "i2"), [Doc("docs5", "gz", L(7), "") EXCEPT !.iaamd = "true"],
              [Doc("docs6", "", L(7), "") EXCEPT !.tds = "d1"]}
AlphaS == [mac |-> {7}, ibody |-> {3}, tbody |-> {1}, clients |-> {0, 1, 2, 8}, wi |-> {0, 100}, it |-> {0, 1, 1000}, wtp |-> {0, 5, 120}, tp |-> {0, 7, 3600}, ru |-> {0, 5, 9, 120},
           tput |-> {1, 40}, bulk |-> {50, 5000}, cap |-> {0, 1, 3}]
AllFields == {"mac", "ibody", "tbody", "clients", "wi", "it", "wtp", "tp", "ru", "tput", "bulk", "cap"}
TagSeqsS == {<<"a">>, <<"a", "b">>, <<"setup", "a", "b">>}
====
