SPECIFICATION Spec
CONSTANTS
  RejectAllMixing = FALSE
  MacroIncludesSeen = TRUE
  Seeds <- SeedsAll
  CNames = {"c1", "c2"}
  TNames = {"n1", "n2"}
  TaskOps <- TaskOpsQ
  ChalOps <- ChalOpsQ
  OpDefs <- OpDefsQ
  KNames = {"k1"}
  DocFiles <- DocFilesQ
  INames = {"i1", "i2"}
  SNames = {"d1"}
  Alpha <- AlphaQ
  ParamSites = {"clients", "it", "ibody", "tbody", "mac"}
  XUses <- XUsesQ
  XParams = {"x1"}
  XVals <- XValsQ
  TplKinds = {"composable"}
  BUrls = {"u1"}
  NumParams = {"p1"}
  StrParams = {"q1"}
  SupVals = {0, 2}
  ReservedCand = {"now"}
  Units = {"docs"}
  TagSeqs <- TagSeqsQ
  PartKinds = {"ops", "chals", "corpora", "opsN", "sched", "docs"}
  DefectKinds <- DefectsQ
  MaxOps = 2
  MaxChals = 2
  MaxEls = 2
  MaxParTasks = 2
  MaxCorpora = 2
  MaxDocs = 2
  MaxSize = 2
  MinBreakSize = 0
  MaxSup = 1
INVARIANT PropertyHolds
INVARIANT ModelSane
CHECK_DEADLOCK FALSE
