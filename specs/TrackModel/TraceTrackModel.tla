--------------------------- MODULE TraceTrackModel ---------------------------
(***************************************************************************)
(* Validates recorded runs of the REAL track loader against TrackModel.tla. *)
(* Input (env VERIF_TRACES): JSON array of items                            *)
(*   "load":   [id, kind, f (abstract file that was rendered to disk),      *)
(*              sel (selected challenge name or ""), out = [ok, kind, core, *)
(*              extra, txt] (projection of the returned Track | error       *)
(*              class), txt (texts written as operation parameters, UTF-8   *)
(*              bytes; see IncludedTextVerbatim in TrackModel.tla)]         *)
(*   "optype": [id, kind, hyph, back, member, admin] one row of the real    *)
(*              operation-type registry                                     *)
(* L1: Fidelity / ValidLoads / Rejection / TargetAsWritten /                 *)
(*     IncludedTextVerbatim on the recorded                                  *)
(*     outcome (a failing Rejection names the violated rules and, for       *)
(*     "mixing", which timing attributes were combined: wi / it with        *)
(*     wtp / tp, and ru when the mixing task also carries a ramp-up);       *)
(* L2: the recorded outcome equals Code(f) - the transcription of the       *)
(*     loader - including the error class and the extra attributes.         *)
(***************************************************************************)
EXTENDS TrackModel, Json, IOUtils, TLC

Items == JsonDeserialize(IOEnv.VERIF_TRACES)
ToSet(s) == {s[j] : j \in 1..Len(s)}
Norm(F) == [F EXCEPT !.supN = ToSet(@), !.supS = ToSet(@), !.parts = ToSet(@), !.refs = ToSet(@)]

VARIABLES i
TInit == i = 1 /\ f = <<>> /\ violated = "none" /\ lim = 0

MixSig(x) == (IF IsSet(x.wi) THEN "wi." ELSE "") \o (IF IsSet(x.it) THEN "it." ELSE "")
             \o (IF IsSet(x.wtp) THEN "wtp." ELSE "") \o (IF IsSet(x.tp) THEN "tp." ELSE "")
             \o (IF IsSet(x.ru) THEN "ru." ELSE "")   \* the third time period a task can carry (ramp-up-time-period)
MixSigs(R) == UNION {UNION {{MixSig(Timing(R.chals[c].sched[ps[1]], R.chals[c].sched[ps[1]].tasks[ps[2]]))} :
                        ps \in {qs \in AllPos(R.chals[c]) : Mixing(Timing(R.chals[c].sched[qs[1]], R.chals[c].sched[qs[1]].tasks[qs[2]]))}} :
                     c \in 1..Len(R.chals)}
Detail(cl, V, R) == IF cl # "Rejection" THEN {cl}
                    ELSE {"Rejection:" \o r : r \in (V \cap L1Rules) \ {"mixing"}}
                         \cup (IF "mixing" \in V THEN {"Rejection:mixing:" \o s : s \in MixSigs(R)} ELSE {})

Check(it) ==
    IF it.kind = "load" THEN
        LET F == Norm(it.f)
            o == it.out
            R == Resolve(F)
            V == ViolR(F, R)
            l1 == UNION {Detail(cl, V, R) : cl \in {cl \in Clauses : ~Holds(cl, V, R, o)}}
                  \cup (IF IncludedTextVerbatim(V, R, it.txt, o) THEN {} ELSE {"IncludedTextVerbatim"})
                  \* a file whose ONLY blemish is the rule that pins a defect of the loader (a supplied parameter that the file uses,
                  \* but only inside a part collected with single quotes or inside an imported macro file): the file is valid and
                  \* must load; that the loader reports the parameter as unused is known finding F14
                  \cup (IF V = {"paramOnlyInUnscanned"} /\ ~o.ok THEN {"ValidLoads:unscannedParam"} ELSE {})
            c == CodeR(F, R, it.sel)
            l2 == /\ o.ok = c.ok
                  /\ o.kind = c.kind
                  /\ o.ok => (o.core = c.core /\ o.extra = c.extra /\ SeqElems(o.txt) = ExpText(R, it.txt))
        IN /\ IF l1 = {} THEN TRUE ELSE PrintT(<<"V", it.id, 1, "L1", l1>>)
           /\ IF l1 # {} \/ l2 THEN TRUE ELSE PrintT(<<"V", it.id, 1, "L2", {}>>)
    ELSE
        \* operation-type registry: the hyphenated name maps back to the same member and the model's table of
        \* administrative types is the real one (no statement of the property depends on it: L2 only)
        LET l2 == /\ it.back = it.member
                  /\ it.hyph \in AdminTypes \cup NonAdminTypes
                  /\ it.admin = (it.hyph \in AdminTypes)
        IN IF l2 THEN TRUE ELSE PrintT(<<"V", it.id, 1, "L2", {}>>)

TNext == /\ i <= Len(Items)
         /\ Check(Items[i])
         /\ i' = i + 1
         /\ IF i < Len(Items) THEN TRUE ELSE PrintT(<<"DONE", Len(Items), Len(Items)>>)
         /\ UNCHANGED vars

TSpec == TInit /\ [][TNext]_<<vars, i>>
=============================================================================
