"""Parser for TLA+ values as printed by TLC (-dump, -simulate file=, PrintT, counterexamples).

Values are mapped to Python:
  integers -> int, strings -> str, TRUE/FALSE -> bool, model values -> ModelValue(name)
  <<a, b>> -> tuple, {a, b} -> frozenset, a..b -> frozenset(range)
  [a |-> 1, b |-> 2] -> dict (str keys), (k :> v @@ k2 :> v2) -> dict (parsed keys)
"""
import re


class ModelValue(str):
    def __repr__(self):
        return "MV(%s)" % str.__repr__(self)


class TlaParseError(ValueError):
    pass


_TOKEN = re.compile(
    r"""\s*(?:
    (?P<int>-?\d+)|
    (?P<str>"(?:[^"\\]|\\.)*")|
    (?P<sym><<|>>|\|->|:>|@@|\.\.|[\[\]{}(),])|
    (?P<id>[A-Za-z_][A-Za-z0-9_!]*)
    )""",
    re.X,
)


def _tokenize(s):
    pos = 0
    out = []
    n = len(s)
    while pos < n:
        m = _TOKEN.match(s, pos)
        if not m:
            if s[pos:].strip() == "":
                break
            raise TlaParseError("cannot tokenize at %d: %r" % (pos, s[pos : pos + 40]))
        pos = m.end()
        if m.group("int") is not None:
            out.append(("int", int(m.group("int"))))
        elif m.group("str") is not None:
            raw = m.group("str")[1:-1]
            out.append(("str", _unescape(raw)))
        elif m.group("sym") is not None:
            out.append(("sym", m.group("sym")))
        else:
            out.append(("id", m.group("id")))
    return out


def _unescape(raw):
    res = []
    i = 0
    while i < len(raw):
        c = raw[i]
        if c == "\\" and i + 1 < len(raw):
            d = raw[i + 1]
            res.append({"n": "\n", "t": "\t", "r": "\r", "f": "\f", '"': '"', "\\": "\\"}.get(d, d))
            i += 2
        else:
            res.append(c)
            i += 1
    return "".join(res)


class _P:
    def __init__(self, toks):
        self.t = toks
        self.i = 0

    def peek(self):
        return self.t[self.i] if self.i < len(self.t) else (None, None)

    def next(self):
        tok = self.peek()
        self.i += 1
        return tok

    def expect(self, sym):
        k, v = self.next()
        if k != "sym" or v != sym:
            raise TlaParseError("expected %r got %r at token %d" % (sym, v, self.i))

    def value(self):
        v = self.atom()
        k, s = self.peek()
        if k == "sym" and s == "..":
            self.next()
            hi = self.atom()
            return frozenset(range(v, hi + 1))
        return v

    def atom(self):
        k, v = self.next()
        if k == "int" or k == "str":
            return v
        if k == "id":
            if v == "TRUE":
                return True
            if v == "FALSE":
                return False
            return ModelValue(v)
        if k == "sym":
            if v == "<<":
                items = []
                if self.peek() == ("sym", ">>"):
                    self.next()
                    return ()
                while True:
                    items.append(self.value())
                    k2, v2 = self.next()
                    if (k2, v2) == ("sym", ">>"):
                        return tuple(items)
                    if (k2, v2) != ("sym", ","):
                        raise TlaParseError("bad sequence")
            if v == "{":
                items = []
                if self.peek() == ("sym", "}"):
                    self.next()
                    return frozenset()
                while True:
                    items.append(_freeze(self.value()))
                    k2, v2 = self.next()
                    if (k2, v2) == ("sym", "}"):
                        return frozenset(items)
                    if (k2, v2) != ("sym", ","):
                        raise TlaParseError("bad set")
            if v == "[":
                d = {}
                if self.peek() == ("sym", "]"):
                    self.next()
                    return d
                while True:
                    k2, name = self.next()
                    if k2 not in ("id", "str"):
                        raise TlaParseError("bad record field %r" % (name,))
                    self.expect("|->")
                    d[str(name)] = self.value()
                    k3, v3 = self.next()
                    if (k3, v3) == ("sym", "]"):
                        return d
                    if (k3, v3) != ("sym", ","):
                        raise TlaParseError("bad record")
            if v == "(":
                d = {}
                while True:
                    key = _freeze(self.value())
                    self.expect(":>")
                    d[key] = self.value()
                    k3, v3 = self.next()
                    if (k3, v3) == ("sym", ")"):
                        return d
                    if (k3, v3) != ("sym", "@@"):
                        raise TlaParseError("bad function")
        raise TlaParseError("unexpected token %r %r" % (k, v))


def _freeze(v):
    if isinstance(v, dict):
        return tuple(sorted(((_freeze(k), _freeze(x)) for k, x in v.items()), key=repr))
    if isinstance(v, (list, tuple)):
        return tuple(_freeze(x) for x in v)
    return v


def parse_value(s):
    p = _P(_tokenize(s))
    v = p.value()
    if p.i != len(p.t):
        raise TlaParseError("trailing tokens in %r" % s[:80])
    return v


_CONJ = re.compile(r"^/\\ ([A-Za-z_][A-Za-z0-9_]*) = ", re.M)


def parse_state(text):
    """Parse '/\\ x = 1\n/\\ y = <<...>>' (value may span lines) into {var: value}."""
    text = text.strip()
    ms = list(_CONJ.finditer(text))
    if not ms:
        # single variable without leading /\
        m = re.match(r"^([A-Za-z_][A-Za-z0-9_]*) = ", text)
        if not m:
            raise TlaParseError("no state in %r" % text[:80])
        return {m.group(1): parse_value(text[m.end() :])}
    st = {}
    for i, m in enumerate(ms):
        end = ms[i + 1].start() if i + 1 < len(ms) else len(text)
        st[m.group(1)] = parse_value(text[m.end() : end])
    return st


def parse_dump(path):
    """TLC '-dump <file>' output: 'State N:\n/\\ ...\n\n'. Yields dicts."""
    with open(path, "r", encoding="utf-8") as f:
        buf = []
        for line in f:
            if line.startswith("State ") and line.rstrip().endswith(":"):
                if buf:
                    yield parse_state("".join(buf))
                buf = []
            else:
                buf.append(line)
        if "".join(buf).strip():
            yield parse_state("".join(buf))


_SIM_STATE = re.compile(r"^STATE_(\d+) ==\s*$", re.M)


def parse_simulation_file(path):
    """One behaviour written by 'tlc -simulate file=...': returns list of state dicts."""
    with open(path, "r", encoding="utf-8") as f:
        text = f.read()
    ms = list(_SIM_STATE.finditer(text))
    out = []
    for i, m in enumerate(ms):
        end = ms[i + 1].start() if i + 1 < len(ms) else len(text)
        body = text[m.end() : end]
        # strip trailing comment lines / separators
        lines = [ln for ln in body.splitlines() if not ln.startswith("\\*") and not ln.startswith("====")]
        body = "\n".join(lines)
        out.append(parse_state(body))
    return out


def to_json(v):
    """Python-parsed TLA value -> JSON-able structure (sets become sorted lists, tuples lists)."""
    if isinstance(v, dict):
        if all(isinstance(k, str) for k in v):
            return {str(k): to_json(x) for k, x in v.items()}
        # function with non-string domain: if domain is 1..n make a list
        keys = list(v.keys())
        if keys and all(isinstance(k, int) for k in keys) and sorted(keys) == list(range(1, len(keys) + 1)):
            return [to_json(v[k]) for k in sorted(keys)]
        return [[to_json(k), to_json(x)] for k, x in sorted(v.items(), key=lambda kv: repr(kv[0]))]
    if isinstance(v, (tuple, list)):
        return [to_json(x) for x in v]
    if isinstance(v, frozenset):
        return sorted((to_json(x) for x in v), key=repr)
    if isinstance(v, ModelValue):
        return str(v)
    return v
