"""Shared result types, evidence writing, known-findings matching and the check runner."""
import hashlib
import importlib
import json
import os
import sys
import time
import traceback

from . import tlc

VERIF = tlc.VERIF
# runs of the checks against a scratch worktree with a seeded change (tools/seed_mutant.py) write their evidence elsewhere, so
# that /verif/evidence always describes runs against /repo itself
EVIDENCE_DIR = os.environ.get("VERIF_EVIDENCE_DIR") or os.path.join(VERIF, "evidence")
REPLAY_DIR = os.path.join(VERIF, "replays")
FINDINGS_FILE = os.path.join(VERIF, "known_findings.json")


def norm_hash(obj):
    return hashlib.sha1(json.dumps(obj, sort_keys=True, default=str).encode()).hexdigest()[:12]


class Violation:
    """An L1 property violation reproduced on the real code."""

    def __init__(self, clause, case, signature=None, detail=""):
        self.clause = clause  # name of the violated property clause
        self.case = case  # JSON-able replay payload (input / schedule / history)
        self.signature = dict(signature or {})  # normalised description used for known-findings matching
        self.signature.setdefault("clause", clause)
        self.detail = detail


class Outcome:
    def __init__(self, pid):
        self.pid = pid
        self.violations = []  # [Violation]
        self.drift = []  # L2 rejections: strings
        self.states = 0
        self.transitions = 0
        self.traces_validated = 0
        self.evaluations = 0
        self.distinct = set()
        self.samples = []
        self.rule = ""
        self.exhaustive = False
        self.assumptions = []
        self.tlc_cmds = []
        self.vacuous = []
        self.extra = {}
        self.notes = []

    def add_tlc(self, res):
        self.states += res.distinct
        self.transitions += res.generated
        self.tlc_cmds.append(res.summary())

    def note(self, s):
        self.notes.append(s)
        print("  .. " + s, flush=True)

    def add_case(self, case_norm, nontrivial=True):
        self.evaluations += 1
        if nontrivial:
            self.distinct.add(norm_hash(case_norm))

    def sample(self, s, limit=5):
        if len(self.samples) < limit:
            self.samples.append(s)


def load_findings():
    if not os.path.exists(FINDINGS_FILE):
        return {"findings": [], "fixed": []}
    with open(FINDINGS_FILE, "r", encoding="utf-8") as f:
        return json.load(f)


def _match(match, signature):
    for k, v in match.items():
        if k.endswith("__contains"):
            sv = signature.get(k[: -len("__contains")])
            if not isinstance(sv, (list, tuple, set)) or not set(v) <= set(sv):
                return False
            continue
        if k.endswith("__subset"):
            sv = signature.get(k[: -len("__subset")])
            if not isinstance(sv, (list, tuple, set)) or not set(sv) <= set(v):
                return False
            continue
        if k not in signature:
            return False
        sv = signature[k]
        if isinstance(v, list) and not isinstance(sv, list):
            if sv not in v:
                return False
        elif sv != v:
            return False
    return True


def match_finding(pid, signature, findings=None):
    findings = findings or load_findings()
    for f in findings.get("findings", []):
        if f["property"] == pid and _match(f["match"], signature):
            return f
    return None


def write_evidence(pid, tier, seed, outcome, wall_s, n_viol, level="model_checking"):
    os.makedirs(EVIDENCE_DIR, exist_ok=True)
    cov = {
        "states": int(outcome.states),
        "transitions": int(outcome.transitions),
        "traces_validated_against_impl": int(outcome.traces_validated),
        "samples": outcome.samples or ["(no sample recorded)"],
        "evaluations": int(outcome.evaluations),
        "distinct_nontrivial": len(outcome.distinct),
        "rule": outcome.rule,
        "exhaustive": bool(outcome.exhaustive),
        "conformance_rejections": len(outcome.drift),
        "conformance_rejection_samples": outcome.drift[:5],
        "vacuous_actions": outcome.vacuous,
        "tlc_cmds": outcome.tlc_cmds,
        "notes": outcome.notes[-40:],
    }
    cov.update(outcome.extra)
    if outcome.drift:
        level = "exploration"
    ev = {
        "property_id": pid,
        "tier": tier,
        "seed": int(seed),
        "level": level,
        "coverage": cov,
        "assumptions": outcome.assumptions,
        "wall_s": round(wall_s, 2),
        "violations": int(n_viol),
    }
    path = os.path.join(EVIDENCE_DIR, pid + ".json")
    tmp = path + ".tmp"
    with open(tmp, "w", encoding="utf-8") as f:
        json.dump(ev, f, indent=1, sort_keys=True, default=str)
    os.replace(tmp, path)
    return path


def save_replay(pid, case):
    d = os.path.join(REPLAY_DIR, pid)
    os.makedirs(d, exist_ok=True)
    p = os.path.join(d, norm_hash(case) + ".json")
    with open(p, "w", encoding="utf-8") as f:
        json.dump({"property": pid, "case": case, "replay_cmd": "./check %s --replay %s" % (pid, p)}, f, indent=1, default=str)
    return p


class Ctx:
    def __init__(self, pid, tier, seed):
        self.pid = pid
        self.tier = tier
        self.seed = seed
        self.quick = tier == "quick"

    def scratch(self, name):
        return tlc.scratch(name)


def run_check(pid, tier, seed, replay=None):
    """Returns process exit code."""
    t0 = time.time()
    # errors the implementation handles and logs (with tracebacks) are not part of a verdict: without any handler Python's
    # last-resort handler would print them to stderr in the middle of the check's output
    import logging

    logging.getLogger("esrally").addHandler(logging.NullHandler())
    mod = importlib.import_module("harness.drivers." + pid.lower())
    ctx = Ctx(pid, tier, seed)
    out = Outcome(pid)
    machinery = None
    try:
        if replay:
            with open(replay, "r", encoding="utf-8") as f:
                payload = json.load(f)
            return mod.replay(ctx, payload["case"])
        mod.run(ctx, out)
    except tlc.MachineryError as ex:
        print("MACHINERY-FAILURE property=%s %s" % (pid, ex), flush=True)
        traceback.print_exc()
        machinery = ex
    except Exception as ex:  # pylint: disable=broad-except
        print("MACHINERY-FAILURE property=%s unexpected %s: %s" % (pid, type(ex).__name__, ex), flush=True)
        traceback.print_exc()
        machinery = ex
    if machinery is not None and not out.violations:
        return 2
    # a machinery failure AFTER property violations were reproduced on the real code does not take them back: they are reported
    # (exit 1 if one of them is not a listed finding, else exit 2 for the machinery failure)
    findings = load_findings()
    new = []
    known = {}
    for v in out.violations:
        f = match_finding(pid, v.signature, findings)
        if f:
            known.setdefault(f["id"], (f, 0))
            known[f["id"]] = (f, known[f["id"]][1] + 1)
        else:
            new.append(v)
    for fid, (f, n) in sorted(known.items()):
        print("KNOWN-FINDING: property=%s %s: %s (re-observed on %d case(s))" % (pid, fid, f["what"], n), flush=True)
    out.extra["known_findings_reobserved"] = {fid: n for fid, (f, n) in known.items()}
    for d in out.drift[:10]:
        print("MODEL-DRIFT property=%s %s" % (pid, d), flush=True)
    if out.vacuous and not new:
        # (with violations observed on the real code the verdict stands; missing coverage is then a consequence, not a machinery problem)
        print("MACHINERY-FAILURE property=%s vacuous actions/clauses never exercised: %s" % (pid, out.vacuous), flush=True)
        write_evidence(pid, tier, seed, out, time.time() - t0, len(new))
        return 2
    rc = 0
    seen = set()
    for v in new:
        key = norm_hash(v.signature)
        if key in seen:
            continue
        seen.add(key)
        if len(seen) > 20:
            break
        path = save_replay(pid, v.case)
        print("VIOLATION property=%s replay=%s clause=%s %s" % (pid, path, v.clause, v.detail), flush=True)
        rc = 1
    if machinery is not None:
        out.notes.append("machinery failure after the violations were collected: %s" % str(machinery)[:300])
    write_evidence(pid, tier, seed, out, time.time() - t0, len(new))
    if machinery is not None and rc == 0:
        return 2
    print(
        "%s property=%s tier=%s states=%d traces_validated=%d evaluations=%d distinct=%d drift=%d wall=%.1fs"
        % ("FAIL" if rc else "OK", pid, tier, out.states, out.traces_validated, out.evaluations, len(out.distinct), len(out.drift), time.time() - t0),
        flush=True,
    )
    return rc
