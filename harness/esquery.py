"""A fake of the SEARCH side of the Elasticsearch client that esrally.metrics.EsMetricsStore talks to (query leg of C08).

The index content is a list of metrics documents (as a real metrics store produced them); documents written through bulk_index are
searchable after the next refresh() only.  search(index, body)
  (a) records every request body and
  (b) answers by EVALUATING the request against the documents: the term filters of query.bool.filter select the documents
      (dotted field paths, a document without the field does not match), `sort` and `size` shape the hits, and the aggregations
      EsMetricsStore sends are computed exactly: stats (count / min / max / avg / sum), percentiles (rank p/100*(n-1), linear
      interpolation between the neighbouring sorted values, evaluated in rational arithmetic and rounded once; keys str(float(p))
      as Elasticsearch prints them) and terms (buckets with key_as_string "true" / "false" for a boolean field).
Assumption: Elasticsearch's percentiles aggregation is approximate (t-digest); the fake answers with the exact value of the
definition the in-memory store uses.  Anything the fake does not know raises NotImplementedError (machinery failure, never a verdict).
"""
from fractions import Fraction


def field(doc, path):
    cur = doc
    for p in path.split("."):
        if not isinstance(cur, dict) or p not in cur:
            return None
        cur = cur[p]
    return cur


def percentile(sorted_values, p):
    n = len(sorted_values)
    rank = Fraction(str(p)) / 100 * (n - 1)
    lo = rank.numerator // rank.denominator
    if rank == lo:
        return float(sorted_values[lo])
    a, b = Fraction(sorted_values[lo]), Fraction(sorted_values[lo + 1])
    return float(a + (b - a) * (rank - lo))


class FakeSearchEs:
    """docs: searchable documents.  Documents written with bulk_index become searchable with the next refresh of the index (what
    Elasticsearch guarantees without waiting for the periodic refresh; the fake never refreshes by itself)."""

    def __init__(self, docs):
        self.docs = list(docs)
        self.pending = []
        self.indices = set()
        self.bodies = []
        self.refreshes = 0

    # what EsMetricsStore.open() / flush need
    def exists(self, index):
        return index in self.indices

    def create_index(self, index):
        self.indices.add(index)

    def template_exists(self, name):
        return False

    def put_template(self, name, template):
        pass

    def bulk_index(self, index, items):
        self.pending.extend(items)

    def refresh(self, index):
        self.refreshes += 1
        self.docs.extend(self.pending)
        del self.pending[:]

    def search(self, index, body):
        self.bodies.append(body)
        unknown = set(body) - {"query", "size", "sort", "aggs", "track_total_hits"}
        if unknown:
            raise NotImplementedError("search body keys %s" % sorted(unknown))
        docs = self.docs
        query = body["query"]
        if set(query) != {"bool"} or set(query["bool"]) != {"filter"}:
            raise NotImplementedError("query %r" % (query,))
        for f in query["bool"]["filter"]:
            if set(f) != {"term"} or len(f["term"]) != 1:
                raise NotImplementedError("filter %r" % (f,))
            ((path, expected),) = f["term"].items()
            docs = [d for d in docs if field(d, path) is not None and field(d, path) == expected]
        for s in reversed(body.get("sort", [])):
            ((path, spec),) = s.items()
            docs = sorted(docs, key=lambda d: field(d, path), reverse=spec["order"] == "desc")
        size = body.get("size", 10)
        result = {"hits": {"total": {"value": len(docs), "relation": "eq"}, "hits": [{"_source": d} for d in docs[:size]]}}
        aggs = {}
        for name, agg in body.get("aggs", {}).items():
            if set(agg) == {"stats"}:
                values = [field(d, agg["stats"]["field"]) for d in docs]
                values = [v for v in values if v is not None]
                if values:
                    total = sum(Fraction(v) for v in values)
                    aggs[name] = {"count": len(values), "min": float(min(values)), "max": float(max(values)), "avg": float(total / len(values)), "sum": float(total)}
                else:
                    aggs[name] = {"count": 0, "min": None, "max": None, "avg": None, "sum": 0.0}
            elif set(agg) == {"percentiles"}:
                values = sorted(v for v in (field(d, agg["percentiles"]["field"]) for d in docs) if v is not None)
                aggs[name] = {"values": {str(float(p)): (percentile(values, p) if values else None) for p in agg["percentiles"]["percents"]}}
            elif set(agg) == {"terms"}:
                buckets = {}
                for d in docs:
                    k = field(d, agg["terms"]["field"])
                    if k is None:
                        continue
                    if not isinstance(k, bool):
                        raise NotImplementedError("terms aggregation on a non-boolean value %r" % (k,))
                    buckets[k] = buckets.get(k, 0) + 1
                aggs[name] = {"buckets": [{"key": int(k), "key_as_string": "true" if k else "false", "doc_count": c} for k, c in sorted(buckets.items(), key=lambda kv: -kv[1])]}
            else:
                raise NotImplementedError("aggregation %r" % (agg,))
        if aggs:
            result["aggregations"] = aggs
        return result


def factories(fake):
    """client_factory_class / index_template_provider_class arguments of EsMetricsStore for a given fake."""

    class ClientFactory:
        def __init__(self, cfg):
            pass

        def create(self):
            return fake

    class TemplateProvider:
        def __init__(self, cfg):
            pass

        def metrics_template(self):
            return '{"template": {}}'

    return ClientFactory, TemplateProvider
