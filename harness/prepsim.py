"""The track preparation phase of a simulated race on the REAL actors (C09, leg "prep").

PrepWorld = racesim.RaceWorld(full=True) in which driver.TrackPreparationActor is NOT replaced by a stub: the REAL DriverActor,
TrackPreparationActor and TaskExecutionActor run under SimActorSystem below the REAL BenchmarkActor. Harness side:
  * TaskExecutionActor.pool is a stub: submit() returns a concurrent.futures.Future, the decision ('pool', executor) runs the
    task function to its end (result or exception) - the harness controls WHEN the pool thread runs, the task decides HOW it ends;
  * track processors are registered through the real TrackProcessorRegistry (its three required processors come first, each
    yields the base class' no-op task; then either the harness processors - registered via register_track_processor by the patched
    load_track_plugins - or, when none is registered, the real DefaultTrackPreparator, which yields nothing for a track without corpora);
  * load_track / load_local_config are patched as in racesim.
PrepTrace drives the world under a schedule and records, after every handler, the projection of the real objects that
TraceTrackPrep.tla validates against specs/TrackPrep/TrackPrep.tla.

A preparation scenario: {"H": hosts, "K": executors per host, "procs": [n_1..n_P] (tasks per processor, the first three are the
required processors = 1), "default": bool, "flt": {"kind", "h", "p", "x"}}.
"""
import concurrent.futures
import json
import os

from . import racesim, tlc

REQUIRED = 3  # TrackProcessorRegistry.required_processors
HOSTS = ["localhost", "127.0.0.2"]
NO_FAULT = {"kind": "none", "h": 0, "p": 0, "x": 0}


class PrepTaskFailure(Exception):
    pass


def prep_task(world, h, p, t):
    """A preparation task yielded by a harness processor (runs in the executor's 'pool thread')."""
    world.task_log.append((h, p, t))
    if world.task_fault_at(h, p, t):
        world.fault_fired = True
        raise PrepTaskFailure("verif: preparation task %d of processor %d failed" % (t, p))
    return None


class TaskRun:
    def __init__(self, fn, params, tag, host):
        self.fn = fn
        self.params = params
        self.tag = tag  # (p, t)
        self.host = host
        self.future = concurrent.futures.Future()
        self.state = "submitted"


class StubTaskPool:
    """Replacement for TaskExecutionActor.pool (ThreadPoolExecutor(max_workers=1))."""

    def __init__(self, world, owner):
        self.world = world
        self.owner = owner

    def submit(self, fn, **params):
        w = self.world
        name = w.sim.name_of(self.owner.myAddress)
        h, _k = w.exec_pos(name)
        msg = w.cur_msg
        if msg is None or id(msg) not in w.tags:
            raise w.machinery_error("pool.submit() outside the delivery of a tagged DoTask")
        run = TaskRun(fn, params, tuple(w.tags[id(msg)]), h)
        prev = w.task_runs.get(name)
        if prev is not None and prev.state == "submitted":
            raise w.machinery_error("%s submitted a second task while the first one is running" % name)
        w.task_runs[name] = run
        w.sub_log[h - 1].append(list(run.tag))
        return run.future

    def shutdown(self, *a, **k):
        pass


def load_scn(hosts, cores):
    """The load phase that follows the preparation: one task, two clients, one request each."""
    racesim.ensure_rally_home()
    from esrally.driver import driver

    clients = 2
    worker_of = [0] * clients
    wid = 0
    for a in driver.calculate_worker_assignments([{"host": h, "cores": cores} for h in hosts], clients):
        for cl in a["workers"]:
            if cl:
                wid += 1
                for c in cl:
                    worker_of[c] = wid
    return {"sched": [{"tasks": [{"id": 1, "clients": clients, "reqs": 1, "cp": 0, "acp": 0}], "cap": 0}], "workerOf": worker_of, "W": wid}


class PrepWorld(racesim.RaceWorld):
    def __init__(self, prep, seed=0):
        self.prep = prep
        self.H, self.K = prep["H"], prep["K"]
        self.procs = list(prep["procs"])
        if self.procs[:REQUIRED] != [1] * REQUIRED or len(self.procs) <= REQUIRED:
            raise tlc.MachineryError("scenario must start with the %d required processors (one no-op task each): %r" % (REQUIRED, self.procs))
        self.default = bool(prep.get("default"))
        if self.default and self.procs[REQUIRED:] != [0]:
            raise tlc.MachineryError("the default track preparator yields no task for a track without corpora")
        self.flt = dict(prep.get("flt") or NO_FAULT)
        hosts = HOSTS[: self.H]
        super().__init__(load_scn(hosts, self.K), seed=seed, test_mode=True, hosts=hosts, cores=self.K, full=True)
        from esrally import config
        from esrally import track as track_pkg
        from esrally.driver import driver
        from esrally.track import loader

        world = self
        self.cfired = False
        self.machinery = []
        self.cur_msg = None
        self.tags = {}  # id(message) -> (p, t) for DoTask, p for StartTaskLoop
        self._keep = []  # tagged messages are kept alive (ids must stay unique)
        self.task_runs = {}  # executor name -> TaskRun (current)
        self.task_log = []
        self.sub_log = [[] for _ in range(self.H)]
        self.ok_log = [[] for _ in range(self.H)]
        self.loop_count = {}  # executor name -> StartTaskLoop messages handled
        self.nprep = 0
        self.sb_sent = False
        self.t_fault = None
        self.t_report = None
        S = config.Scope.application
        self.cfg.add(S, "system", "offline.mode", True)
        self.cfg.add(S, "benchmarks", "local.dataset.cache", os.path.join(racesim.ensure_rally_home(), "data"))

        # --- the real preparators instead of racesim's stub; executors with a stub pool
        class SimTaskExecutor(driver.TaskExecutionActor):
            def __init__(self_):
                super().__init__()
                self_.pool.shutdown()
                self_.pool = StubTaskPool(world, self_)

        del self.sim.class_map[driver.TrackPreparationActor]
        self.sim.class_map[driver.TaskExecutionActor] = SimTaskExecutor

        # --- processors: through the real TrackProcessorRegistry
        class HarnessProcessor(loader.TrackProcessor):
            def __init__(self_, p, n):
                self_.p = p
                self_.n = n

            def on_prepare_track(self_, track, data_root_dir):
                h, p = world.seeding_position()
                if p != self_.p:
                    raise world.machinery_error("processor %d is seeded as number %d" % (self_.p, p))
                world.maybe_seed_fault(h, p)
                for t in range(1, self_.n + 1):
                    yield prep_task, {"world": world, "h": h, "p": p, "t": t}

        def load_plugins_for_preparator(cfg, track_name, register_runner=None, register_scheduler=None, register_track_processor=None, force_update=False):
            if register_track_processor is not None and not world.default:
                for i, n in enumerate(world.procs[REQUIRED:]):
                    register_track_processor(HarnessProcessor(REQUIRED + 1 + i, n))
            return True

        def load_plugins_for_executor(cfg, track_name, *a, **k):
            name = world.clock.current
            if name is None or not name.startswith("TaskExecutionActor"):
                return False  # e.g. a worker of the load phase
            world.loop_count[name] = world.loop_count.get(name, 0) + 1
            h, kk = world.exec_pos(name)
            f = world.flt
            if f["kind"] == "plugin" and not world.fault_fired and (f["h"], f["x"]) == (h, kk) and f["p"] == world.tags.get(id(world.cur_msg)):
                world.fault_fired = True
                raise PrepTaskFailure("verif: track plugins cannot be loaded")
            return True

        self._patch(driver, "load_track_plugins", load_plugins_for_preparator)
        self._patch(track_pkg, "load_track_plugins", load_plugins_for_executor)
        orig_base = loader.TrackProcessor.on_prepare_track

        def base_on_prepare_track(self_, track, data_root_dir):
            # the required processors inherit this method: a seeding fault can be placed there as well
            h, p = world.seeding_position()
            world.maybe_seed_fault(h, p)
            return orig_base(self_, track, data_root_dir)

        self._patch(loader.TrackProcessor, "on_prepare_track", base_on_prepare_track)
        self.sim.send_hook = self._on_send

    def machinery_error(self, text):
        """A problem of the harness noticed INSIDE a handler of the code under test: no_retry would turn the exception into a
        BenchmarkFailure, so it is remembered and raised again by prep_step() after the handler has returned."""
        self.machinery.append(text)
        return tlc.MachineryError(text)

    # ---- who is who
    def tp_names(self):
        return [n for n in self.sim.actors[self.DRIVER].children if n.startswith("TrackPreparationActor")] if self.DRIVER in self.sim.actors else []

    def tp_name(self, h):
        return self.tp_names()[h - 1]

    def tp(self, h):
        return _TpView(self, self.sim.actors[self.tp_name(h)])

    def host_of_tp(self, name):
        return self.tp_names().index(name) + 1

    def exec_names(self, h):
        return list(self.sim.actors[self.tp_name(h)].children)

    def exec_pos(self, name):
        parent = self.sim.actors[name].parent
        return self.host_of_tp(parent), self.sim.actors[parent].children.index(name) + 1

    def role(self, name):
        if name == self.DRIVER:
            return ("drv",)
        if name == self.RC:
            return ("rc",)
        if name.startswith("TrackPreparationActor"):
            return ("tp", self.host_of_tp(name))
        if name.startswith("TaskExecutionActor"):
            return ("ex",) + self.exec_pos(name)
        return ("other",)

    # ---- observation of messages as they are sent (inside the sending handler: the sender's state is current)
    def _on_send(self, src, dst, msg):
        nm = type(msg).__name__
        if nm == "DoTask":
            if msg.task is not None:
                v = self.tp(self.host_of_tp(src))
                self.tags[id(msg)] = (v.instance_round(), len(v.inst.tasks) + 1)
                self._keep.append(msg)
        elif nm == "StartTaskLoop":
            if id(msg) not in self.tags:
                self.tags[id(msg)] = self.tp(self.host_of_tp(src)).instance_round()
                self._keep.append(msg)
        elif nm == "PreparationComplete" and src == self.DRIVER:
            self.nprep += 1
        elif nm == "StartBenchmark" and dst == self.DRIVER:
            self.sb_sent = True

    def seeding_position(self):
        """(host, number of the processor being seeded) - called from inside _seed_tasks of the preparator that is running."""
        name = self.clock.current
        if name is None or not name.startswith("TrackPreparationActor"):
            raise self.machinery_error("on_prepare_track called outside a track preparator (%r)" % (name,))
        h = self.host_of_tp(name)
        return h, self.tp(h).instance_round()

    def maybe_seed_fault(self, h, p):
        f = self.flt
        if f["kind"] == "seed" and not self.fault_fired and (f["h"], f["p"]) == (h, p):
            self.fault_fired = True
            raise PrepTaskFailure("verif: on_prepare_track of processor %d failed" % p)

    def task_fault_at(self, h, p, t):
        f = self.flt
        return f["kind"] in ("task", "close") and not self.fault_fired and (f["h"], f["p"], f["x"]) == (h, p, t)

    # ---- deterministic prefix: engine start, PrepareBenchmark handled by the DriverActor (one preparator per host created)
    def start(self):
        from esrally import racecontrol

        self.sim.send("user", self.RC, racecontrol.Setup(self.cfg, external=True))
        self.run_until(lambda: self.DRIVER in self.sim.actors and self.sim.actors[self.DRIVER].instance.driver is not None and len(self.tp_names()) == self.H)
        if self.flt["kind"] == "close":
            drv = self.sim.actors[self.DRIVER].instance.driver
            orig = drv.close
            state = {"left": 2}  # both attempts of the first handler invocation

            def failing_close():
                if state["left"] > 0:
                    state["left"] -= 1
                    if state["left"] == 0:
                        self.cfired = True
                    raise IOError("verif: metrics store cannot be closed")
                return orig()

            drv.close = failing_close

    # ---- decisions of the preparation phase
    def prep_event(self, dec):
        """(action name of TrackPrep.tla, h, k) for a decision that belongs to the preparation protocol, else None."""
        if dec[0] == "pool":
            return ("PoolRun",) + self.exec_pos(dec[1])
        if dec[0] == "wakeup":
            if dec[1].startswith("TaskExecutionActor"):
                return ("EWakeup",) + self.exec_pos(dec[1])
            return None
        if dec[0] != "deliver":
            return None
        _, src, dst = dec
        if src not in self.sim.actors or dst not in self.sim.actors:
            return None
        rs, rd = self.role(src), self.role(dst)
        nm = type(self.sim.chan[(src, dst)][0]).__name__
        if rs[0] == "tp" and rd[0] == "drv":
            ev = {"ReadyForWork": "DRecvReadyForWork", "TrackPrepared": "DRecvTrackPrepared", "BenchmarkFailure": "DRecvBenchmarkFailure", "ChildActorExited": "DRecvChildExited"}.get(nm)
            return (ev or "DRecv" + nm, rs[1], 0)
        if rs[0] == "drv" and rd[0] == "tp":
            ev = {"Bootstrap": "TRecvBootstrap", "PrepareTrack": "TRecvPrepareTrack", "PoisonMessage": "TRecvPoison", "ActorExitRequest": "TRecvExit", "BenchmarkFailure": "TRecvDriverFailure"}.get(nm)
            return (ev or "TRecv" + nm, rd[1], 0)
        if rs[0] == "ex" and rd[0] == "tp":
            ev = {"ReadyForWork": "TRecvReadyForWork", "WorkerIdle": "TRecvWorkerIdle", "BenchmarkFailure": "TRecvBenchmarkFailure"}.get(nm)
            return (ev or "TRecv" + nm, rs[1], rs[2])
        if rs[0] == "tp" and rd[0] == "ex":
            ev = {"StartTaskLoop": "ERecvStartTaskLoop", "DoTask": "ERecvDoTask", "BenchmarkFailure": "ERecvBenchmarkFailure", "ActorExitRequest": "ERecvExit"}.get(nm)
            return (ev or "ERecv" + nm, rd[1], rd[2])
        if rs[0] == "drv" and rd[0] == "rc" and nm in ("PreparationComplete", "BenchmarkFailure"):
            return ("RcRecv", 0, 0)
        if rs[0] == "rc" and rd[0] == "drv" and nm == "StartBenchmark":
            return ("DRecvStartBenchmark", 0, 0)
        return None

    def load_phase(self):
        drv = self.sim.actors[self.DRIVER].instance.driver
        return drv is not None and drv.allocations is not None

    def prep_enabled(self):
        res = []
        for dec in self.sim.enabled():
            if self.prep_event(dec) is not None:
                res.append(dec)
        for name, run in self.task_runs.items():
            if run.state == "submitted" and self.sim.actors[name].alive:
                res.append(("pool", name))
        return res

    def prep_step(self, dec):
        if dec[0] == "pool":
            self.pool_run(dec[1])
            return
        if dec[0] == "deliver":
            self.cur_msg = self.sim.chan[(dec[1], dec[2])][0]
        try:
            self.sim.step(dec)
        finally:
            self.cur_msg = None
        if self.machinery:
            raise tlc.MachineryError(self.machinery[0])

    def pool_run(self, name):
        """The pool thread of executor `name` runs its task to the end."""
        run = self.task_runs[name]
        run.future.set_running_or_notify_cancel()
        prev = self.clock.current
        self.clock.current = name
        try:
            if run.fn is prep_task:
                res = run.fn(**run.params)
            elif self.task_fault_at(run.host, run.tag[0], run.tag[1]):
                # a task of a required processor (the base class' no-op): the harness lets it raise
                self.fault_fired = True
                raise PrepTaskFailure("verif: preparation task %d of processor %d failed" % (run.tag[1], run.tag[0]))
            else:
                res = run.fn(**run.params)
        except BaseException as e:  # pylint: disable=broad-except
            if isinstance(e, tlc.MachineryError):
                raise
            run.state = "failed"
            run.future.set_exception(e)
        else:
            run.state = "done"
            self.ok_log[run.host - 1].append(list(run.tag))
            run.future.set_result(res)
        finally:
            self.clock.current = prev

    # ---- the load phase as one step
    def run_load_phase(self, rnd, limit=4000):
        for name, rec in self.sim.actors.items():
            if name.startswith("Worker"):
                rec.instance.pool.worker_name = name
        n = 0
        while not self.success() and n < limit:
            en = self.enabled()
            if not en:
                break
            self.step(rnd.choice(en))
            n += 1
        return self.success()

    def success(self):
        return any(type(m).__name__ == "Success" for _s, m in self.user_inbox())

    def results_stored(self):
        rf = self.race_file()
        if not os.path.exists(rf):
            return bool(self.summaries)
        with open(rf, "r", encoding="utf-8") as f:
            return "results" in json.load(f) or bool(self.summaries)


class _TpView:
    """Reads a TrackPreparationActor instance."""

    def __init__(self, world, rec):
        self.world = world
        self.rec = rec
        self.inst = rec.instance

    def instance_round(self):
        """Number of the processor taken from the queue last (0 before PrepareTrack)."""
        if not self.inst.children:
            return 0
        return len(self.world.procs) - self.inst.processors.qsize()


# ---------------------------------------------------------------------------------------------------
def _msg(k, p=0, t=0):
    return {"k": k, "p": p, "t": t}


STATUS = {"INITIALIZING": "init", "PROCESSOR_RUNNING": "running", "PROCESSOR_COMPLETE": "complete"}
INIT_EX = {"st": "absent", "parent": False, "fut": "none", "task": [0, 0], "timer": 0}


class PrepTrace:
    """One preparation phase (+ the load phase as one step) under a schedule, recorded for TraceTrackPrep.tla."""

    SWEEP_LIMIT = 2000

    def __init__(self, prep, seed=0):
        self.prep = prep
        self.w = PrepWorld(prep, seed=seed)
        self.events = []
        self.stuck = False
        self.livelock = False
        self.init = None

    def close(self):
        self.w.close()

    def start(self):
        self.w.start()
        self.init = self.project()

    # ---- projection of the real objects
    def _pm(self, m):
        nm = type(m).__name__
        if nm == "DoTask":
            if m.task is None:
                return _msg(nm)
            p, t = self.w.tags[id(m)]
            return _msg(nm, p, t)
        if nm == "StartTaskLoop":
            return _msg(nm, self.w.tags[id(m)])
        return _msg(nm)

    def _chan(self, src, dst):
        out = []
        for m in self.w.sim.chan.get((src, dst), []):
            pm = self._pm(m)
            # ActorExitRequest reaches a child twice (forwarded by the parent's handler and by the actor system): the second
            # copy is a dead letter in any case
            if pm["k"] == "ActorExitRequest" and out and out[-1]["k"] == "ActorExitRequest":
                continue
            out.append(pm)
        return out

    def project(self):
        w = self.w
        sim = w.sim
        H, K = w.H, w.K
        D, RC = w.DRIVER, w.RC
        d2t, t2d, t2e, e2t, tps, exs = [], [], [], [], [], []
        for h in range(1, H + 1):
            tn = w.tp_name(h)
            rec = sim.actors[tn]
            inst = rec.instance
            d2t.append(self._chan(D, tn))
            t2d.append(self._chan(tn, D))
            tps.append(
                {
                    "boot": inst.driver_actor is not None,
                    "status": STATUS[inst.status.name],
                    "cur": w.tp(h).instance_round(),
                    "tasks": len(inst.tasks),
                    "resp": len(inst.received_responses),
                    "nchild": len(inst.children),
                    "alive": rec.alive,
                }
            )
            names = w.exec_names(h)
            row_t2e, row_e2t, row_ex = [], [], []
            for k in range(1, K + 1):
                if k > len(names):
                    row_t2e.append([])
                    row_e2t.append([])
                    row_ex.append(dict(INIT_EX))
                    continue
                en = names[k - 1]
                erec = sim.actors[en]
                einst = erec.instance
                row_t2e.append(self._chan(tn, en))
                row_e2t.append(self._chan(en, tn))
                fut, task = "none", [0, 0]
                if einst.executor_future is not None:
                    run = w.task_runs.get(en)
                    if run is None or run.future is not einst.executor_future:
                        raise tlc.MachineryError("%s has a future the harness does not know" % en)
                    fut, task = run.state, list(run.tag)
                row_ex.append({"st": "alive" if erec.alive else "dead", "parent": einst.task_preparation_actor is not None, "fut": fut, "task": task, "timer": len(sim.pending_timers(en))})
            if len(names) > K:
                raise tlc.MachineryError("host %d has %d executors, expected %d" % (h, len(names), K))
            t2e.append(row_t2e)
            e2t.append(row_e2t)
            exs.append(row_ex)
        dinst = sim.actors[D].instance
        drv = {"children": len(dinst.children), "resp": len(dinst.received_responses), "started": w.load_phase()}
        d2r = [pm for pm in self._chan(D, RC) if pm["k"] in ("PreparationComplete", "BenchmarkFailure")]
        r2d = [pm for pm in self._chan(RC, D) if pm["k"] == "StartBenchmark"]
        coord = w.coordinator()
        replies = [{"Success": "Success", "BenchmarkFailure": "Failure", "BenchmarkCancelled": "Cancelled"}.get(type(m).__name__, type(m).__name__) for _s, m in w.user_inbox()]
        rc = {"error": bool(coord.error), "replies": replies, "stored": w.results_stored(), "sb": w.sb_sent, "done": w.success()}
        hist = {"sub": [list(x) for x in w.sub_log], "ok": [sorted(x) for x in w.ok_log], "nprep": w.nprep}
        flt = dict(w.flt)
        flt["fired"] = bool(w.fault_fired)
        flt["cfired"] = bool(w.cfired)
        return {"flt": flt, "d2t": d2t, "t2d": t2d, "t2e": t2e, "e2t": e2t, "d2r": d2r, "r2d": r2d, "drv": drv, "tp": tps, "ex": exs, "rc": rc, "hist": hist}

    # ---- stepping
    def enabled(self):
        return self.w.prep_enabled()

    def event_of(self, dec):
        return self.w.prep_event(dec)

    def do(self, dec):
        ev = self.event_of(dec)
        self.w.prep_step(dec)
        self._log(ev)

    def _log(self, ev):
        w = self.w
        st = self.project()
        if st["flt"]["fired"] and w.t_fault is None:
            w.t_fault = w.clock.now
        if st["rc"]["error"] and w.t_report is None:
            w.t_report = w.clock.now
        self.events.append({"ev": ev[0], "h": ev[1], "k": ev[2], "st": st})

    def run(self, script, rnd, max_events=400):
        """script: [(action, h, k)...] of a TLC behaviour (may be empty); steps that cannot be followed are skipped. Then a seeded
        random policy and finally a deterministic sweep take the preparation phase to quiescence; if the benchmark was started,
        the load phase runs to its end as ONE event (Race). Returns (#followed, #skipped)."""
        followed = skipped = 0
        for want in script:
            want = tuple(want)
            if want[0] in ("Race", "Init") or len(self.events) >= max_events:
                continue
            match = None
            for dec in self.enabled():
                if self.event_of(dec) == want:
                    match = dec
                    break
            if match is None:
                skipped += 1
                continue
            self.do(match)
            followed += 1
        while len(self.events) < max_events:
            en = self.enabled()
            if not en:
                break
            self.do(rnd.choice(en))
        # deterministic round-robin sweeps: every enabled delivery / pool thread is taken once per sweep; wake-ups only when nothing
        # else is left (they then find their task finished), so every step of a sweep is progress. The protocol is finite (the
        # scenarios used here need < 500 steps). A livelock (e.g. a failure message bouncing between two actors for ever) is
        # diagnosed when the projected state after a full sweep equals the state after an earlier one - the sweeps are deterministic
        # and fair, so the run would go on like this for ever - or, as a backstop, after SWEEP_LIMIT steps of progress. A livelocked
        # run is judged like one that has come to rest.
        guard = 0
        seen = set()
        while True:
            en = self.enabled()
            if not en:
                break
            for dec in [d for d in en if d[0] != "wakeup"] or en:
                if dec in self.enabled():
                    self.do(dec)
                    guard += 1
            sig = json.dumps(self.events[-1]["st"], sort_keys=True)
            if sig in seen or guard > self.SWEEP_LIMIT:
                self.livelock = True
                self._log(("Livelock", 0, 0))
                return followed, skipped
            seen.add(sig)
        if self.w.load_phase() and not self.w.success():
            ok = self.w.run_load_phase(rnd)
            if ok:
                self._log(("Race", 0, 0))
            else:
                self.stuck = True
                self._log(("RaceStuck", 0, 0))
        return followed, skipped

    def trace(self, tid):
        for e in self.events:
            e["last"] = False
        if self.events:
            self.events[-1]["last"] = True
        w = self.w
        ms = lambda t: int(round(t * 1000)) if t is not None else -1
        return {"id": tid, "scn": {"H": w.H, "K": w.K, "procs": list(w.procs)}, "init": self.init, "events": self.events, "tFault": ms(w.t_fault), "tReport": ms(w.t_report)}
