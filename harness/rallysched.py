"""Shared by drivers c02 / c11: schedules as JSON (the record formats of specs/Allocator/Allocator.tla) <-> real
esrally track objects, and the observations taken from the real Allocator / calculate_worker_assignments /
TaskFilterTrackProcessor.

JSON formats (identical to the TLA+ records, see the comment block in Allocator.tla):
  leaf     {"k": "task", "name", "type", "tags": [..], "clients", "cp", "acp"[, "fp"]}
  parallel {"k": "par", "cap" (0 = none), "tasks": [leaf..]}
  cell     {"k": "jp", "id", "cby": [..], "any": [..]} | {"k": "task", "task", "idx", "gidx", "total"} | {"k": "none"}
  filter   {"k": "name" | "type" | "tag", "v": str}
"""
import copy
import logging

from . import tlc
from .tlaparse import parse_state, to_json


# ---------------------------------------------------------------------------------------------------
# TLC dump: only the input states (done = FALSE) are needed, the evaluated ones carry big matrices
# ---------------------------------------------------------------------------------------------------
def dump_inputs(path):
    """Yields the parsed variable `inp` (as JSON-able structure) of every state with done = FALSE."""
    with open(path, "r", encoding="utf-8") as f:
        buf = []
        for line in f:
            if line.startswith("State ") and line.rstrip().endswith(":"):
                if buf:
                    yield from _one("".join(buf))
                buf = []
            else:
                buf.append(line)
        if "".join(buf).strip():
            yield from _one("".join(buf))


def sorted_inputs(path):
    """All input states of a dump as compact JSON strings in a canonical order (TLC's dump order depends on its workers)."""
    import json

    res = [json.dumps(inp, sort_keys=True, separators=(",", ":")) for inp in dump_inputs(path)]
    res.sort()
    return res


def _one(text):
    if "done = FALSE" not in text:
        return
    st = parse_state(text)
    if st.get("done") is not False:
        raise tlc.MachineryError("unexpected state in dump: %s" % text[:200])
    yield to_json(st["inp"])


# ---------------------------------------------------------------------------------------------------
# JSON schedule -> real objects
# ---------------------------------------------------------------------------------------------------
def _extras(rnd):
    """Further task properties (not part of the model) that a filter must leave alone."""
    if rnd is None:
        return {}
    if rnd.random() < 0.5:
        return {"warmup_iterations": rnd.choice([None, 0, 5]), "iterations": rnd.choice([1, 10, 100])}
    return {"warmup_time_period": rnd.choice([None, 0, 30]), "time_period": rnd.choice([1, 60])}


def fingerprint(task):
    """Everything about a real task that is not in the model's leaf record, as a string."""
    op = task.operation
    return "%s|%s|%s|%s|%s|%s|%s|%s|%s|%s" % (
        task.warmup_iterations,
        task.iterations,
        task.warmup_time_period,
        task.time_period,
        task.ramp_up_time_period,
        task.schedule,
        sorted(task.params.items()),
        sorted(task.meta_data.items()),
        op.name,
        sorted(op.params.items()),
    )


def build_leaf(leaf, rnd=None):
    from esrally.track import track

    # several tasks share one operation (as in real tracks); the operation's name differs from every task name
    op = track.Operation(name="op-" + leaf["type"], operation_type=leaf["type"], params={"index": "i-" + leaf["type"]})
    tags = list(leaf["tags"])
    if rnd is not None and len(tags) == 1 and rnd.random() < 0.6:
        tags = tags[0]  # allowed track syntax: a single tag written as ONE STRING ("tags": "index")
    params = {"name": leaf["name"], "clients": leaf["clients"]}
    if rnd is not None and rnd.random() < 0.3:
        params["target-throughput"] = rnd.choice([10, 100])
    return track.Task(
        name=leaf["name"],
        operation=op,
        tags=tags if tags else None,
        meta_data={"m": leaf["name"]} if rnd is not None and rnd.random() < 0.3 else None,
        clients=leaf["clients"],
        completes_parent=leaf["cp"],
        any_completes_parent=leaf["acp"],
        params=params,
        **_extras(rnd),
    )


def build_schedule(s, rnd=None):
    from esrally.track import track

    res = []
    for el in s:
        if el["k"] == "par":
            res.append(track.Parallel([build_leaf(t, rnd) for t in el["tasks"]], clients=el["cap"] if el["cap"] else None))
        else:
            res.append(build_leaf(el, rnd))
    return res


def variant_schedule(written, objs, rnd):
    """A schedule for ANOTHER challenge of the same track, assembled from the same snippets: every task has the same name and the
    same settings as its namesake in `written` / `objs` (clients, iterations, time periods, params, meta data, completed-by, even
    the operation's name: track.Task.__eq__ / Operation.__eq__ hold between the namesakes) but about half of the tasks are TAGGED
    differently or are (inline) operations of another operation type. Returns (written variant, real objects)."""
    from esrally.track import track

    pairs = []
    for lf in leaves(written):
        if (lf["type"], lf["tags"]) not in pairs:
            pairs.append((lf["type"], lf["tags"]))
    for ty in sorted({p[0] for p in pairs} | {"bulk_with_retry", "bulk-with-retry"}):
        for tg in ([], ["index"]):
            if (ty, tg) not in pairs:
                pairs.append((ty, tg))

    def leaf(lf, o):
        ty, tags = lf["type"], lf["tags"]
        if rnd.random() < 0.5:
            ty, tags = rnd.choice([p for p in pairs if p != (ty, tags)])
        w = dict(lf, type=ty, tags=list(tags))
        wtags = tags[0] if len(tags) == 1 and rnd.random() < 0.6 else list(tags)
        obj = track.Task(
            name=o.name,
            operation=track.Operation(name=o.operation.name, operation_type=ty, params=dict(o.operation.params)),
            tags=wtags if wtags else None,
            meta_data=dict(o.meta_data),
            warmup_iterations=o.warmup_iterations,
            iterations=o.iterations,
            warmup_time_period=o.warmup_time_period,
            time_period=o.time_period,
            ramp_up_time_period=o.ramp_up_time_period,
            clients=o.clients,
            completes_parent=o.completes_parent,
            any_completes_parent=o.any_completes_parent,
            schedule=o.schedule,
            params=dict(o.params),
        )
        return w, obj

    ws, os_ = [], []
    for el, o in zip(written, objs):
        if el["k"] == "par":
            pr = [leaf(lf, x) for lf, x in zip(el["tasks"], o.tasks)]
            ws.append({"k": "par", "cap": el["cap"], "tasks": [w for w, _ in pr]})
            os_.append(track.Parallel([x for _, x in pr], clients=el["cap"] if el["cap"] else None))
        else:
            w, x = leaf(el, o)
            ws.append(w)
            os_.append(x)
    return ws, os_


# ---------------------------------------------------------------------------------------------------
# real objects -> JSON
# ---------------------------------------------------------------------------------------------------
def project_leaf(t, with_fp=False):
    d = {
        "k": "task",
        "name": str(t.name),
        "type": str(t.operation.type),
        # representation-tolerant: a single tag kept as a plain string is the one-element tag list
        "tags": [t.tags] if isinstance(t.tags, str) else [str(x) for x in t.tags],
        "clients": int(t.clients),
        "cp": bool(t.completes_parent),
        "acp": bool(t.any_completes_parent),
    }
    if with_fp:
        d["fp"] = fingerprint(t)
    return d


def project_schedule(schedule, with_fp=False):
    res = []
    for el in schedule:
        if hasattr(el, "tasks"):
            cap = getattr(el, "_clients", "missing")
            if cap == "missing":
                total = sum(t.clients for t in el.tasks)
                cap = None if el.clients == total else el.clients
            res.append({"k": "par", "cap": int(cap) if cap else 0, "tasks": [project_leaf(t, with_fp) for t in el.tasks]})
        else:
            res.append(project_leaf(el, with_fp))
    return res


def project_cell(x):
    from esrally.driver import driver

    if x is None:
        return {"k": "none"}
    if isinstance(x, driver.JoinPoint):
        return {"k": "jp", "id": int(x.id), "cby": [int(c) for c in x.clients_executing_completing_task], "any": [int(c) for c in x.any_task_completes_parent]}
    if isinstance(x, driver.TaskAllocation):
        return {"k": "task", "task": str(x.task.name), "idx": int(x.client_index_in_task), "gidx": int(x.global_client_index), "total": int(x.total_clients)}
    raise tlc.MachineryError("unknown allocation matrix entry %r" % (x,))


class _Reporter:
    def __init__(self):
        self.lines = []

    def print(self, *a):
        self.lines.append(a)

    def finish(self):
        pass


def walk_progress(allocator):
    """What Driver.start_benchmark / joinpoint_reached / update_progress_message do with the allocator's results: one
    progress message per step 0..number_of_steps-1 read from tasks_per_joinpoint. Uses the real
    Driver.update_progress_message on a bare Driver object. Returns "ok", "IndexError step k" or "n/a: ..."."""
    from esrally.driver import driver

    try:
        d = driver.Driver.__new__(driver.Driver)
        d.quiet = False
        d.most_recent_sample_per_client = {}
        d.progress_reporter = _Reporter()
        d.tasks_per_join_point = allocator.tasks_per_joinpoint
        d.number_of_steps = len(allocator.join_points) - 1
        d.current_step = -1
    except Exception as ex:  # pylint: disable=broad-except
        return "n/a: %s" % type(ex).__name__
    # join point 0 is reached with current_step = -1, then one step per further join point
    finished = _Reporter()
    while d.current_step != d.number_of_steps:
        try:
            # start_benchmark (current_step = -1, before the first join point) and the driver's periodic wake-ups report progress of
            # the running step; joinpoint_reached reports the finished step
            d.update_progress_message()
            running, d.progress_reporter = d.progress_reporter, finished
            d.update_progress_message(task_finished=True)
            d.progress_reporter = running
        except (IndexError, KeyError) as ex:
            return "%s step %d" % (type(ex).__name__, d.current_step)
        except Exception as ex:  # pylint: disable=broad-except
            return "n/a: %s" % type(ex).__name__
        d.current_step += 1
    if len(finished.lines) != d.number_of_steps:
        return "n/a: %d messages" % len(finished.lines)
    return "ok"


class ObservedCrash(Exception):
    """The code under test raised instead of returning a result."""


def observe_allocator(schedule_objs):
    """Runs the real Allocator on real schedule objects and projects its three results."""
    from esrally.driver import driver

    a = driver.Allocator(schedule_objs)
    stage = "allocations"
    try:
        m = [[project_cell(x) for x in row] for row in a.allocations]
        stage = "join_points"
        jps = [project_cell(x) for x in a.join_points]
        stage = "tasks_per_joinpoint"
        tpj = [sorted(str(t.name) for t in entry) for entry in a.tasks_per_joinpoint]
        stage = "clients"
        clients = int(a.clients)
    except tlc.MachineryError:
        raise
    except Exception as ex:  # pylint: disable=broad-except
        raise ObservedCrash("Allocator.%s raised %s: %s" % (stage, type(ex).__name__, ex)) from ex
    return {"m": m, "jps": jps, "tpj": tpj, "clients": clients, "progress": walk_progress(a)}


def observe_assign(hosts, n):
    from esrally.driver import driver

    res = driver.calculate_worker_assignments([dict(h) for h in hosts], n)
    return [{"host": str(a["host"]), "workers": [[int(c) for c in w] for w in a["workers"]]} for a in res]


# ---------------------------------------------------------------------------------------------------
# the real Driver.start_benchmark with a recording driver actor
# ---------------------------------------------------------------------------------------------------
class _EsFactory:
    def __init__(self, *a, **k):
        pass

    def create(self):
        from unittest import mock

        return mock.MagicMock()


class RecordingDriverActor:
    """Stands in for DriverActor: records what Driver.start_benchmark asks it to do AT CALL TIME (the actor system
    serialises a StartWorker message when it is sent; later changes of the objects do not reach the worker)."""

    def __init__(self, driver_of):
        self.created = []
        self.sent = []
        self.cluster_details = None
        self._driver_of = driver_of

    def prepare_track(self, hosts, cfg, track):
        pass

    def create_client(self, host, cfg, worker_id):
        self.created.append({"wid": int(worker_id), "host": str(host)})
        return ("worker", int(worker_id), str(host))

    def start_worker(self, worker, worker_id, cfg, track, client_allocations, client_contexts=None):
        d = self._driver_of()
        rows = []
        rowok = True
        for a in client_allocations.allocations:
            c = int(a["client_id"])
            rows.append(c)
            mine = d.allocations[c] if 0 <= c < len(d.allocations) else None
            rowok = rowok and mine is not None and [project_cell(x) for x in a["tasks"]] == [project_cell(x) for x in mine]
        host = worker[2] if isinstance(worker, tuple) and len(worker) == 3 else "?"
        self.sent.append({"wid": int(worker_id), "host": host, "rows": rows, "rowok": bool(rowok), "ctx": sorted(int(c) for c in (client_contexts or {}))})


def observe_start(hosts, schedule_objs):
    """Runs the real Driver.prepare_benchmark + Driver.start_benchmark for the load-driver hosts `hosts`
    ([{"host", "cores"}]) and the given real schedule. prepare_benchmark only knows one core count for all hosts; for a
    layout with different core counts Driver.load_driver_hosts is set to `hosts` before start_benchmark.
    Returns {n, a, created, sent, cpw}."""
    from unittest import mock

    from esrally.driver import driver
    from esrally.track import track

    from . import racesim

    racesim.ensure_rally_home()
    names = [h["host"] for h in hosts]
    cfg = racesim.build_config(None, True, "continue", None, 1, hosts[0]["cores"], names)
    t = track.Track(name="verif", challenges=[track.Challenge("c", default=True, schedule=schedule_objs)])
    holder = {}
    rec = RecordingDriverActor(lambda: holder["d"])
    try:
        with mock.patch("esrally.utils.net.resolve", side_effect=lambda h: h):
            d = driver.Driver(rec, cfg, es_client_factory_class=_EsFactory)
            holder["d"] = d
            d.prepare_benchmark(t)
    except Exception as ex:  # pylint: disable=broad-except
        raise tlc.MachineryError("cannot prepare a Driver for the start_benchmark leg: %s: %s" % (type(ex).__name__, ex)) from ex
    try:
        if [(str(h["host"]), int(h["cores"])) for h in d.load_driver_hosts] != [(h["host"], h["cores"]) for h in hosts]:
            d.load_driver_hosts = [dict(h) for h in hosts]
        try:
            d.start_benchmark()
            n = len(d.allocations)
            a = observe_assign(hosts, n)
        except tlc.MachineryError:
            raise
        except Exception as ex:  # pylint: disable=broad-except
            raise ObservedCrash("Driver.start_benchmark raised %s: %s" % (type(ex).__name__, ex)) from ex
        cpw = [int(d.clients_per_worker.get(c, -1)) for c in range(n)]
        return {"n": n, "a": a, "created": rec.created, "sent": rec.sent, "cpw": cpw}
    finally:
        try:
            if d.metrics_store is not None:
                d.metrics_store.close()
        except Exception:  # pylint: disable=broad-except
            pass


# ---------------------------------------------------------------------------------------------------
# the real task filter
# ---------------------------------------------------------------------------------------------------
def filter_strings(filters):
    res = []
    for f in filters:
        res.append(f["v"] if f["k"] == "name" else "%s:%s" % (f["k"], f["v"]))
    return res


def run_filter(schedules, filters, mode):
    """schedules: list of lists of real schedule elements, one per challenge. Runs the real TaskFilterTrackProcessor
    (configured through config.Config like rally.py does) on a real Track; returns the challenges' schedules."""
    from esrally import config
    from esrally.track import loader, track

    logging.getLogger("esrally.track.loader").setLevel(logging.WARNING)
    cfg = config.Config()
    strs = filter_strings(filters)
    cfg.add(config.Scope.application, "track", "include.tasks", strs if mode == "include" else None)
    cfg.add(config.Scope.application, "track", "exclude.tasks", strs if mode == "exclude" else None)
    challenges = [track.Challenge("challenge-%d" % i, default=(i == 0), schedule=s) for i, s in enumerate(schedules)]
    t = track.Track(name="verif", challenges=challenges)
    processor = loader.TaskFilterTrackProcessor(cfg)
    res = processor.on_after_load_track(t)
    if res is None:
        res = t
    return [c.schedule for c in res.challenges]


def with_fingerprints(written, objs):
    """The WRITTEN schedule (what the track file says: the reference for every expected result) with the fingerprint of
    the further properties of the real objects built from it attached to every leaf."""
    res = []
    for el, o in zip(written, objs):
        if el["k"] == "par":
            res.append({"k": "par", "cap": el["cap"], "tasks": [dict(t, fp=fingerprint(x)) for t, x in zip(el["tasks"], o.tasks)]})
        else:
            res.append(dict(el, fp=fingerprint(o)))
    return res


def has_empty_parallel(s):
    return any(el["k"] == "par" and not el["tasks"] for el in s)


def leaves(s):
    res = []
    for el in s:
        res.extend(el["tasks"] if el["k"] == "par" else [el])
    return res


# ---------------------------------------------------------------------------------------------------
# seeded random schedules (wider than the TLC bounds)
# ---------------------------------------------------------------------------------------------------
# core types and user-defined ones; some contain an underscore, some a hyphen, one pair differs only in "_" vs "-"
TYPES = ["bulk", "search", "force-merge", "custom-type", "bulk_with_retry", "bulk-with-retry", "my_custom_op"]
# some tags are proper substrings of others: a tag filter must compare whole tags
TAGS = ["index", "reindex", "post-index-stats", "search", "search-heavy", "setup"]


def random_schedule(rnd, max_elements=6, max_clients=64, max_par=4):
    s = []
    n = 0
    for _ in range(rnd.randint(0 if rnd.random() < 0.05 else 1, max_elements)):
        def leaf():
            nonlocal n
            n += 1
            big = rnd.random() < 0.25
            return {
                "k": "task",
                "name": "t%d" % n,
                "type": rnd.choice(TYPES),
                "tags": rnd.sample(TAGS, rnd.choice([0, 1, 1, 2])),
                "clients": rnd.randint(1, max_clients if big else min(max_clients, 6)),
                "cp": False,
                "acp": False,
            }

        if rnd.random() < 0.45:
            s.append(leaf())
        else:
            tasks = [leaf() for _ in range(rnd.randint(1, max_par))]
            total = sum(t["clients"] for t in tasks)
            while total > max_clients * 2:
                big = max(tasks, key=lambda t: t["clients"])
                total -= big["clients"] - 1
                big["clients"] = 1
            r = rnd.random()
            if r < 0.4:
                cap = 0
            elif r < 0.7:
                cap = rnd.randint(1, max(1, min(max_clients, total - 1)))  # over-committed (or equal for total 1)
            elif r < 0.8:
                cap = min(max_clients, total)
            else:
                cap = min(max_clients, total + rnd.randint(1, 5))  # cap larger than needed
            if cap == 0 and total > max_clients:
                cap = max_clients
            cb = rnd.random()
            if cb < 0.2:
                for t in tasks:
                    t["acp"] = True
            elif cb < 0.5:
                rnd.choice(tasks)["cp"] = True
            s.append({"k": "par", "cap": cap, "tasks": tasks})
    return s


def clone(s):
    return copy.deepcopy(s)
