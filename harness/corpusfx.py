"""Sandbox machinery for C14 (corpus preparation): real files, real archives, a scripted HTTP layer and crash injection.

Nothing in here decides a verdict; it (1) materialises an abstract file-system state of specs/CorpusPrep as real files,
(2) runs the REAL esrally.track.loader.DocumentSetPreparator / Downloader / Decompressor (and through them net.download,
io.decompress, io.prepare_file_offset_table) on it with a scripted `urllib3` pool manager underneath `net._request`,
(3) observes the directory before every call of a potentially mutating callable (sys.monitoring CALL events selected by the
callable's name; purely observational, independent of where in esrally the call is made) and (4) projects directories back to the abstract state.

Crash injection: at the k-th observed call either the forked child running the preparation is killed (os._exit: nothing
is flushed, no handler runs) or a BaseException is raised at the call site (like Ctrl-C: handlers and `with` blocks run).
"""
import array
import bz2
import gzip
import hashlib
import io as pyio
import json
import logging
import os
import random
import shutil
import socket
import stat
import sys
import tarfile
import zipfile

from . import tlc

DOC = "documents.json"
N_LINES = 100001  # two offset-table entries (50000, 100000); line 100001 is one long document
N_OTHER = 60007
LAST_LINE_BODY = 150 * 1024
STREAM = ("bz2", "gz", "zst")
TAR = ("tar", "tar.gz", "tgz", "tar.bz2")
FORMATS = STREAM + ("zip",) + TAR
TOOL_OF = {"bz2": "pbzip2", "gz": "pigz", "zst": "pzstd"}
T0 = 1420070400  # 2015-01-01, mtime of pre-existing document file
TAR_MTIME = 1000000000  # 2001, member mtime inside tar archives
STALE_TMP = b"stale-partial-download\n" * 537

ABSENT = "absent"


def kind_of(fmt):
    if fmt == "none":
        return "none"
    if fmt in STREAM:
        return "stream"
    if fmt == "zip":
        return "zip"
    return "tar"


def _sha(b):
    return hashlib.sha1(b).hexdigest()


class Fixture:
    """All concrete contents, built once per process (deterministic, seed independent)."""

    def __init__(self, base, eol="\n"):
        """eol: line terminator of the documents, "\n" or "\r\n" (a bare "\r" is outside the domain: the text-mode table
        builder counts it as a line end, the mmap reader does not)."""
        import zstandard

        self.base = base
        self.eol = eol
        os.makedirs(base, exist_ok=True)
        rnd = random.Random(1414)
        alnum = "abcdefghijklmnopqrstuvwxyzABCDEFGHIJKLMNOPQRSTUVWXYZ0123456789"
        lines = []
        for i in range(1, N_LINES):
            # multi-byte characters in the first lines and in the lines before every table entry (a table that counted
            # characters instead of bytes would be off); nowhere else, so that no chunked writer cuts inside one
            mb = "ä€"[: i % 3] if (i <= 20 or 0 < (-i) % 50000 <= 40 or i % 50000 == 0) else ""
            lines.append(('{"i":%d,"s":"%s"}%s' % (i, mb + "x" * (i % 11), eol)).encode("utf-8"))
        blob = "".join(rnd.choice(alnum) for _ in range(LAST_LINE_BODY))
        lines.append(('{"i":%d,"blob":"%s"}%s' % (N_LINES, blob, eol)).encode("utf-8"))
        self.X = b"".join(lines)
        self.x_off = self._offsets(lines)
        self.last_start = self.x_off[N_LINES - 1]
        olines = [('{"k":"%s","n":%d}%s' % ("o" * (i % 17), i * 7, eol)).encode("utf-8") for i in range(1, N_OTHER + 1)]
        self.other = b"".join(olines)
        self.o_off = self._offsets(olines)
        # documents of the partial classes used as INITIAL states / short bodies
        self.mid_size = 1000000
        self.last_size = self.last_start + 70001
        self.docs = {
            "empty": b"",
            "mid": self.X[: self.mid_size],
            "last": self.X[: self.last_size],
            "full": self.X,
            "other": self.other,
        }
        for ln in (50000, 100000):
            # windows in which a cut would produce a table entry for a partial line, or would fall into a multi-byte
            # character: must not be hit by chunked writers
            lo, hi = self.x_off[ln - 41], self.x_off[ln]
            if lo // 4096 != (hi - 1) // 4096 or lo % 4096 == 0:
                raise tlc.MachineryError("fixture: the lines before line %d straddle a 4 KiB boundary; change the line pattern" % ln)
        if not self.x_off[49999] > self.mid_size:
            raise tlc.MachineryError("fixture: 'mid' document must have fewer than 50000 lines")
        self.tables = {
            "part": "",
            "X": "50000;%d\n100000;%d\n" % (self.x_off[50000], self.x_off[100000]),
            "O": "50000;%d\n" % self.o_off[50000],
            "torn": "50000;%d\n100000;%s" % (self.x_off[50000], str(self.x_off[100000])[:-2]),
            "bad": "50000;%d\n100000;" % self.x_off[50000],
        }
        self.table_class = {v: k for k, v in self.tables.items()}
        self.table_class["50000;%d\n" % self.x_off[50000]] = "part"
        # archives
        self.arch = {}
        g = {}
        g["bz2"] = bz2.compress(self.X, 9)
        # gzip: the lines before the last one deflated at level 6, the last line (random characters) in stored blocks, so that a
        # flipped payload byte there leaves a well-formed stream of the same size that only the CRC in the trailer gives away
        g["gz"] = self._hybrid_gzip(self.X[: self.last_start], self.X[self.last_start :])
        self.flip_doc_pos = len(self.X) - 20
        at = g["gz"].rfind(self.X[-40:])  # the last bytes of the document, verbatim in the last stored block
        self.flip_arch_pos = at + 20
        if at < 0 or g["gz"][self.flip_arch_pos] != self.X[self.flip_doc_pos] or gzip.decompress(g["gz"]) != self.X:
            raise tlc.MachineryError("fixture: the stored tail of the gzip archive is not where it is expected")
        new_byte = b"b" if self.X[self.flip_doc_pos : self.flip_doc_pos + 1] == b"a" else b"a"
        self.docs["flip"] = self.X[: self.flip_doc_pos] + new_byte + self.X[self.flip_doc_pos + 1 :]
        self.gz_corrupt = g["gz"][: self.flip_arch_pos] + new_byte + g["gz"][self.flip_arch_pos + 1 :]
        g["zst"] = zstandard.ZstdCompressor(level=3).compress(self.X)
        b = pyio.BytesIO()
        with zipfile.ZipFile(b, "w", zipfile.ZIP_DEFLATED) as z:
            zi = zipfile.ZipInfo(DOC, date_time=(2001, 9, 9, 1, 46, 40))
            zi.compress_type = zipfile.ZIP_DEFLATED
            zi.external_attr = 0o644 << 16
            z.writestr(zi, self.X)
        g["zip"] = b.getvalue()
        for ext, mode in (("tar", "w"), ("tar.gz", "w:gz"), ("tgz", "w:gz"), ("tar.bz2", "w:bz2")):
            b = pyio.BytesIO()
            kw = {"compresslevel": 6} if mode != "w" else {}
            with tarfile.open(fileobj=b, mode=mode, format=tarfile.GNU_FORMAT, **kw) as t:
                ti = tarfile.TarInfo(DOC)
                ti.size = len(self.X)
                ti.mtime = TAR_MTIME
                ti.mode = 0o644
                ti.uid = os.getuid()
                ti.gid = os.getgid()
                t.addfile(ti, pyio.BytesIO(self.X))
            g[ext] = b.getvalue()
        for fmt in FORMATS:
            a = g[fmt]
            self.arch[fmt] = {
                "G": a,
                "Th": a[: len(a) // 2],
                # cut shortly before the end: inside the data of the last line for stream formats / inside the member data for
                # tar (whose last 10 KiB are padding)
                # bzip2 releases whole blocks only: where its last block starts depends on the content, so for the bz2 based
                # formats the cut is made well before the compressed data of the last line (output always ends before it)
                "Te": a[: len(a) - (200000 if fmt in ("bz2", "tar.bz2") else 20011 if fmt in TAR else 2000)],
                "J": self.other,
                "E": b"",
            }
            if fmt == "gz":
                # C: same size as the genuine archive, one payload byte differs (bit rot / transfer damage): expands to a
                # document of the right size and line count with wrong content, then fails the CRC check
                self.arch[fmt]["C"] = self.gz_corrupt
            sizes = [len(v) for k, v in self.arch[fmt].items() if k != "C"]
            if len(set(sizes)) != len(sizes):
                raise tlc.MachineryError("fixture: archive classes of %s not distinguishable by size" % fmt)
        # bodies for an uncompressed corpus (the document itself is downloaded)
        self.arch["none"] = {"G": self.X, "Th": self.docs["mid"], "Te": self.docs["last"], "J": self.other, "E": b""}
        self.doc_by_sha = {_sha(v): k for k, v in self.docs.items()}
        self.arch_by_sha = {fmt: {_sha(v): k for k, v in d.items()} for fmt, d in self.arch.items()}
        self.doc_sizes = {len(v): k for k, v in self.docs.items() if k != "flip"}
        self.arch_sizes = {fmt: {len(v): k for k, v in d.items() if k != "C"} for fmt, d in self.arch.items()}
        self._tools()
        self._seek_cache = {}

    @staticmethod
    def _hybrid_gzip(head, tail):
        import struct
        import zlib

        c1 = zlib.compressobj(6, zlib.DEFLATED, -15)
        data = c1.compress(head) + c1.flush(zlib.Z_FULL_FLUSH)
        c2 = zlib.compressobj(0, zlib.DEFLATED, -15)
        data += c2.compress(tail) + c2.flush()
        whole = head + tail
        return b"\x1f\x8b\x08\x00\x00\x00\x00\x00\x00\xff" + data + struct.pack("<II", zlib.crc32(whole) & 0xFFFFFFFF, len(whole) & 0xFFFFFFFF)

    @staticmethod
    def _offsets(lines):
        off = array.array("q", [0])
        pos = 0
        for ln in lines:
            pos += len(ln)
            off.append(pos)
        return off

    def _tools(self):
        """PATH directories: 'ok' = working external decompressors (pigz is real; pbzip2/pzstd are thin wrappers around the
        bzip2/zstd binaries, which is what those tools are: parallel front ends producing the same stream), 'fail' = tools
        that exit 1 without output (exercises the fall-back to the library), 'none' = empty directory."""
        self.bins = {}
        for k in ("ok", "fail", "none"):
            d = os.path.join(self.base, "bin-" + k)
            os.makedirs(d, exist_ok=True)
            self.bins[k] = d
        real = {"pigz": shutil.which("pigz"), "bzip2": shutil.which("bzip2"), "zstd": shutil.which("zstd")}
        self.tools_available = {"gz": bool(real["pigz"]), "bz2": bool(real["bzip2"]), "zst": bool(real["zstd"])}
        wrappers = {
            "pigz": ('exec "%s" "$@"\n' % real["pigz"]) if real["pigz"] else None,
            # rally calls: pbzip2 -d -k -m10000 -c FILE   /   pzstd -f -d -c FILE
            "pbzip2": ('for a; do f="$a"; done\nexec "%s" -d -k -c "$f"\n' % real["bzip2"]) if real["bzip2"] else None,
            # no -f: with it the zstd binary passes unrecognised input through unchanged, which pzstd does not do
            "pzstd": ('for a; do f="$a"; done\nexec "%s" -q -d -c "$f"\n' % real["zstd"]) if real["zstd"] else None,
        }
        for name, body in wrappers.items():
            if body:
                self._script(os.path.join(self.bins["ok"], name), "#!/bin/sh\n" + body)
            self._script(os.path.join(self.bins["fail"], name), "#!/bin/sh\necho 'scripted tool failure' >&2\nexit 1\n")

    @staticmethod
    def _script(path, text):
        with open(path, "w", encoding="utf-8") as f:
            f.write(text)
        os.chmod(path, os.stat(path).st_mode | stat.S_IXUSR | stat.S_IXGRP | stat.S_IXOTH)


# ---------------------------------------------------------------------------------------------------
# abstract state <-> directory
# ---------------------------------------------------------------------------------------------------
def arch_name(fmt):
    return None if fmt == "none" else DOC + "." + fmt


def target_name(fmt):
    return DOC if fmt == "none" else arch_name(fmt)


def materialize(fx, d, fs, p):
    """Create directory d holding abstract state fs = {doc, arch, tmp, off, newer} for parameters p."""
    shutil.rmtree(d, ignore_errors=True)
    os.makedirs(d)
    fmt = p["fmt"]

    def put(name, data, mtime):
        path = os.path.join(d, name)
        with open(path, "wb") as f:
            f.write(data)
        ns = int(round(mtime * 10)) * 10**8
        os.utime(path, ns=(ns, ns))

    if p.get("subsec"):
        # document and offset table modified within the same whole second: the table 0.5 s before / 0.2 s after the document
        if fs["doc"] != ABSENT:
            put(DOC, fx.docs[fs["doc"]], T0 + 0.7)
        if fs["off"] != ABSENT:
            put(DOC + ".offset", fx.tables[fs["off"]].encode("ascii"), T0 + 0.9 if fs["newer"] else T0 + 0.2)
        fs = dict(fs, doc=ABSENT, off=ABSENT)
    if fs["doc"] != ABSENT:
        put(DOC, fx.docs[fs["doc"]], T0)
    if fs["arch"] != ABSENT:
        put(arch_name(fmt), fx.arch[fmt][fs["arch"]], T0 - 1000)
    if fs["tmp"] != ABSENT:
        put(target_name(fmt) + ".tmp", STALE_TMP, T0 - 50)
    if fs["off"] != ABSENT:
        put(DOC + ".offset", fx.tables[fs["off"]].encode("ascii"), T0 + 100 if fs["newer"] else T0 - 100)


def settle(d, epoch):
    """Between two runs: move the mtimes of everything written by the finished run to deterministic instants that keep
    their order (ties broken in causal order archive < tmp < document < offset table), so that no verdict depends on the
    granularity of the file system clock."""
    rank = {}
    for name in os.listdir(d):
        r = 3 if name.endswith(".offset") else 1 if name.endswith(".tmp") else 2 if name == DOC else 0
        st = os.stat(os.path.join(d, name))
        if st.st_mtime_ns > (T0 + 86400 * 365) * 10**9:  # written by a run (wall clock now), not by materialize/settle
            rank[name] = (st.st_mtime_ns, r)
    for i, name in enumerate(sorted(rank, key=lambda n: rank[n])):
        t = T0 + 1000 * epoch + i
        os.utime(os.path.join(d, name), (t, t))


def _read(path):
    with open(path, "rb") as f:
        return f.read()


def snapshot(fx, d, fmt, tmp_sig):
    """Cheap (stat only, offset table read) abstract state; used at every observed call during a run."""
    res = {}
    try:
        sz = os.stat(os.path.join(d, DOC)).st_size
        dm = os.stat(os.path.join(d, DOC)).st_mtime_ns
        if sz in fx.doc_sizes:
            res["doc"] = fx.doc_sizes[sz]
            if res["doc"] == "full" and _byte_at(os.path.join(d, DOC), fx.flip_doc_pos) != fx.X[fx.flip_doc_pos : fx.flip_doc_pos + 1]:
                res["doc"] = "flip"
        elif sz < fx.last_start:
            res["doc"] = "mid"
        elif sz < len(fx.X):
            res["doc"] = "last"
        else:
            res["doc"] = "odd"
    except FileNotFoundError:
        res["doc"] = ABSENT
        dm = None
    if fmt == "none":
        res["arch"] = ABSENT
    else:
        try:
            sz = os.stat(os.path.join(d, arch_name(fmt))).st_size
            res["arch"] = fx.arch_sizes[fmt].get(sz, "odd")
            if fmt == "gz" and res["arch"] == "G" and _byte_at(os.path.join(d, arch_name(fmt)), fx.flip_arch_pos) != fx.arch["gz"]["G"][fx.flip_arch_pos : fx.flip_arch_pos + 1]:
                res["arch"] = "C"
        except FileNotFoundError:
            res["arch"] = ABSENT
    try:
        st = os.stat(os.path.join(d, target_name(fmt) + ".tmp"))
        res["tmp"] = "stale" if (st.st_size, st.st_mtime_ns) == tmp_sig else "open"
    except FileNotFoundError:
        res["tmp"] = ABSENT
    try:
        op = os.path.join(d, DOC + ".offset")
        om = os.stat(op).st_mtime_ns
        txt = _read(op).decode("ascii", "replace")
        res["off"] = fx.table_class.get(txt, "odd")
        res["newer"] = dm is not None and om >= dm
    except FileNotFoundError:
        res["off"] = ABSENT
        res["newer"] = False
    # exact size class of the download target (for 'no partial file under the final name')
    if fmt == "none":
        try:
            sz = os.stat(os.path.join(d, DOC)).st_size
            res["tgt"] = fx.arch_sizes["none"].get(sz, "odd")
        except FileNotFoundError:
            res["tgt"] = ABSENT
    else:
        res["tgt"] = res["arch"]
    return res


def _byte_at(path, pos):
    with open(path, "rb") as f:
        f.seek(pos)
        return f.read(1)


def tmp_signature(d, fmt):
    try:
        st = os.stat(os.path.join(d, target_name(fmt) + ".tmp"))
        return (st.st_size, st.st_mtime_ns)
    except FileNotFoundError:
        return None


def project(fx, d, fmt, tmp_sig):
    """Full projection by content (after a run ended): the snapshot classes confirmed by hashes, plus the correctness of
    the offset table for the document file that is actually there (seek equivalence for every line)."""
    res = snapshot(fx, d, fmt, tmp_sig)
    dp = os.path.join(d, DOC)
    doc_bytes = None
    if res["doc"] != ABSENT:
        doc_bytes = _read(dp)
        cls = fx.doc_by_sha.get(_sha(doc_bytes))
        if cls is None:
            if doc_bytes == fx.X[: len(doc_bytes)]:
                cls = "mid" if len(doc_bytes) < fx.last_start else "last"
            else:
                cls = "odd"
        res["doc"] = cls
    if res["arch"] != ABSENT:
        res["arch"] = fx.arch_by_sha[fmt].get(_sha(_read(os.path.join(d, arch_name(fmt)))), "odd")
    if fmt == "none":
        res["tgt"] = ABSENT if doc_bytes is None else fx.arch_by_sha["none"].get(_sha(doc_bytes), "odd")
    else:
        res["tgt"] = res["arch"]
    res["offOK"] = False
    res["offDetail"] = "no table"
    if res["off"] != ABSENT and doc_bytes is not None:
        ok, detail = seek_equivalence(fx, d, doc_bytes)
        res["offOK"] = ok
        res["offDetail"] = detail
    return res


def _line_offsets(fx, doc_bytes):
    if doc_bytes == fx.X:
        return fx.x_off
    if doc_bytes == fx.other:
        return fx.o_off
    off = array.array("q", [0])
    pos = 0
    n = len(doc_bytes)
    while pos < n:
        j = doc_bytes.find(b"\n", pos)
        pos = n if j < 0 else j + 1
        off.append(pos)
    return off


def seek_equivalence(fx, d, doc_bytes):
    """OffsetsCorrect: for EVERY line t of the document, io.skip_lines(t) must leave the reader at the byte where t
    one-by-one readline() calls leave it.

    * the real io.skip_lines is executed on the real files (io.MmapSource, as the bulk parameter source does) for the lines
      around every table entry, the first/last lines and a fixed spread of others;
    * for all remaining lines the landing byte follows from the table entry that find_closest_offset selects (the last one
      in file order before the first entry with a larger line number) — evaluated here for every line from the parsed table;
      the real calls above tie this reading of find_closest_offset to the code (disagreement => result 'odd', reported as drift).
    """
    from esrally.utils import io as rio

    dp = os.path.join(d, DOC)
    txt = _read(dp + ".offset")
    key = (_sha(doc_bytes), txt)
    if key in fx._seek_cache:
        return fx._seek_cache[key]
    truth = _line_offsets(fx, doc_bytes)
    nlines = len(truth) - 1
    size = len(doc_bytes)
    entries = []
    parse_ok = True
    for raw in txt.decode("ascii", "replace").splitlines():
        try:
            a, b = (int(i) for i in raw.strip().split(";"))
            entries.append((a, b))
        except ValueError:
            parse_ok = False
            entries.append(None)

    def predicted(t):
        off, rem = 0, t
        for e in entries:
            if e is None:
                return None  # the real code raises ValueError when it reaches this line
            if e[0] <= t:
                off, rem = e[1], t - e[0]
            else:
                break
        return off, rem

    def landing(off, rem):
        # position after seeking to off and reading rem lines
        if off > size:
            return None
        pos = off
        for _ in range(rem):
            if pos >= size:
                break
            j = doc_bytes.find(b"\n", pos)
            pos = size if j < 0 else j + 1
        return pos

    bad = None
    # all lines, via the selected entry (cheap: the landing byte of entry e for target t is exact iff e's offset is the true
    # start of line e.ln+1, because both readers then read the same t - e.ln lines)
    sel_ok = {}
    for t in range(0, nlines + 1):
        pr = predicted(t)
        if pr is None:
            bad = "line %d: table line does not parse" % t
            break
        off, rem = pr
        k = t - rem  # line number of the selected entry (0 = none)
        if k not in sel_ok:
            sel_ok[k] = (off == 0) if k == 0 else (k <= nlines and off == truth[k])
        if not sel_ok[k]:
            bad = "line %d: entry (%d;%d) but line %d starts at byte %s" % (t, k, off, k + 1, truth[k] if k <= nlines else "EOF")
            break
    # the real skip_lines on a sample
    sample = {0, 1, 2, nlines - 1, nlines}
    for e in entries:
        if e is not None:
            sample.update({e[0] - 1, e[0], e[0] + 1})
    sample.update(range(7, nlines, max(1, nlines // 6)))
    drift = None
    if size > 0:
        for t in sorted(x for x in sample if 0 <= x <= nlines):
            src = rio.MmapSource(dp, "rt")
            src.open()
            try:
                try:
                    rio.skip_lines(dp, src, t)
                    real = src.mm.tell()
                except ValueError:
                    real = None
            finally:
                src.close()
            pr = predicted(t)
            exp = None if pr is None else landing(*pr)
            if real != exp:
                drift = "skip_lines(%d) landed at %s, the harness reading of the table predicts %s" % (t, real, exp)
                break
            if real != truth[t] and bad is None:
                bad = "line %d: skip_lines lands at byte %s, one-by-one skipping at %d" % (t, real, truth[t])
    if drift:
        res = (False, "DRIFT " + drift)
    elif bad:
        res = (False, bad)
    else:
        res = (True, "%d entries, %d lines%s" % (len(entries), nlines, "" if parse_ok else " (unparsable tail never reached)"))
    fx._seek_cache[key] = res
    return res


# ---------------------------------------------------------------------------------------------------
# scripted HTTP layer underneath net._request (urllib3 pool manager)
# ---------------------------------------------------------------------------------------------------
class _Body:
    """File-like body handed to a REAL urllib3.response.HTTPResponse (so that urllib3's own streaming, Content-Length
    enforcement and error translation run): serves data, optionally failing with an OS-level error after `fail_after` bytes."""

    def __init__(self, data, fail=None, fail_after=0):
        self.data = data
        self.pos = 0
        self.fail = fail
        self.fail_after = fail_after
        self.closed = False

    def read(self, amt=None):
        if self.fail is not None and self.pos >= self.fail_after:
            if isinstance(self.fail, Hang):
                # the peer went silent and the caller set no read time-out: this read never returns
                raise Hang()
            raise self.fail
        end = len(self.data) if amt is None else min(len(self.data), self.pos + amt)
        if self.fail is not None:
            end = min(end, self.fail_after)
        b = self.data[self.pos : end]
        self.pos = end
        return b

    def close(self):
        self.closed = True

    def flush(self):
        pass


OUTCOME_KINDS = ("body", "http", "proto", "refused")


def _finite_read_timeout(t):
    """Read time-out in effect for a request made with timeout=t (urllib3 1.26: a number, a urllib3.Timeout, or absent = the
    pool's default = the socket default = none)."""
    import urllib3

    if isinstance(t, urllib3.Timeout):
        for v in (t._read, t.total):  # pylint: disable=protected-access
            if isinstance(v, (int, float)) and not isinstance(v, bool):
                return True
        return False
    return isinstance(t, (int, float)) and not isinstance(t, bool)


class FakePool:
    """Stands in for urllib3.PoolManager. script: list of outcome dicts
        {"k": "body", "c": G|Th|Te|J|E, "hdr": bool}      complete exchange, Content-Length = len(body) or absent
        {"k": "http", "status": 404|503}
        {"k": "proto", "how": "drop"|"timeout"|"short", "after": nbytes}   retryable failure mid-body
        {"k": "refused"}                                   the request itself fails (urllib3 MaxRetryError)
    After the script is exhausted every request is answered with the genuine file."""

    def __init__(self, fx, fmt, script):
        self.fx = fx
        self.fmt = fmt
        self.script = list(script)
        self.served = []
        self.kwargs = []

    def request(self, method, url, **kw):
        import urllib3
        from urllib3.response import HTTPResponse

        o = self.script.pop(0) if self.script else {"k": "body", "c": "G", "hdr": True}
        self.served.append(o)
        self.kwargs.append({"method": method, "url": url, "kw": {k: str(v) for k, v in kw.items()}})
        genuine = self.fx.arch[self.fmt]["G"]
        if o["k"] == "refused":
            raise urllib3.exceptions.MaxRetryError(None, url, "scripted: connection refused")
        if o["k"] == "http":
            status, headers, body = o["status"], {"Content-Length": "9"}, _Body(b"not found")
        elif o["k"] == "proto":
            status, headers = 200, {"Content-Length": str(len(genuine))}
            after = min(o["after"], len(genuine) - 1)
            if o["how"] == "drop":
                body = _Body(genuine, ConnectionResetError(104, "scripted: connection reset by peer"), after)
            elif o["how"] == "timeout":
                # the peer goes silent after `after` bytes (no FIN, no RST): what happens next is up to the read time-out the
                # caller asked for - a socket with a finite time-out raises socket.timeout in the read (urllib3 turns it into
                # ReadTimeoutError), a socket without one blocks for good
                body = _Body(genuine, socket.timeout("scripted: timed out") if _finite_read_timeout(kw.get("timeout")) else Hang(), after)
            else:  # clean EOF before Content-Length bytes were delivered
                body = _Body(genuine[:after])
        else:
            data = self.fx.arch[self.fmt][o["c"]]
            status, headers, body = 200, ({"Content-Length": str(len(data))} if o["hdr"] else {}), _Body(data)
        return HTTPResponse(
            body=body,
            headers=headers,
            status=status,
            preload_content=kw.get("preload_content", True),
            enforce_content_length=kw.get("enforce_content_length", False),
            request_method=method,
            decode_content=True,
        )


# ---------------------------------------------------------------------------------------------------
# observation + crash injection
# ---------------------------------------------------------------------------------------------------
class InjectedInterrupt(BaseException):
    """Raised at an observed call: the process is interrupted there (handlers run)."""


class Hang(BaseException):
    """Raised when a run exceeds its call budget."""


# C-level callables after which the directory may look different; names only, wherever they are called from.
WATCH = frozenset(
    ["open", "write", "writelines", "rename", "replace", "remove", "unlink", "fork_exec", "close", "print", "utime", "truncate", "rmdir", "mkdir", "link", "symlink", "copyfileobj", "sendfile", "copy_file_range", "flush", "__exit__", "posix_spawn"]
)
CALL_BUDGET = 3_000_000
CHANGE_BUDGET = 100  # changes of the (abstract) directory state in one run; the specification needs < 60 (11 attempts)
WALL_BUDGET_S = 60  # machinery guard only: an endless loop is deterministic, the alarm merely ends it
# names of callables that cannot change the directory and are called in tight loops: their call sites are switched off after
# the first call (sys.monitoring.DISABLE) to keep the observer cheap
HOT = frozenset(["readline", "tell", "len", "append", "isinstance", "read", "read1", "readinto", "join", "encode", "decode", "startswith", "endswith", "get", "int", "min", "max", "ord", "chr", "decompress", "crc32", "unpack", "unpack_from", "pack", "getattr", "hasattr"])


_VALUE_TYPES = (str, bytes, bytearray, list, set, frozenset, dict, tuple)


class Observer:
    """sys.monitoring CALL callback: before every call of a callable named in WATCH (wherever the call is made) the
    directory is looked at; at the crash_at-th such call the crash is injected."""

    TOOL = 2  # sys.monitoring.PROFILER_ID

    def __init__(self, fx, d, fmt, tmp_sig, pool, crash_at=None, kill=False):
        self.fx, self.d, self.fmt, self.tmp_sig, self.pool = fx, d, fmt, tmp_sig, pool
        self.crash_at, self.kill = crash_at, kill
        self.events = []  # (abstract snapshot, number of requests made so far) before each observed call
        self.dump_path = None
        self.debug = [] if os.environ.get("VERIF_C14_DEBUG") else None
        self.calls = 0
        self.changes = 0
        self.fired = False
        self.active = False

    def start(self):
        mon = sys.monitoring
        if mon.get_tool(self.TOOL) is not None:
            mon.set_events(self.TOOL, 0)
            mon.free_tool_id(self.TOOL)
        mon.use_tool_id(self.TOOL, "verif-c14")
        mon.register_callback(self.TOOL, mon.events.CALL, self)
        mon.restart_events()
        self.active = True
        mon.set_events(self.TOOL, mon.events.CALL)

    def stop(self):
        mon = sys.monitoring
        self.active = False
        if mon.get_tool(self.TOOL) is not None:
            mon.set_events(self.TOOL, 0)
            mon.register_callback(self.TOOL, mon.events.CALL, None)
            mon.free_tool_id(self.TOOL)

    def __call__(self, code, offset, fn, arg0):
        if not self.active:
            return None
        self.calls += 1
        if self.calls > CALL_BUDGET:
            self.active = False
            raise Hang()
        name = getattr(fn, "__name__", "")
        if name not in WATCH:
            return sys.monitoring.DISABLE if name in HOT else None
        if code.co_filename == __file__:
            return None
        if isinstance(getattr(fn, "__self__", None), _VALUE_TYPES) or getattr(fn, "__objclass__", None) in _VALUE_TYPES:
            return None  # str.replace, list.remove, ...: same name as a file operation, cannot touch the directory
        fr = sys._getframe(1)
        while fr is not None:
            co = fr.f_code
            if co.co_filename.endswith("subprocess.py") and name not in ("fork_exec", "posix_spawn"):
                # the external tool runs concurrently with the parent between fork and wait: do not look (and do not
                # crash) there, what one would see depends on scheduling - and a killed parent leaves the tool running
                return None
            if co.co_name == "__del__":
                # calls made by destructors: an exception raised there is swallowed by the interpreter
                return None
            if co.co_filename.startswith("<frozen importlib"):
                # calls made while a module is imported lazily (first use of zipfile, encodings, ...): they happen in the
                # first run of a process only and would shift the numbering of the observed calls between executions
                return None
            fr = fr.f_back
        snap = snapshot(self.fx, self.d, self.fmt, self.tmp_sig)
        if self.events and core(self.events[-1][0]) != core(snap):
            self.changes += 1
            if self.changes > CHANGE_BUDGET:
                self.active = False
                raise Hang()
        self.events.append((snap, len(self.pool.served)))
        if self.debug is not None:
            self.debug.append((name, os.path.basename(code.co_filename), code.co_name))
        if self.crash_at is not None and len(self.events) == self.crash_at and not self.fired:
            self.fired = True
            if self.kill:
                self.active = False
                if self.dump_path:
                    with open(self.dump_path, "w", encoding="utf-8") as f:
                        json.dump(self.events, f)
                os._exit(77)
            self.active = False
            raise InjectedInterrupt()
        return None


def exc_category(ex):
    """Coarse kind of an exception leaving prepare_document_set (L2 only; for L1 any exception is an explicit error)."""
    from esrally import exceptions

    import urllib3

    if isinstance(ex, exceptions.DataError):
        return "DataError"
    if isinstance(ex, exceptions.SystemSetupError):
        return "SystemSetupError"
    if isinstance(ex, exceptions.RallyError):
        return "RallyError"
    if isinstance(ex, urllib3.exceptions.HTTPError):
        return "NetError"
    mod = type(ex).__module__
    if isinstance(ex, (EOFError, RuntimeError)) or mod.split(".")[0] in ("zipfile", "tarfile", "gzip", "zlib", "zstd", "zstandard", "bz2", "_bz2", "lzma"):
        return "LibError"
    if type(ex) is OSError:  # bz2: OSError("Invalid data stream")
        return "LibError"
    return "Other:" + type(ex).__name__


_initialised = False


def init_rally():
    global _initialised
    if _initialised:
        return
    from esrally.utils import console

    console.QUIET = True
    logging.getLogger("esrally").addHandler(logging.NullHandler())
    logging.getLogger("esrally").propagate = False
    _initialised = True


def dedupe(seq):
    out = []
    for s in seq:
        if not out or out[-1] != s:
            out.append(s)
    return out


def core(s):
    return {k: s[k] for k in ("doc", "arch", "tmp", "off", "newer")}


def run_once(fx, d, p, script, crash=None, workdir=None):
    """One preparation run of the real code in directory d.

    p: {fmt, tool, uDecl, cDecl, net, cons, entry, testMode}; script: outcomes for the requests of THIS run.
    crash: None | {"kind": "kill"|"intr", "event": k}.
    Returns dict(end, exc, excType, msg, events=[(snap, nreq)], nreq, sleeps, fs=<projection>)."""
    from esrally.track import loader, track
    from esrally.utils import net

    init_rally()
    fmt = p["fmt"]
    real_u = len(fx.X)
    ds = track.Documents(
        source_format="bulk",
        document_file=DOC,
        document_archive=arch_name(fmt),
        base_url=None if p["net"] == "nourl" else ("http://corpora.example.org/c14/" if p.get("slash", True) else "https://corpora.example.org/c14"),
        number_of_documents=N_LINES if p["cons"] else N_LINES + 1,
        compressed_size_in_bytes=(len(fx.arch[fmt]["G"]) if p["cDecl"] else None) if fmt != "none" else None,
        # inconsistent declaration: the published archive expands to less (default) or to more than the track declares
        uncompressed_size_in_bytes=((real_u if p["cons"] else (real_u - 7 if p.get("bigger") else real_u + 7)) if p["uDecl"] else None),
    )
    prep = loader.DocumentSetPreparator("c14", loader.Downloader(offline=p["net"] == "offline", test_mode=bool(p.get("testMode"))), loader.Decompressor())
    pool = FakePool(fx, fmt, script)
    tmp_sig = tmp_signature(d, fmt)
    obs = Observer(fx, d, fmt, tmp_sig, pool, crash_at=(crash or {}).get("event"), kill=(crash or {}).get("kind") == "kill")
    sleeps = []
    saved = (net._HTTP, net._HTTPS, os.environ.get("PATH"), dict(net.download_http.__kwdefaults__ or {}))
    net._HTTP = net._HTTPS = pool
    if net.download_http.__kwdefaults__ and "sleep" in net.download_http.__kwdefaults__:
        net.download_http.__kwdefaults__["sleep"] = sleeps.append
    import time as _time

    real_sleep = _time.sleep
    _time.sleep = sleeps.append
    os.environ["PATH"] = fx.bins[p["tool"] if kind_of(fmt) == "stream" else "none"]
    entry = prep.prepare_bundled_document_set if p["entry"] == "bundled" else prep.prepare_document_set
    res = {"end": None, "exc": "", "excType": "", "msg": ""}

    def alarm(_sig, _frm):
        raise Hang()

    def body():
        import signal

        old = signal.signal(signal.SIGALRM, alarm)
        signal.setitimer(signal.ITIMER_REAL, WALL_BUDGET_S)
        try:
            obs.start()
            r = entry(ds, d)
            obs.stop()
            res["end"] = "declined" if (p["entry"] == "bundled" and r is False) else "returned"
        except InjectedInterrupt:
            res["end"] = "crashed"
        except Hang:
            res["end"] = "hung"
        except Exception as ex:  # pylint: disable=broad-except
            obs.stop()
            res["end"] = "raised"
            res["exc"] = exc_category(ex)
            res["excType"] = type(ex).__module__ + "." + type(ex).__name__
            res["msg"] = str(ex)[:300]
        finally:
            obs.stop()
            signal.setitimer(signal.ITIMER_REAL, 0)
            signal.signal(signal.SIGALRM, old)

    try:
        if crash and crash["kind"] == "kill":
            rf = os.path.join(workdir or os.path.dirname(d), "child-result.json")
            ef = os.path.join(workdir or os.path.dirname(d), "child-events.json")
            for x in (rf, ef):
                if os.path.exists(x):
                    os.remove(x)
            obs.dump_path = ef
            sys.stdout.flush()
            sys.stderr.flush()
            pid = os.fork()
            if pid == 0:
                code = 3
                try:
                    body()
                    with open(rf, "w", encoding="utf-8") as f:
                        json.dump({"end": res["end"], "events": len(obs.events)}, f)
                    code = 0
                finally:
                    os._exit(code)
            _, st = os.waitpid(pid, 0)
            code = os.waitstatus_to_exitcode(st)
            if code == 77:
                res["end"] = "crashed"
                obs.fired = True
                with open(ef, "r", encoding="utf-8") as f:
                    obs.events = [(sn, n) for sn, n in json.load(f)]
            elif code == 0:
                res["end"] = "not-crashed"  # the run ended before the call at which it was to be killed
            else:
                raise tlc.MachineryError("forked preparation run failed (child exit %s)" % code)
        else:
            body()
    finally:
        net._HTTP, net._HTTPS = saved[0], saved[1]
        if saved[2] is None:
            os.environ.pop("PATH", None)
        else:
            os.environ["PATH"] = saved[2]
        if net.download_http.__kwdefaults__ is not None and "sleep" in saved[3]:
            net.download_http.__kwdefaults__["sleep"] = saved[3]["sleep"]
        _time.sleep = real_sleep
    res["events"] = obs.events
    res["fired"] = obs.fired
    res["debug"] = obs.debug
    res["nreq"] = len(pool.served)
    res["sleeps"] = [int(s) for s in sleeps]
    res["requests"] = pool.kwargs
    res["fs"] = project(fx, d, fmt, tmp_sig)
    return res
