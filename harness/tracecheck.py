"""Batch validation of recorded implementation traces / cases by TLC (leg C2S).

A Trace*.tla module reads the JSON file named by env VERIF_TRACES, steps through every item and prints
   <<"V", id, line, "L1"|"L2", clauses>>   for every failing event / case
   <<"DONE", n_items, n_events>>           once at the end
Verdicts are total: an item without a V line in a run that printed DONE for all items is ACCEPTED.
"""
import json
import os

from . import tlc
from .tlaparse import parse_value, to_json


class TraceVerdicts:
    def __init__(self):
        self.l1 = {}  # id -> list of (line, [clauses])
        self.l2 = {}  # id -> list of lines
        self.n_items = 0
        self.n_events = 0
        self.result = None

    def accepted(self, n_total):
        bad = set(self.l1) | set(self.l2)
        return n_total - len(bad)


def _balanced(text):
    depth = 0
    i = 0
    n = len(text)
    instr = False
    while i < n:
        c = text[i]
        if instr:
            if c == "\\":
                i += 1
            elif c == '"':
                instr = False
        elif c == '"':
            instr = True
        elif text.startswith("<<", i):
            depth += 1
            i += 1
        elif text.startswith(">>", i):
            depth -= 1
            i += 1
        elif c in "[{(":
            depth += 1
        elif c in "]})":
            depth -= 1
        i += 1
    return depth == 0 and not instr


def printed_tuples(out):
    """PrintT output of TLC: tuples may be pretty-printed over several lines when wider than 80 columns. Every value that
    starts with '<<' at the beginning of a line is collected until its brackets balance; anything that then does not parse
    is a machinery failure (never silently ignored)."""
    res = []
    lines = out.splitlines()
    i = 0
    while i < len(lines):
        ln = lines[i]
        if ln.startswith('<<"V"') or ln.startswith('<<"DONE"') or ln.startswith('<< "V"') or ln.startswith('<< "DONE"'):
            buf = ln
            j = i
            while not _balanced(buf):
                j += 1
                if j >= len(lines) or j - i > 400:
                    raise tlc.MachineryError("unterminated verdict tuple in TLC output: %r" % buf[:200])
                buf += "\n" + lines[j]
            try:
                res.append(parse_value(buf))
            except Exception as ex:  # pylint: disable=broad-except
                raise tlc.MachineryError("cannot parse verdict tuple %r: %s" % (buf[:300], ex)) from ex
            i = j + 1
        else:
            i += 1
    return res


def check_json_ints(obj, path="$"):
    """TLC integers are 32 bit and JsonDeserialize mangles bigger ones / floats / nulls: refuse them early."""
    if isinstance(obj, bool) or isinstance(obj, str):
        return
    if obj is None:
        raise tlc.MachineryError("null in trace at %s" % path)
    if isinstance(obj, float):
        raise tlc.MachineryError("float in trace at %s" % path)
    if isinstance(obj, int):
        if abs(obj) >= 2**31:
            raise tlc.MachineryError("integer too large for TLC at %s: %d" % (path, obj))
        return
    if isinstance(obj, dict):
        for k, v in obj.items():
            check_json_ints(v, path + "." + str(k))
        return
    if isinstance(obj, (list, tuple)):
        for i, v in enumerate(obj):
            check_json_ints(v, "%s[%d]" % (path, i))
        return
    raise tlc.MachineryError("unsupported type in trace at %s: %r" % (path, type(obj)))


_EVAL_ERROR_MARKS = (
    "Attempted to",
    "evaluating the expression",
    "was not in the domain",
    "is not in the domain",
    "out of the domain",
    "nonexistent field",
    "tuple index out of",
    "applied to",
    "The exception was a java.lang.RuntimeException",
    "TLC encountered",
)


def _is_eval_error(res):
    """TLC could not EVALUATE a formula on a recorded state (CHOOSE without witness, function applied outside its domain, ...):
    the recorded state lies outside the domain of the model's operators. Such an error concerns one event of one item."""
    err = res.error or ""
    return "The behavior up to this point is" in res.out and any(m in err or m in res.out for m in _EVAL_ERROR_MARKS)


def _last_position(out):
    """(tid, l) of the last state TLC printed in an error behaviour (1-based item index within the chunk, event index)."""
    import re

    tids = re.findall(r"^/\\ tid = (\d+)", out, flags=re.M)
    ls = re.findall(r"^/\\ l = (\d+)", out, flags=re.M)
    return (int(tids[-1]) if tids else None, int(ls[-1]) if ls else None)


def validate(spec_dirs, module, cfg, items, name="trace", timeout=900, chunk=None, cfg_text=None, skip_field=None):
    """items: list of JSON-able dicts each with an 'id'. Returns TraceVerdicts (merged over chunks).

    Verdicts are total also when TLC cannot evaluate a formula on a recorded state: the chunk is bisected down to the item, the
    event is recorded as an L2 failure ("not a step of the model"), and - when the trace module honours `skip_field` (a list
    of event numbers whose L2 formula is not evaluated) - the item is validated again so that L1 is judged on ALL its events.
    An evaluation error on every item of a call is a machinery failure, never a verdict."""
    check_json_ints(items)
    ids = [it["id"] for it in items]
    if len(set(map(str, ids))) != len(ids):
        raise tlc.MachineryError("duplicate trace ids")
    v = TraceVerdicts()
    v.eval_errors = {}
    if skip_field:
        for it in items:
            it.setdefault(skip_field, [])

    def run_part(part):
        wd = tlc.prepare_workdir(spec_dirs, name)
        try:
            if cfg_text is not None:
                with open(os.path.join(wd, cfg), "w", encoding="utf-8") as f:
                    f.write(cfg_text)
            tf = os.path.join(wd, "traces.json")
            with open(tf, "w", encoding="utf-8") as f:
                json.dump(part, f, separators=(",", ":"))
            return tlc.run_tlc(wd, module, cfg, workers=1, timeout=timeout, env={"VERIF_TRACES": tf}, deque=True, allow_violation=True)
        finally:
            import shutil

            shutil.rmtree(wd, ignore_errors=True)

    def collect(res, part):
        done = None
        for t in printed_tuples(res.out):
            if not t:
                continue
            if t[0] == "V":
                _, tid, line, kind, clauses = t
                if kind == "L1":
                    v.l1.setdefault(tid, []).append((line, sorted(to_json(clauses))))
                else:
                    v.l2.setdefault(tid, []).append(line)
            elif t[0] == "DONE":
                done = t
        return done

    def do_part(part, depth=0):
        res = run_part(part)
        if res.error:
            if not _is_eval_error(res):
                raise tlc.MachineryError("TLC error in %s/%s: %s\n%s" % (module, cfg, res.error, res.out[-3000:]))
            if len(part) > 1:
                mid = len(part) // 2
                do_part(part[:mid], depth + 1)
                do_part(part[mid:], depth + 1)
                return
            it = part[0]
            _tid, ln = _last_position(res.out)
            # the state TLC printed last is the one BEFORE the event it could not evaluate
            ln = ln if ln is not None else 0
            first_line = (res.error or "").strip().splitlines()
            v.eval_errors.setdefault(it["id"], []).append((ln, " ".join(x.strip() for x in first_line[3:7])[:300]))
            if skip_field and ln >= 1 and ln not in it[skip_field] and len(it[skip_field]) < 25:
                it[skip_field] = sorted(it[skip_field] + [ln])
                do_part([it], depth + 1)
                return
            collect(res, part)  # verdicts printed before the error stay valid
            v.l2.setdefault(it["id"], []).append(ln)
            v.n_items += 1
            return
        if not res.ok:
            raise tlc.MachineryError("trace validation run failed (%s): %s" % (module, res.out[-2000:]))
        done = collect(res, part)
        if done is None or done[1] != len(part):
            raise tlc.MachineryError("trace validation did not reach the end (%s): got %r expected %d items\n%s" % (module, done, len(part), res.out[-1500:]))
        for it in part:
            if skip_field and it.get(skip_field):
                v.l2.setdefault(it["id"], []).extend(it[skip_field])
                v.l2[it["id"]] = sorted(set(v.l2[it["id"]]))
        v.n_items += done[1]
        v.n_events += done[2]
        v.result = res

    chunks = [items] if not chunk else [items[i : i + chunk] for i in range(0, len(items), chunk)]
    for part in chunks:
        do_part(part)
    if v.eval_errors and len(v.eval_errors) == len(items) and len(items) > 3:
        raise tlc.MachineryError("TLC could not evaluate the trace formulas on ANY of %d items (%s): %s" % (len(items), module, list(v.eval_errors.items())[:2]))
    return v
