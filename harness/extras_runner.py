"""Runs an extra specification module (behaviour outside the 20 listed properties): informational, never a VIOLATION.

usage: /venv/bin/python -m harness.extras_runner <name>|--all [--tier quick|thorough]
"""
import importlib
import json
import os
import pkgutil
import sys
import time
import traceback

HERE = os.path.dirname(os.path.dirname(os.path.abspath(__file__)))
if os.environ.get("PYTHONHASHSEED") != "0":
    os.environ["PYTHONHASHSEED"] = "0"
    os.execv(sys.executable, [sys.executable, "-m", "harness.extras_runner"] + sys.argv[1:])
sys.path.insert(0, os.environ.get("VERIF_REPO", "/repo"))

from . import core, tlc  # noqa: E402


def names():
    from . import extras

    # helper modules (no run()) are not extras of their own
    return sorted(m.name for m in pkgutil.iter_modules(extras.__path__) if m.name not in ("toyactors",))


def run_one(name, tier, seed):
    mod = importlib.import_module("harness.extras." + name)
    ctx = core.Ctx("X-" + name, tier, seed)
    out = core.Outcome("X-" + name)
    t0 = time.time()
    try:
        mod.run(ctx, out)
    except tlc.MachineryError as ex:
        print("EXTRA %s: MACHINERY-FAILURE %s" % (name, ex))
        return 2, None
    except Exception as ex:  # pylint: disable=broad-except
        traceback.print_exc()
        print("EXTRA %s: MACHINERY-FAILURE unexpected %s: %s" % (name, type(ex).__name__, ex))
        return 2, None
    status = "ok"
    parts = []
    if out.violations:
        parts.append("L1-failed (%d): %s" % (len(out.violations), "; ".join(sorted({v.clause for v in out.violations}))[:300]))
    if out.drift:
        parts.append("drift (%d): %s" % (len(out.drift), out.drift[0][:200]))
    if parts:
        status = " + ".join(parts)
    summary = {
        "name": name,
        "status": status,
        "states": out.states,
        "traces_validated": out.traces_validated,
        "evaluations": out.evaluations,
        "distinct": len(out.distinct),
        "wall_s": round(time.time() - t0, 1),
        "doc": (mod.__doc__ or "").strip().splitlines()[:12],
    }
    print("EXTRA %s: %s states=%d traces_validated=%d evaluations=%d wall=%.1fs" % (name, status, out.states, out.traces_validated, out.evaluations, time.time() - t0))
    return 0, summary


def main():
    args = [a for a in sys.argv[1:] if not a.startswith("--")]
    tier = "quick"
    if "--tier" in sys.argv:
        tier = sys.argv[sys.argv.index("--tier") + 1]
        args = [a for a in args if a != tier]
    seed = int(os.environ.get("VERIF_SEED", "0") or 0)
    todo = names() if "--all" in sys.argv else args
    # temporary files of the legs (tempfile.*) go to one scratch directory that is removed at the end, not to /tmp
    import shutil
    import tempfile

    scratch = tempfile.mkdtemp(prefix="verif-extras.", dir="/var/tmp")
    os.environ["TMPDIR"] = scratch
    tempfile.tempdir = scratch
    try:
        return _main(todo, tier, seed)
    finally:
        shutil.rmtree(scratch, ignore_errors=True)


def _main(todo, tier, seed):
    rc = 0
    res = []
    for n in todo:
        r, summary = run_one(n, tier, seed)
        rc = max(rc, r)
        if summary:
            res.append(summary)
    os.makedirs(os.path.join(HERE, "evidence"), exist_ok=True)
    if "--all" in sys.argv:
        with open(os.path.join(HERE, "evidence", "extras.json"), "w") as f:
            json.dump({"tier": tier, "seed": seed, "extras": res}, f, indent=1)
    return rc


if __name__ == "__main__":
    sys.exit(main())
