"""C13 helper: run teamfs.execute in a CHILD interpreter whose locale is not UTF-8 (LC_ALL=C, UTF-8 mode off), so that every
open() of the code under test that relies on the locale's encoding shows.

parent:  run_cases(cases, root, repo)  -> (encoding the child reported, [out, ...])
child :  python -m harness.teamchild <scratch root>   (cases as JSON on stdin, results as JSON on stdout; both pure ASCII)
"""
import json
import os
import subprocess
import sys

from . import tlc

ENV = {"LC_ALL": "C", "LANG": "C", "LANGUAGE": "C", "PYTHONUTF8": "0", "PYTHONCOERCECLOCALE": "0", "PYTHONHASHSEED": "0"}


def run_cases(cases, root, repo=None, timeout=300):
    """cases: [{"inp": complete inp, "mat": mat}]."""
    repo = repo or os.environ.get("VERIF_REPO", "/repo")
    env = dict(os.environ)
    for k in ("PYTHONIOENCODING", "LC_CTYPE", "LC_MESSAGES"):
        env.pop(k, None)
    env.update(ENV)
    env["VERIF_REPO"] = repo
    env["PYTHONPATH"] = tlc.VERIF + os.pathsep + repo
    p = subprocess.run(
        [sys.executable, "-m", "harness.teamchild", root],
        input=json.dumps(cases).encode("ascii"),
        stdout=subprocess.PIPE,
        stderr=subprocess.PIPE,
        env=env,
        cwd=tlc.VERIF,
        timeout=timeout,
        check=False,
    )
    if p.returncode != 0:
        raise tlc.MachineryError("child interpreter (non-UTF-8 locale) failed rc=%s: %s" % (p.returncode, p.stderr.decode("utf-8", "replace")[-1500:]))
    try:
        res = json.loads(p.stdout.decode("ascii"))
    except ValueError as ex:
        raise tlc.MachineryError("child interpreter printed no JSON: %r" % p.stdout[-500:]) from ex
    return res["encoding"], res["outs"]


def main():
    import locale

    repo = os.environ.get("VERIF_REPO", "/repo")
    sys.path.insert(0, repo)
    from . import teamfs

    root = sys.argv[1]
    cases = json.loads(sys.stdin.read())
    outs = []
    for n, c in enumerate(cases):
        outs.append(teamfs.execute(os.path.join(root, "child-case"), c["inp"], c["mat"], os.path.join(root, "child-archives")))
    enc = locale.getpreferredencoding(False)
    with open(os.devnull, "w") as probe:  # what a plain open() of the code under test would use
        enc_open = probe.encoding
    json.dump({"encoding": "%s/%s" % (enc, enc_open), "outs": outs}, sys.stdout)


if __name__ == "__main__":
    main()
