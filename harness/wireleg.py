"""Wire leg (C04, C18): the REAL asynchronous client of the load driver against a scripted HTTP/1.1 server on 127.0.0.1.

Everything else in the C04 / C18 checks replaces the Elasticsearch client by a fake that calls on_request_start / on_request_end
itself; the part of the code that decides WHEN these are called - the aiohttp TraceConfig hooks wired in
esrally/client/factory.py EsClientFactory.create_async() - is exercised only here:

* server: plain asyncio streams, keep-alive, one script per request path: delay before the response headers, delays before each
  part of the body, body size, or a fault (never answer: the client's request timeout strikes; close the socket instead of
  answering; close it in the middle of the body).  It notes with time.perf_counter() when a request had been received completely,
  when the last byte of a response body had been written, when a socket was closed.
* client: EsClientFactory(hosts=[{"host": "127.0.0.1", "port": p}], client_options={}).create_async(client_id=k), requests through
  es.perform_request / es.options(request_timeout=..).perform_request inside `with es.new_request_context()` blocks: single wire
  requests (C04), several sequential and concurrent wire requests, nested contexts, failing wire requests (C18).
* REAL time, injected delays of 0.15 .. 0.4 s, all scenarios of a round run concurrently (one client each) in one event loop.
* every request context becomes one item judged by TLC with the clauses of specs/WireTiming/WireTiming.tla (L1 only).

Server and client share one thread and one clock, and every server-side instant is taken before the data / the close can reach
the client, every client-side bound (issue instant + timeout, enter, exit) is taken outside the interval it bounds: on a correct
client every clause holds by causality, whatever the load.  The tolerance (40 % of the smallest injected delay of the scenario, at
least 50 ms) is there on top of that.
"""
import asyncio
import os
import random
import time

from . import tlc, tracecheck
from .core import Violation

SPEC_DIR = "WireTiming"
US = 1_000_000
NONE = -2
NEVER = -1
MIN_TOL = 0.05
TOL_FRACTION = 0.4


# ---------------------------------------------------------------------------------------------------
# scripted server
# ---------------------------------------------------------------------------------------------------
class ScriptedServer:
    def __init__(self):
        self.scripts = {}  # request id (first path component) -> script
        self.log = {}  # request id -> list of attempts {"seen", "last", "closed"}
        self.servers = []
        self.port = None
        self.ports = []
        self.handlers = set()

    async def start(self):
        # two listeners = two target hosts of the client (it spreads its requests over them); one script table, one log
        try:
            for _ in range(2):
                self.servers.append(await asyncio.start_server(self._handle, "127.0.0.1", 0))
        except OSError as ex:
            raise tlc.MachineryError("cannot listen on the loopback interface: %s" % ex) from ex
        self.ports = [srv.sockets[0].getsockname()[1] for srv in self.servers]
        self.port = self.ports[0]

    async def stop(self):
        for srv in self.servers:
            srv.close()
        for t in list(self.handlers):
            t.cancel()
        await asyncio.gather(*self.handlers, return_exceptions=True)

    async def _handle(self, reader, writer):
        task = asyncio.current_task()
        self.handlers.add(task)
        try:
            while True:
                head = await reader.readuntil(b"\r\n\r\n")
                length = 0
                for line in head.split(b"\r\n"):
                    if line.lower().startswith(b"content-length:"):
                        length = int(line.split(b":")[1])
                if length:
                    await reader.readexactly(length)
                seen = time.perf_counter()
                rid = head.split(b" ")[1].decode("ascii").strip("/").split("/")[0]
                sc = self.scripts.get(rid)
                if sc is None:
                    raise tlc.MachineryError("request for unknown script %r" % rid)
                att = {"seen": seen, "hdr": None, "last": None, "closed": None}
                self.log.setdefault(rid, []).append(att)
                fault = sc.get("fault")
                if fault == "stall":
                    # never answer; the client gives up after its request timeout and closes the connection
                    await reader.read()
                    return
                if sc.get("hdr"):
                    await asyncio.sleep(sc["hdr"])
                if fault == "close":
                    att["closed"] = time.perf_counter()
                    return
                body = b'{"took":1,"timed_out":false,"hits":{"total":{"value":1,"relation":"eq"},"hits":[]},"pad":"' + b"x" * sc.get("size", 64) + b'"}'
                writer.write(
                    b"HTTP/1.1 200 OK\r\nContent-Type: application/json\r\nX-Elastic-Product: Elasticsearch\r\nContent-Length: %d\r\n\r\n" % len(body)
                )
                # taken before this coroutine yields: the client (same thread) cannot have seen the headers yet
                att["hdr"] = time.perf_counter()
                gaps = sc.get("gaps") or []
                if fault == "close_after_headers":
                    # the headers (and nothing else) arrive, then the socket is closed: the request fails while the client reads the
                    # body.  No client-side timer is involved, so the order headers written < failure observed holds under any load.
                    await writer.drain()
                    await asyncio.sleep(0.15)
                    return
                if not gaps:
                    writer.write(body)
                    att["last"] = time.perf_counter()
                    await writer.drain()
                    continue
                await writer.drain()
                n = len(gaps)
                for k, gap in enumerate(gaps):
                    await asyncio.sleep(gap)
                    part = body[k * len(body) // n : (k + 1) * len(body) // n]
                    if fault == "close_mid" and k == n - 1:
                        att["closed"] = time.perf_counter()
                        return
                    writer.write(part)
                    if k == n - 1:
                        # taken before this coroutine yields: the client (same thread) cannot have seen these bytes yet
                        att["last"] = time.perf_counter()
                    await writer.drain()
        except (asyncio.IncompleteReadError, ConnectionError, asyncio.CancelledError):
            pass
        finally:
            self.handlers.discard(task)
            try:
                writer.close()
            except Exception:  # pylint: disable=broad-except
                pass


# ---------------------------------------------------------------------------------------------------
# client side recording
# ---------------------------------------------------------------------------------------------------
class Scenario:
    """One logical request (a tree of request contexts) of one client."""

    def __init__(self, name, pid, server, es, rid_prefix):
        self.name = name
        self.pid = pid
        self.server = server
        self.es = es
        self.prefix = rid_prefix
        self.nreq = 0
        self.delays = []
        self.contexts = []  # {"label", "mgr", "enter", "exit", "wires": [wire]}
        self.stack_var = None
        self.outcomes = []

    def script(self, **sc):
        self.nreq += 1
        rid = "%sr%d" % (self.prefix, self.nreq)
        self.server.scripts[rid] = sc
        for v in [sc.get("hdr")] + list(sc.get("gaps") or []):
            if v:
                self.delays.append(v)
        return rid

    class _Ctx:
        def __init__(self, scn, label, enclosing):
            self.scn = scn
            self.rec = {"label": label, "mgr": None, "enter": None, "exit": None, "wires": []}
            self.enclosing = list(enclosing)

        def __enter__(self):
            self.rec["enter"] = time.perf_counter()
            self.cm = self.scn.es.new_request_context()
            self.rec["mgr"] = self.cm.__enter__()
            self.scn.contexts.append(self.rec)
            return self

        def __exit__(self, *a):
            r = self.cm.__exit__(*a)
            self.rec["exit"] = time.perf_counter()
            return r

        @property
        def chain(self):
            return self.enclosing + [self.rec]

    def context(self, label, inside=None):
        """`inside`: the _Ctx whose block lexically encloses the new one (None: top level)."""
        return Scenario._Ctx(self, label, inside.chain if inside is not None else [])

    async def request(self, ctx, rid, method="GET", timeout=None, body=None):
        """One wire request issued inside ctx (a _Ctx); it counts for ctx and every enclosing context."""
        wire = {"rid": rid, "issue": None, "timeout": timeout, "outcome": None}
        for rec in ctx.chain:
            rec["wires"].append(wire)
        es = self.es.options(request_timeout=timeout) if timeout else self.es
        if timeout:
            self.delays.append(timeout)
        wire["issue"] = time.perf_counter()
        try:
            await es.perform_request(method=method, path="/%s/_search" % rid, body=body)
            wire["outcome"] = "ok"
        except Exception as ex:  # pylint: disable=broad-except
            wire["outcome"] = type(ex).__name__
        self.outcomes.append(wire["outcome"])
        return wire["outcome"]

    def items(self, t0):
        """One item per request context for TraceWireTiming.tla."""
        d = min(self.delays) if self.delays else 0.0
        tol = max(MIN_TOL, TOL_FRACTION * d)

        def us(t):
            return int(round((t - t0) * US))

        res = []
        for k, rec in enumerate(self.contexts):
            wires = []
            for w in rec["wires"]:
                atts = self.server.log.get(w["rid"], [])
                seen = min((a["seen"] for a in atts), default=None)
                hdr = max((a["hdr"] for a in atts if a["hdr"] is not None), default=None)
                last = max((a["last"] for a in atts if a["last"] is not None), default=None)
                fail = None
                sc = self.server.scripts[w["rid"]]
                if sc.get("fault") == "stall":
                    fail = w["issue"] + w["timeout"]
                elif sc.get("fault") in ("close", "close_mid"):
                    fail = max((a["closed"] for a in atts if a["closed"] is not None), default=None)
                wires.append({"seen": us(seen) if seen is not None else NEVER, "hdr": us(hdr) if hdr is not None else NEVER, "last": us(last) if last is not None else NEVER, "fail": us(fail) if fail is not None else NEVER})  # fmt: skip
            m = rec["mgr"]
            res.append(
                {
                    "id": "%s/%s/%d-%s" % (self.pid, self.name, k, rec["label"]),
                    "rs": us(m.request_start) if m.request_start is not None else NONE,
                    "re": us(m.request_end) if m.request_end is not None else NONE,
                    "enter": us(rec["enter"]),
                    "exit": us(rec["exit"]),
                    "tol": int(round(tol * US)),
                    "wires": wires,
                }
            )
        return res


# ---------------------------------------------------------------------------------------------------
# scenarios.  d(): an injected delay of 0.15 .. 0.4 s drawn from the seed.
# ---------------------------------------------------------------------------------------------------
async def c04_headers_late(s, d):
    with s.context("req") as c:
        await s.request(c, s.script(hdr=d()))


async def c04_body_late(s, d):
    with s.context("req") as c:
        await s.request(c, s.script(gaps=[d()], size=6000), method="POST", body={"query": {"match_all": {}}})


async def c04_body_streamed(s, d):
    with s.context("req") as c:
        await s.request(c, s.script(hdr=d(), gaps=[d(), d()], size=70000))


async def c04_timeout(s, d):
    with s.context("req") as c:
        await s.request(c, s.script(fault="stall"), timeout=d())


async def c04_closed(s, d):
    with s.context("req") as c:
        await s.request(c, s.script(hdr=0.15, fault="close"))


async def c18_pages_last_times_out(s, d):
    # one logical request, several wire requests in ONE context (paginated search / scroll): a later one runs into the timeout
    with s.context("req") as c:
        await s.request(c, s.script(gaps=[d()], size=3000))
        await s.request(c, s.script())
        await s.request(c, s.script(fault="stall"), timeout=d())


async def c18_pages_last_closed(s, d):
    with s.context("req") as c:
        await s.request(c, s.script(hdr=d()))
        await s.request(c, s.script(hdr=0.15, fault="close"))


async def c04_stalls_after_headers(s, d):
    # the response headers arrive, the body never does: the request fails while the body is read.  aiohttp signals no exception
    # event for that (elastic/rally#1860); the end must still be recorded (not before the headers were sent).  When the failure
    # itself became observable is NOT judged here (see c18_pages_last_truncated).
    with s.context("req") as c:
        await s.request(c, s.script(hdr=d(), fault="close_after_headers"))


async def c18_pages_last_stalls_after_headers(s, d):
    with s.context("req") as c:
        await s.request(c, s.script(gaps=[d()], size=3000))
        await s.request(c, s.script(hdr=d(), fault="close_after_headers"))


async def c18_pages_last_truncated(s, d):
    # NOT in the default set: the response is cut off in the middle of the body.  aiohttp signals no trace event for a failure while
    # the body is read, so the code as it is leaves request_end at the last chunk received (EndNotBeforeFailure fails by the time
    # between that chunk and the break).  Kept for adjudication: ./check C18 --replay on a case {"kind": "wire", "scenario": this}.
    with s.context("req") as c:
        await s.request(c, s.script(hdr=d()))
        await s.request(c, s.script(hdr=0.15, fault="close_mid", gaps=[0.05, 0.2], size=2000))


async def c18_nested_sequential(s, d):
    # composite-like: sub-requests with their own contexts, one after the other; the second one fails, the parent goes on
    with s.context("top") as top:
        with s.context("a", top) as a:
            await s.request(a, s.script(hdr=d(), gaps=[d()], size=20000))
        with s.context("b", top) as b:
            await s.request(b, s.script(fault="stall"), timeout=d())
        with s.context("c", top) as c:
            await s.request(c, s.script())


async def c18_nested_concurrent(s, d):
    # concurrent streams finishing in another order than they started; the slowest one streams its body
    with s.context("top") as top:

        async def stream(label, rid, delay, **kw):
            await asyncio.sleep(delay)
            with s.context(label, top) as c:
                await s.request(c, rid, **kw)

        d1, d2 = d(), d()
        await asyncio.gather(
            stream("slow", s.script(hdr=d1, gaps=[d2, d()], size=30000), 0.0),
            stream("fast", s.script(hdr=0.15), 0.05),
            stream("timeout", s.script(fault="stall"), 0.02, timeout=d1 + d2),
        )


async def c18_shared_pointer(s, d):
    # tasks without a context of their own issue requests straight into the enclosing context (shallow copy of the context variable)
    with s.context("top") as top:
        await asyncio.gather(
            s.request(top, s.script(hdr=d(), gaps=[d()], size=8000)),
            s.request(top, s.script(fault="stall"), timeout=0.15),
            s.request(top, s.script(hdr=0.15)),
        )
        with s.context("after", top) as c:
            await s.request(c, s.script(gaps=[d()], size=500))


SCENARIOS = {
    "C04": [c04_headers_late, c04_body_late, c04_body_streamed, c04_timeout, c04_closed, c04_stalls_after_headers],
    "C18": [c18_pages_last_times_out, c18_pages_last_closed, c18_pages_last_stalls_after_headers, c04_stalls_after_headers, c18_nested_sequential, c18_nested_concurrent, c18_shared_pointer, c04_body_streamed],  # fmt: skip
}
BY_NAME = {f.__name__: f for fs in SCENARIOS.values() for f in fs}
BY_NAME[c18_pages_last_truncated.__name__] = c18_pages_last_truncated


# ---------------------------------------------------------------------------------------------------
def _setup_esrally():
    from . import racesim

    racesim.ensure_rally_home()


async def _round(pid, names, seed):
    """All scenarios concurrently, one real client each.  Returns (items, per scenario info)."""
    from esrally import client

    server = ScriptedServer()
    await server.start()
    t0 = time.perf_counter()
    scns = []
    clients = []
    try:
        for k, name in enumerate(names):
            # every second client talks to two target hosts (round robin over both listeners), the others to one
            ports = server.ports if k % 2 == 0 else server.ports[:1]
            es = client.EsClientFactory(hosts=[{"host": "127.0.0.1", "port": p} for p in ports], client_options={}).create_async(client_id=k)
            clients.append(es)
            rnd = random.Random("%s/%s/%d" % (pid, name, seed))
            scns.append((Scenario(name, pid, server, es, "s%d" % k), lambda rnd=rnd: rnd.choice([0.15, 0.2, 0.25, 0.3, 0.4])))
        results = await asyncio.wait_for(asyncio.gather(*[BY_NAME[s.name](s, d) for s, d in scns], return_exceptions=True), timeout=60)
        for (s, _), r in zip(scns, results):
            if isinstance(r, BaseException):
                raise tlc.MachineryError("wire scenario %s raised %s: %s" % (s.name, type(r).__name__, r))
    except asyncio.TimeoutError as ex:
        raise tlc.MachineryError("wire leg did not finish within 60 s") from ex
    finally:
        for es in clients:
            try:
                await asyncio.wait_for(es.close(), timeout=5)
            except Exception:  # pylint: disable=broad-except
                pass
        await server.stop()
    items = []
    info = []
    for s, _ in scns:
        its = s.items(t0)
        items += its
        info.append({"scenario": s.name, "seed": seed, "wire_requests": s.nreq, "outcomes": s.outcomes, "contexts": len(its)})
    return items, info


def execute(pid, names, seed):
    _setup_esrally()
    loop = asyncio.new_event_loop()
    try:
        asyncio.set_event_loop(loop)
        return loop.run_until_complete(_round(pid, names, seed))
    finally:
        asyncio.set_event_loop(None)
        loop.close()


def judge(items):
    return tracecheck.validate(SPEC_DIR, "TraceWireTiming", "TraceWireTiming.cfg", items, name="wireleg", timeout=300)


def run_leg(ctx, out, pid, rounds=None):
    """Executes the wire scenarios of property `pid` and appends L1 violations to out.violations."""
    t_start = time.perf_counter()
    names = [f.__name__ for f in SCENARIOS[pid]]
    rounds = rounds or (2 if ctx.quick else 6)
    items = []
    infos = []
    for r in range(rounds):
        its, info = execute(pid, names, ctx.seed * 100 + r)
        for it in its:
            it["id"] = "%s#%d" % (it["id"], r)
        items += its
        infos += info
        for i in info:
            out.add_case({"kind": "wire", "pid": pid, "scenario": i["scenario"], "seed": i["seed"]}, nontrivial=True)
    expected = {"ok", "ConnectionTimeout", "ConnectionError"}
    odd = sorted({o for i in infos for o in i["outcomes"]} - expected)
    if odd:
        raise tlc.MachineryError("wire leg: unexpected request outcomes %s" % odd)
    v = judge(items)
    out.states += v.n_events
    out.transitions += v.n_events
    out.traces_validated += v.accepted(len(items))
    by_id = {it["id"]: it for it in items}
    for tid, fails in v.l1.items():
        it = by_id[tid]
        clauses = sorted({c for _, cl in fails for c in cl})
        scenario = tid.split("/")[1]
        seed = int(tid.rsplit("#", 1)[1]) + ctx.seed * 100
        out.violations.append(
            Violation(
                ",".join("Wire" + c for c in clauses),
                {"kind": "wire", "pid": pid, "scenario": scenario, "seed": seed},
                signature={"leg": "wire", "clauses": clauses, "scenario": scenario},
                detail="real client against the loopback server, context %s: recorded start/end %s/%s us, block %s..%s, wire requests (server saw request, wrote last body byte, failure observable) %s, tolerance %d us"
                % (tid, it["rs"], it["re"], it["enter"], it["exit"], [(w["seen"], w["last"], w["fail"]) for w in it["wires"]], it["tol"]),
            )
        )
    wall = time.perf_counter() - t_start
    out.extra["wire_leg"] = {
        "scenarios": names,
        "rounds": rounds,
        "request_contexts_judged": len(items),
        "wire_requests": sum(i["wire_requests"] for i in infos),
        "failed_wire_requests": sum(1 for i in infos for o in i["outcomes"] if o != "ok"),
        "wall_s": round(wall, 1),
        "tolerance": "max(%d ms, %d %% of the smallest injected delay of the scenario)" % (MIN_TOL * 1000, TOL_FRACTION * 100),
    }
    if not any(o != "ok" for i in infos for o in i["outcomes"]):
        out.vacuous.append("wire leg: no failing wire request")
    out.assumptions.append(
        "wire leg (REAL EsClientFactory.create_async() client incl. its aiohttp trace hooks against a scripted HTTP server on 127.0.0.1, real time, injected "
        "delays 0.15-0.4 s): server and client run in one thread on one clock and every bound is taken on the safe side of the event it bounds, so the "
        "clauses of WireTiming.tla hold by causality on a correct client under any load; tolerance on top: max(50 ms, 40 % of the smallest injected delay "
        "of the scenario). L1 only (no step conformance in real time). The failure of a timed-out request is observable at issue instant + request timeout, "
        "that of an aborted one when the server has closed the socket (the transport's retries included: the latest close counts)."
    )
    out.note("wire leg: %d request contexts of %d scenarios x %d rounds judged by TLC in %.1fs (real client, loopback server)" % (len(items), len(names), rounds, wall))
    return items


def replay(ctx, case, pid):
    items, info = execute(case["pid"], [case["scenario"]], case["seed"])
    v = judge(items)
    for it in items:
        print("  %s: start/end %s/%s block %s..%s wires %s tol %s" % (it["id"], it["rs"], it["re"], it["enter"], it["exit"], [(w["seen"], w["last"], w["fail"]) for w in it["wires"]], it["tol"]))
    print("  outcomes: %s" % info[0]["outcomes"])
    for tid, fails in v.l1.items():
        print("VIOLATION property=%s clause=%s %s" % (pid, ",".join("Wire" + c for c in fails[0][1]), tid))
    return 1 if v.l1 else 0
