"""Simulated cluster start/stop: REAL MechanicActor / Dispatcher / NodeMechanicActor / Mechanic (esrally/mechanic/mechanic.py)
on SimActorSystem. Used by C12.

A lifecycle configuration is the record the Mechanic.tla model uses:
  {"targets": [{"ip": 0|1|2, "port": 1|2}, ...], "ext": bool, "preserve": bool}
A history is a sequence of lifecycle configurations served by ONE MechanicActor (StartEngine ... EngineStopped, then the next
StartEngine on the same actor: "the mechanic might get reused later"); `scn` is the current one, `plan` the remaining ones.
ip 0 = 127.0.0.1 (the coordinator's host, node actors created at once), ip k > 0 = remote host 10.5.5.k running its own Rally
daemon (actor system) that joins / leaves the convention; port p = 9200 + p (p = 0: no port in --target-hosts, i.e. the default 9200).

Replaced by the harness (everything else is the code under test):
  * `mechanic.create` returns a real `Mechanic` whose supplier / provisioners are recording stubs and whose launcher is a subclass of
    the real ProcessLauncher with only `_start_node` overridden (records a start, can be told to fail, returns a real cluster.Node
    with a real telemetry.Telemetry holding one recording internal device). The REAL `ProcessLauncher.stop` runs against a fake
    `psutil` (launcher.psutil is replaced by a shim whose Process(pid) consults the harness' process table: alive | early = gone
    before stop looks it up (NoSuchProcess from psutil.Process) | late = dies while being terminated (NoSuchProcess from terminate)
    | stubborn = ignores SIGTERM (TimeoutExpired from wait, then kill) | vanish = still there after the grace period, gone when
    SIGKILL is sent (TimeoutExpired from wait, NoSuchProcess from kill)); wait() never blocks. An exception that escapes the real
    stop() is counted (env.esc) and re-raised. Observed per node: look-ups by stop() (= the node was
    handled by stop), terminate() and kill() calls, system metrics stored by the node's telemetry (each produces a real
    `final_index_size_bytes` record, as the real IndexSize device does at shutdown), results stored by Mechanic._add_results and
    whether they contain that shutdown metric. The metrics store is the real InMemoryMetricsStore made buffering like the
    Elasticsearch store (records are searchable only after flush(refresh=True)).
    The provisioner creates a real install directory so that the real `provisioner.cleanup` is observed on disk;
  * `mechanic.load_team` (no team repository offline), `metrics.race_store / results_store` (recording; `calculate_system_results` is the real one),
    `metrics.metrics_store_class` (real InMemoryMetricsStore, flush recorded);
  * race control and the actor system's convention notifier are endpoints driven by the harness.
  * `sysstats.cpu_model` (0.2 s per call in telemetry.add_metadata_for_node) returns a constant.
Decisions: ('deliver', src, dst[, outcome]) | ('wakeup', actor) | ('join', ip) | ('leave', ip) | ('rc', 'stop'|'reset0'|'reset1'|'teardown')
           | ('proc', node id, 'early'|'late'|'stubborn'|'vanish') | ('rc', 'restart')
           (outcome of a StartNodes delivery: 'ok'|'create'|'launch'; of a StopNodes / ActorExitRequest delivery to a node actor that
           still has its mechanic: 'known'|'unknown' = whether the race store of that host knows the race; never on a remote host)
Reuse: ('rc', 'restart') is offered once EngineStopped has arrived and everything belonging to the finished lifecycle has drained
(no message in flight, no pending wake-up of M, its node actors gone). Dispatchers of earlier lifecycles stay alive and idle (they
are children of M); their ActorExitRequest at teardown is executed silently together with M's.
"""
import datetime
import os
import shutil

import thespian.actors as ta

from . import racesim, tlc
from .simactor import SimActorSystem
from .vclock import VirtualClock

PROC_CONDS = ("early", "late", "stubborn", "vanish")


def node_prefix(cyc):
    """provisioning/node.name.prefix of lifecycle cyc: node names tell which lifecycle a node belongs to."""
    return "rally%d-node" % cyc


def node_key(node_name):
    """'rally<cyc>-node-<n>' -> (cyc, n)"""
    head, n = node_name.rsplit("-", 1)
    return int(head[len("rally") : -len("-node")]), int(n)
_world_counter = [0]


def ip_str(ip):
    return "127.0.0.1" if ip == 0 else "10.5.5.%d" % ip


def ip_id(s):
    return 0 if s == "127.0.0.1" else int(s.rsplit(".", 1)[1])


def port_num(p):
    return 9200 + p


def entries_of(scn):
    """Distinct (ip, port) pairs in order of first appearance and the node ids (positions) of each: the specification of
    nodes_by_host, computed independently here only to name things; the TLA+ model has its own transcription."""
    ents = []
    ids = {}
    for i, t in enumerate(scn["targets"]):
        key = (t["ip"], t["port"])
        if key not in ids:
            ents.append(key)
            ids[key] = []
        ids[key].append(i)
    return ents, ids


class FakeNode:
    def __init__(self, node_name, host_name):
        self.node_name = node_name
        self.host_name = host_name
        self.pid = 0
        self.telemetry = None


class FakeRace:
    def __init__(self, world):
        self.world = world
        self.results = []

    def add_results(self, results):
        self.results.append(results)


class MechWorld:
    M = "M1"

    def __init__(self, scn, initial_up=(), plan=()):
        racesim.ensure_rally_home()
        import psutil

        from esrally import config, exceptions, metrics, telemetry
        from esrally.mechanic import cluster, launcher, mechanic, provisioner
        from esrally.utils import console, sysstats

        console.init(quiet=True, assume_tty=False)
        self.mechanic_mod = mechanic
        self.config_mod = config
        self.plan = [dict(x) for x in plan]
        self.cyc = 0
        self.old_ds = set()
        self.old_actors = set()  # dispatchers and node actors of earlier lifecycles (inert; they exit with M)
        self.nd_by_cyc = {}
        self.flushes = {}  # (cyc, ipstr, port) -> number of flush(refresh=True)
        self.D = None  # name of the Dispatcher created in the current lifecycle
        self.inbox_start = 0
        self.clock = VirtualClock()
        _world_counter[0] += 1
        self.root = os.path.join(tlc.scratch("mechsim"), "w%d" % _world_counter[0])
        os.makedirs(self.root, exist_ok=True)
        self.calls = []  # (what, node/host) in call order
        self.next_outcome = "ok"
        self.race_known = True
        self.up = set(initial_up)
        self.torn = False
        self._patches = []
        self._begin_lifecycle(scn)
        world = self

        def obs(node_name):
            cyc, n = node_key(node_name)
            return world.nd_by_cyc[cyc][n], n

        def obs_pid(pid):
            return world.nd_by_cyc[pid // 1000][pid % 1000], pid % 1000

        class RecDevice(telemetry.InternalTelemetryDevice):
            def store_system_metrics(self_, node, metrics_store):
                # like the real IndexSize device: a metric that only exists once the node is shut down
                o, n = obs(node.node_name)
                metrics_store.put_value_node_level(node.node_name, "final_index_size_bytes", 4096 + n, "byte")
                o["sysm"] += 1
                world.calls.append(("sysmetrics", n))

        class RecLauncher(launcher.ProcessLauncher):
            # stop() is the real one; what escapes from it is counted and passed on
            def stop(self_, nodes, metrics_store):
                try:
                    return super().stop(nodes, metrics_store)
                except BaseException:
                    world.esc += 1
                    raise

            def _start_node(self_, node_configuration, node_count_on_host):
                if world.next_outcome == "launch":
                    raise RuntimeError("verif: node %s does not start" % node_configuration.node_name)
                o, n = obs(node_configuration.node_name)
                o["starts"] += 1
                world.calls.append(("start", n))
                t = telemetry.Telemetry([], devices=[RecDevice()])
                cyc = node_key(node_configuration.node_name)[0]
                return cluster.Node(1000 * cyc + n, node_configuration.binary_path, node_configuration.ip, node_configuration.node_name, t)

        class FakeProcess:
            """What ProcessLauncher.stop sees of the node's OS process."""

            def __init__(self_, pid=None):
                self_.pid = pid
                self_.o, self_.n = obs_pid(pid)
                self_.o["stops"] += 1
                world.calls.append(("lookup", self_.n))
                if self_.o["proc"] == "early":
                    raise psutil.NoSuchProcess(pid)

            def terminate(self_):
                self_.o["term"] += 1
                world.calls.append(("terminate", self_.n))
                if self_.o["proc"] == "late":
                    raise psutil.NoSuchProcess(self_.pid)

            def wait(self_, timeout=None):
                if self_.o["proc"] in ("stubborn", "vanish"):
                    raise psutil.TimeoutExpired(timeout, self_.pid)
                return 0

            def kill(self_):
                self_.o["kills"] += 1
                world.calls.append(("kill", self_.n))
                if self_.o["proc"] == "vanish":
                    raise psutil.NoSuchProcess(self_.pid)

        class PsutilShim:
            Process = FakeProcess
            NoSuchProcess = psutil.NoSuchProcess
            TimeoutExpired = psutil.TimeoutExpired

        class RecProvisioner:
            def __init__(self_, ip, node_id):
                self_.ip = ip
                self_.node_id = node_id
                self_.cyc = world.cyc

            def prepare(self_, binaries):
                d = os.path.join(world.root, "c%d" % self_.cyc, "node%d" % self_.node_id)
                install = os.path.join(d, "install")
                data = os.path.join(install, "data")
                os.makedirs(data, exist_ok=True)
                world.nd_by_cyc[self_.cyc][self_.node_id]["dir"] = install
                name = "%s-%d" % (node_prefix(self_.cyc), self_.node_id)
                return provisioner.NodeConfiguration("tar", "17", True, self_.ip, name, d, install, [data])

        class RecStore(metrics.InMemoryMetricsStore):
            """The real in-memory store made BUFFERING like the Elasticsearch store: a record is handed over by flush() and can
            be found by queries (get_one, ... = what calculate_system_results uses) only after a flush with refresh=True."""

            def __init__(self_, cfg):
                super().__init__(cfg)
                self_.verif_key = None
                self_.verif_buffer = []  # added, not flushed
                self_.verif_indexed = []  # flushed without refresh: not yet searchable

            def _add(self_, doc):
                self_.verif_buffer.append(doc)

            def close(self_):
                self_.verif_closing = True
                try:
                    return super().close()
                finally:
                    self_.verif_closing = False

            def flush(self_, refresh=True):
                # the flush that is part of close() is not counted
                if refresh and self_.verif_key is not None and not getattr(self_, "verif_closing", False):
                    world.flushes[self_.verif_key] = world.flushes.get(self_.verif_key, 0) + 1
                    world.calls.append(("flush", self_.verif_key))
                self_.verif_indexed.extend(self_.verif_buffer)
                self_.verif_buffer = []
                if refresh:
                    self_.docs.extend(self_.verif_indexed)
                    self_.verif_indexed = []
                return super().flush(refresh=refresh)

        class RecRaceStore:
            def find_by_race_id(self_, race_id):
                # the file race store of a host that has never stored the race (every remote host; the coordinator's host before
                # the race was stored) answers NotFound
                if not world.race_known:
                    raise exceptions.NotFound("verif: no race with race id [%s]" % race_id)
                return FakeRace(world)

        class RecResultsStore:
            def store_results(self_, race):
                res = race.results[-1]  # the SystemStats the real metrics.calculate_system_results computed for one node
                o, n = obs(res.verif_node)
                o["stored"] += 1
                # is the metric produced while the node was shut down part of the node's stored system results?
                o["shut"] += sum(1 for m in res.node_metrics if m["node"] == res.verif_node and m["name"] == "index_size")
                world.calls.append(("store", n))

        def fake_create(cfg, metrics_store, node_ip, node_http_port, all_node_ips, all_node_ids, sources=False, distribution=False, external=False, docker=False):
            if world.next_outcome == "create":
                raise RuntimeError("verif: cannot provision on %s:%s" % (node_ip, node_http_port))
            if external:
                raise AssertionError("verif: create() called for an externally provisioned cluster")
            metrics_store.verif_key = (world.cyc, node_ip, node_http_port)
            node_ids = cfg.opts("provisioning", "node.ids", mandatory=False)
            provs = [RecProvisioner(node_ip, n) for n in node_ids]
            return mechanic.Mechanic(cfg, metrics_store, lambda: "binaries", provs, RecLauncher(cfg))

        orig_load_team = mechanic.load_team
        self._patch(mechanic, "load_team", lambda cfg, external: orig_load_team(cfg, external) if external else ("verif-car", []))
        self._patch(mechanic, "create", fake_create)
        self._patch(launcher, "psutil", PsutilShim)
        self._patch(sysstats, "cpu_model", lambda: "verif-cpu")
        self._patch(metrics, "metrics_store_class", lambda cfg: RecStore)
        self._patch(metrics, "race_store", lambda cfg: RecRaceStore())
        self._patch(metrics, "results_store", lambda cfg: RecResultsStore())
        orig_calc = metrics.calculate_system_results

        def tagged_calc(store, node_name):
            res = orig_calc(store, node_name)  # the real SystemStatsCalculator on the buffering store
            res.verif_node = node_name
            return res

        self._patch(metrics, "calculate_system_results", tagged_calc)

        def namer(cls, requirements):
            return {"MechanicActor": "M", "Dispatcher": "D", "NodeMechanicActor": "N"}.get(cls.__name__, cls.__name__)

        self.sim = SimActorSystem(self.clock, namer=namer)
        self.sim.registration_hook = self._on_registration
        self.sim.endpoint("rc")
        self.sim.endpoint("sys")
        self.sim.create(mechanic.MechanicActor, parent=None, name=self.M)
        self._send_start_engine()

    # ---- lifecycles
    def _begin_lifecycle(self, scn):
        self.scn = scn
        self.cyc += 1
        self.ents, self.ids = entries_of(scn)
        self.n_nodes = len(scn["targets"])
        # observations (the property's observation point), per lifecycle
        self.nd = [{"starts": 0, "stops": 0, "term": 0, "kills": 0, "sysm": 0, "stored": 0, "shut": 0, "dir": None, "proc": "alive", "race": "none"} for _ in range(self.n_nodes)]
        self.nd_by_cyc[self.cyc] = self.nd
        self.esc = 0  # exceptions that escaped ProcessLauncher.stop in this lifecycle
        self.procs = 0  # number of node processes the environment has put into a condition other than alive
        self.left = set()
        self.fault = "none"
        self.stop_sent = False
        self.resets = 0
        # whatever actors the previous lifecycle has left behind (its dispatcher; after a failed start also its node actors,
        # possibly with running nodes) are inert from now on: M has forgotten them, they exit when M exits
        self.old_actors.update(getattr(self, "names", {}))
        self.names = {}  # actor name -> entry index (1-based)
        if self.D is not None:
            self.old_ds.add(self.D)
            self.old_actors.add(self.D)
        self.D = None

    def _send_start_engine(self):
        mechanic = self.mechanic_mod
        scn = self.scn
        self.cfg = self._build_config(self.config_mod)
        ctx = {"race-id": "verif-race", "race-timestamp": "20260101T000000Z", "track": "verif", "challenge": "c", "car": ["verif-car"]}
        self.sim.send("rc", self.M, mechanic.StartEngine(self.cfg, ctx, False, not scn["ext"], bool(scn["ext"]), False))

    def drained(self, failed_start=False):
        """Nothing of the current lifecycle is left: no message in flight, no wake-up of M pending, its node actors gone.
        After a failed start: no message in flight, no wake-up of M pending, the dispatcher no longer subscribed to convention
        updates (so that nothing of the failed attempt can still reach M); its node actors may live on."""
        if any(q for q in self.sim.chan.values()):
            return False
        if self.sim.pending_timers(self.M):
            return False
        if failed_start:
            return not self.listening()
        return not any(self.alive(n) for n in self.names)

    # ---- set-up helpers
    def _build_config(self, config):
        from esrally.utils import opts

        cfg = config.Config()
        S = config.Scope.application
        home = racesim.ensure_rally_home()
        cfg.add(S, "system", "env.name", "verif")
        cfg.add(S, "system", "race.id", "verif-race")
        cfg.add(S, "system", "time.start", datetime.datetime(2026, 1, 1))
        cfg.add(S, "system", "quiet.mode", True)
        cfg.add(S, "node", "root.dir", os.path.join(home, "root"))
        cfg.add(S, "node", "rally.root", os.path.join(os.environ.get("VERIF_REPO", "/repo"), "esrally"))
        cfg.add(S, "reporting", "datastore.type", "in-memory")
        cfg.add(S, "track", "params", {})
        cfg.add(S, "mechanic", "car.names", ["verif-car"])
        cfg.add(S, "mechanic", "car.params", {})
        cfg.add(S, "mechanic", "repository.revision", "verif-rev")
        cfg.add(S, "mechanic", "distribution.version", "8.6.1")
        cfg.add(S, "mechanic", "preserve.install", bool(self.scn["preserve"]))
        cfg.add(S, "provisioning", "node.name.prefix", node_prefix(self.cyc))
        # port 0 = no port given (to_ip_port falls back to 9200)
        hosts = ",".join(ip_str(t["ip"]) if t["port"] == 0 else "%s:%d" % (ip_str(t["ip"]), port_num(t["port"])) for t in self.scn["targets"])
        cfg.add(S, "client", "hosts", opts.TargetHosts(hosts))
        cfg.add(S, "client", "options", opts.ClientOptions("timeout:60"))
        cfg.add(S, "telemetry", "devices", [])
        cfg.add(S, "telemetry", "params", {})
        return cfg

    def _patch(self, obj, attr, value):
        self._patches.append((obj, attr, getattr(obj, attr)))
        setattr(obj, attr, value)

    def close(self):
        for obj, attr, old in reversed(self._patches):
            setattr(obj, attr, old)
        self._patches = []
        shutil.rmtree(self.root, ignore_errors=True)

    # ---- the convention notifier
    def _conv(self, ip, added):
        return ta.ActorSystemConventionUpdate(self.sim.address("admin-%d" % ip), {"ip": ip_str(ip), "coordinator": False}, added)

    def _on_registration(self, name, enable, was):
        # thespian: a newly registered handler is told about all current convention members
        if enable and not was:
            for ip in sorted(self.up):
                self.sim.send("sys", name, self._conv(ip, True))

    def listening(self):
        return self.D is not None and bool(self.sim.registration_listeners.get(self.D)) and self.alive(self.D)

    # ---- access to the real objects
    def exists(self, name):
        return name in self.sim.actors

    def alive(self, name):
        return name in self.sim.actors and self.sim.actors[name].alive

    def inst(self, name):
        return self.sim.actors[name].instance

    def rc_inbox(self):
        """What race control has received in the current lifecycle."""
        return [type(m).__name__ for _, m in self.sim.endpoints["rc"].inbox[self.inbox_start :]]

    def remote_targets(self):
        return sorted({ip for ip, _ in self.ents if ip != 0})

    def entry_index(self, ipstr, port):
        key = (ip_id(ipstr), port - 9200)
        return self.ents.index(key) + 1

    def discover(self):
        """The Dispatcher of the current lifecycle, and which NodeMechanicActor serves which (ip, port): read from the Dispatcher's
        pending list and its StartNodes messages."""
        if self.D is None:
            for name, rec in self.sim.actors.items():
                if rec.cls.__name__ == "Dispatcher" and name not in self.old_ds:
                    self.D = name
        if self.D is None:
            return
        d = self.inst(self.D)
        for addr, sub in d.pending or []:
            self.names.setdefault(self.sim.name_of(addr), self.entry_index(sub.ip, sub.port))
        for (src, dst), q in self.sim.chan.items():
            if src == self.D:
                for m in q:
                    if type(m).__name__ == "StartNodes":
                        self.names.setdefault(dst, self.entry_index(m.ip, m.port))

    def actor_of(self, h):
        for name, e in self.names.items():
            if e == h:
                return name
        return None

    # ---- decisions
    def _rc_enabled(self):
        box = self.rc_inbox()
        res = []
        started = "EngineStarted" in box
        failed = "BenchmarkFailure" in box
        stopped = "EngineStopped" in box
        if started and not failed and not self.stop_sent and not self.torn:
            res.append(("rc", "stop"))
        if not self.torn and (failed or (stopped and not self.plan)):
            res.append(("rc", "teardown"))
        if self.plan and stopped and not failed and not self.torn and self.alive(self.M) and self.drained():
            res.append(("rc", "restart"))
        # a failed start (no EngineStarted) may be followed by another attempt to start a Rally-provisioned cluster
        if self.plan and failed and not started and not self.plan[0]["ext"] and not self.torn and self.alive(self.M) and self.drained(failed_start=True):
            res.append(("rc", "restart"))
        return res, (started and not failed and not self.stop_sent and not self.torn)

    def running_nodes(self):
        """Node ids whose process was started and not yet handled by a stop (they are in some Mechanic.nodes)."""
        res = []
        for name in self.names:
            if self.alive(name):
                mm = self.inst(name).mechanic
                for node in (mm.nodes if mm is not None else []):
                    res.append(node_key(node.node_name)[1])
        return sorted(res)

    def enabled(self, faults=True, max_resets=1, max_procs=2):
        res = []
        for dec in self.sim.enabled():
            if dec[0] == "deliver" and dec[2] in self.old_actors:
                continue  # inert actors of earlier lifecycles: whatever reaches them is executed silently (see step)
            if dec[0] == "wakeup" and dec[1] in self.old_actors:
                continue
            if dec[0] == "deliver":
                head = self.sim.chan[(dec[1], dec[2])][0]
                if type(head).__name__ == "StartNodes":
                    res.append(dec + ("ok",))
                    if faults and self.fault == "none":
                        res.append(dec + ("create",))
                        res.append(dec + ("launch",))
                    continue
                # a node actor that will run Mechanic.stop_engine(): does its host's race store know the race?
                if type(head).__name__ in ("StopNodes", "ActorExitRequest") and dec[2] in self.names and self.inst(dec[2]).mechanic is not None:
                    ip = self.ents[self.names[dec[2]] - 1][0]
                    if ip == 0:
                        res.append(dec + ("known",))
                    res.append(dec + ("unknown",))
                    continue
            res.append(dec)
        rc, may_reset = self._rc_enabled()
        res.extend(rc)
        if may_reset and self.resets < max_resets:
            res.append(("rc", "reset0"))
            res.append(("rc", "reset1"))
        for ip in self.remote_targets():
            if ip not in self.up and ip not in self.left:
                res.append(("join", ip))
        if self.procs < max_procs:
            for n in self.running_nodes():
                if self.nd[n]["proc"] == "alive":
                    for c in PROC_CONDS:
                        res.append(("proc", n, c))
        if faults and self.fault == "none" and self.listening():
            d = self.inst(self.D)
            for ip in sorted(self.up):
                if ip in self.remote_targets() and ip_str(ip) not in d.remotes:
                    res.append(("leave", ip))
        return res

    def is_progress(self, dec):
        """Decisions that matter for quiescence: everything except the node actors' periodic flush wake-ups and joins nobody
        listens to."""
        if dec[0] == "wakeup" and dec[1] != self.M:
            return False
        if dec[0] == "join" and not self.listening():
            return False
        if dec[0] == "rc" and dec[1].startswith("reset"):
            return False
        if dec[0] in ("leave", "proc") or (dec[0] == "deliver" and len(dec) > 3 and dec[3] in ("create", "launch")):
            return False
        return True

    def decision_event(self, dec):
        """(action name of Mechanic.tla, int argument, string argument)"""
        kind = dec[0]
        if kind == "rc":
            return {"stop": ("RcStop", 0, ""), "reset0": ("RcReset", 0, ""), "reset1": ("RcReset", 1, ""), "teardown": ("RcTeardown", 0, ""), "restart": ("RcRestart", 0, "")}[dec[1]]
        if kind == "join":
            return ("RemoteJoins", dec[1], "")
        if kind == "leave":
            return ("RemoteLeaves", dec[1], "")
        if kind == "proc":
            return ("NodeProcess", dec[1], dec[2])
        if kind == "wakeup":
            if dec[1] == self.M:
                return ("MWakeup", 0, "")
            return ("NWakeup", self.names.get(dec[1], 0), "")
        _, src, dst = dec[:3]
        head = self.sim.chan[(src, dst)][0]
        nm = type(head).__name__
        if dst == self.M:
            if src == "rc":
                ev = {"StartEngine": "MRecvStartEngine", "StopEngine": "MRecvStopEngine", "ActorExitRequest": "MRecvExit"}.get(nm)
                if nm == "ResetRelativeTime":
                    return ("MRecvReset", 1 if head.reset_in_seconds > 0 else 0, "")
                return (ev or "Unmodelled" + nm, 0, "")
            if src == self.D:
                return ({"BenchmarkFailure": "MRecvFailureD"}.get(nm, "Unmodelled" + nm), 0, "")
            h = self.names.get(src, 0)
            ev = {"NodesStarted": "MRecvNodesStarted", "NodesStopped": "MRecvNodesStopped", "BenchmarkFailure": "MRecvFailureN"}.get(nm, "Unmodelled" + nm)
            return (ev, h, "")
        if dst == self.D:
            if src == self.M:
                return ({"StartEngine": "DRecvStartEngine", "ActorExitRequest": "DRecvExit"}.get(nm, "Unmodelled" + nm), 0, "")
            if src == "sys" and nm == "ActorSystemConventionUpdate":
                return ("DRecvConv", ip_id(head.remoteCapabilities["ip"]), "T" if head.remoteAdded else "F")
            h = self.names.get(src, 0)
            return ({"ChildActorExited": "DRecvChildExited"}.get(nm, "Unmodelled" + nm), h, "")
        h = self.names.get(dst, 0)
        if src == self.D:
            if nm == "StartNodes":
                return ("NRecvStartNodes", h, dec[3] if len(dec) > 3 else "ok")
            if nm == "ActorExitRequest":
                return ("NRecvExit", h, "D" + ("+" + dec[3] if len(dec) > 3 else ""))
        if src == self.M:
            ev = {"StopNodes": "NRecvStopNodes", "ResetRelativeTime": "NRecvReset", "BenchmarkFailure": "NRecvFailure"}.get(nm)
            if ev:
                return (ev, h, dec[3] if len(dec) > 3 and nm == "StopNodes" else "")
            if nm == "ActorExitRequest":
                return ("NRecvExit", h, "M" + ("+" + dec[3] if len(dec) > 3 else ""))
        return ("Unmodelled" + nm, h, "")

    def step(self, dec):
        mech = self.mechanic_mod
        ev = self.decision_event(dec)
        kind = dec[0]
        if kind == "rc":
            if dec[1] == "stop":
                self.sim.send("rc", self.M, mech.StopEngine())
                self.stop_sent = True
            elif dec[1] in ("reset0", "reset1"):
                self.sim.send("rc", self.M, mech.ResetRelativeTime(0 if dec[1] == "reset0" else 5))
                self.resets += 1
            elif dec[1] == "restart":
                self.inbox_start = len(self.sim.endpoints["rc"].inbox)
                self._begin_lifecycle(self.plan.pop(0))
                self._send_start_engine()
            else:
                self.sim.send("rc", self.M, ta.ActorExitRequest())
                self.torn = True
        elif kind == "proc":
            self.nd[dec[1]]["proc"] = dec[2]
            self.procs += 1
        elif kind == "join":
            ip = dec[1]
            self.up.add(ip)
            if self.listening():
                self.sim.send("sys", self.D, self._conv(ip, True))
        elif kind == "leave":
            ip = dec[1]
            self.up.discard(ip)
            self.left.add(ip)
            self.fault = "leave"
            self.sim.send("sys", self.D, self._conv(ip, False))
            for name, rec in list(self.sim.actors.items()):
                if rec.alive and rec.requirements and rec.requirements.get("ip") == ip_str(ip):
                    self.sim.kill(name)
        else:
            outcome = dec[3] if len(dec) > 3 else "ok"
            if outcome in ("known", "unknown"):
                self.race_known = outcome == "known"
                before = [x["stops"] for x in self.nd]
                try:
                    self.sim.step(dec[:3])
                finally:
                    self.race_known = True
                for x, b in zip(self.nd, before):
                    if x["stops"] > b:
                        x["race"] = outcome
            else:
                self.next_outcome = outcome
                if outcome != "ok":
                    self.fault = outcome
                try:
                    self.sim.step(dec[:3] if kind == "deliver" else dec)
                finally:
                    self.next_outcome = "ok"
        # inert actors of earlier lifecycles (they exit with M; a departing daemon takes its actors along)
        while True:
            pend = [d for d in self.sim.enabled() if d[0] == "deliver" and d[2] in self.old_actors]
            if not pend:
                break
            self.sim.step(pend[0])
        self.discover()
        return ev

    # ---- projection of the real state (read from the actor instances, the simulated actor system and the recording stubs)
    def _msg(self, m):
        nm = type(m).__name__
        out = {"k": nm, "a": 0, "b": False, "ids": [], "aips": [], "aids": []}
        if nm == "StartNodes":
            out["a"] = self.entry_index(m.ip, m.port)
            out["b"] = getattr(m, "reply_to", None) == self.sim.address(self.M)
            out["ids"] = list(m.node_ids)
            out["aips"] = sorted(ip_id(x) for x in m.all_node_ips)
            out["aids"] = sorted(m.all_node_ids)
        elif nm == "ActorSystemConventionUpdate":
            out["k"] = "Conv"
            out["a"] = ip_id(m.remoteCapabilities["ip"])
            out["b"] = bool(m.remoteAdded)
        elif nm == "ResetRelativeTime":
            out["a"] = 1 if m.reset_in_seconds > 0 else 0
        elif nm == "ActorExitRequest":
            out["k"] = "Exit"
        return out

    def _chan(self, src, dst):
        if src is None or dst is None:
            return []
        self._projected.add((src, dst))
        return [self._msg(m) for m in self.sim.chan.get((src, dst), [])]

    def project(self):
        sim = self.sim
        self._projected = set()
        ne = len(self.ents)
        m = self.inst(self.M)
        children = []
        for c in m.children:
            children.append(0 if c is None else self.names.get(sim.name_of(c), -1))
        mech = {
            "alive": self.alive(self.M),
            "status": m.status if m.status is not None else "none",
            "children": children,
            "resp": len(m.received_responses),
            "ext": bool(m.externally_provisioned),
        }
        disp = {"exists": self.exists(self.D), "alive": self.alive(self.D), "pending": [], "remotes": [[], []], "listening": bool(sim.registration_listeners.get(self.D))}
        if disp["exists"]:
            d = self.inst(self.D)
            disp["pending"] = [self.names.get(sim.name_of(a), -1) for a, _ in (d.pending or [])]
            for ipstr, subs in (d.remotes or {}).items():
                disp["remotes"][ip_id(ipstr) - 1] = [self.entry_index(s.ip, s.port) for s in subs]
        na, d2n, n2m, m2n, n2d, ho = [], [], [], [], [], []
        for h in range(1, ne + 1):
            name = self.actor_of(h)
            if name is None:
                na.append({"exists": False, "alive": False, "eng": "none", "running": False, "cfgs": False})
            else:
                inst = self.inst(name)
                mm = inst.mechanic
                na.append({"exists": True, "alive": self.alive(name), "eng": "set" if mm is not None else "none", "running": bool(mm is not None and mm.nodes), "cfgs": bool(mm is not None and mm.node_configs)})
            d2n.append(self._chan(self.D, name))
            n2m.append(self._chan(name, self.M))
            m2n.append(self._chan(self.M, name))
            n2d.append(self._chan(name, self.D))
            ip, port = self.ents[h - 1]
            ho.append(self.flushes.get((self.cyc, ip_str(ip), port_num(port)), 0))
        nd = []
        for x in self.nd:
            if x["dir"] is None:
                inst_dir = "absent"
            else:
                inst_dir = "present" if os.path.isdir(x["dir"]) else "removed"
            nd.append({"starts": x["starts"], "stops": x["stops"], "term": x["term"], "kills": x["kills"], "sysm": x["sysm"], "stored": x["stored"], "shut": x["shut"], "inst": inst_dir, "proc": x["proc"], "race": x["race"]})
        st = self._state(d2n, n2m, m2n, n2d, mech, disp, na, nd, ho)
        # messages travelling between pairs of actors the model has no channel for (must be none)
        st["other"] = sum(len(q) for key, q in sim.chan.items() if key not in self._projected)
        st["plan"] = [dict(x) for x in self.plan]
        return st

    def _state(self, d2n, n2m, m2n, n2d, mech, disp, na, nd, ho):
        sim = self.sim
        return {
            "rc2m": self._chan("rc", self.M),
            "m2d": self._chan(self.M, self.D),
            "d2m": self._chan(self.D, self.M),
            "sys2d": self._chan("sys", self.D),
            "d2n": d2n,
            "n2m": n2m,
            "m2n": m2n,
            "n2d": n2d,
            "rcbox": self.rc_inbox(),
            "mtimers": len(sim.pending_timers(self.M)),
            "mech": mech,
            "disp": disp,
            "na": na,
            "nd": nd,
            "ho": ho,
            "env": {"up": sorted(self.up), "left": sorted(self.left), "fault": self.fault, "stopSent": self.stop_sent, "resets": self.resets, "torn": self.torn, "procs": self.procs, "cyc": self.cyc, "stale": 0, "esc": self.esc},
        }
