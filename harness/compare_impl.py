"""Binding between the slots of specs/Compare/Compare.tla and the real `esrally compare` code path (property C20).

build_results : model result structure -> dict as GlobalStats.as_dict() produces it (what race.json stores)
Runner        : stores two races with the real FileRaceStore, reads them back, runs the real
                ComparisonReporter._metrics_table / report() and projects rows, console and files to JSON for TLC.
Only integers / strings / booleans leave this module (no floats): values are integers over the common denominator D.
"""
import contextlib
import csv
import datetime
import io
import os
import re
from fractions import Fraction

from . import tlc

NA = -2000000000
BAD = -2000000001
UNIT_FACTOR = {"min": 60000, "s": 1000, "GB": 2**30, "MB": 2**20}

CUM_KEY = {
    "indexing": "total_time",
    "indexing throttle": "indexing_throttle_time",
    "merge": "merge_time",
    "merge throttle": "merge_throttle_time",
    "refresh": "refresh_time",
    "flush": "flush_time",
}
GC_LABEL = {"young": "Young Gen", "old": "Old Gen", "zgc_cycles": "ZGC Cycles", "zgc_pauses": "ZGC Pauses"}
SIZE_LABEL = {"dataset": "Dataset size", "store": "Store size", "translog": "Translog size"}
MEM_LABEL = {
    "segments": "Heap used for segments",
    "doc_values": "Heap used for doc values",
    "terms": "Heap used for terms",
    "norms": "Heap used for norms",
    "points": "Heap used for points",
    "stored_fields": "Heap used for stored fields",
}
TRANSFORM_KEY = {
    "processing": ("total_transform_processing_times", "Transform processing time"),
    "index": ("total_transform_index_times", "Transform indexing time"),
    "search": ("total_transform_search_times", "Transform search time"),
    "throughput": ("total_transform_throughput", "Transform throughput"),
}
INGEST_KEY = {
    "count": ("ingest_pipeline_cluster_count", "Total Ingest Pipeline count"),
    "time": ("ingest_pipeline_cluster_time", "Total Ingest Pipeline time"),
    "failed": ("ingest_pipeline_cluster_failed", "Total Ingest Pipeline failed"),
}
DISK_KEY = {
    "inverted index": "disk_usage_inverted_index",
    "stored fields": "disk_usage_stored_fields",
    "doc values": "disk_usage_doc_values",
    "points": "disk_usage_points",
    "norms": "disk_usage_norms",
    "term vectors": "disk_usage_term_vectors",
    "total": "disk_usage_total",
}
LAT_NAME = {"latency": "latency", "service_time": "service time", "processing_time": "processing time"}
DISK_INDEX = "idx"
# the same names in scripts that no 8-bit locale encoding covers ("any tasks": names are free text of the track author)
UNICODE_NAMES = {
    "t1": "gr\u00f6\u00dfen-t1", "t2": "\u68c0\u7d22-t2", "op1": "\u00f6p1", "op2": "\u043e\u043f2",
    "j1": "\u5f02\u5e38\u68c0\u6d4b-j1", "j2": "j\u00f6b-j2", "x1": "\u0442\u0440\u0430\u043d\u0441\u0444\u043e\u0440\u043c-x1", "x2": "\u5909\u63db-x2",
    "idx": "\u00edndice", "f1": "f\u00e4lt-f1", "f2": "\u5b57\u6bb5-f2",
}


def translator(names):
    """names: "ascii" (identity) or "unicode"."""
    if names == "unicode":
        return lambda n: UNICODE_NAMES.get(n, n)
    if names in (None, "ascii"):
        return lambda n: n
    raise tlc.MachineryError("unknown name alphabet %r" % (names,))


def pkey(p):
    """percentile name of the spec ("99.9") -> key of the stored dict ("99_9")"""
    return str(float(p)).replace(".", "_")


def label(slot, tr=lambda n: n):
    """(Metric, Task) columns of the row the reporter prints for a slot; tr: name alphabet (translator)."""
    g, e, k, s = slot["g"], slot["e"], slot["k"], slot["s"]
    if g == "cum":
        return "Cumulative %s %s of primary shards" % (k, s), ""
    if g == "shard":
        return "%s cumulative %s time across primary shard" % (s.capitalize(), k), ""
    if g == "gc":
        return "Total %s GC %s" % (GC_LABEL[k], s), ""
    if g == "size":
        return SIZE_LABEL[k], ""
    if g == "mem":
        return MEM_LABEL[k], ""
    if g == "segments":
        return "Segment count", ""
    if g == "ingest":
        return INGEST_KEY[s][1], ""
    if g == "disk":
        return "%s %s %s" % (tr(DISK_INDEX), tr(k), s), ""
    if g == "ml":
        return "%s ML processing time" % s.capitalize(), tr("j%d" % e)
    if g == "transform":
        return TRANSFORM_KEY[s][1], tr("x%d" % e)
    if g == "throughput":
        return "%s Throughput" % s.capitalize(), tr("t%d" % e)
    if g in LAT_NAME:
        return "%sth percentile %s" % (s, LAT_NAME[g]), tr("t%d" % e)
    if g == "error_rate":
        return "error rate", tr("t%d" % e)
    raise tlc.MachineryError("unknown slot group %r" % g)


def raw_factor(slot):
    """display unit -> unit stored in race.json (ms, bytes, ratio)."""
    if slot["g"] == "error_rate":
        return Fraction(1, 100)
    if slot["g"] == "disk":
        return Fraction(1)
    return Fraction(UNIT_FACTOR.get(slot["unit"], 1))


def raw_value(slot, v, D):
    if v == NA:
        return None
    x = Fraction(v, D) * raw_factor(slot)
    return int(x) if x.denominator == 1 else float(x)


PLAIN_NAMING = {"t1": "t1", "o1": "op1", "t2": "t2", "o2": "op2", "rev": False}


def task_record(naming, e, tr=lambda n: n):
    """op_metrics record header of entity e under a naming mode of Compare.tla (NamingSeq): "" = no "task" key at all."""
    rec = {}
    if naming["t%d" % e] != "":
        rec["task"] = naming["t%d" % e]
    rec["operation"] = naming["o%d" % e]
    if rec.get("task", rec["operation"]) != "t%d" % e:
        raise tlc.MachineryError("naming mode does not name entity %d as task t%d" % (e, e))
    return {k: tr(v) for k, v in rec.items()}


def build_results(slots, R, D, naming=None, tr=lambda n: n):
    """R = {"E": [entities], "nm": naming mode, "v": [value over D or NA per slot]} -> results dict (GlobalStats.as_dict() layout)."""
    E = sorted(R["E"])
    nm = (naming or [PLAIN_NAMING])[R.get("nm", 0)]
    res = {"op_metrics": [], "ml_processing_time": []}
    for k in ("total_time", "indexing_throttle_time", "merge_time", "merge_throttle_time", "refresh_time", "flush_time"):
        res[k + "_per_shard"] = {}
    for key, _ in TRANSFORM_KEY.values():
        res[key] = []
    for key in DISK_KEY.values():
        res[key] = []
    tasks = {e: dict(task_record(nm, e, tr), throughput={"min": None, "mean": None, "median": None, "max": None, "unit": "docs/s"},
                     latency={}, service_time={}, processing_time={}, error_rate=None, duration=1000) for e in E}
    jobs = {e: {"job": tr("j%d" % e), "min": None, "mean": None, "median": None, "max": None, "unit": "ms"} for e in E}
    for i, slot in enumerate(slots):
        g, e, k, s = slot["g"], slot["e"], slot["k"], slot["s"]
        if e != 0 and e not in E:
            continue
        x = raw_value(slot, R["v"][i], D)
        if g == "cum":
            res[CUM_KEY[k] if s == "time" else k + "_count"] = x
        elif g == "shard":
            if x is not None:
                d = res[CUM_KEY[k] + "_per_shard"]
                d[s] = x
                d["unit"] = "ms"
        elif g == "gc":
            res["%s_gc_%s" % (k, s)] = x
        elif g == "size":
            res[k + "_size"] = x
        elif g == "mem":
            res["memory_" + k] = x
        elif g == "segments":
            res["segment_count"] = x
        elif g == "ingest":
            res[INGEST_KEY[s][0]] = x
        elif g == "disk":
            if x is not None:
                res[DISK_KEY[s]].append({"index": tr(DISK_INDEX), "field": tr(k), "value": x, "unit": "byte"})
        elif g == "ml":
            jobs[e][s] = x
        elif g == "transform":
            res[TRANSFORM_KEY[s][0]].append({"id": tr("x%d" % e), "mean": x, "unit": slot["unit"]})
        elif g == "throughput":
            tasks[e]["throughput"][s] = x
        elif g in LAT_NAME:
            if x is not None:
                d = tasks[e][g]
                d[pkey(s)] = x
                d["unit"] = "ms"
        elif g == "error_rate":
            tasks[e]["error_rate"] = x
        else:
            raise tlc.MachineryError("unknown slot group %r" % g)
    for e in E:
        for g in LAT_NAME:
            d = tasks[e][g]
            if d:
                d["mean"] = sum(v for kk, v in d.items() if kk not in ("unit",)) / max(1, len(d) - 1)
        res["ml_processing_time"].append(jobs[e])
    # the order in which the task records are stored is part of the naming mode
    res["op_metrics"] = [tasks[e] for e in (reversed(E) if nm["rev"] else E)]
    return res


# ---------------------------------------------------------------------------------------------------
# projection of what the reporter prints
# ---------------------------------------------------------------------------------------------------
_COLOURED = re.compile(r"^\x1b\[(\d+);1m(.*)\x1b\[0m$", re.S)
_ANSI = re.compile(r"\x1b\[[0-9;]*m")
_NUM = re.compile(r"^([+-]?)(\d+)\.(\d+)(%?)$")
_INF = re.compile(r"^([+-]?)inf(%?)$")
COLOURS = {"31": "red", "32": "green", "39": "neutral"}


def strip_ansi(s):
    return _ANSI.sub("", s)


def colour_of(cell):
    cell = str(cell)
    m = _COLOURED.match(cell)
    if m:
        return COLOURS.get(m.group(1), "other"), m.group(2)
    if "\x1b" in cell:
        return "other", strip_ansi(cell)
    return "none", cell


def parse_number(text, pct):
    """'+0.05000' -> sign, integer part, fraction digits, number of decimals (no float involved)."""
    m = _NUM.match(text)
    if m and bool(m.group(4)) == pct and int(m.group(2)) < 2**31 - 1 and len(m.group(3)) <= 9:
        return {"sg": m.group(1), "ip": int(m.group(2)), "fp": int(m.group(3)), "nd": len(m.group(3))}
    m = _INF.match(text)
    if m and bool(m.group(2)) == pct:
        return {"sg": m.group(1), "ip": -1, "fp": 0, "nd": 2 if pct else 5}
    return {"sg": "?", "ip": -2, "fp": 0, "nd": -1}


def over_d(x, D):
    """value shown in a Baseline / Contender cell -> integer over D (BAD unless it is one up to float noise)."""
    if isinstance(x, bool) or not isinstance(x, (int, float)) or x != x or x in (float("inf"), float("-inf")):
        return BAD
    y = Fraction(x) * D
    n = round(y)
    # float noise of the unit conversions (relative 1e-15) is not a difference; anything bigger is
    if abs(y - n) <= Fraction(1, 10**9) * max(1, abs(n)) and abs(n) < 2**31 - 2:
        return int(n)
    return BAD


class Runner:
    def __init__(self, slots, root, naming=None, names="ascii"):
        from esrally import config, metrics, reporter
        from esrally.utils import console

        self.slots = slots
        self.naming = naming or [PLAIN_NAMING]
        self.names = names
        self.tr = translator(names)
        self.by_label = {label(s, self.tr): i + 1 for i, s in enumerate(slots)}
        if len(self.by_label) != len(slots):
            raise tlc.MachineryError("slot labels are not unique")
        self.root = root
        self.metrics, self.reporter, self.config, self.console = metrics, reporter, config, console
        # what rally.main does before `esrally compare` (colours on unless TERM=dumb)
        term = os.environ.get("TERM")
        os.environ["TERM"] = "xterm"
        console.init(quiet=False, assume_tty=True)
        if term is None:
            os.environ.pop("TERM")
        else:
            os.environ["TERM"] = term
        if console.format is not console.RichFormat:
            raise tlc.MachineryError("console colours could not be enabled")

    def cfg(self, proc, fmt="markdown", path=""):
        c = self.config.Config()
        S = self.config.Scope.application
        c.add(S, "system", "env.name", "verif")
        c.add(S, "node", "root.dir", self.root)
        c.add(S, "node", "rally.cwd", self.root)
        c.add(S, "reporting", "datastore.type", "in-memory")
        c.add(S, "reporting", "output.path", path)
        c.add(S, "reporting", "format", fmt)
        c.add(S, "reporting", "numbers.align", "decimal")
        c.add(S, "reporting", "output.processingtime", bool(proc))
        return c

    def store(self, cfg, race_id, results):
        class Challenge:
            auto_generated = False
            meta_data = {}

            def __str__(self):
                return "verif-challenge"

        cfg.add(self.config.Scope.application, "system", "race.id", race_id)
        race = self.metrics.Race(
            "2.x", None, "verif", race_id, datetime.datetime(2020, 1, 2, 3, 4, 5), "benchmark-only", {"intention": race_id},
            "verif-track", None, Challenge(), ["defaults"], None, None, results=self.metrics.GlobalStats(results), meta_data={},
        )
        self.metrics.race_store(cfg).store_race(race)

    def row(self, r, D, full):
        if len(r) != 7:
            raise tlc.MachineryError("row does not have 7 columns: %r" % (r,))
        dc, dt = colour_of(r[4])
        pc, pt = colour_of(r[6])
        o = {
            "s": self.by_label.get((str(r[0]), str(r[1])), 0),
            "u": str(r[5]),
            "b": over_d(r[2], D),
            "c": over_d(r[3], D),
            "d": parse_number(dt, False),
            "p": parse_number(pt, True),
            "dc": dc,
            "pc": pc,
        }
        if full:
            o.update({"m": str(r[0]), "t": str(r[1]), "dt": dt, "pt": pt})
        return o

    def table(self, rep, x, y, plain, D, full=False):
        # ML / transform lines are appended without the non-empty filter: a None statistic (never written by Rally itself)
        # yields an empty list, rendered as an empty table line; it lists nothing and is skipped here
        return [self.row(r, D, full) for r in rep._metrics_table(x, y, plain=plain) if r]  # pylint: disable=protected-access

    def run(self, B, C, proc, D):
        """One `esrally compare`: returns the item fields for TraceCompare.tla."""
        cfg = self.cfg(proc)
        self.store(cfg, "baseline", build_results(self.slots, B, D, self.naming, self.tr))
        self.store(cfg, "contender", build_results(self.slots, C, D, self.naming, self.tr))
        store = self.metrics.race_store(cfg)
        r1, r2 = store.find_by_race_id("baseline"), store.find_by_race_id("contender")
        bs, cs = self.metrics.GlobalStats(r1.results), self.metrics.GlobalStats(r2.results)
        rep = self.reporter.ComparisonReporter(cfg)
        item = {
            "fwd": self.table(rep, bs, cs, False, D, full=True),
            "plain": self.table(rep, bs, cs, True, D, full=True),
            "swp": self.table(rep, cs, bs, False, D),
            "selfb": self.table(rep, bs, bs, False, D),
            "selfc": self.table(rep, cs, cs, False, D),
        }
        where = {}
        for k, r in enumerate(item["swp"]):
            where.setdefault(r["s"], k + 1)
        item["pairing"] = [where.get(r["s"], 0) if r["s"] else 0 for r in item["fwd"]]
        for fmt, key in (("markdown", "md"), ("csv", "csv")):
            item[key] = self.report(proc, fmt, r1, r2)
        return item

    def report(self, proc, fmt, r1, r2):
        path = os.path.join(self.root, "report." + fmt)
        if os.path.exists(path):
            os.remove(path)
        cfg = self.cfg(proc, fmt, path)
        buf = io.StringIO()
        failure = None
        try:
            with contextlib.redirect_stdout(buf):
                self.reporter.ComparisonReporter(cfg).report(r1, r2)
        except Exception as ex:  # pylint: disable=broad-except
            failure = ex
        console_text = buf.getvalue()
        banner = self.reporter.FINAL_SCORE
        at = console_text.find(banner)
        if failure is not None and (at < 0 or "Metric" not in console_text[at:]):
            raise failure  # nothing was reported at all: the comparison did not complete
        if at < 0:
            raise tlc.MachineryError("banner not found in console output")
        # the console table is out; whatever the report file contains now (possibly truncated) is the file output
        file_text = ""
        if os.path.exists(path):
            with open(path, "r", encoding="utf-8", errors="replace", newline="") as f:
                file_text = f.read()
        nl = console_text.index("\n", at + len(banner))
        table_text = console_text[nl + 1 :]
        if fmt == "csv":
            table_text = table_text.replace("\r\n", "\n")
            file_cmp = file_text.replace("\r\n", "\n")
        else:
            file_cmp = file_text
        # print() appends one newline to the rendered table
        eq = strip_ansi(table_text) == file_cmp + "\n"
        crows_raw = _rows(table_text, fmt)
        return {
            "exc": "" if failure is None else "%s: %s" % (type(failure).__name__, str(failure)[:160]),
            "eq": bool(eq),
            "esc": file_text.count("\x1b"),
            "frows": _rows(file_text, fmt),
            "crows": [[colour_of(c)[1] for c in r] for r in crows_raw],
            "ccols": [[colour_of(r[4])[0], colour_of(r[6])[0]] if len(r) == 7 else ["?", "?"] for r in crows_raw],
        }


def _rows(text, fmt):
    """data rows (without header) of a rendered table as lists of trimmed cell strings."""
    if fmt == "csv":
        rows = [r for r in csv.reader(io.StringIO(text)) if r and any(r)]
        return [[c for c in r] for r in rows[1:]]
    lines = [ln for ln in text.split("\n") if ln.startswith("|")]
    rows = [[c.strip() for c in ln.strip()[1:-1].split("|")] for ln in lines[2:]]
    return [r for r in rows if any(r)]
