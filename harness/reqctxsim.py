"""Executing request-context scenarios (property C18) on the REAL esrally code under a virtual clock and recording them.

Two executors, one observation layer:

* run_script(script):    coroutines scripted step by step (Enter / WireStart / WireEnd / Exit / Spawn / Join) use the real
                         esrally.client.context.RequestContextHolder / RequestContextManager (`with holder.new_request_context()`,
                         `holder.on_request_start()`, `asyncio.create_task`) in exactly the scripted global order.
* run_composite(case):   real driver.AsyncExecutor instances (one per client, all in one event loop) run the registered
                         `composite` runner (runner.Composite -> RequestTiming -> raw-request / search / paginated-search / sleep)
                         against a scripted fake Elasticsearch client; the samples handed to the real Sampler are recorded, too.

Observation (Recorder): the holder object handed to the code under test is an instance of a SUBCLASS of the real
RequestContextHolder that calls the real implementation first and then writes an event; request context managers are the
real ones behind a delegating proxy.  asyncio task creation / completion is seen through the loop's task factory.  After
every event all timing dicts of all clients are compared with the previous snapshot (`d`).

Time: ticks, TPS ticks per second (a power of two, so that virtual instants are exact floats).
"""
import asyncio
import contextvars
import io
import json
import random
import threading

from . import tlc
from .vclock import VirtualClock, VirtualLoop

TPS = 64
ABSENT = -1
NONE = -2
UNKNOWN = -9
MAX_TASKS = 128  # TraceTasks in TraceReqContext.tla
_MISSING = object()


def ticks(x):
    if x is None:
        return NONE
    return int(round(x * TPS))


class _StableTimer(asyncio.TimerHandle):
    """Timers due at the same virtual instant fire in the order in which they were scheduled."""

    __slots__ = ("_seq",)

    def __init__(self, when, seq, callback, args, loop, context=None):
        super().__init__(when, callback, args, loop, context)
        self._seq = seq

    def _key(self):
        return (self._when, self._seq)

    def __lt__(self, other):
        return self._key() < other._key()

    def __le__(self, other):
        return self._key() <= other._key()

    def __gt__(self, other):
        return self._key() > other._key()

    def __ge__(self, other):
        return self._key() >= other._key()

    def __eq__(self, other):
        return self is other

    __hash__ = asyncio.TimerHandle.__hash__


class StableVirtualLoop(VirtualLoop):
    """heapq is not stable: with plain TimerHandles the order of two timers of ONE client that are due at the same virtual instant
    depends on what else is in the heap, i.e. on the other clients.  Exact ties are an artefact of virtual time; breaking them by
    scheduling order makes the relative order of a client's own callbacks independent of the presence of other clients."""

    def __init__(self, clock):
        super().__init__(clock)
        self._timer_seq = 0

    def call_at(self, when, callback, *args, context=None):
        import heapq

        self._check_closed()
        self._timer_seq += 1
        timer = _StableTimer(when, self._timer_seq, callback, args, self, context)
        heapq.heappush(self._scheduled, timer)
        timer._scheduled = True  # pylint: disable=protected-access
        return timer


class CodeRaised(Exception):
    """The code under test raised where the usage discipline does not allow for it."""


# ---------------------------------------------------------------------------------------------------
# observation
# ---------------------------------------------------------------------------------------------------
class Recorder:
    def __init__(self, var, clock):
        self.var = var  # RequestContextHolder.request_context
        self.clock = clock
        self.mgrs = []  # real RequestContextManager objects, context id = index + 1
        self.dict_id = {}
        self.snap = []
        self.events = []
        self.tasks = {}  # asyncio task -> id
        self.parent = {}  # task id -> parent task id
        self.task_obj = {}
        self.crash = None
        self.wire_ctx = []  # (context id the variable pointed to, name hint) per WireStart, for linking sub-requests
        self.hint = None

    # -- tasks
    def factory(self, loop, coro, **kw):
        task = asyncio.Task(coro, loop=loop, **kw)
        parent = asyncio.current_task(loop)
        tid = len(self.tasks) + 1
        if tid > MAX_TASKS:
            raise tlc.MachineryError("more than %d asyncio tasks in one scenario" % MAX_TASKS)
        self.tasks[task] = tid
        self.task_obj[tid] = task
        if parent is not None and parent in self.tasks:
            pid = self.tasks[parent]
            self.parent[tid] = pid
            self.event("Spawn", pid, u=tid, ucur=self.cur_of(task))
            task.add_done_callback(self._done)
        else:
            self.parent[tid] = 0
        return task

    def _done(self, task):
        tid = self.tasks[task]
        self.event("Join", self.parent[tid], u=tid)

    def me(self):
        t = asyncio.current_task()
        if t not in self.tasks:
            raise tlc.MachineryError("event in an unknown asyncio task")
        return self.tasks[t]

    # -- contexts
    def register(self, mgr):
        self.mgrs.append(mgr)
        n = len(self.mgrs)
        self.dict_id[id(mgr.ctx)] = n
        self.snap.append(None)
        return n

    def ptr(self, value):
        if value is _MISSING or value is contextvars.Token.MISSING:
            return 0
        return self.dict_id.get(id(value), UNKNOWN)

    def cur_of(self, task):
        return self.ptr(task.get_context().get(self.var, _MISSING))

    @staticmethod
    def raw(mgr):
        d = mgr.ctx

        def enc(v, key):
            if v is None:
                return NONE if isinstance(d, dict) and key in d else ABSENT
            return ticks(v)

        return [enc(mgr.request_start, "request_start"), enc(mgr.request_end, "request_end")]

    def delta(self):
        res = []
        for i, m in enumerate(self.mgrs):
            r = self.raw(m)
            if self.snap[i] != r:
                self.snap[i] = r
                res.append([i + 1] + r)
        return res

    def event(self, a, t, u=0, last=False, ucur=0, par=0, raised=False):
        ev = {
            "a": a,
            "t": t,
            "u": u,
            "last": bool(last),
            "raised": bool(raised),
            "tau": ticks(self.clock.now),
            "cur": self.cur_of(self.task_obj[t]),
            "ucur": ucur,
            "par": par,
            "d": self.delta(),
            "n": 0,
            "rs": 0,
            "st": 0,
            "ok": True,
            "deps": [],
        }
        self.events.append(ev)
        return ev

    def sample(self, t, n, rs, st, ok, deps):
        # solo / solodeps: filled in by the driver for requests of cases with several clients (same client executed alone)
        self.events.append(
            {
                "a": "Sample",
                "t": t,
                "u": 0,
                "last": False,
                "raised": False,
                "tau": ticks(self.clock.now),
                "cur": 0,
                "ucur": 0,
                "par": 0,
                "d": [],
                "n": n,
                "rs": rs,
                "st": st,
                "ok": bool(ok),
                "deps": deps,
                "solo": [rs, st],
                "solodeps": [list(d) for d in deps],
            }
        )



class ObservedManager:
    """Delegating proxy around the real RequestContextManager."""

    def __init__(self, real, rec):
        self._real = real
        self._rec = rec
        self.n = 0

    def __enter__(self):
        self._real.__enter__()
        rec = self._rec
        self.n = rec.register(self._real)
        rec.event("Enter", rec.me(), par=rec.ptr(self._real.token.old_value))
        return self

    def __exit__(self, exc_type, exc_val, exc_tb):
        r = self._real.__exit__(exc_type, exc_val, exc_tb)
        self._rec.event("Exit", self._rec.me(), raised=exc_type is not None)
        return r

    @property
    def request_start(self):
        return self._real.request_start

    @property
    def request_end(self):
        return self._real.request_end

    def __getattr__(self, name):
        return getattr(self._real, name)


def make_observed_holder_class():
    from esrally.client import context

    class ObservedHolder(context.RequestContextHolder):
        """What the code under test gets as `es`: the real holder plus event recording after each real call."""

        def __init__(self, rec):
            self._rec = rec
            self.end_is_last = True

        def new_request_context(self):
            return ObservedManager(super().new_request_context(), self._rec)

        def on_request_start(self):  # pylint: disable=arguments-differ
            super().on_request_start()
            rec = self._rec
            ev = rec.event("WireStart", rec.me())
            rec.wire_ctx.append((ev["cur"], rec.hint))

        def on_request_end(self):  # pylint: disable=arguments-differ
            super().on_request_end()
            self._rec.event("WireEnd", self._rec.me(), last=self.end_is_last)

    return ObservedHolder


# ---------------------------------------------------------------------------------------------------
# structure of a scenario (mirror of the G / S parts of ReqContext.tla; used to complete and to generate scripts)
# ---------------------------------------------------------------------------------------------------
class Struct:
    def __init__(self, roots):
        self.ts = {r: "run" for r in roots}
        self.tpar = {r: 0 for r in roots}
        self.scope = {r: [] for r in roots}
        self.base = {r: 0 for r in roots}
        self.nctx = 0
        self.open = {}
        self.clock = 0
        self.ntasks = len(roots)

    def live(self, t):
        return self.ts[t] in ("run", "wire")

    def kids(self, t):
        return [u for u in self.ts if self.tpar[u] == t and self.live(u)]

    def can_exit(self, t):
        return self.ts[t] == "run" and len(self.scope[t]) > self.base[t] and all(self.base[u] < len(self.scope[t]) for u in self.kids(t))

    def can_join(self, u):
        return self.tpar[u] != 0 and self.ts[u] == "run" and len(self.scope[u]) == self.base[u] and not self.kids(u)

    def apply(self, step):
        a, t, u, last, tau = step
        if a == "Enter":
            self.nctx += 1
            self.scope[t].append(self.nctx)
            self.open[self.nctx] = True
        elif a == "WireStart":
            self.ts[t] = "wire"
            self.clock = tau
        elif a == "WireEnd":
            if last:
                self.ts[t] = "run"
            self.clock = tau
        elif a == "Exit":
            self.open[self.scope[t].pop()] = False
        elif a == "Spawn":
            self.ntasks += 1
            if u != self.ntasks:
                raise tlc.MachineryError("script spawns task %d, expected %d" % (u, self.ntasks))
            self.ts[u] = "run"
            self.tpar[u] = t
            self.scope[u] = list(self.scope[t])
            self.base[u] = len(self.scope[t])
        elif a == "Join":
            self.ts[u] = "done"
        else:
            raise tlc.MachineryError("unknown step %r" % (step,))

    def closing(self, rnd=None, p_raise=0.0):
        """Steps that bring the scenario nearer to its end: finish wire requests, join finished children, leave blocks
        (flag of an Exit: the block is left by an exception)."""
        res = []
        for t in sorted(self.ts):
            if self.ts[t] == "wire":
                res.append(("WireEnd", t, 0, True))
            if self.can_exit(t):
                res.append(("Exit", t, 0, bool(rnd is not None and rnd.random() < p_raise)))
            if self.can_join(t):
                res.append(("Join", self.tpar[t], t, False))
        return res

    def finished(self):
        return all((self.ts[t] == "done") if self.tpar[t] else (self.ts[t] == "run" and not self.scope[t]) for t in self.ts)


def complete(roots, steps, rnd, tie=0.0, p_raise=0.0):
    """Append closing steps (in a seeded random order) until every block is left and every child task is joined."""
    st = Struct(roots)
    for s in steps:
        st.apply(s)
    steps = list(steps)
    guard = 0
    while not st.finished():
        cl = st.closing(rnd, p_raise)
        if not cl:
            raise tlc.MachineryError("scenario cannot be completed")
        a, t, u, last = rnd.choice(cl)
        tau = st.clock
        if a == "WireEnd":
            tau = st.clock + (0 if rnd.random() < tie else 1)
        step = (a, t, u, last, tau)
        st.apply(step)
        steps.append(step)
        guard += 1
        if guard > 10000:
            raise tlc.MachineryError("completion does not terminate")
    return steps


def random_script(rnd, max_roots=3, max_tasks=8, max_ctx=10, max_depth=4, max_wire=10, max_steps=60, tie=0.15):
    """A scenario that is not derived from TLC: random walk over the enabled steps, with ties between instants."""
    roots = list(range(1, rnd.randint(1, max_roots) + 1))
    st = Struct(roots)
    steps = []
    nwire = 0
    n = rnd.randint(4, max_steps)
    w_enter, w_wire, w_spawn = rnd.choice([(3, 3, 2), (2, 4, 1), (4, 2, 3)])
    p_raise = rnd.choice([0.0, 0.2, 0.5])
    for _ in range(n):
        en = []
        for t in sorted(st.ts):
            if st.ts[t] == "run":
                if st.nctx < max_ctx and len(st.scope[t]) < max_depth:
                    en += [("Enter", t, 0, False)] * w_enter
                if st.scope[t] and nwire < max_wire:
                    en += [("WireStart", t, 0, False)] * w_wire
                if st.ntasks < max_tasks and len(st.kids(t)) < 3:
                    en += [("Spawn", t, st.ntasks + 1, False)] * w_spawn
            if st.ts[t] == "wire":
                en += [("WireEnd", t, 0, True)] * 3 + [("WireEnd", t, 0, False)]
        en += st.closing(rnd, p_raise) * 2
        if not en:
            break
        a, t, u, last = rnd.choice(en)
        tau = st.clock
        if a in ("WireStart", "WireEnd"):
            tau = st.clock + (0 if rnd.random() < tie else rnd.choice([1, 1, 2, 7]))
            if a == "WireStart":
                nwire += 1
        step = (a, t, u, last, tau)
        st.apply(step)
        steps.append(step)
    return {"kind": "script", "roots": roots, "steps": [list(s) for s in complete(roots, steps, rnd, tie, p_raise)]}


# ---------------------------------------------------------------------------------------------------
# executor 1: scripted coroutines on the real holder
# ---------------------------------------------------------------------------------------------------
def _step_loop(loop):
    loop.run_ready()


class _SubRequestFailed(Exception):
    pass


def run_script(script):
    """Returns {"roots", "ev", "crash"}; raises MachineryError when the script itself is not executable."""
    roots = list(script["roots"])
    steps = [tuple(s) for s in script["steps"]]
    clock = VirtualClock()
    Holder = make_observed_holder_class()
    from esrally.client import context

    rec = Recorder(context.RequestContextHolder.request_context, clock)
    H = Holder(rec)
    queues = {}
    children = {}

    async def block(t, depth):
        while True:
            st = await queues[t].get()
            a = st[0]
            if a == "Enter":
                try:
                    with H.new_request_context():
                        if await block(t, depth + 1):
                            # the sub-request failed: the exception leaves the block and is handled by the enclosing code
                            raise _SubRequestFailed()
                except _SubRequestFailed:
                    pass
                # the `with` statement has just left the block (Exit recorded by the proxy)
            elif a == "Exit":
                if depth == 0:
                    raise tlc.MachineryError("Exit without block in task %d" % t)
                return bool(st[3])
            elif a == "WireStart":
                H.on_request_start()
            elif a == "WireEnd":
                H.end_is_last = bool(st[3])
                H.on_request_end()
            elif a == "Spawn":
                u = st[2]
                queues[u] = asyncio.Queue()
                children[u] = asyncio.create_task(body(u))
            elif a == "Join":
                await children[st[2]]
            elif a == "Finish":
                if depth != 0:
                    raise tlc.MachineryError("task %d finishes inside a block" % t)
                return False
            else:
                raise tlc.MachineryError("unknown step %r" % (st,))

    async def body(t):
        try:
            await block(t, 0)
        except tlc.MachineryError:
            raise
        except BaseException as ex:  # pylint: disable=broad-except
            if rec.crash is None:
                rec.crash = "%s: %s" % (type(ex).__name__, ex)
            raise

    loop = StableVirtualLoop(clock)
    loop.set_exception_handler(lambda lp, c: None)
    loop.set_task_factory(rec.factory)
    with clock:
        try:
            asyncio.set_event_loop(loop)
            root_tasks = {}
            for r in roots:
                queues[r] = asyncio.Queue()
                root_tasks[r] = loop.create_task(body(r))
                if rec.tasks[root_tasks[r]] != r:
                    raise tlc.MachineryError("root ids must be 1..n")
            _step_loop(loop)
            for st in steps:
                a, t, u, _last, tau = st
                clock.now = tau / TPS
                before = len(rec.events)
                if a == "Join":
                    queues[u].put_nowait(("Finish",))
                    _step_loop(loop)
                queues[t].put_nowait(st)
                _step_loop(loop)
                if rec.crash is not None:
                    break
                new = rec.events[before:]
                if len(new) != 1 or new[0]["a"] != a or new[0]["t"] != t or new[0]["u"] != u or (a == "Exit" and new[0]["raised"] != bool(st[3])):
                    raise tlc.MachineryError("step %r produced events %r" % (st, [(e["a"], e["t"], e["u"]) for e in new]))
            if rec.crash is None:
                for r in roots:
                    queues[r].put_nowait(("Finish",))
                _step_loop(loop)
                for r in roots:
                    if not root_tasks[r].done():
                        raise tlc.MachineryError("root task %d did not finish" % r)
                    root_tasks[r].result()
            events = list(rec.events)
        finally:
            try:
                for t in asyncio.all_tasks(loop):
                    t.cancel()
                _step_loop(loop)
            except Exception:  # pylint: disable=broad-except
                pass
            asyncio.set_event_loop(None)
            loop.close()
    return {"roots": roots, "ev": events, "crash": rec.crash}


# ---------------------------------------------------------------------------------------------------
# executor 2: AsyncExecutor + composite runner + fake Elasticsearch
# ---------------------------------------------------------------------------------------------------
_SEARCH_BODY = '{"took":1,"timed_out":false,"hits":{"total":{"value":%d,"relation":"eq"},"hits":[{"_id":"1","sort":[%d]}]}}'


def make_fake_es_class():
    Holder = make_observed_holder_class()

    class FakeEs(Holder):
        """Scripted Elasticsearch: the latencies of every wire request come from the case."""

        def __init__(self, rec, ops):
            super().__init__(rec)
            self.ops = ops  # name -> op description
            self.count = {}

        def options(self, **kw):
            return self

        async def close(self):
            return None

        async def perform_request(self, method="GET", path="/", headers=None, body=None, params=None, **kw):
            name = path.strip("/").split("/")[0]
            op = self.ops[name]
            k = self.count.get(name, 0)
            self.count[name] = k + 1
            pre, lat, chunks = op["reqs"][k]
            fail = op.get("fail") if k == len(op["reqs"]) - 1 else None
            if pre:
                await asyncio.sleep(pre / TPS)
            self._rec.hint = name
            self.on_request_start()
            self._rec.hint = None
            try:
                # response chunks: on_request_end is called for every chunk (aiohttp on_response_chunk_received)
                done = 0
                for c in chunks:
                    await asyncio.sleep((c - done) / TPS)
                    done = c
                    self.end_is_last = False
                    self.on_request_end()
                    self.end_is_last = True
                await asyncio.sleep((lat - done) / TPS)
            finally:
                # also the client's on_request_exception hook ends the request
                self.end_is_last = True
                self.on_request_end()
            if fail:
                raise _es_error(fail, name)
            total = len(op["reqs"])
            return io.BytesIO((_SEARCH_BODY % (total, k + 1)).encode("utf-8"))

    return FakeEs


def _es_error(kind, name):
    import elastic_transport
    import elasticsearch

    if kind == "timeout":
        return elasticsearch.ConnectionTimeout("verif timeout in %s" % name)
    meta = elastic_transport.ApiResponseMeta(
        status=429 if kind == "api429" else 400, http_version="1.1", headers=elastic_transport.HttpHeaders(), duration=0.0, node=elastic_transport.NodeConfig("http", "verif", 9200)
    )
    return elasticsearch.ApiError("verif api error in %s" % name, meta, {"error": "verif"})


def _collect_ops(items, acc):
    for it in items:
        if "stream" in it:
            _collect_ops(it["stream"], acc)
        else:
            if it["name"] in acc:
                raise tlc.MachineryError("duplicate operation name in case")
            acc[it["name"]] = it


def _to_requests(items):
    res = []
    for it in items:
        if "stream" in it:
            res.append({"stream": _to_requests(it["stream"])})
            continue
        op = it["op"]
        name = it["name"]
        if op == "raw-request":
            res.append({"operation-type": "raw-request", "name": name, "path": "/%s/_raw" % name, "method": "GET"})
        elif op == "search":
            res.append({"operation-type": "search", "name": name, "index": name, "body": {"query": {"match_all": {}}}})
        elif op == "paginated-search":
            res.append(
                {
                    "operation-type": "paginated-search",
                    "name": name,
                    "index": name,
                    "pages": len(it["reqs"]),
                    "results-per-page": 1,
                    "body": {"query": {"match_all": {}}, "sort": [{"f": "asc"}]},
                }
            )
        elif op == "sleep":
            res.append({"operation-type": "sleep", "name": name, "duration": it["dur"] / TPS})
        else:
            raise tlc.MachineryError("unknown op %r" % op)
    return res


class _Schedule:
    """Stands in for driver.ScheduleHandle: yields the scripted composite requests of one client."""

    ramp_up_wait_time = 0

    def __init__(self, runner, iters, sample_type):
        self.runner = runner
        self.iters = iters
        self.sample_type = sample_type

    def start(self):
        pass

    def before_request(self, now):
        pass

    def after_request(self, now, weight, unit, meta):
        pass

    def __call__(self):
        return self._gen()

    async def _gen(self):
        n = len(self.iters)
        for i, it in enumerate(self.iters):
            params = {"operation-type": "composite", "name": "composite", "requests": _to_requests(it["requests"])}
            if it.get("max_conn"):
                params["max-connections"] = it["max_conn"]
            yield it.get("at", 0) / TPS, self.sample_type, (i + 1) / n, self.runner, params


_registered = False


def _composite_runner():
    global _registered
    from esrally.driver import runner

    if not _registered:
        runner.register_default_runners()
        _registered = True
    return runner.runner_for("composite")


def run_composite(case):
    """case: {"clients": [{"iters": [{"at": ticks, "max_conn": k, "requests": [item...]}]}]}  ->  {"roots", "ev", "crash"}"""
    from . import racesim

    racesim.ensure_rally_home()
    from esrally import metrics
    from esrally.client import context
    from esrally.driver import driver
    from esrally.track import track

    clock = VirtualClock()
    rec = Recorder(context.RequestContextHolder.request_context, clock)
    FakeEs = make_fake_es_class()
    crunner = _composite_runner()
    loop = StableVirtualLoop(clock)
    loop.set_exception_handler(lambda lp, c: None)
    loop.set_task_factory(rec.factory)
    nclients = len(case["clients"])
    with clock:
        try:
            asyncio.set_event_loop(loop)
            sampler = driver.Sampler(start_timestamp=0.0)
            execs = []
            ess = []
            for ci, cl in enumerate(case["clients"]):
                ops = {}
                for it in cl["iters"]:
                    _collect_ops(it["requests"], ops)
                es = FakeEs(rec, ops)
                ess.append(es)
                op = track.Operation(name="composite", operation_type="composite", params={})
                task = track.Task(name="c18", operation=op, clients=nclients, warmup_iterations=0, iterations=len(cl["iters"]))
                sched = _Schedule(crunner, cl["iters"], metrics.SampleType.Normal)
                ex = driver.AsyncExecutor(ci, task, sched, {"default": es}, sampler, threading.Event(), threading.Event(), "continue")
                execs.append(loop.create_task(ex()))
            steps = 0
            while not all(t.done() for t in execs):
                loop.run_ready()
                if all(t.done() for t in execs):
                    break
                nt = loop.next_timer()
                if nt is None:
                    raise tlc.MachineryError("composite case is blocked forever")
                clock.advance_to(nt)
                steps += 1
                if steps > 100000:
                    raise tlc.MachineryError("too many virtual-time steps")
            for t in execs:
                ex_ = t.exception()
                if ex_ is not None and rec.crash is None:
                    rec.crash = "%s: %s" % (type(ex_).__name__, ex_)
            # what reached the sampler, in the order the requests were finished; link each sample to its top-level context
            tops = {}
            for i, ev in enumerate(rec.events):
                if ev["a"] == "Enter" and ev["par"] == 0:
                    tops.setdefault(ev["t"], []).append(sum(1 for e in rec.events[: i + 1] if e["a"] == "Enter"))
            name_ctx = {}
            for cid, hint in rec.wire_ctx:
                if hint is not None:
                    name_ctx.setdefault(hint, cid)
            per_client = {}
            for s in sampler.samples:
                k = per_client.get(s.client_id, 0)
                per_client[s.client_id] = k + 1
                root = s.client_id + 1
                n = tops.get(root, [])[k] if k < len(tops.get(root, [])) else 0
                deps = []
                for d in s._dependent_timing or []:  # pylint: disable=protected-access
                    tm = d["dependent_timing"]
                    deps.append(
                        [
                            name_ctx.get(tm.get("operation"), 0),
                            ticks(tm["request_start"]),
                            ticks(tm["request_end"]),
                            ticks(tm["service_time"]),
                            ticks(tm["absolute_time"] - VirtualClock.EPOCH),
                        ]
                    )
                rec.sample(root, n, ticks(s.request_start), ticks(s.service_time), bool((s.request_meta_data or {}).get("success", True)), deps)
            events = list(rec.events)
        finally:
            try:
                for t in asyncio.all_tasks(loop):
                    t.cancel()
                loop.run_ready()
            except Exception:  # pylint: disable=broad-except
                pass
            asyncio.set_event_loop(None)
            loop.close()
    return {"roots": list(range(1, nclients + 1)), "ev": events, "crash": rec.crash}


# ---------------------------------------------------------------------------------------------------
# composite cases
# ---------------------------------------------------------------------------------------------------
def composite_from_script(script, rnd):
    """Projects a scripted scenario onto what a composite operation can express: per client and top-level context one
    composite request whose streams are the tasks that issued wire requests; every wire request keeps its instants."""
    roots = list(script["roots"])
    st = Struct(roots)
    root_of = {r: r for r in roots}
    fly = {}
    groups = {}  # (root, top ctx) -> {task: [[s, e, chunks, innermost ctx]]}
    order = []
    raised_ctx = set()
    for step in script["steps"]:
        a, t, u, last, tau = step
        if a == "Spawn":
            root_of[u] = root_of[t]
        if a == "WireStart":
            top = st.scope[t][0]
            key = (root_of[t], top)
            if key not in groups:
                groups[key] = {}
                order.append(key)
            fly[t] = (key, tau, [], st.scope[t][-1])
        if a == "WireEnd":
            key, s, chunks, inner = fly[t]
            if last:
                groups[key].setdefault(t, []).append([s, tau, [c for c in chunks if c < tau], inner])
                del fly[t]
            else:
                chunks.append(tau)
        if a == "Exit" and last:
            raised_ctx.add(st.scope[t][-1])
        st.apply(tuple(step))
    clients = []
    nm = [0]
    # mostly no connection limit (the instants of the scenario are reproduced exactly); sometimes one small limit for every request
    # of every client: streams then queue for the connections of THEIR client
    limit = rnd.choice([0, 0, 0, 1, 2])

    def name():
        nm[0] += 1
        return "o%d" % nm[0]

    for r in roots:
        iters = []
        t0 = 0
        for key in order:
            if key[0] != r:
                continue
            streams = []
            end_all = t0
            # one sub-request whose block was left by an exception in the scenario fails (timeout / API error): the one that ends
            # last (every other stream has finished, the composite ends with it) or any of them (other streams are in flight:
            # Composite has to stop and await them; later sub-requests of the scenario are not issued)
            allw = [w for t in groups[key] for w in groups[key][t]]
            cand = [w for w in allw if w[3] in raised_ctx]
            latest = max(w[1] for w in allw)
            last = [w for w in cand if w[1] == latest]
            failing = (last[0] if last and rnd.random() < 0.5 else rnd.choice(cand)) if cand else None
            for t in sorted(groups[key]):
                prev = t0
                ops = []
                wires = groups[key][t]
                i = 0
                while i < len(wires):
                    k = 1
                    if i + 1 < len(wires) and wires[i] is not failing and rnd.random() < 0.4:
                        k = 2
                    reqs = []
                    for s, e, chunks, _inner in wires[i : i + k]:
                        reqs.append([s - prev, e - s, sorted({c - s for c in chunks if 0 <= c - s < e - s})])
                        prev = e
                    op = "paginated-search" if k > 1 else rnd.choice(["raw-request", "search", "paginated-search"])
                    item = {"op": op, "name": name(), "reqs": reqs}
                    if failing is not None and any(w is failing for w in wires[i : i + k]):
                        item["fail"] = rnd.choice(["timeout", "api400", "api429"])
                    ops.append(item)
                    i += k
                end_all = max(end_all, prev)
                streams.append({"stream": ops})
            if len(streams) > 2 and rnd.random() < 0.5:
                streams = [{"stream": streams[:2]}] + streams[2:]
            iters.append({"at": 0, "max_conn": limit, "requests": streams})
            t0 = end_all
        if iters:
            clients.append({"iters": iters})
    if not clients:
        return None
    return {"kind": "composite", "clients": clients}


def random_composite(rnd, max_clients=3):
    """A composite case that is not derived from TLC: leading / trailing operations, nested streams, sleeps,
    connection limits, several requests per client, throttled start of later requests."""
    nm = [0]

    def name():
        nm[0] += 1
        return "o%d" % nm[0]

    def op():
        kind = rnd.choice(["raw-request", "raw-request", "search", "paginated-search", "sleep"])
        if kind == "sleep":
            return {"op": "sleep", "name": name(), "dur": rnd.choice([1, 2, 3, 5, 8])}
        k = rnd.randint(2, 3) if kind == "paginated-search" else 1
        reqs = []
        for _ in range(k):
            lat = rnd.choice([1, 2, 3, 4, 6, 9, 13])
            nchunks = rnd.choice([0, 0, 0, 1, 2])
            chunks = sorted(rnd.sample(range(1, lat), min(nchunks, lat - 1))) if lat > 1 else []
            reqs.append([rnd.choice([0, 0, 0, 1, 2, 3]), lat, chunks])
        return {"op": kind, "name": name(), "reqs": reqs}

    budget = [0]

    def stream(depth):
        items = []
        for _ in range(rnd.randint(1, 3)):
            if depth < 2 and budget[0] > 0 and rnd.random() < 0.45:
                for _k in range(rnd.randint(1, 3)):
                    if budget[0] > 0:
                        budget[0] -= 1
                        items.append({"stream": stream(depth + 1)})
            else:
                items.append(op())
        if not items:
            items.append(op())
        return items

    def all_ops(items, top, acc):
        for it in items:
            if "stream" in it:
                all_ops(it["stream"], False, acc)
            elif it["op"] != "sleep":
                acc.append((it, top))

    clients = []
    # half of the cases: one small connection limit for all requests of all clients (the limit is reached, several clients use the
    # same value at the same time); otherwise a limit per request
    common = rnd.choice([None, None, 1, 2])
    for _ in range(rnd.randint(1, max_clients)):
        iters = []
        at = 0
        for _i in range(rnd.randint(1, 3)):
            budget[0] = 8
            requests = stream(0)
            if rnd.random() < 0.4:
                # one sub-request of this composite request fails; mostly one that is a direct item of the
                # request list (all earlier streams have been awaited, nothing else is in flight)
                cand = []
                all_ops(requests, True, cand)
                direct = [c for c in cand if c[1]]
                pick = rnd.choice(direct) if direct and rnd.random() < 0.7 else (rnd.choice(cand) if cand else None)
                if pick:
                    pick[0]["fail"] = rnd.choice(["timeout", "api400", "api429"])
            iters.append({"at": at, "max_conn": common if common else rnd.choice([0, 0, 1, 2, 3]), "requests": requests})
            at = 0 if rnd.random() < 0.5 else at + rnd.choice([3, 10, 25])
        clients.append({"iters": iters})
    return {"kind": "composite", "clients": clients}


def dumps(obj):
    return json.dumps(obj, sort_keys=True)


def rng(seed):
    return random.Random(seed)
