"""C09, leg "prep": a track preparation task fails.

Specification specs/TrackPrep/TrackPrep.tla (DriverActor.prepare_track / TrackPreparationActor / TaskExecutionActor / the way a
failure reaches race control), harness prepsim.py (the REAL DriverActor, TrackPreparationActor, TaskExecutionActor below the REAL
BenchmarkActor under SimActorSystem; stub pool; processors through the real TrackProcessorRegistry).

  M    TrackPrep.quick.cfg (safety: PrepCompleteOnlyWhenAllDone, FailureNeverCompletes, FaultNeverSuccess, NoResultsOnFailure,
       NoStall), TrackPrep.live.cfg (liveness under fairness: FaultReported, Completes), TrackPrep.selftest.cfg (a changed executor
       must violate FailureNeverCompletes)
  S2C  TLC -simulate behaviours of TrackPrep.sim.cfg (scenario, fault placement, schedule) replayed on the real actors
  C2S  these and seeded random schedules (with and without a fault), every one validated by TLC against TraceTrackPrep.tla

run_prep_leg(ctx, out) is called by drivers/c09.py; `python -m harness.prepleg [quick|thorough]` runs the leg alone.
Violations carry clause names starting with "Prep" and signature {"leg": "prep", ...}.
"""
import glob
import os
import random
import re
import time

from . import prepsim, tlc, tracecheck
from .core import Violation
from .tlaparse import parse_value, to_json

CLAUSES = {"PrepFaultReported", "PrepNeverSuccess", "PrepNoResults"}
# evaluated on every trace but stronger than C09's wording (preparation is declared complete only when every task on every host
# finished, once): a failure is conformance drift, not a violation of C09
BEYOND = {"PrepCompleteOnlyWhenAllDone"}
KINDS = ["task", "seed", "plugin", "close"]
REQ = [1] * prepsim.REQUIRED

ASSUMPTIONS = [
    "prep leg: Thespian semantics as reproduced by harness/simactor.py; TaskExecutionActor.pool is a stub whose future the harness completes by running the task function; "
    "load_track / load_local_config / load_track_plugins are patched (harness processors are registered through the real TrackProcessorRegistry, whose three required "
    "processors contribute one no-op task each); the mechanic is a stub",
    "prep leg: at most one fault per race - a task raises (any processor, any position, any host), on_prepare_track raises, load_track_plugins raises in an executor - plus, "
    "for the PoisonMessage path, a task failure combined with Driver.close() raising while the first BenchmarkFailure is handled",
    "prep leg: 'in bounded time' = the failure has reached race control when the recorded race can make no further progress (model: liveness under weak fairness); "
    "every hop is a message, the only timer on the way is the executor's wake-up (0.5 s in test mode, 5 s otherwise)",
    "prep leg: the load phase that follows StartBenchmark is one abstract step of TrackPrep.tla (on the real code: the race is run to its end, 2 clients x 1 request)",
]


def _field(text, name):
    m = re.search(r"^/\\ %s = (.*?)(?=^/\\ |\Z)" % name, text, flags=re.M | re.S)
    return parse_value(m.group(1)) if m else None


def _states(text):
    parts = re.split(r"^STATE_\d+ ==\s*$", text, flags=re.M)[1:]
    return ["\n".join(ln for ln in st.splitlines() if not ln.startswith("\\*") and not ln.startswith("====")) for st in parts]


def model_check(ctx, out):
    cfgs = ["TrackPrep.quick.cfg", "TrackPrep.live.cfg"] if ctx.quick else ["TrackPrep.thorough.cfg", "TrackPrep.live.thorough.cfg"]
    for cfg in cfgs:
        wd = tlc.prepare_workdir("TrackPrep", "prepmc")
        res = tlc.run_tlc(wd, "MC_TrackPrep", cfg, timeout=120 if ctx.quick else 1500, allow_violation=True)
        out.add_tlc(res)
        if not res.ok:
            raise tlc.MachineryError("model violates %s in %s:\n%s" % (res.invariant_violated or res.property_violated or "deadlock", cfg, res.out[-2500:]))
        out.note("prep leg M %s: %d distinct states, depth %d, %.1fs" % (cfg, res.distinct, res.depth, res.wall_s))
    wd = tlc.prepare_workdir("TrackPrep", "prepself")
    res = tlc.run_tlc(wd, "MC_TrackPrep", "TrackPrep.selftest.cfg", timeout=120, allow_violation=True, workers=4)
    if res.ok or res.property_violated is None:
        raise tlc.MachineryError("self-test failed: the executor that carries on after a failed task (StuckAfterFailure=FALSE) should violate FailureNeverCompletes in the model")
    out.extra["prep_model_selftest"] = "variant StuckAfterFailure=FALSE (the executor reports the failed task and carries on asking for work) violates FailureNeverCompletes in the model, as expected"


def behaviours(ctx, out, num, depth=320):
    """TLC -simulate behaviours of TrackPrep.tla -> [(prep scenario incl. fault, script)]."""
    wd = tlc.prepare_workdir("TrackPrep", "prepsim")
    simdir = os.path.join(wd, "sim")
    os.makedirs(simdir)
    res = tlc.run_tlc(wd, "MC_TrackPrep", "TrackPrep.sim.cfg", workers=1, simulate={"num": num, "file": os.path.join(simdir, "b")}, depth=depth, seed=ctx.seed + 911, timeout=600)
    if not res.ok:
        raise tlc.MachineryError("simulation reported a model violation: %s" % res.out[-2000:])
    out.add_tlc(res)
    result = []
    for fn in sorted(glob.glob(os.path.join(simdir, "b_*"))):
        with open(fn, "r", encoding="utf-8") as f:
            states = _states(f.read())
        if not states:
            continue
        scn = to_json(_field(states[0], "scn"))
        flt = to_json(_field(states[0], "flt"))
        prep = {"H": scn["H"], "K": scn["K"], "procs": list(scn["procs"]), "flt": {k: flt[k] for k in ("kind", "h", "p", "x")}}
        script = []
        for st in states[1:]:
            a = _field(st, "act")
            script.append((str(a["name"]), int(a["h"]), int(a["k"])))
        result.append((prep, script))
    return result


def random_jobs(ctx, n_per_kind, n_ok):
    """Seeded random scenarios and fault placements (not derived from TLC)."""
    rnd = random.Random(ctx.seed + 4242)
    jobs = []

    def scenario():
        H, K = rnd.choice([(1, 1), (1, 2), (2, 1), (2, 2)])
        procs = REQ + [rnd.randint(0, 3) for _ in range(rnd.randint(1, 2))]
        return H, K, procs

    for kind in KINDS:
        for _ in range(n_per_kind):
            H, K, procs = scenario()
            h = rnd.randint(1, H)
            if kind in ("task", "close"):
                if rnd.random() < 0.7 and sum(procs[prepsim.REQUIRED :]) > 0:
                    p = rnd.choice([i + 1 for i in range(prepsim.REQUIRED, len(procs)) if procs[i] > 0])
                else:
                    p = rnd.randint(1, prepsim.REQUIRED)
                flt = {"kind": kind, "h": h, "p": p, "x": rnd.randint(1, procs[p - 1])}
            elif kind == "seed":
                flt = {"kind": kind, "h": h, "p": rnd.randint(1, len(procs)), "x": 0}
            else:
                flt = {"kind": kind, "h": h, "p": rnd.randint(1, len(procs)), "x": rnd.randint(1, K)}
            jobs.append({"prep": {"H": H, "K": K, "procs": procs, "flt": flt}, "script": [], "seed": ctx.seed + 7000 + len(jobs)})
    for i in range(n_ok):
        H, K, procs = scenario()
        prep = {"H": H, "K": K, "procs": procs, "flt": dict(prepsim.NO_FAULT)}
        if i % 3 == 2:
            prep["procs"] = REQ + [0]
            prep["default"] = True  # the real DefaultTrackPreparator on a track without corpora
        jobs.append({"prep": prep, "script": [], "seed": ctx.seed + 7000 + len(jobs)})
    return jobs


def run_jobs(ctx, out, jobs, label):
    """Runs every job on the real actors, validates all traces in one TLC run. Returns stats."""
    t0 = time.time()
    traces, index = [], {}
    stats = {"followed": 0, "skipped": 0, "fired": 0, "faulty": 0, "success": 0, "reported": 0, "events": 0, "max_report_ms": 0}
    for n, job in enumerate(jobs):
        tid = "%s-%d" % (label, n)
        tr = prepsim.PrepTrace(job["prep"], seed=job["seed"])
        try:
            tr.start()
            f, s = tr.run(job["script"], random.Random(job["seed"] * 7919 + 17))
            trace = tr.trace(tid)
            errors = list(tr.w.sim.handler_errors)
        finally:
            tr.close()
        last = trace["events"][-1]["st"]
        kind = job["prep"]["flt"]["kind"]
        stats["followed"] += f
        stats["skipped"] += s
        stats["events"] += len(trace["events"])
        if kind != "none":
            stats["faulty"] += 1
            stats["fired"] += 1 if last["flt"]["fired"] else 0
            stats["reported"] += 1 if last["rc"]["error"] else 0
            if trace["tReport"] >= 0 and trace["tFault"] >= 0:
                stats["max_report_ms"] = max(stats["max_report_ms"], trace["tReport"] - trace["tFault"])
        elif last["rc"]["replies"] == ["Success"] and last["rc"]["stored"]:
            stats["success"] += 1
        if errors and kind not in ("close",):
            out.drift.append("prep trace %s: handler raised: %s" % (tid, errors[0][2].strip().splitlines()[-1]))
        traces.append(trace)
        index[tid] = (job, trace)
        out.add_case({"leg": "prep", "prep": job["prep"], "sched": [(e["ev"], e["h"], e["k"]) for e in trace["events"]]}, nontrivial=len(trace["events"]) > 5)
    t1 = time.time()
    v = tracecheck.validate("TrackPrep", "TraceTrackPrep", "TraceTrackPrep.cfg", traces, name="preptrace", chunk=150, timeout=900)
    out.states += v.n_events
    out.transitions += v.n_events
    bad = set()
    for tid, fails in v.l1.items():
        job, trace = index[tid]
        mine = sorted({c for _, cl in fails for c in cl if c in CLAUSES})
        beyond = sorted({c for _, cl in fails for c in cl if c in BEYOND})
        if beyond and not mine:
            out.drift.append("prep trace %s: %s does not hold (stronger than C09: not a violation) (scenario %s)" % (tid, ",".join(beyond), dict(job["prep"])))
        if not mine:
            continue
        bad.add(tid)
        first = min(ln for ln, cl in fails if set(cl) & CLAUSES)
        prep = job["prep"]
        case = {"leg": "prep", "prep": prep, "seed": job["seed"], "decisions": [(e["ev"], e["h"], e["k"]) for e in trace["events"] if e["ev"] not in ("Race", "RaceStuck", "Livelock")]}
        sig = {"leg": "prep", "clauses": mine, "fault": prep["flt"]["kind"], "hosts": prep["H"], "executors": prep["K"]}
        out.violations.append(Violation(",".join(mine), case, signature=sig, detail="prep trace %s first failing event %d (%s)" % (tid, first, trace["events"][first - 1]["ev"])))
    for tid, lines in v.l2.items():
        if tid in bad:
            continue
        job, trace = index[tid]
        ln = lines[0]
        ev = trace["events"][ln - 1]["ev"] if ln >= 1 else "Init"
        out.drift.append("prep trace %s: event %d (%s) is not the %s step of TrackPrep.tla (scenario %s)" % (tid, ln, ev, ev, {k: v2 for k, v2 in job["prep"].items()}))
        if os.environ.get("VERIF_DEBUG_DRIFT"):
            import json

            prev = trace["init"] if ln <= 1 else trace["events"][ln - 2]["st"]
            cur = trace["events"][ln - 1]["st"] if ln >= 1 else trace["init"]
            print("DRIFT", tid, ln, ev, (trace["events"][ln - 1]["h"], trace["events"][ln - 1]["k"]) if ln >= 1 else "")
            for k in cur:
                if prev[k] != cur[k]:
                    print("   ", k, "\n      before:", json.dumps(prev[k])[:900], "\n      after: ", json.dumps(cur[k])[:900])
    out.traces_validated += len(traces) - len(bad | set(v.l2))
    stats["run_s"] = round(t1 - t0, 1)
    stats["validate_s"] = round(time.time() - t1, 1)
    return stats, index


def run_prep_leg(ctx, out):
    t0 = time.time()
    for a in ASSUMPTIONS:
        if a not in out.assumptions:
            out.assumptions.append(a)
    model_check(ctx, out)
    jobs = []
    beh = behaviours(ctx, out, 24 if ctx.quick else 300)
    for i, (prep, script) in enumerate(beh):
        if prep["procs"][prepsim.REQUIRED :] == [0] and i % 2 == 0 and not (prep["flt"]["kind"] == "seed" and prep["flt"]["p"] > prepsim.REQUIRED):
            prep = dict(prep, default=True)
        jobs.append({"prep": prep, "script": script, "seed": ctx.seed + i})
    jobs += random_jobs(ctx, 5 if ctx.quick else 40, 6 if ctx.quick else 40)
    stats, index = run_jobs(ctx, out, jobs, "prep")
    out.extra["prep_leg"] = dict(stats, races=len(jobs), from_tlc=len(beh))
    if stats["fired"] < stats["faulty"] or stats["faulty"] < len(jobs) // 3:
        out.vacuous.append("prep leg: the fault fired in only %d of %d faulty races (%d races)" % (stats["fired"], stats["faulty"], len(jobs)))
    if stats["success"] == 0:
        out.vacuous.append("prep leg: no fault-free race completed with Success and stored results")
    some = next((index[t] for t in sorted(index) if index[t][0]["prep"]["flt"]["kind"] == "task"), None)
    if some is not None:
        out.sample({"leg": "prep", "scenario": some[0]["prep"], "decisions": [(e["ev"], e["h"], e["k"]) for e in some[1]["events"]][:60], "replies": some[1]["events"][-1]["st"]["rc"]["replies"]})
    out.note(
        "prep leg: %d races on the real preparation actors (%d from TLC behaviours, %d schedule steps followed), fault fired in %d/%d, reported in %d, "
        "%d fault-free races ended with Success; %d events validated by TLC; %.1fs"
        % (len(jobs), len(beh), stats["followed"], stats["fired"], stats["faulty"], stats["reported"], stats["success"], stats["events"], time.time() - t0)
    )
    return stats


def replay_case(ctx, case):
    """Replays a saved violation of the prep leg; returns the exit code."""
    from .core import Outcome

    out = Outcome("C09")
    job = {"prep": case["prep"], "script": [tuple(x) for x in case["decisions"]], "seed": case["seed"]}
    run_jobs(ctx, out, [job], "replay")
    for v in out.violations:
        print("VIOLATION property=C09 clause=%s %s" % (v.clause, v.detail))
    for d in out.drift:
        print("MODEL-DRIFT property=C09 %s" % d)
    return 1 if out.violations else 0


def main(argv):
    from .core import Ctx, Outcome

    tier = argv[1] if len(argv) > 1 else "quick"
    ctx = Ctx("C09", tier, int(os.environ.get("VERIF_SEED", "0") or 0))
    out = Outcome("C09")
    t0 = time.time()
    run_prep_leg(ctx, out)
    for v in out.violations:
        print("VIOLATION property=C09 clause=%s signature=%s %s" % (v.clause, v.signature, v.detail))
    for d in out.drift:
        print("MODEL-DRIFT property=C09 %s" % d)
    for x in out.vacuous:
        print("VACUOUS %s" % x)
    print("%s prep leg tier=%s states=%d traces_validated=%d evaluations=%d distinct=%d drift=%d wall=%.1fs" % ("FAIL" if out.violations else "OK", tier, out.states, out.traces_validated, out.evaluations, len(out.distinct), len(out.drift), time.time() - t0))
    return 1 if out.violations else (2 if out.vacuous else 0)


if __name__ == "__main__":
    import sys

    sys.path.insert(0, os.environ.get("VERIF_REPO", "/repo"))
    sys.exit(main(sys.argv))
