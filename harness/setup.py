"""./check --setup: parse every TLA+ module with SANY and byte-compile the harness. Writes nothing outside scratch."""
import compileall
import json
import os
import sys

from . import tlc


def main():
    ok = True
    specs = tlc.SPECS
    n = 0
    from . import manifest_gen

    claimed = set(manifest_gen.claimed_spec_dirs())
    for d in sorted(os.listdir(specs)):
        p = os.path.join(specs, d)
        if not os.path.isdir(p):
            continue
        wd = tlc.prepare_workdir([os.path.join(specs, x) for x in sorted(os.listdir(specs)) if os.path.isdir(os.path.join(specs, x))], "sany")
        for fn in sorted(os.listdir(p)):
            if fn.endswith(".tla"):
                good, out = tlc.sany(wd, fn[:-4])
                n += 1
                if not good:
                    if d in claimed:
                        ok = False
                        print("SANY FAILED %s/%s\n%s" % (d, fn, out[-2000:]))
                    else:
                        print("warning: %s/%s (not used by a claimed check yet) does not parse" % (d, fn))
    if not compileall.compile_dir(os.path.join(tlc.VERIF, "harness"), quiet=1, legacy=False):
        ok = False
    try:
        with open(os.path.join(tlc.VERIF, "MANIFEST.json")) as f:
            json.load(f)
    except Exception as ex:  # pylint: disable=broad-except
        print("MANIFEST.json unreadable: %s" % ex)
        ok = False
    print("setup: %d TLA+ modules parsed, ok=%s" % (n, ok))
    return 0 if ok else 2


if __name__ == "__main__":
    sys.exit(main())
