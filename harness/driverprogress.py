"""C05, the progress the DRIVER reports: the real esrally.driver.driver.Driver is fed, call by call as DriverActor does, with the
samples of consecutive tasks (specs/ClientLoop/DriverProgress.tla, TraceDriverProgress.tla).

A *history* (JSON-able) = {"src", "pcfg": {"nc": [clients of task 1, ...], "n": samples per client and task, "grp": [worker of client 0, ...]},
"cores": load-driver cores (number of worker processes), "acts": [["P"] | ["p", client] | ["D", worker] | ["R"] | ["J"], ...]}
  P  every client of the running task records one more sample (lockstep)      p  one client does
  D  the worker's wake-up: one UpdateSamples message with everything its clients have recorded since its last one
  R  the driver's wake-up: Driver.update_progress_message()                   J  every worker sends JoinPointReached

The samples are REAL Sample objects: every (task, client) loop is first run by the real schedule_for / AsyncExecutor / Sampler
(harness/clientloop.execute) for an iteration-based task of n iterations.  The Driver is constructed as harness/rallysched.observe_start
does (real Driver, recording driver-actor stub, real Allocator / worker assignment via prepare_benchmark + start_benchmark); its
progress_reporter is replaced by a recorder (message, percentage, finish()).
"""
import glob
import os
import random
import re
import shutil

from . import clientloop, tlc, tracecheck
from .core import Violation
from .tlaparse import to_json

_PCT = re.compile(r"\[\s*(-?\d+)% done\]")


class _Reporter:
    def __init__(self, names):
        self.names = names
        self.reports = []  # dict(task, v, fin, msg)

    def print(self, message, progress):
        m = _PCT.search(progress)
        v = int(m.group(1)) if m else -1
        name = message[len("Running ") :] if message.startswith("Running ") else message
        task = self.names.index(name) + 1 if name in self.names else 0
        self.reports.append({"task": task, "v": v, "fin": False, "msg": "%s %s" % (message, progress)})

    def finish(self):
        if self.reports:
            self.reports[-1]["fin"] = True


def _real_samples(pcfg):
    """{(task index 1.., client): [Sample, ...]} recorded by the real client loop (iteration-based, n iterations, unthrottled)."""
    res = {}
    for t, nc in enumerate(pcfg["nc"], 1):
        for c in range(nc):
            cfg = {
                "kind": "iter", "wi": 0, "it": pcfg["n"], "wt": 0, "tp": 0, "sched": "unthrottled", "tnum": 1, "tden": 1, "tunit": "ops", "runit": "ops",
                "clients": nc, "idx": c, "total": nc, "ramp": 0, "tps": 4, "client": c, "task": "p%d" % t, "rc": 0,
            }  # fmt: skip
            script = [{"d1": 0, "svc": 1, "d2": 0, "out": "ok", "w": 1, "ext": False} for _ in range(pcfg["n"])]
            _item, info = clientloop.execute({"src": "progress", "exact": True, "cfg": cfg, "t0": 4 * t, "script": script, "incs": [], "variant": {}})
            res[(t, c)] = info["raw"]
            if len(info["raw"]) != pcfg["n"]:
                raise _Skip("the client loop of task %d client %d recorded %d samples instead of %d" % (t, c, len(info["raw"]), pcfg["n"]))
    return res


class _Skip(Exception):
    pass


def execute_history(hist):
    """Returns the trace item for TraceDriverProgress.tla (or None when the client loops themselves are broken: C05's other legs)."""
    from unittest import mock

    from esrally.driver import driver
    from esrally.track import track

    from . import racesim, rallysched

    clientloop.ensure_rally_home()
    pcfg = hist["pcfg"]
    n = pcfg["n"]
    try:
        samples = _real_samples(pcfg)
    except _Skip:
        return None
    tasks = []
    for t, nc in enumerate(pcfg["nc"], 1):
        op = track.Operation(name="op-p%d" % t, operation_type=clientloop.OP_TYPE, params={})
        tasks.append(track.Task(name="p%d" % t, operation=op, clients=nc, warmup_iterations=0, iterations=n))
    trk = track.Track(name="verif", challenges=[track.Challenge("c", default=True, schedule=tasks)])
    cfg = racesim.build_config(None, True, "continue", None, 1, hist["cores"], ["localhost"])

    class Actor(rallysched.RecordingDriverActor):
        def on_task_finished(self, metrics, next_task_scheduled_in):
            pass

        def drive_at(self, worker, client_start_timestamp):
            pass

        def on_benchmark_complete(self, metrics):
            pass

        def complete_current_task(self, worker):
            pass

    holder = {}
    rec = Actor(lambda: holder["d"])
    with mock.patch("esrally.utils.net.resolve", side_effect=lambda h: h):
        d = driver.Driver(rec, cfg, es_client_factory_class=rallysched._EsFactory)  # pylint: disable=protected-access
        holder["d"] = d
        d.prepare_benchmark(trk)
        d.start_benchmark()
    reporter = _Reporter([t.name for t in tasks])
    d.progress_reporter = reporter
    d.quiet = False
    events = []
    nworkers = len(d.workers)
    clients_of_worker = {w: sorted(c for c, ww in d.clients_per_worker.items() if ww == w) for w in range(nworkers)}

    def reach_all(jp_index):
        for w in range(nworkers):
            d.joinpoint_reached(w, 1.0, [driver.ClientAllocation(c, d.allocations[c][jp_index]) for c in clients_of_worker[w]])

    def drain_reports():
        for r in reporter.reports:
            events.append({"k": "r", "task": r["task"], "v": r["v"], "fin": bool(r["fin"]), "cs": [{"c": 0, "k": 0}]})
        del reporter.reports[:]

    try:
        reach_all(0)  # the artificial first join point
        drain_reports()
        task = 1
        prod = {}
        dlv = {}

        def reset():
            prod.clear()
            dlv.clear()
            if task <= len(pcfg["nc"]):
                for c in range(pcfg["nc"][task - 1]):
                    prod[c] = 0
                    dlv[c] = 0

        reset()
        order_rnd = random.Random("order %r" % (hist["acts"],))
        for a in hist["acts"]:
            if task > len(pcfg["nc"]):
                break
            if a[0] == "P":
                for c in prod:
                    prod[c] = min(n, prod[c] + 1)
            elif a[0] == "p":
                if a[1] in prod:
                    prod[a[1]] = min(n, prod[a[1]] + 1)
            elif a[0] == "D":
                per_client = []
                cs = []
                for c in sorted(prod):
                    if pcfg["grp"][c] == a[1] and prod[c] > dlv[c]:
                        new = samples[(task, c)][dlv[c] : prod[c]]
                        per_client.append(list(new))
                        dlv[c] = prod[c]
                        pc = new[-1].percent_completed
                        cs.append({"c": c, "k": int(round(pc * n)) if pc is not None else 0})
                # a worker's sample queue holds the samples of its clients interleaved in the order they were recorded: any
                # interleaving that keeps each client's own order (which client's sample comes last must not matter)
                batch = []
                while per_client:
                    q = order_rnd.choice(per_client)
                    batch.append(q.pop(0))
                    if not q:
                        per_client.remove(q)
                if batch:
                    d.update_samples(batch)
                    events.append({"k": "d", "task": task, "v": 0, "fin": False, "cs": cs})
            elif a[0] == "R":
                d.update_progress_message()
                drain_reports()
            elif a[0] == "J":
                if all(prod[c] == n and dlv[c] == n for c in prod):
                    reach_all(2 * task)
                    drain_reports()
                    task += 1
                    reset()
    finally:
        try:
            if d.metrics_store is not None:
                d.metrics_store.close()
        except Exception:  # pylint: disable=broad-except
            pass
    return {"pcfg": pcfg, "events": events, "eq": not any(a[0] == "p" for a in hist["acts"])}


# ---------------------------------------------------------------------------------------------------
def history_from_behaviour(path):
    with open(path, "r", encoding="utf-8") as f:
        text = f.read()
    ms = list(clientloop._SIM_STATE.finditer(text))  # pylint: disable=protected-access
    pcfg = None
    acts = []
    for i, m in enumerate(ms):
        end = ms[i + 1].start() if i + 1 < len(ms) else len(text)
        body = "\n".join(ln for ln in text[m.end() : end].splitlines() if not ln.startswith("\\*") and not ln.startswith("===="))
        v = clientloop._state_vars(body, ("pcfg", "pact"))  # pylint: disable=protected-access
        if i == 0:
            pcfg = to_json(v["pcfg"])
            continue
        a = v["pact"]
        acts.append({"ProduceRound": ["P"], "Report": ["R"], "JoinPoint": ["J"]}.get(a["name"]) or (["D", a["g"]] if a["name"] == "Deliver" else ["p", a["c"]]))
    return {"src": "tlc-simulate", "pcfg": pcfg, "cores": max(pcfg["grp"]) + 1, "acts": acts}


def random_history_any_speed(rnd):
    """Clients of DIFFERENT speed (one client records at a time, some clients much faster than others)."""
    ntasks = rnd.choice([1, 2, 2])
    cores = rnd.choice([1, 1, 2, 2, 3])
    nc = [rnd.randint(2, 4) for _ in range(ntasks)]
    m = max(nc)
    per = -(-m // cores)
    grp = [min(c // per, cores - 1) for c in range(m)]
    cores = max(grp) + 1
    n = rnd.choice([4, 8, 8, 16])
    acts = []
    for t in range(ntasks):
        left = {c: n for c in range(nc[t])}
        weight = {c: rnd.choice([1, 2, 5]) for c in left}
        while left:
            r = rnd.random()
            if r < 0.5:
                cl = sorted(left)
                c = rnd.choices(cl, weights=[weight[x] for x in cl])[0]
                acts.append(["p", c])
                left[c] -= 1
                if not left[c]:
                    del left[c]
            elif r < 0.75:
                acts.append(["D", rnd.randrange(cores)])
            else:
                acts.append(["R"])
        for _ in range(rnd.randint(0, 3)):
            acts.append(rnd.choice([["R"], ["D", rnd.randrange(cores)]]))
        for w in rnd.sample(range(cores), cores):
            acts.append(["D", w])
            if rnd.random() < 0.4:
                acts.append(["R"])
        acts.append(["J"])
    return {"src": "random-any-speed", "pcfg": {"nc": nc, "n": n, "grp": grp}, "cores": cores, "acts": acts}


def random_history(rnd):
    """Lockstep clients, workers delivering and the driver reporting at unrelated wake-ups (not derived from TLC)."""
    ntasks = rnd.choice([2, 2, 3])
    cores = rnd.choice([2, 2, 3])
    nc = [rnd.randint(1, 4) for _ in range(ntasks)]
    if max(nc) < 2:
        nc[0] = 2
    m = max(nc)
    # the contiguous split of calculate_worker_assignments
    per = -(-m // cores)
    grp = [min(c // per, cores - 1) for c in range(m)]
    n = rnd.choice([2, 4, 8, 8, 16])
    acts = []
    for _t in range(ntasks):
        rounds = 0
        while rounds < n:
            r = rnd.random()
            if r < 0.4:
                acts.append(["P"])
                rounds += 1
            elif r < 0.75:
                acts.append(["D", rnd.randrange(cores)])
            else:
                acts.append(["R"])
        for _ in range(rnd.randint(0, 3)):
            acts.append(rnd.choice([["R"], ["D", rnd.randrange(cores)]]))
        for w in rnd.sample(range(cores), cores):
            acts.append(["D", w])
            if rnd.random() < 0.4:
                acts.append(["R"])
        acts.append(["J"])
    return {"src": "random", "pcfg": {"nc": nc, "n": n, "grp": grp}, "cores": cores, "acts": acts}


def run_histories(hists, out, label):
    items = []
    index = {}
    for hi, h in enumerate(hists):
        it = execute_history(h)
        if it is None:
            continue
        it["id"] = "%s-%d" % (label, hi)
        items.append(it)
        index[it["id"]] = (h, it)
        out.add_case({"pcfg": h["pcfg"], "acts": h["acts"]}, nontrivial=sum(1 for e in it["events"] if e["k"] == "r") >= 3)
    if not items:
        return []
    verdicts = tracecheck.validate("ClientLoop", "TraceDriverProgress", "TraceDriverProgress.cfg", items, name="dptrace", chunk=1500)
    out.states += verdicts.n_events
    out.transitions += verdicts.n_events
    bad = set()
    for tid, fails in verdicts.l1.items():
        h, it = index[tid]
        clauses = sorted({c for _, cl in fails for c in cl})
        first = fails[0][0]
        bad.add(tid)
        reports = [(e["task"], e["v"]) for e in it["events"] if e["k"] == "r"]
        out.violations.append(
            Violation(
                ",".join(clauses),
                {"progress_history": h},
                signature={"clauses": clauses, "leg": "driver-progress", "equal_speed": not any(a[0] == "p" for a in h["acts"])},
                detail="trace %s event %d: driver reported (task, %%) %s" % (tid, first, reports[:14]),
            )
        )
    for tid, lines in verdicts.l2.items():
        bad.add(tid)
        h, it = index[tid]
        out.drift.append("trace %s: event %d: the reported progress is not the one of DriverProgress.tla (%s)" % (tid, lines[0], it["events"][lines[0] - 1]))
    out.traces_validated += len(items) - len(bad)
    return items


def run_leg(ctx, out, seed_off=577):
    # ---- Leg M
    wd = tlc.prepare_workdir("ClientLoop", "dpmc")
    res = tlc.run_tlc(wd, "MC_DriverProgress", "DriverProgress.quick.cfg", workers=4, timeout=120, allow_violation=True)
    out.add_tlc(res)
    if not res.ok:
        raise tlc.MachineryError("DriverProgress model violates %s: %s" % (res.property_violated or res.invariant_violated, res.out[-1200:]))
    out.note("leg M DriverProgress.quick.cfg: %d distinct states" % res.distinct)
    for cfgf, what in (
        ("DriverProgress.selftest.noclear.cfg", "variant ClearAtJoinPoint=FALSE (per-step reset missing) violates ReportProperties in the model, as expected"),
        ("DriverProgress.pinned.speed.cfg", "environment EqualSpeed=FALSE (clients of different speed): the CODE AS IT IS lets the reported progress drop when a slower client reports for the first time (mean over the clients that have reported) - shown in the model; the executed histories keep clients in lockstep"),
    ):
        wd = tlc.prepare_workdir("ClientLoop", "dpself")
        r = tlc.run_tlc(wd, "MC_DriverProgress", cfgf, workers=2, timeout=120, allow_violation=True)
        if r.property_violated != "ReportProperties":
            raise tlc.MachineryError("self-test failed: %s does not violate ReportProperties" % cfgf)
        out.extra.setdefault("driver_progress_model", []).append(what)
    # ---- Leg S2C
    wd = tlc.prepare_workdir("ClientLoop", "dpsim")
    simdir = os.path.join(wd, "sim")
    os.makedirs(simdir)
    num = 150 if ctx.quick else 1200
    res = tlc.run_tlc(wd, "MC_DriverProgress", "DriverProgress.sim.cfg", workers=1, simulate={"num": num, "file": os.path.join(simdir, "b")}, depth=120, seed=ctx.seed + seed_off, timeout=300)
    if not res.ok:
        raise tlc.MachineryError("DriverProgress simulation reported a violation: %s" % res.out[-1200:])
    out.add_tlc(res)
    hists = [history_from_behaviour(fn) for fn in sorted(glob.glob(os.path.join(simdir, "b_*")))]
    shutil.rmtree(wd, ignore_errors=True)
    items = run_histories(hists, out, "dpsim")
    # ---- Leg M + S2C for clients of different speed: every clause but the plain Monotone one
    wd = tlc.prepare_workdir("ClientLoop", "dpspeed")
    res = tlc.run_tlc(wd, "MC_DriverProgress", "DriverProgress.speed.cfg", workers=4, timeout=300, allow_violation=True)
    out.add_tlc(res)
    if not res.ok:
        raise tlc.MachineryError("DriverProgress model (any speed) violates %s: %s" % (res.property_violated or res.invariant_violated, res.out[-1200:]))
    out.note("leg M DriverProgress.speed.cfg (clients of any speed, ReportPropertiesAnySpeed): %d distinct states" % res.distinct)
    simdir = os.path.join(wd, "sim")
    os.makedirs(simdir)
    res = tlc.run_tlc(wd, "MC_DriverProgress", "DriverProgress.simspeed.cfg", workers=1, simulate={"num": num, "file": os.path.join(simdir, "b")}, depth=160, seed=ctx.seed + seed_off + 1, timeout=300)
    if not res.ok:
        raise tlc.MachineryError("DriverProgress simulation (any speed) reported a violation: %s" % res.out[-1200:])
    out.add_tlc(res)
    hists = [history_from_behaviour(fn) for fn in sorted(glob.glob(os.path.join(simdir, "b_*")))]
    shutil.rmtree(wd, ignore_errors=True)
    items += run_histories(hists, out, "dpsimspeed")
    # ---- Leg C2S: seeded random histories
    rnd = random.Random(ctx.seed * 104729 + seed_off)
    rh = [random_history(rnd) for _ in range(150 if ctx.quick else 1200)]
    items += run_histories(rh, out, "dprnd")
    rh = [random_history_any_speed(rnd) for _ in range(300 if ctx.quick else 2400)]
    items += run_histories(rh, out, "dprndspeed")
    nrep = sum(1 for it in items for e in it["events"] if e["k"] == "r")
    staggered = 0
    for it in items:
        seen = set()
        rep_since = False
        for e in it["events"]:
            if e["k"] == "r":
                rep_since = bool(seen)
                if e["fin"]:
                    seen = set()
                    rep_since = False
            else:
                new = {c["c"] for c in e["cs"]} - seen
                if new and seen and rep_since:
                    staggered += 1
                seen |= {c["c"] for c in e["cs"]}
    out.extra["driver_progress"] = {"histories": len(items), "reports": nrep, "first_deliveries_after_a_report_of_the_task": staggered}
    if items:
        out.sample({"source": "driver-progress", "pcfg": items[0]["pcfg"], "events": items[0]["events"][:8]})
    out.note("driver-progress leg: %d histories on the real Driver, %d captured reports, %d staggered first deliveries" % (len(items), nrep, staggered))
    if not staggered or not nrep:
        out.vacuous.append("driver-progress leg: no history with a client reporting for the first time after a report of its task")


def replay(ctx, hist, pid):
    from .core import Outcome

    out = Outcome(pid)
    run_histories([hist], out, "replay")
    for v in out.violations:
        print("VIOLATION property=%s clause=%s %s" % (pid, v.clause, v.detail))
    for d in out.drift:
        print("MODEL-DRIFT property=%s %s" % (pid, d))
    return 1 if out.violations else 0
