"""Runs one simulated race (racesim.RaceWorld) under a schedule and records the trace TraceRaceDriver.tla validates.

Every event = one scheduling decision + the projection of the real objects' state after the handler returned, read
directly from the actor instances (no hooks), + the harness' own observations (hist)."""
import pickle
import zlib

from . import racesim, tlc

ETERNAL = -1
TIMED = -2


async def verif_request(es, params):
    resp = await es.perform_request(method="GET", path=params["path"])
    res = {"weight": 1, "unit": "ops", "vid": resp["vid"]}
    if resp.get("unsuccessful"):
        res.update({"success": False, "error-type": "verif", "error-description": "verif: request reported as failed"})
    if resp.get("deps"):
        # a composite-like request: one dependent sub-request timing per entry (what runner.Composite reports)
        res["dependent_timing"] = [
            {"dependent_timing": {"absolute_time": resp["t"], "request_start": resp["t"], "service_time": 0.001 * (k + 1), "operation": "dep-op", "operation-type": "dep-type"}, "dep": k}
            for k in range(resp["deps"])
        ]
    return res


def _msg(k, w=0, e=0, ids=()):
    return {"k": k, "w": w, "e": e, "ids": [list(i) for i in ids]}


PARAM_FAULT_CLASSES = (ValueError, RuntimeError, KeyError, NotImplementedError, ZeroDivisionError, RecursionError, AssertionError)


class TracedRace:
    def __init__(self, scn, seed=0, test_mode=True, queue_size=None, pp_interval=2, offsets=None, on_error="continue", downsample=1, fault="none", req_variant="conn_error", fault_delay=0, lenient=()):
        self.scn = scn
        self.fault_delay = fault_delay
        self.fault_kind = fault
        self.req_variant = req_variant
        if fault == "req" and req_variant in ("api_error", "unsuccessful"):
            on_error = "abort"
        self.world = racesim.RaceWorld(scn, seed=seed, test_mode=test_mode, queue_size=queue_size, pp_interval=pp_interval, offsets=offsets, on_error=on_error, downsample=downsample, full=True, lenient=lenient)
        self.w = self.world
        from esrally.driver import runner
        from esrally.track import params

        runner.register_runner("verif-request", verif_request, async_runner=True)
        world = self.world

        class VerifParamSource(params.ParamSource):
            """Constant parameters; raises when the harness injected a parameter-source fault for this client."""

            def __init__(self_, track, params_, **kw):
                super().__init__(track, params_, **kw)
                self_.tid = int(params_["path"].rsplit("/", 1)[1])
                self_.idx = None

            def partition(self_, partition_index, total_partitions):
                p = VerifParamSource(self_.track, self_._params)
                p.idx = partition_index
                return p

            def params(self_):
                if world.param_fault == (self_.tid, self_.idx):
                    world.param_fault = None
                    world.fault_fired = True
                    # the class of the failure is none of the property's business: any exception a parameter source raises
                    # (but StopIteration, its documented way to end the task) must fail the race
                    raise PARAM_FAULT_CLASSES[seed % len(PARAM_FAULT_CLASSES)]("verif: parameter source failure")
                return dict(self_._params)

        params.register_param_source_for_name("verif-src", VerifParamSource)
        self.rc_sent = []  # race-phase messages the coordinator sent to race control, in order
        self.rc_pos = 0
        self.rc_stopping = False
        self.fault_armed = False
        self.t_fault = None
        self.t_report = None

        def hook(src, dst, msg):
            if dst == racesim.RaceWorld.RC and src == racesim.RaceWorld.DRIVER and type(msg).__name__ in ("TaskFinished", "BenchmarkComplete", "BenchmarkFailure", "BenchmarkCancelled"):
                self.rc_sent.append(msg)

        self.w.sim.send_hook = hook
        self.w.block_hook = self._on_block
        self.w.unlocked_access_hook = self._on_unlocked_access
        self._projecting = 0
        self._unlocked_budget = 0
        self.unlocked_preemptions = 0
        self.unprojectable = None
        self.aborted = False
        self.blocked = None  # name of a worker whose actor thread is blocked for good
        self.blocking_waits = 0
        # preemption point inside Worker.receiveMsg_WakeupMessage: after send_samples() the executor thread may run before the
        # handler looks at the executor's future (model: WWakeupA / executor steps / WWakeupB)
        self._in_wakeup = None
        self._mid = set()
        self._preempt = []
        from esrally.driver import driver as _drv

        orig_send_samples = _drv.Worker.send_samples
        tr = self

        def send_samples(self_):
            res = orig_send_samples(self_)
            name = tr._in_wakeup
            if name is not None and tr.w.sim.actors[name].instance is self_:
                tr._in_wakeup = None
                tr._mid_hook(name)
            return res

        self.w._patch(_drv.Worker, "send_samples", send_samples)
        # use the harness runner so that every sample carries the id of the wire request that produced it
        for t in self.w.tasks_by_id.values():
            t.operation.type = "verif-request"
            t.operation.param_source = "verif-src"
        self.vid_info = {}  # vid -> (c, col, n)
        self.deps = {}  # sample id -> number of dependent sub-request timings its request reported
        self.downsample = downsample
        self.completed = {}  # (c, tid) -> completed requests
        self.produced = []
        self.dropped = []
        self.cct = []
        self.cct_early = False
        self.hang = False
        self.events = []
        self.task_reqs = {t["id"]: t["reqs"] for e in scn["sched"] for t in e["tasks"]}

    # ---- access to the real objects
    @property
    def drv_actor(self):
        return self.w.sim.actors[self.w.DRIVER].instance

    @property
    def driver(self):
        return self.drv_actor.driver

    def worker(self, w):
        return self.w.sim.actors["Worker%d" % w].instance

    def nworkers(self):
        return len(self.w.workers())

    def col_of(self, c, tid):
        """tid = (task id, client index in task) -> column of client c's row in the allocation matrix."""
        t, idx = tid
        for j, a in enumerate(self.driver.allocations[c]):
            if a is not None and hasattr(a, "task") and getattr(a.task, "name", None) == "t%d" % t and a.client_index_in_task == idx:
                return j
        raise tlc.MachineryError("task t%d[%d] not allocated to client %d" % (t, idx, c))

    def cell_of_request(self, c, req):
        """(task id, client index in task) of the cell whose executor issued the pending request of client c."""
        t = int(req["path"].rsplit("/", 1)[1])
        cur = self.w.current_cell.get(c)
        if cur is None or cur[0] != t:
            raise tlc.MachineryError("client %d has a request for t%d but its executor runs %s" % (c, t, cur))
        return cur

    def _elem(self, c, j):
        from esrally.driver import driver

        n = sum(1 for a in self.driver.allocations[c][:j] if isinstance(a, driver.JoinPoint))
        return n  # task columns after join point k-1 belong to element k; join point k itself has n = k

    def sample_id(self, s):
        vid = s.request_meta_data.get("vid")
        if vid is None or vid not in self.vid_info:
            # a sample the harness cannot attribute to a completed request (e.g. a changed implementation records a request that
            # failed fatally): it gets an id no produced sample has, so the sample clauses and L2 see it
            return (int(getattr(s, "client_id", 0) or 0), -1, 0)
        return self.vid_info[vid]

    def doc_ids(self, docs, name="latency"):
        out = []
        for d in docs:
            if d.get("name") == name and "vid" in d.get("meta", {}):
                out.append(self.vid_info.get(d["meta"]["vid"], (int(d["meta"].get("client_id", 0) or 0), -1, 0)))
        return out

    # ---- projection
    def project(self):
        self._projecting += 1
        try:
            return self._project()
        finally:
            self._projecting -= 1

    def _project(self):
        w = self.w
        sim = w.sim
        W = self.scn["W"]
        d2w, w2d, timers, wk = [], [], [], []
        for i in range(1, W + 1):
            wn = "Worker%d" % i
            d2w.append([self._proj_msg(m) for m in sim.chan.get((w.DRIVER, wn), [])])
            w2d.append([self._proj_msg(m) for m in sim.chan.get((wn, w.DRIVER), [])])
            timers.append(len(sim.pending_timers(wn)))
            inst = self.worker(i)
            fut = "none"
            if inst.executor_future is not None:
                run = w.exec_runs.get(wn)
                fut = run.state if run is not None and run.future is inst.executor_future else "unknown"
            sampq = [list(self.sample_id(s)) for s in list(inst.sampler.q.queue)] if inst.sampler is not None else []
            alive = sim.actors[wn].alive
            if not alive:
                fut = fut if fut in ("none", "done", "failed") else fut
            wk.append({"cur": inst.current_task_index, "nxt": inst.next_task_index, "sd": bool(inst.start_driving), "fut": fut, "complete": inst.complete.is_set(), "cancel": inst.cancel.is_set(), "sampq": sampq, "alive": alive, "mid": wn in self._mid})
        drv = self.driver
        marker = self.drv_actor.RESET_RELATIVE_TIME_MARKER
        dtimers = ["reset" if t["payload"] == marker else "tick" for t in sim.pending_timers(w.DRIVER)]
        store = self.doc_ids(drv.metrics_store.docs) if drv.metrics_store is not None else []
        d = {
            "completed": drv.currently_completed,
            "doneW": sorted(k + 1 for k in drv.workers_completed_current_step),
            "step": drv.current_step,
            "cct": bool(drv.complete_current_task_sent),
            "raw": [list(self.sample_id(s)) for s in drv.raw_samples],
            "store": [list(i) for i in store],
            "ppt": self.drv_actor.post_process_timer,
            "alive": sim.actors[w.DRIVER].alive,
        }
        rcbox = []
        for m in self.rc_sent:
            nm = type(m).__name__
            if nm in ("TaskFinished", "BenchmarkComplete"):
                docs = pickle.loads(zlib.decompress(m.metrics)) if m.metrics else []
                rcbox.append(_msg(nm, ids=self.doc_ids(docs)))
            elif nm in ("BenchmarkFailure", "BenchmarkCancelled"):
                rcbox.append(_msg(nm))
        d2d = [self._proj_msg(m) for m in sim.chan.get((w.DRIVER, w.DRIVER), [])]
        rc2d = [self._proj_msg(m) for m in sim.chan.get((w.RC, w.DRIVER), [])]
        coord = w.coordinator()
        replies = [{"Success": "Success", "BenchmarkFailure": "Failure", "BenchmarkCancelled": "Cancelled"}.get(type(m).__name__, type(m).__name__) for _s, m in w.user_inbox()]
        rcst = {
            "pos": self.rc_pos,
            "error": bool(coord.error),
            "cancelled": bool(coord.cancelled),
            "stored": self.results_stored(),
            "stopping": self.rc_stopping,
            "alive": sim.actors[w.RC].alive,
            "replies": replies,
        }
        flt = {"kind": self.fault_kind, "armed": self.fault_armed and not w.fault_fired, "fired": bool(w.fault_fired)}
        started = w.exec_obs["started"]
        finished = w.exec_obs["finished"]
        cells = []
        M = len(drv.allocations)
        last = {}
        for c, tid in started:
            last[c] = tid
        fin_set = set(finished)
        last_tmp = {}
        for c, tid in started:
            last_tmp[c] = tid
        for c in range(M):
            if c not in last:
                cells.append({"col": -1, "rem": 0, "n": 0, "st": "idle"})
                continue
            tid = last[c]
            n = self.completed.get((c, tid), 0)
            reqs = self.task_reqs[tid[0]]
            st = "pend" if c in w.pending else ("done" if (c, tid) in fin_set else "pend")
            if c in w.cell_override and (w.cell_override[c] == "failed" or st == "pend"):
                st = w.cell_override[c]
            cells.append({"col": self.col_of(c, tid), "rem": reqs if reqs in (ETERNAL, TIMED) else reqs - n, "n": n, "st": st})
        runs = sorted({(c, self.col_of(c, tid)) for c, tid in started})
        finished = [(c, tid) for c, tid in finished if not (w.cell_override.get(c) == "aband" and last.get(c) == tid)]
        fin = sorted({(c, self.col_of(c, tid)) for c, tid in finished})
        def was_cut(c, tid):
            if w.cell_override.get(c) == "failed" and last.get(c) == tid:
                return False
            reqs = self.task_reqs[tid[0]]
            if reqs == ETERNAL:
                return True
            if reqs == TIMED:
                t0, t1 = w.cell_times.get((c, tid), (None, None))
                return t0 is not None and t1 is not None and (t1 - t0) < racesim.TIME_PERIOD
            return self.completed.get((c, tid), 0) < reqs

        cut = sorted({(c, self.col_of(c, tid)) for c, tid in finished if was_cut(c, tid)})
        from esrally.driver import driver as drvmod

        skip = []
        runset = set(runs)
        for c in range(M):
            wi = self.scn["workerOf"][c]
            inst = self.worker(wi)
            for j, a in enumerate(drv.allocations[c]):
                if isinstance(a, drvmod.TaskAllocation) and j < inst.next_task_index and (c, j) not in runset:
                    if j == inst.current_task_index and wk[wi - 1]["fut"] == "submitted":
                        continue
                    skip.append((c, j))
        hist = {
            "runs": [list(x) for x in runs],
            "dup": len(started) != len(set(started)),
            "fin": [list(x) for x in fin],
            "cut": [list(x) for x in cut],
            "skip": [list(x) for x in sorted(skip)],
            "cct": sorted(set(self.cct)),
            "cctEarly": self.cct_early,
            "produced": [list(x) for x in sorted(self.produced)],
            "dropped": [list(x) for x in sorted(self.dropped)],
        }
        return {"d2w": d2w, "w2d": w2d, "d2d": d2d, "rc2d": rc2d, "rcbox": rcbox, "rcst": rcst, "timers": timers, "dtimers": dtimers, "drv": d, "wk": wk, "cell": cells, "flt": flt, "hist": hist}

    def results_stored(self):
        import json
        import os

        rf = self.w.race_file()
        if not os.path.exists(rf):
            return bool(self.w.summaries)
        with open(rf, "r", encoding="utf-8") as f:
            return "results" in json.load(f) or bool(self.w.summaries)

    def _proj_msg(self, m):
        nm = type(m).__name__
        if nm == "JoinPointReached":
            # (a join-point message that names no join point - possible with a changed implementation - projects to e = -1)
            jp = m.task[0].task if m.task and hasattr(m.task[0], "task") else None
            return _msg(nm, w=m.worker_id + 1, e=getattr(jp, "id", -1) if jp is not None else -1)
        if nm == "UpdateSamples":
            return _msg(nm, w=m.client_id + 1, ids=[self.sample_id(s) for s in m.samples])
        return _msg(nm)

    # ---- stepping
    def decision_event(self, dec):
        """Name of the model action a decision corresponds to (looking at the head of the channel)."""
        w = self.w
        if dec[0] == "deliver":
            _, src, dst = dec
            head = w.sim.chan[(src, dst)][0]
            nm = type(head).__name__
            if src == w.DRIVER and dst.startswith("Worker"):
                ev = {"Bootstrap": "WRecvBootstrap", "StartWorker": "WRecvStartWorker", "Drive": "WRecvDrive", "CompleteCurrentTask": "WRecvCCT", "BenchmarkFailure": "WRecvBenchmarkFailure"}.get(nm, "WRecv" + nm)
                return ev, int(dst[6:])
            if dst == w.DRIVER and src.startswith("Worker"):
                ev = {"JoinPointReached": "DRecvJoinPointReached", "UpdateSamples": "DRecvUpdateSamples", "BenchmarkFailure": "DRecvBenchmarkFailure", "ChildActorExited": "DRecvChildExited"}.get(nm, "DRecv" + nm)
                return ev, int(src[6:])
            if src == w.DRIVER and dst == w.DRIVER:
                return "DRecvSelfFailure", 0
            if src == w.DRIVER and dst == w.RC:
                if nm in ("TaskFinished", "BenchmarkComplete", "BenchmarkFailure", "BenchmarkCancelled"):
                    return "RcRecv", 0
                return "Skip", 0  # e.g. ChildActorExited after the coordinator has exited: ignored by race control
            if src == w.RC and dst == w.DRIVER:
                return "DRecvFromRc", 0
            if dst == w.RC and nm == "EngineStopped":
                return "RcEngineStopped", 0
            return "Skip", 0
        if dec[0] == "wakeup":
            if dec[1] == w.DRIVER:
                return "DWakeup", 1
            wi = int(dec[1][6:])
            return ("WWakeup" if self.worker(wi).start_driving else "WWakeupA"), wi
        if dec[0] == "exec_start":
            return "ExecStart", int(dec[1][6:])
        if dec[0] == "req":
            return "ExecStep", dec[1]
        if dec[0] == "fault":
            kind = dec[1]
            return {"req": "FReq", "param": "FParam", "store": "FArm", "rcstore": "FArm", "die": "FWorkerDies", "cancel": "FCancel"}[kind], (dec[2] if len(dec) > 2 else 0)
        raise ValueError(dec)

    def fault_decisions(self):
        """Fault injections possible now (model: CanFault)."""
        w = self.w
        if self.fault_kind == "none" or w.fault_fired or self.fault_armed or self.complete_sent() or not w.sim.actors[w.DRIVER].alive:
            return []
        if len(self.events) < self.fault_delay:
            return []
        k = self.fault_kind
        if k == "req" and self.req_variant in ("api_error", "unsuccessful"):
            # these outcomes are fatal only for tasks that do not declare ignore-response-error-level: non-fatal
            return [("fault", k, c) for c in sorted(w.pending) if int(w.pending[c]["path"].rsplit("/", 1)[1]) not in w.lenient]
        if k in ("req", "param"):
            return [("fault", k, c) for c in sorted(w.pending)]
        if k in ("store", "rcstore", "cancel"):
            return [("fault", k)]
        if k == "die":
            ncols = len(self.driver.allocations[0])
            return [("fault", k, i) for i in range(1, self.scn["W"] + 1) if w.sim.actors["Worker%d" % i].alive and self.worker(i).current_task_index < ncols - 1]
        return []

    def complete_sent(self):
        return any(type(m).__name__ == "BenchmarkComplete" for m in self.rc_sent)

    def enabled(self):
        return list(self.w.enabled()) + self.fault_decisions()

    def _complete_request(self, c, service_time=None):
        w = self.w
        req = w.pending[c]
        tid = self.cell_of_request(c, req)
        n = self.completed.get((c, tid), 0) + 1
        sid = (c, self.col_of(c, tid), n)
        self.vid_info[req["n"]] = sid
        self.completed[(c, tid)] = n
        self.produced.append(sid)
        wi = self.scn["workerOf"][c]
        deps = 2 if req["n"] % 3 == 0 else 0
        self.deps[sid] = deps
        w.step(("req", c), service_time=service_time, outcome={"vid": req["n"], "deps": deps, "t": w.clock.time()})
        inst = self.worker(wi)
        self._projecting += 1  # the harness' own look at the queue is not an access of the implementation
        try:
            inq = inst.sampler is not None and any(s.request_meta_data.get("vid") == req["n"] for s in list(inst.sampler.q.queue))
        finally:
            self._projecting -= 1
        if not inq:
            self.dropped.append(sid)

    def do(self, dec, service_time=None, preempt=None):
        try:
            return self._do(dec, service_time, preempt)
        except tlc.MachineryError:
            raise
        except (IndexError, KeyError, AttributeError, TypeError, ValueError) as ex:
            # the implementation reached a state the harness cannot project onto the model's variables (changed implementation):
            # the race is not continued; what was recorded so far is still validated, the rest is reported as drift
            import traceback

            self.unprojectable = "%s: %s @ %s" % (type(ex).__name__, ex, traceback.format_exc().strip().splitlines()[-3].strip()[:120])
            self._in_wakeup = None
            self.aborted = True
            return "Skip", 0
        except racesim.HandlerBlocked:
            # the actor thread of a worker is blocked for good (it waits for an executor that never ends): the race hangs
            self._in_wakeup = None
            self.hang = True
            self.events.append({"ev": "Skip", "arg": 0, "st": self.project()})
            return "Skip", 0

    def _do(self, dec, service_time=None, preempt=None):
        self._unlocked_budget = 2
        w = self.w
        ev, arg = self.decision_event(dec)
        n_cct_before = self._count_cct()
        fired_before = w.fault_fired
        if dec[0] == "req":
            self._complete_request(dec[1], service_time)
        elif dec[0] == "fault":
            kind = dec[1]
            if kind == "req":
                if self.req_variant == "unsuccessful":
                    # should the implementation go on after this request its sample must still be attributable
                    c = dec[2]
                    req = w.pending[c]
                    tid = self.cell_of_request(c, req)
                    self.vid_info[req["n"]] = (c, self.col_of(c, tid), self.completed.get((c, tid), 0) + 1)
                w.fail_request(dec[2], self.req_variant)
            elif kind == "param":
                c = dec[2]
                req = w.pending[c]
                w.param_fault = self.cell_of_request(c, req)
                self._complete_request(c, service_time)
                if w.fault_fired:
                    w.cell_override[c] = "failed"
                else:
                    # the loop ended before asking the parameter source again: this was an ordinary request completion
                    w.param_fault = None
                    ev = "ExecStep"
            elif kind == "store":
                w.arm_store_fault()
                w.fault_fired = False
                self.fault_armed = True
            elif kind == "rcstore":
                w.arm_rc_store_fault()
                w.fault_fired = False
                self.fault_armed = True
            elif kind == "die":
                w.kill_worker(dec[2])
            elif kind == "cancel":
                w.cancel()
                w.sim.step(("deliver", "user", w.RC))
        elif ev == "WWakeupA":
            name = dec[1]
            self._in_wakeup = name
            self._preempt = list(preempt or [])
            w.step(dec)
            self._in_wakeup = None
            if name in self._mid:
                self._mid.discard(name)
                ev = "WWakeupB"
            else:
                raise tlc.MachineryError("wake-up handler of %s did not call send_samples()" % name)
        else:
            rc_complete = ev == "RcRecv" and type(w.sim.chan[(w.DRIVER, w.RC)][0]).__name__ == "BenchmarkComplete"
            is_exit = ev == "DRecvFromRc" and type(w.sim.chan[(w.RC, w.DRIVER)][0]).__name__ == "ActorExitRequest"
            nerr = len(w.sim.handler_errors)
            info = w.step(dec)
            if ev == "RcRecv":
                self.rc_pos += 1
                if rc_complete and not (w.fault_fired and not fired_before):
                    self.rc_stopping = True
            if ev == "RcEngineStopped":
                self.rc_stopping = False
            if is_exit:
                # the coordinator exits and takes its workers with it (ActorExitRequest is forwarded to all children)
                for i in range(1, self.scn["W"] + 1):
                    wn = "Worker%d" % i
                    if w.sim.actors[wn].alive:
                        w.sim.kill(wn, notify_parent=False)
                for key in list(w.sim.chan):
                    # what was addressed to the coordinator or its workers is lost; what the coordinator had already sent to
                    # race control is still delivered
                    if key[1] == w.DRIVER or key[1].startswith("Worker") or key[1].startswith("TrackPreparation"):
                        del w.sim.chan[key]
                w.pending.clear()
            if ev == "DRecvJoinPointReached" and self._count_cct() > n_cct_before:
                jp = info[3].task[0].task.id
                self.cct.append(jp)
                self._check_cct_early(jp)
        if w.fault_fired and self.t_fault is None:
            self.t_fault = w.clock.now
        st = self.project()
        if st["rcst"]["error"] and self.t_report is None:
            self.t_report = w.clock.now
        self.events.append({"ev": ev, "arg": arg, "st": st})
        return ev, arg

    def _on_unlocked_access(self, _dq):
        """A worker's actor thread touches the sampler's deque without holding the queue's mutex: the executor thread may add a
        sample right now (one request of this worker's clients completes, at most twice per handler)."""
        if self._projecting or self.w.current_run is not None or self._unlocked_budget <= 0:
            return
        name = self.w.clock.current
        if not name or not str(name).startswith("Worker"):
            return
        en = [c for c in sorted(self.w.pending) if self.w.worker_of_client(c) == name]
        if not en:
            return
        self._unlocked_budget -= 1
        self.unlocked_preemptions += 1
        self._complete_request(self.w.rnd.choice(en))

    def _on_block(self, run):
        """A handler of worker `run.worker_name` waits for its running executor: the executor thread goes on (requests of this
        worker's clients complete) until it is done. The model has no such step: the enclosing event is an L2 rejection."""
        name = run.worker_name
        self.blocking_waits += 1
        for _ in range(120):
            if run.future.done():
                return
            en = [d for d in self.w.enabled() if (d[0] == "req" and self.w.worker_of_client(d[1]) == name) or (d[0] == "exec_start" and d[1] == name)]
            if not en:
                break
            dec = self.w.rnd.choice(en)
            if dec[0] == "req":
                self._complete_request(dec[1])
            else:
                self.w.step(dec)
        if not run.future.done():
            self.blocked = name
            raise racesim.HandlerBlocked(name)

    def _mid_hook(self, name):
        """Called inside the worker's wake-up handler right after send_samples(): log WWakeupA, then let the executor run."""
        wi = int(name[6:])
        self._mid.add(name)
        self.events.append({"ev": "WWakeupA", "arg": wi, "st": self.project()})
        for want in self._preempt:
            en = [d for d in self.w.enabled() if (d[0] == "req" and self.w.worker_of_client(d[1]) == name) or (d[0] == "exec_start" and d[1] == name)]
            if not en:
                break
            if want == "any":
                dec = self.w.rnd.choice(en)
            else:
                match = [d for d in en if self.decision_event(d) == tuple(want)]
                if not match:
                    continue
                dec = match[0]
            ev, arg = self.decision_event(dec)
            if dec[0] == "req":
                self._complete_request(dec[1])
            else:
                self.w.step(dec)
            self.events.append({"ev": ev, "arg": arg, "st": self.project()})
        self._preempt = []

    def _count_cct(self):
        return sum(1 for q in self.w.sim.chan.values() for m in q if type(m).__name__ == "CompleteCurrentTask")

    def _check_cct_early(self, jp):
        from esrally.driver import driver as drvmod

        jpobj = None
        for a in self.driver.allocations[0]:
            if isinstance(a, drvmod.JoinPoint) and a.id == jp:
                jpobj = a
        if jpobj is None or not jpobj.clients_executing_completing_task or jpobj.any_task_completes_parent:
            return
        fin = set(self.w.exec_obs["finished"])
        for c, row in enumerate(self.driver.allocations):
            for j, a in enumerate(row):
                if isinstance(a, drvmod.TaskAllocation) and a.task.completes_parent and self._elem(c, j) == jp:
                    if (c, (int(a.task.name[1:]), a.client_index_in_task)) not in fin:
                        self.cct_early = True

    def control_signature(self):
        st = self.project()
        return (
            tuple((x["cur"], x["nxt"], x["sd"], x["fut"], x["complete"]) for x in st["wk"]),
            tuple(tuple(m["k"] for m in q) for q in st["d2w"]),
            tuple(tuple(m["k"] for m in q if m["k"] != "UpdateSamples") for q in st["w2d"]),
            (st["drv"]["completed"], st["drv"]["step"], st["drv"]["cct"]),
            tuple(m["k"] for m in st["rcbox"]),
            tuple((x["col"], x["st"]) for x in st["cell"]),
            (st["rcst"]["pos"], st["rcst"]["error"], st["rcst"]["cancelled"], st["rcst"]["stored"], st["rcst"]["stopping"], tuple(st["rcst"]["replies"])),
            (st["flt"]["armed"], st["flt"]["fired"]),
            tuple(m["k"] for m in st["d2d"]) + tuple(m["k"] for m in st["rc2d"]),
            tuple(x["alive"] for x in st["wk"]) + (st["drv"]["alive"],),
        )

    def complete(self):
        return self.complete_sent()

    def done(self):
        """The race is over: race control answered with Success, or nothing can happen any more."""
        return any(type(m).__name__ == "Success" for _s, m in self.w.user_inbox())

    def failed(self):
        return False

    def start(self):
        self.w.start()
        # sanity check of the harness' own assumption (which worker hosts which client) against the driver's book-keeping; when that
        # book-keeping is incomplete (a changed implementation) there is nothing to compare with: the race shows what it means
        cpw = self.driver.clients_per_worker
        real = [cpw.get(c, self.scn["workerOf"][c] - 1) + 1 for c in range(len(self.driver.allocations))]
        if real != list(self.scn["workerOf"]) or self.nworkers() != self.scn["W"]:
            raise tlc.MachineryError("scenario assigns clients to workers as %s but the implementation as %s" % (self.scn["workerOf"], real))
        self.init = self.project()

    def run(self, script, rnd, max_events=400):
        """script: list of (ev, arg) from a TLC behaviour (may be empty). Unfollowable decisions are skipped; afterwards a
        seeded fair random policy, then a round-robin sweep, drive the race to quiescence. Returns #script steps followed."""
        followed = 0
        skipped = 0
        pending = [tuple(x) for x in script]
        while pending:
            want = pending.pop(0)
            if self.done() or self.hang or self.aborted or len(self.events) >= max_events:
                break
            if want[0] == "WWakeupB":
                continue  # consumed together with its WWakeupA
            match = None
            for dec in self.enabled():
                if self.decision_event(dec) == tuple(want):
                    match = dec
                    break
            if match is None:
                skipped += 1
                continue
            preempt = None
            if want[0] == "WWakeupA":
                # executor steps of this worker that the behaviour places between A and B happen inside the handler; steps of
                # other actors in between commute with it and are deferred until after B
                name = "Worker%d" % want[1]
                preempt, deferred = [], []
                while pending and pending[0] != ("WWakeupB", want[1]):
                    nxt = pending.pop(0)
                    mine = (nxt[0] in ("ExecStep",) and self.w.worker_of_client(nxt[1]) == name) or (nxt[0] == "ExecStart" and nxt[1] == want[1])
                    (preempt if mine else deferred).append(nxt)
                if pending:
                    pending.pop(0)
                pending = deferred + pending
                followed += len(preempt)
            self.do(match, preempt=preempt)
            followed += 1
        # fair random phase
        n_random = 0
        unchanged = 0
        sig = self.control_signature()
        while not self.done() and not self.hang and not self.aborted and len(self.events) < max_events and n_random < max_events // 2 and unchanged < 25:
            en = self.enabled()
            if not en:
                break
            dec = rnd.choice(en)
            pre = None
            if dec[0] == "wakeup" and dec[1].startswith("Worker") and rnd.random() < 0.4:
                pre = ["any"] * rnd.randint(1, 3)
            self.do(dec, preempt=pre)
            n_random += 1
            nsig = self.control_signature()
            unchanged = unchanged + 1 if nsig == sig else 0
            sig = nsig
        # deterministic round-robin sweeps; a hang is diagnosed when full sweeps no longer change the control state
        same = 0
        sig = self.control_signature()
        while not self.done() and not self.hang and not self.aborted:
            en = self.w.enabled()
            if not en:
                break
            for dec in en:
                # a sweep delivers EVERYTHING that was queued on a channel when it started (a join-point message may sit behind
                # any number of sample shipments), and takes every other enabled decision once
                n = len(self.w.sim.chan.get((dec[1], dec[2]), ())) if dec[0] == "deliver" else 1
                for _ in range(max(n, 1)):
                    if dec in self.w.enabled() and not self.done() and not self.hang and not self.aborted:
                        self.do(dec)
            nsig = self.control_signature()
            same = same + 1 if nsig == sig else 0
            sig = nsig
            if same >= 4:
                self.hang = True
                break
            if len(self.events) > 6 * max_events:
                raise tlc.MachineryError("race neither completes nor hangs within %d events" % len(self.events))
        if self.hang:
            self.events.append({"ev": "Hang", "arg": 0, "st": self.project()})
        return followed, skipped

    def final_table(self):
        """Record table at race control at the end of the race, one row per executed request."""
        docs = list(self.w.coordinator().metrics_store.docs)  # race control's metrics store
        by = {}
        for d in docs:
            vid = d.get("meta", {}).get("vid")
            if vid is None:
                continue
            by.setdefault(vid, []).append(d)
        rows = []
        inv = {v: k for k, v in self.vid_info.items()}
        dropped = set(self.dropped)
        for sid in sorted(self.produced):
            vid = inv[sid]
            ds = by.get(vid, [])
            c, col, _n = sid
            a = self.driver.allocations[c][col]
            tid = int(a.task.name[1:])
            main = [d for d in ds if d.get("operation") != "dep-op"]
            dep = [d for d in ds if d.get("operation") == "dep-op"]
            meta_ok = all(
                d.get("task") == "t%d" % tid and d.get("operation") == "op%d" % tid and d.get("sample-type") == "normal" and d.get("meta", {}).get("client_id") == c and d.get("operation-type") == "verif-request"
                for d in main
            ) and all(d.get("task") == "t%d" % tid and d.get("name") == "service_time" and d.get("operation-type") == "dep-type" and d.get("sample-type") == "normal" and d.get("meta", {}).get("client_id") == c for d in dep)
            rows.append(
                {
                    "sid": list(sid),
                    "dropped": sid in dropped,
                    "lat": sum(1 for d in main if d["name"] == "latency"),
                    "svc": sum(1 for d in main if d["name"] == "service_time"),
                    "proc": sum(1 for d in main if d["name"] == "processing_time"),
                    "deps": self.deps.get(sid, 0),
                    "dsvc": len(dep),
                    "metaOk": bool(meta_ok),
                }
            )
        return rows

    def throughput_docs(self):
        """Throughput records at race control (task, sample type, value, time) - must not depend on downsampling."""
        res = []
        for d in self.w.coordinator().metrics_store.docs:
            if d.get("name") == "throughput":
                res.append((d.get("task"), d.get("sample-type"), repr(d.get("value")), d.get("@timestamp"), d.get("unit")))
        return sorted(res)

    def trace(self, tid):
        if self.events:
            last = self.events[-1]
            last["last"] = True
            if self.done() and self.fault_kind == "none":
                last["final"] = self.final_table()
            if self.fault_kind != "none":
                last["fault"] = {
                    "fired": bool(self.w.fault_fired),
                    "tFault": int(round(self.t_fault * 1000)) if self.t_fault is not None else -1,
                    "tReport": int(round(self.t_report * 1000)) if self.t_report is not None else -1,
                }
        for e in self.events:
            e.setdefault("last", False)
        return {"id": tid, "scn": self.scn, "init": self.init, "events": self.events, "thr": [[str(x) for x in d] for d in self.throughput_docs()] if self.done() else []}

    def close(self):
        self.w.close()
