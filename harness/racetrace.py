"""Runs one simulated race (racesim.RaceWorld) under a schedule and records the trace TraceRaceDriver.tla validates.

Every event = one scheduling decision + the projection of the real objects' state after the handler returned, read
directly from the actor instances (no hooks), + the harness' own observations (hist)."""
import pickle
import zlib

from . import racesim, tlc

ETERNAL = -1


async def verif_request(es, params):
    resp = await es.perform_request(method="GET", path=params["path"])
    res = {"weight": 1, "unit": "ops", "vid": resp["vid"]}
    return res


def _msg(k, w=0, e=0, ids=()):
    return {"k": k, "w": w, "e": e, "ids": [list(i) for i in ids]}


class TracedRace:
    def __init__(self, scn, seed=0, test_mode=True, queue_size=None, pp_interval=2, offsets=None, on_error="continue", downsample=1):
        self.scn = scn
        self.world = racesim.RaceWorld(scn, seed=seed, test_mode=test_mode, queue_size=queue_size, pp_interval=pp_interval, offsets=offsets, on_error=on_error, downsample=downsample)
        self.w = self.world
        from esrally.driver import runner

        runner.register_runner("verif-request", verif_request, async_runner=True)
        # use the harness runner so that every sample carries the id of the wire request that produced it
        for t in self.w.tasks_by_id.values():
            t.operation.type = "verif-request"
        self.vid_info = {}  # vid -> (c, col, n)
        self.completed = {}  # (c, tid) -> completed requests
        self.produced = []
        self.dropped = []
        self.cct = []
        self.cct_early = False
        self.hang = False
        self.events = []
        self.task_reqs = {t["id"]: t["reqs"] for e in scn["sched"] for t in e["tasks"]}

    # ---- access to the real objects
    @property
    def drv_actor(self):
        return self.w.sim.actors[self.w.DRIVER].instance

    @property
    def driver(self):
        return self.drv_actor.driver

    def worker(self, w):
        return self.w.sim.actors["Worker%d" % w].instance

    def nworkers(self):
        return len(self.w.workers())

    def col_of(self, c, tid):
        for j, a in enumerate(self.driver.allocations[c]):
            if a is not None and hasattr(a, "task") and getattr(a.task, "name", None) == "t%d" % tid:
                return j
        raise tlc.MachineryError("task t%d not allocated to client %d" % (tid, c))

    def _elem(self, c, j):
        from esrally.driver import driver

        n = sum(1 for a in self.driver.allocations[c][:j] if isinstance(a, driver.JoinPoint))
        return n  # task columns after join point k-1 belong to element k; join point k itself has n = k

    def sample_id(self, s):
        vid = s.request_meta_data.get("vid")
        if vid is None or vid not in self.vid_info:
            raise tlc.MachineryError("sample without request id")
        return self.vid_info[vid]

    def doc_ids(self, docs, name="latency"):
        out = []
        for d in docs:
            if d.get("name") == name and "vid" in d.get("meta", {}):
                out.append(self.vid_info[d["meta"]["vid"]])
        return out

    # ---- projection
    def project(self):
        w = self.w
        sim = w.sim
        W = self.scn["W"]
        d2w, w2d, timers, wk = [], [], [], []
        for i in range(1, W + 1):
            wn = "Worker%d" % i
            d2w.append([self._proj_msg(m) for m in sim.chan.get((w.DRIVER, wn), [])])
            w2d.append([self._proj_msg(m) for m in sim.chan.get((wn, w.DRIVER), [])])
            timers.append(len(sim.pending_timers(wn)))
            inst = self.worker(i)
            fut = "none"
            if inst.executor_future is not None:
                run = w.exec_runs.get(wn)
                fut = run.state if run is not None and run.future is inst.executor_future else "unknown"
            sampq = [list(self.sample_id(s)) for s in list(inst.sampler.q.queue)] if inst.sampler is not None else []
            wk.append({"cur": inst.current_task_index, "nxt": inst.next_task_index, "sd": bool(inst.start_driving), "fut": fut, "complete": inst.complete.is_set(), "cancel": inst.cancel.is_set(), "sampq": sampq})
        drv = self.driver
        marker = self.drv_actor.RESET_RELATIVE_TIME_MARKER
        dtimers = ["reset" if t["payload"] == marker else "tick" for t in sim.pending_timers(w.DRIVER)]
        store = self.doc_ids(drv.metrics_store.docs) if drv.metrics_store is not None else []
        d = {
            "completed": drv.currently_completed,
            "doneW": sorted(k + 1 for k in drv.workers_completed_current_step),
            "step": drv.current_step,
            "cct": bool(drv.complete_current_task_sent),
            "raw": [list(self.sample_id(s)) for s in drv.raw_samples],
            "store": [list(i) for i in store],
            "ppt": self.drv_actor.post_process_timer,
        }
        rcbox = []
        for _src, m in w.rc_inbox():
            nm = type(m).__name__
            if nm in ("TaskFinished", "BenchmarkComplete"):
                docs = pickle.loads(zlib.decompress(m.metrics)) if m.metrics else []
                rcbox.append(_msg(nm, ids=self.doc_ids(docs)))
            elif nm in ("BenchmarkFailure", "BenchmarkCancelled"):
                rcbox.append(_msg(nm))
        started = w.exec_obs["started"]
        finished = w.exec_obs["finished"]
        cells = []
        M = len(drv.allocations)
        last = {}
        for c, tid in started:
            last[c] = tid
        fin_set = set(finished)
        for c in range(M):
            if c not in last:
                cells.append({"col": -1, "rem": 0, "n": 0, "st": "idle"})
                continue
            tid = last[c]
            n = self.completed.get((c, tid), 0)
            reqs = self.task_reqs[tid]
            st = "pend" if c in w.pending else ("done" if (c, tid) in fin_set else "pend")
            cells.append({"col": self.col_of(c, tid), "rem": ETERNAL if reqs == ETERNAL else reqs - n, "n": n, "st": st})
        runs = sorted({(c, self.col_of(c, tid)) for c, tid in started})
        fin = sorted({(c, self.col_of(c, tid)) for c, tid in finished})
        cut = sorted({(c, self.col_of(c, tid)) for c, tid in finished if self.task_reqs[tid] == ETERNAL or self.completed.get((c, tid), 0) < self.task_reqs[tid]})
        from esrally.driver import driver as drvmod

        skip = []
        runset = set(runs)
        for c in range(M):
            wi = self.scn["workerOf"][c]
            inst = self.worker(wi)
            for j, a in enumerate(drv.allocations[c]):
                if isinstance(a, drvmod.TaskAllocation) and j < inst.next_task_index and (c, j) not in runset:
                    if j == inst.current_task_index and wk[wi - 1]["fut"] == "submitted":
                        continue
                    skip.append((c, j))
        hist = {
            "runs": [list(x) for x in runs],
            "dup": len(started) != len(set(started)),
            "fin": [list(x) for x in fin],
            "cut": [list(x) for x in cut],
            "skip": [list(x) for x in sorted(skip)],
            "cct": sorted(set(self.cct)),
            "cctEarly": self.cct_early,
            "produced": [list(x) for x in sorted(self.produced)],
            "dropped": [list(x) for x in sorted(self.dropped)],
        }
        return {"d2w": d2w, "w2d": w2d, "rcbox": rcbox, "timers": timers, "dtimers": dtimers, "drv": d, "wk": wk, "cell": cells, "hist": hist}

    def _proj_msg(self, m):
        nm = type(m).__name__
        if nm == "JoinPointReached":
            return _msg(nm, w=m.worker_id + 1, e=m.task[0].task.id)
        if nm == "UpdateSamples":
            return _msg(nm, w=m.client_id + 1, ids=[self.sample_id(s) for s in m.samples])
        return _msg(nm)

    # ---- stepping
    def decision_event(self, dec):
        """Name of the model action a decision corresponds to (looking at the head of the channel)."""
        w = self.w
        if dec[0] == "deliver":
            _, src, dst = dec
            head = w.sim.chan[(src, dst)][0]
            nm = type(head).__name__
            if src == w.DRIVER and dst.startswith("Worker"):
                ev = {"Bootstrap": "WRecvBootstrap", "StartWorker": "WRecvStartWorker", "Drive": "WRecvDrive", "CompleteCurrentTask": "WRecvCCT"}.get(nm, "WRecv" + nm)
                return ev, int(dst[6:])
            if dst == w.DRIVER and src.startswith("Worker"):
                ev = {"JoinPointReached": "DRecvJoinPointReached", "UpdateSamples": "DRecvUpdateSamples"}.get(nm, "DRecv" + nm)
                return ev, int(src[6:])
            return "Deliver" + nm, 0
        if dec[0] == "wakeup":
            if dec[1] == w.DRIVER:
                return "DWakeup", 1
            return "WWakeup", int(dec[1][6:])
        if dec[0] == "exec_start":
            return "ExecStart", int(dec[1][6:])
        if dec[0] == "req":
            return "ExecStep", dec[1]
        raise ValueError(dec)

    def do(self, dec, service_time=None):
        w = self.w
        ev, arg = self.decision_event(dec)
        n_cct_before = self._count_cct()
        if dec[0] == "req":
            c = dec[1]
            req = w.pending[c]
            tid = int(req["path"].rsplit("/", 1)[1])
            n = self.completed.get((c, tid), 0) + 1
            sid = (c, self.col_of(c, tid), n)
            self.vid_info[req["n"]] = sid
            self.completed[(c, tid)] = n
            self.produced.append(sid)
            wi = self.scn["workerOf"][c]
            w.step(dec, service_time=service_time, outcome={"vid": req["n"]})
            # was the sample accepted by the sampler?
            inst = self.worker(wi)
            inq = inst.sampler is not None and any(s.request_meta_data.get("vid") == req["n"] for s in list(inst.sampler.q.queue))
            if not inq:
                self.dropped.append(sid)
        else:
            info = w.step(dec)
            if ev == "DRecvJoinPointReached" and self._count_cct() > n_cct_before:
                jp = info[3].task[0].task.id
                self.cct.append(jp)
                self._check_cct_early(jp)
        st = self.project()
        self.events.append({"ev": ev, "arg": arg, "st": st})
        return ev, arg

    def _count_cct(self):
        return sum(1 for q in self.w.sim.chan.values() for m in q if type(m).__name__ == "CompleteCurrentTask")

    def _check_cct_early(self, jp):
        from esrally.driver import driver as drvmod

        jpobj = None
        for a in self.driver.allocations[0]:
            if isinstance(a, drvmod.JoinPoint) and a.id == jp:
                jpobj = a
        if jpobj is None or not jpobj.clients_executing_completing_task or jpobj.any_task_completes_parent:
            return
        fin = set(self.w.exec_obs["finished"])
        for c, row in enumerate(self.driver.allocations):
            for j, a in enumerate(row):
                if isinstance(a, drvmod.TaskAllocation) and a.task.completes_parent and self._elem(c, j) == jp:
                    if (c, int(a.task.name[1:])) not in fin:
                        self.cct_early = True

    def control_signature(self):
        st = self.project()
        return (
            tuple((x["cur"], x["nxt"], x["sd"], x["fut"], x["complete"]) for x in st["wk"]),
            tuple(tuple(m["k"] for m in q) for q in st["d2w"]),
            tuple(tuple(m["k"] for m in q if m["k"] != "UpdateSamples") for q in st["w2d"]),
            (st["drv"]["completed"], st["drv"]["step"], st["drv"]["cct"]),
            tuple(m["k"] for m in st["rcbox"]),
            tuple((x["col"], x["st"]) for x in st["cell"]),
        )

    def complete(self):
        return any(type(m).__name__ == "BenchmarkComplete" for _, m in self.w.rc_inbox())

    def failed(self):
        return any(type(m).__name__ in ("BenchmarkFailure", "BenchmarkCancelled") for _, m in self.w.rc_inbox())

    def start(self):
        self.w.start()
        real = [self.driver.clients_per_worker[c] + 1 for c in range(len(self.driver.allocations))]
        if real != list(self.scn["workerOf"]) or self.nworkers() != self.scn["W"]:
            raise tlc.MachineryError("scenario assigns clients to workers as %s but the implementation as %s" % (self.scn["workerOf"], real))
        self.init = self.project()

    def run(self, script, rnd, max_events=400):
        """script: list of (ev, arg) from a TLC behaviour (may be empty). Unfollowable decisions are skipped; afterwards a
        seeded fair random policy, then a round-robin sweep, drive the race to quiescence. Returns #script steps followed."""
        followed = 0
        skipped = 0
        for want in script:
            if self.complete() or len(self.events) >= max_events:
                break
            match = None
            for dec in self.w.enabled():
                if self.decision_event(dec) == tuple(want):
                    match = dec
                    break
            if match is None:
                skipped += 1
                continue
            self.do(match)
            followed += 1
        # fair random phase
        n_random = 0
        unchanged = 0
        sig = self.control_signature()
        while not self.complete() and not self.failed() and len(self.events) < max_events and n_random < max_events // 2 and unchanged < 25:
            en = self.w.enabled()
            if not en:
                break
            self.do(rnd.choice(en))
            n_random += 1
            nsig = self.control_signature()
            unchanged = unchanged + 1 if nsig == sig else 0
            sig = nsig
        # deterministic round-robin sweeps; a hang is diagnosed when full sweeps no longer change the control state
        same = 0
        sig = self.control_signature()
        while not self.complete() and not self.failed():
            en = self.w.enabled()
            if not en:
                break
            for dec in en:
                if dec in self.w.enabled() and not self.complete():
                    self.do(dec)
            nsig = self.control_signature()
            same = same + 1 if nsig == sig else 0
            sig = nsig
            if same >= 3:
                self.hang = True
                break
            if len(self.events) > 6 * max_events:
                raise tlc.MachineryError("race neither completes nor hangs within %d events" % len(self.events))
        if self.hang:
            self.events.append({"ev": "Hang", "arg": 0, "st": self.project()})
        return followed, skipped

    def final_table(self):
        """Record table at race control at the end of the race, one row per executed request."""
        docs = []
        for _src, m in self.w.rc_inbox():
            if type(m).__name__ in ("TaskFinished", "BenchmarkComplete") and m.metrics:
                docs.extend(pickle.loads(zlib.decompress(m.metrics)))
        by = {}
        for d in docs:
            vid = d.get("meta", {}).get("vid")
            if vid is None:
                continue
            by.setdefault(vid, []).append(d)
        rows = []
        inv = {v: k for k, v in self.vid_info.items()}
        dropped = set(self.dropped)
        for sid in sorted(self.produced):
            vid = inv[sid]
            ds = by.get(vid, [])
            c, col, _n = sid
            tid = None
            for t, task in self.w.tasks_by_id.items():
                try:
                    if self.col_of(c, t) == col:
                        tid = t
                except tlc.MachineryError:
                    pass
            meta_ok = all(
                d.get("task") == "t%d" % tid and d.get("operation") == "op%d" % tid and d.get("sample-type") == "normal" and d.get("meta", {}).get("client_id") == c and d.get("operation-type") == "verif-request"
                for d in ds
            )
            rows.append(
                {
                    "sid": list(sid),
                    "dropped": sid in dropped,
                    "lat": sum(1 for d in ds if d["name"] == "latency"),
                    "svc": sum(1 for d in ds if d["name"] == "service_time"),
                    "proc": sum(1 for d in ds if d["name"] == "processing_time"),
                    "metaOk": bool(meta_ok),
                }
            )
        return rows

    def trace(self, tid):
        if self.events and self.complete():
            self.events[-1]["final"] = self.final_table()
        return {"id": tid, "scn": self.scn, "init": self.init, "events": self.events}

    def close(self):
        self.w.close()
